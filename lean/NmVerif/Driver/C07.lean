import NmVerif.Proto
import NmVerif.Index.Ufunc
namespace NmVerif.Driver.C07
open NmVerif NmVerif.Proto

/-- operand shapes from the keys `a`, `b`, `c` (those present, in this order) -/
def operands (args : Args) : Option (List Shape) := do
  let a ← args.nats "a"
  match args.get? "b" with
  | none => pure [a]
  | some _ =>
    let b ← args.nats "b"
    match args.get? "c" with
    | none => pure [a, b]
    | some _ =>
      let c ← args.nats "c"
      pure [a, b, c]

/-- the routing plan: for every output element (row-major) the flat id of the element read from each operand -/
def handle : Handler := fun op a =>
  match op with
  | "ufunc" => orBad do
      let ss ← operands a
      match ufunc (fun (l : List Nat) => l) (ss.map Arr.iota) with
      | none => pure "nothing"
      | some u =>
        match (allIdx u.shape).mapM u.get with
        | some rows => pure s!"ok shape={fmtNats u.shape} plan={fmtNatLists rows}"
        | none => pure "ub"
  | "outer" => orBad do
      let x ← a.nats "a"
      let y ← a.nats "b"
      let u := outer (fun (p q : Nat) => [p, q]) (Arr.iota x) (Arr.iota y)
      pure s!"ok shape={fmtNats u.shape} plan={fmtNatLists ((allIdx u.shape).map u.get)}"
  | _ => none

end NmVerif.Driver.C07
