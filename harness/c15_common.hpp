// C15 harness helpers shared by h_c15.cpp (dynamic-shape sources) and h_c15_fd.cpp (fixed-dim sources, linear algebra)
#pragma once
#include "nmtools/array/ndarray.hpp"
#include "nmtools/array/eval.hpp"
#include "nmtools/utility/has_value.hpp"
#include "nmtools/utility/unwrap.hpp"
#include "proto.hpp"
#include <vector>
#include <array>

namespace nm = nmtools; namespace na = nmtools::array; namespace view = nmtools::view; namespace meta = nmtools::meta;
using namespace proto;
using nd_t = na::ndarray_t<std::vector<int>, std::vector<size_t>>;

static nd_t iota(const uvec& s, int base=0) {
    nd_t a; a.resize(s); size_t n = nm::size(a); for (size_t k=0;k<n;k++) a.data()[k] = base + (int)k; return a;
}
// fixed-dim source: the shape container is a std::array (the number of dimensions is a compile-time constant)
template <size_t R> using fd_t = na::ndarray_t<std::vector<int>, std::array<size_t,R>>;
template <size_t R> static fd_t<R> iota_fd(const uvec& s, int base=0) {
    std::array<size_t,R> sh{}; for (size_t i=0;i<R;i++) sh[i] = s[i];
    fd_t<R> a; a.resize(sh); size_t n = nm::size(a); for (size_t k=0;k<n;k++) a.data()[k] = base + (int)k; return a;
}
template <typename V> static std::string fmtn(const V& v) {
    return fmt_with(v, [](const auto& x){ return (size_t)nm::len(x); }, [](const auto& x, size_t i){ return nm::at(x,i); });
}
// read every element of an (unwrapped) array/view
template <typename V> static std::string dump(const V& v) {
    auto shape = nm::shape(v);
    uvec s; for (size_t i=0;i<(size_t)nm::len(shape);i++) s.push_back((size_t)nm::at(shape,i));
    size_t n = 1; for (auto e : s) n *= e;
    std::vector<long long> d;
    auto nd = nm::index::ndindex(s);
    for (size_t k=0;k<n;k++) d.push_back((long long)nm::apply_at(v, nd[k]));
    return "ok shape=" + fmt(s) + " data=" + fmt(d);
}
template <typename V> static std::string outcome(const V& v) {
    if constexpr (meta::is_maybe_v<V>) { if (!nm::has_value(v)) return "nothing"; return dump(*v); }
    else return dump(v);
}
// evaluate too: eval of an empty optional must stay empty
template <typename V> static std::string outcome_eval(const V& v) {
    auto r = na::eval(v);
    std::string a = outcome(v), b = outcome(r);
    return a==b ? a : ("view/eval-differ view=" + a + " eval=" + b);
}

