// C19 harness, tuples: utl::tuple / utl::tuplev2 histories {ctor, ctorV, copy, assign, write (get<I>(t) = v), read (get<I>(t)), destroy}
//   hist kind=<tuple|tuplev2> elem=<int|double|tracked> ops=...            homogeneous 3-tuples  tuple<E,E,E>
//   hist kind=<tuple|tuplev2> elem=mixed arity=<1..12> ops=...            heterogeneous tuples: element I has type
//                                                                          int (I%3==0), double (I%3==1), counting non-trivial type (I%3==2)
// utl::tuple is implemented for 1..12 elements (tuple1 … tuple12, utl/tuple.hpp:29-333, static_assert at l.371).
#include "h_c19_common.hpp"
#include <utility>
#include <type_traits>

// ---------------------------------------------------------------------------------------------
// utl::tuple<E,E,E> / utl::tuplev2<E,E,E>  (element access through utl::get<I>)
// ---------------------------------------------------------------------------------------------
template <typename TP, typename E> struct tup_kind_base {
    using T = E; using C = TP;
    static const int storage_fill = 0; static const bool unguarded = false;
    static void ctor(void* p) { new (p) C(); }
    static void ctorN(void* p, size_t) { new (p) C(); }
    static void ctorV(void* p, const std::vector<T>& v) { if (v.size() != 3) throw bad_args("ctorV arity"); new (p) C(v[0], v[1], v[2]); }
    static void push(C&, const T&) {}
    static void pushAt(C&, size_t) {}
    static void resize(C&, size_t) {}
    static size_t size(const C&) { return 3; }
    static size_t limit(const C&) { return 3; }
    static const T& get(const C& c, size_t i) { switch (i) { case 0: return utl::get<0>(c); case 1: return utl::get<1>(c); default: return utl::get<2>(c); } }
    static void set(C& c, size_t i, const T& v) { switch (i) { case 0: utl::get<0>(c) = v; break; case 1: utl::get<1>(c) = v; break; default: utl::get<2>(c) = v; } }
    static std::string intern(const C&) { return "3:"; }
};
template <typename E> struct tuple_kind : tup_kind_base<utl::tuple<E, E, E>, E> {};
template <typename E> struct tuplev2_kind : tup_kind_base<utl::tuplev2<E, E, E>, E> {};
template <template <typename> class K> static std::string by_elem_t(const std::string& e, const std::vector<op_t>& ops) {
    if (e == "int") return run_history<K<int>>(ops);
    if (e == "double") return run_history<K<double>>(ops);
    if (e == "tracked") return run_history<K<tracked>>(ops);
    throw bad_args("elem");
}

// ---------------------------------------------------------------------------------------------
// heterogeneous tuples of arity N: payloads travel as `pay` (integer payload + "indeterminate" flag)
// ---------------------------------------------------------------------------------------------
struct pay { long long v; bool u; };
template <> struct elem<pay> { static pay make(long long v) { return pay{v, false}; } static long long show(const pay& x) { return x.v; } };
template <> std::string cell<pay>(const pay& x) { return x.u ? std::string("u") : std::to_string(x.v); }

template <size_t I> using mix_t = std::conditional_t<I % 3 == 0, int, std::conditional_t<I % 3 == 1, double, tracked>>;
template <template <typename...> class TP, typename Seq> struct mk_tuple;
template <template <typename...> class TP, size_t... Is> struct mk_tuple<TP, std::index_sequence<Is...>> { using type = TP<mix_t<Is>...>; };

template <typename E> static pay to_pay(const E& x) { return pay{elem<E>::show(x), is_poison(x)}; }
template <> pay to_pay<tracked>(const tracked& x) { return pay{(long long)x.v, is_poison(x.v)}; }

template <template <typename...> class TP, size_t N> struct het_kind {
    using T = pay; using Seq = std::make_index_sequence<N>;
    using C = typename mk_tuple<TP, Seq>::type;
    static const int storage_fill = 0; static const bool unguarded = false;
    static void ctor(void* p) { new (p) C(); }
    static void ctorN(void* p, size_t) { new (p) C(); }
    template <size_t... Is> static void ctorV_(void* p, const std::vector<T>& v, std::index_sequence<Is...>) {
        new (p) C(elem<mix_t<Is>>::make(v[Is].v)...);
    }
    static void ctorV(void* p, const std::vector<T>& v) { if (v.size() != N) throw bad_args("ctorV arity"); ctorV_(p, v, Seq{}); }
    static void push(C&, const T&) {}
    static void pushAt(C&, size_t) {}
    static void resize(C&, size_t) {}
    static size_t size(const C&) { static_assert(utl::tuple_size_v<C> == N, "tuple_size"); return N; }
    static size_t limit(const C&) { return N; }
    template <size_t... Is> static pay get_(const C& c, size_t i, std::index_sequence<Is...>) {
        pay r{0, true};
        ((Is == i ? (void)(r = to_pay<mix_t<Is>>(utl::get<Is>(c))) : (void)0), ...);
        return r;
    }
    static pay get(const C& c, size_t i) { return get_(c, i, Seq{}); }
    template <size_t... Is> static void set_(C& c, size_t i, const T& v, std::index_sequence<Is...>) {
        ((Is == i ? (void)(utl::get<Is>(c) = elem<mix_t<Is>>::make(v.v)) : (void)0), ...);
    }
    static void set(C& c, size_t i, const T& v) { set_(c, i, v, Seq{}); }
    static std::string intern(const C&) { return std::to_string(N) + ":"; }
};

template <template <typename...> class TP> static std::string by_arity(size_t n, const std::vector<op_t>& ops) {
    switch (n) {
        case 1: return run_history<het_kind<TP, 1>>(ops);
        case 2: return run_history<het_kind<TP, 2>>(ops);
        case 3: return run_history<het_kind<TP, 3>>(ops);
        case 4: return run_history<het_kind<TP, 4>>(ops);
        case 5: return run_history<het_kind<TP, 5>>(ops);
        case 6: return run_history<het_kind<TP, 6>>(ops);
        case 7: return run_history<het_kind<TP, 7>>(ops);
        case 8: return run_history<het_kind<TP, 8>>(ops);
        case 9: return run_history<het_kind<TP, 9>>(ops);
        case 10: return run_history<het_kind<TP, 10>>(ops);
        case 11: return run_history<het_kind<TP, 11>>(ops);
        case 12: return run_history<het_kind<TP, 12>>(ops);
        default: throw bad_args("arity");
    }
}

std::string handle(const std::string& op, const Args& a) {
    if (op != "hist") return "unknown-op";
    g_storage_fill = (has(a, "fill") && get(a, "fill") == "poison") ? (int)c19::POISON : 0;
    std::string kind = get(a, "kind"), e = has(a, "elem") ? get(a, "elem") : "int";
    auto ops = parse_ops(get(a, "ops"));
    if (e == "mixed") {
        size_t n = (size_t)integer(a, "arity");
        if (kind == "tuple") return by_arity<utl::tuple>(n, ops);
        if (kind == "tuplev2") return by_arity<utl::tuplev2>(n, ops);
        return "unknown-op";
    }
    if (kind == "tuple") return by_elem_t<tuple_kind>(e, ops);
    if (kind == "tuplev2") return by_elem_t<tuplev2_kind>(e, ops);
    return "unknown-op";
}
