import NmVerif.Proto
import NmVerif.Index.Reduce
import NmVerif.Index.ReduceTrace
/-
  Driver handler of C08: answers `reduce` / `accumulate` / `remove_dims` / `reduction_slices` / `mean` / `var` / `stddev` /
  `vector_norm` / `trace` requests with the MODEL
  (NmVerif.Reduce).  Element type `Int`; the binary op is selected by name.  Keys the harness needs to pick an API
  entry point (`api=`, `kd=`, `ax=`, `dtype=`) do not change the model's answer and are ignored here.
-/
namespace NmVerif.Driver.C08
open NmVerif NmVerif.Proto NmVerif.Reduce

/-- order-revealing op of the protocol: `f(a,b) = 31·a + b (mod 2^32)` — neither commutative nor associative -/
def f31 (a b : Int) : Int := (31 * a + b) % 4294967296

def opOf : String → Option (Int → Int → Int)
  | "f31" => some f31
  | "add" => some (· + ·)
  | "mul" => some (· * ·)
  | "max" => some (fun a b => if a < b then b else a)
  | "min" => some (fun a b => if b < a then b else a)
  | "sub" => some (· - ·)
  | "band" => some (fun a b => (Nat.land a.toNat b.toNat : Nat))
  | "bor" => some (fun a b => (Nat.lor a.toNat b.toNat : Nat))
  | "bxor" => some (fun a b => (Nat.xor a.toNat b.toNat : Nat))
  | "land" => some (fun a b => if a ≠ 0 ∧ b ≠ 0 then 1 else 0)
  | "lor" => some (fun a b => if a ≠ 0 ∨ b ≠ 0 then 1 else 0)
  | _ => none

/-- `op_type::identity()` of the library functors that declare one (add, multiply); the order-revealing functor of the
    harness and the others have none -/
def identOf : String → Option Int
  | "add" => some 0
  | "mul" => some 1
  | _ => none

def dataOf (a : Args) (s : Shape) : Option (List Int) :=
  match a.get? "data" with
  | none => some ((List.range (prod s)).map (fun k => ((k + 1 : Nat) : Int)))
  | some v => parseInts v

def fmtPairs (l : List (Nat × Nat)) : String :=
  if l.isEmpty then "[]" else ";".intercalate (l.map (fun p => s!"{p.1},{p.2}"))

/-- decimal text with 12 fractional digits (`toString` keeps 6 only); values here are far below 2^63 -/
def fmtFloat (y : Float) : String :=
  if y.isNaN then "nan"
  else if y.isInf then (if y < 0 then "-inf" else "inf")
  else
    let a := y.abs
    let ip := a.floor
    let fp := ((a - ip) * 1000000000000.0).round
    let (ip, fp) := if fp ≥ 1000000000000.0 then (ip + 1.0, 0.0) else (ip, fp)
    let fs := toString fp.toUInt64
    let pad := String.ofList (List.replicate (12 - fs.length) '0')
    (if y < 0 then "-" else "") ++ toString ip.toUInt64 ++ "." ++ pad ++ fs

def fmtFloats (l : List Float) : String :=
  if l.isEmpty then "[]" else ",".intercalate (l.map fmtFloat)

def handle : Handler := fun op a =>
  match op with
  | "reduce" => orBad do
      let f ← (a.get? "op").bind opOf
      let ident := (a.get? "op").bind identOf
      let s ← a.nats "shape"
      let axis ← a.optInts "axis"
      let keep := (a.get? "keepdims") == some "1"
      let init ← a.optInt "init"
      let data ← dataOf a s
      let arr := arrOfData s data
      match reduceId ident f init arr axis keep with
      | none => pure "ub"
      | some v =>
        match evalFlat v with
        | none => pure "ub"
        | some l => pure s!"ok shape={fmtNats v.shape} data={fmtInts l}"
  | "accumulate" => orBad do
      let f ← (a.get? "op").bind opOf
      let s ← a.nats "shape"
      let axis ← a.int "axis"
      let data ← dataOf a s
      let v := accumulate f (arrOfData s data) axis
      match evalFlat v with
      | none => pure "ub"
      | some l => pure s!"ok shape={fmtNats v.shape} data={fmtInts l}"
  | "mean" => orBad do
      -- abstract ops instantiated with IEEE double: add = +, divn x n = x / n
      let s ← a.nats "shape"
      let axis ← a.optInts "axis"
      let keep := (a.get? "keepdims") == some "1"
      let data ← dataOf a s
      let arr : Arr Float := ⟨s, fun i => Float.ofInt ((arrOfData s data).get i)⟩
      match mean (· + ·) (fun x n => x / n.toFloat) arr axis keep with
      | none => pure "ub"
      | some v =>
        match evalFlat v with
        | none => pure "ub"
        | some l => pure s!"ok shape={fmtNats v.shape} data={fmtFloats l}"
  | "var" | "stddev" => orBad do
      let s ← a.nats "shape"
      let axis ← a.optInts "axis"
      let keep := (a.get? "keepdims") == some "1"
      let ddof := ((a.get? "ddof").bind (·.toNat?)).getD 0
      let data ← dataOf a s
      let arr : Arr Float := ⟨s, fun i => Float.ofInt ((arrOfData s data).get i)⟩
      let sqabs := fun (x : Float) => x.abs * x.abs
      let divn := fun (x : Float) (n : Nat) => x / n.toFloat
      let r := if op == "var" then var (· + ·) (· - ·) sqabs divn arr axis ddof keep
               else stddev (· + ·) (· - ·) sqabs Float.sqrt divn arr axis ddof keep
      match r with
      | none => pure "ub"
      | some v =>
        match evalFlat v with
        | none => pure "ub"
        | some l => pure s!"ok shape={fmtNats v.shape} data={fmtFloats l}"
  | "vector_norm" => orBad do
      let s ← a.nats "shape"
      let axis ← a.optInts "axis"
      let keep := (a.get? "keepdims") == some "1"
      let ordn ← a.nat "ord"
      -- a real order is written `ord=5 ordden=2`
      let den := ((a.get? "ordden").bind (·.toNat?)).getD 1
      let ord : Float := ordn.toFloat / den.toFloat
      let data ← dataOf a s
      let arr : Arr Float := ⟨s, fun i => Float.ofInt ((arrOfData s data).get i)⟩
      let pre := fun (x : Float) => Float.pow x.abs ord
      let post := fun (y : Float) => Float.pow y (1.0 / ord)
      match vectorNorm (· + ·) pre post arr axis keep with
      | none => pure "ub"
      | some v =>
        match evalFlat v with
        | none => pure "ub"
        | some l => pure s!"ok shape={fmtNats v.shape} data={fmtFloats l}"
  | "trace" => orBad do
      -- integer-valued data; the sum is exact in every element type the harness uses
      let s ← a.nats "shape"
      let off ← a.int "offset"
      let a1 ← a.int "axis1"
      let a2 ← a.int "axis2"
      let data ← dataOf a s
      match trace (· + ·) (some 0) (arrOfData s data) off a1 a2 with
      | none => pure "ub"
      | some v =>
        match evalFlat v with
        | none => pure "ub"
        | some l => pure s!"ok shape={fmtNats v.shape} data={fmtInts l}"
  | "remove_dims" => orBad do
      let s ← a.nats "shape"
      let axis ← a.optInts "axis"
      let keep := (a.get? "keepdims") == some "1"
      match removeDims s axis keep with
      | none => pure "ub"
      | some r => pure s!"ok {fmtNats r}"
  | "reduction_slices" => orBad do
      let s ← a.nats "shape"
      let d ← a.nats "idx"
      let axis ← a.optInts "axis"
      let keep := (a.get? "keepdims") == some "1"
      match reductionSlices d s axis keep with
      | none => pure "ub"
      | some r => pure s!"ok {fmtPairs r}"
  | _ => none

end NmVerif.Driver.C08
