import sys, os, argparse, importlib, re
sys.path.insert(0, os.path.dirname(os.path.abspath(__file__)))
import runner


def main():
    ap = argparse.ArgumentParser()
    ap.add_argument('prop', nargs='?')
    ap.add_argument('--tier', default=os.environ.get('VERIF_TIER', 'quick'), choices=['quick', 'thorough'])
    ap.add_argument('--replay')
    ap.add_argument('--setup', action='store_true', help='build the Lean project and warm the harness cache')
    a = ap.parse_args()
    seed = int(os.environ.get('VERIF_SEED', '0'))
    if a.setup:
        ok, log, t = runner.lean_build([])
        print(log[-3000:])
        print('lean build', 'ok' if ok else 'FAILED', '%.1fs' % t)
        if not ok:
            sys.exit(1)
        # every property file as well (they are separate targets: the lemma files of different properties are not
        # meant to be imported together): a signature change in one property that breaks a re-export in another
        # (C02 re-exports C03/C04/C06/C07/C08/C17) is seen here, and no check has to compile Lean later.
        pt = ['NmVerif.Props.C%02d' % i for i in range(1, 21)] + ['NmVerif.Audit']
        ok2, log2, t2 = runner.lean_build(pt)
        print('lean property modules', 'ok' if ok2 else 'FAILED (the checks of the failing modules will report it)', '%.1fs' % t2)
        if not ok2:
            print(log2[-3000:])
        # warm harness cache for quick tier
        specs = []
        pdir = os.path.join(os.path.dirname(os.path.abspath(__file__)), 'props')
        for f in sorted(os.listdir(pdir)):
            if re.match(r'^c\d\d\.py$', f):
                m = importlib.import_module('props.' + f[:-3])
                if getattr(m, 'READY', True) and hasattr(m, 'harness_specs'):
                    specs += m.harness_specs('quick')
        # the kind-matrix slices that the checks of the owning properties include (generated + compiled by slice_for)
        try:
            import random
            c09 = importlib.import_module('props.c09')
            for pid_, ops in list(c09.OPS_BY_PROPERTY.items()) + list(runner.EXTRA_SLICE_OPS.items()):
                sp, _ = c09.slice_for(ops, 'quick', random.Random(seed), refused_only=(pid_ == 'C15'))
                specs += list(sp)
        except Exception as e:
            print('kind-matrix slices not warmed:', e)
        uniq = {s['name']: s for s in specs}
        res = runner.harness_build_many(list(uniq.values()))
        bad = [n for n, (b, l) in res.items() if b is None]
        for n in bad:
            print('harness', n, 'failed to build:\n', res[n][1][-2000:])
        print('harness built:', len(res) - len(bad), 'failed:', len(bad))
        sys.exit(0)
    if not a.prop:
        ap.error('property id required')
    mod = importlib.import_module('props.' + a.prop.lower())
    sys.exit(runner.run_check(mod, a.tier, seed, replay=a.replay))


if __name__ == '__main__':
    main()
