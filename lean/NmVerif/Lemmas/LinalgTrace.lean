import NmVerif.Lemmas.LinalgDot
/-
  Lemmas for trace / diagonal of C16.
-/
namespace NmVerif
open Linalg

/-- the code's fill loop and NumPy's "put `c1`, `c2` on the two axes, the rest in order" agree -/
theorem diagonalFill_eq_placeIdx (ax1 ax2 c1 c2 : Nat) (h12 : ax1 ≠ ax2) :
    ∀ (L : List Nat) (free extra : Idx),
      (L.filter (fun i => decide (i ≠ ax1 ∧ i ≠ ax2))).length ≤ free.length →
      diagonalFill ax1 ax2 (c1 : Int) (c2 : Int) L (free ++ extra) =
        (placeIdx [ax1, ax2] [c1, c2] L free).map (fun (x : Nat) => (x : Int)) := by
  intro L
  induction L with
  | nil => intro free extra _; simp [diagonalFill, placeIdx]
  | cons i is ih =>
    intro free extra hlen
    simp only [diagonalFill, placeIdx, List.zip_cons_cons, List.zip_nil_right, List.lookup_cons, List.lookup_nil]
    by_cases h2 : i = ax2
    · have h1 : i ≠ ax1 := by rw [h2]; exact h12.symm
      have hb1 : (i == ax1) = false := by simpa using h1
      have hb2 : (i == ax2) = true := by simpa using h2
      simp only [if_pos h2, hb1, hb2, List.map_cons]
      rw [ih free extra (by simpa [List.filter_cons, h1, h2] using hlen)]
    · by_cases h1 : i = ax1
      · have hb1 : (i == ax1) = true := by simpa using h1
        simp only [if_neg h2, if_pos h1, hb1, List.map_cons]
        rw [ih free extra (by simpa [List.filter_cons, h1, h2] using hlen)]
      · have hb1 : (i == ax1) = false := by simpa using h1
        have hb2 : (i == ax2) = false := by simpa using h2
        simp only [if_neg h2, if_neg h1, hb1, hb2]
        have hlen' : (is.filter (fun i => decide (i ≠ ax1 ∧ i ≠ ax2))).length + 1 ≤ free.length := by
          simpa [List.filter_cons, h1, h2] using hlen
        match free, hlen' with
        | f :: fs, hl =>
          simp only [List.cons_append, List.map_cons]
          rw [ih fs extra (by simpa using hl)]
        | [], hl => simp at hl

theorem placeIdx_inShape (sh : Shape) (ax1 ax2 c1 c2 n1 n2 : Nat) (h12 : ax1 ≠ ax2)
    (hn1 : sh[ax1]? = some n1) (hn2 : sh[ax2]? = some n2) (hc1 : c1 < n1) (hc2 : c2 < n2) :
    ∀ (L : List Nat) (free : Idx), (∀ i ∈ L, i < sh.length) →
      InShape free ((L.filter (fun i => decide (i ≠ ax1 ∧ i ≠ ax2))).filterMap (fun i => sh[i]?)) →
      InShape (placeIdx [ax1, ax2] [c1, c2] L free) (L.filterMap (fun i => sh[i]?)) := by
  intro L
  induction L with
  | nil => intro free _ _; simp [placeIdx, InShape]
  | cons i is ih =>
    intro free hL hfree
    have hi : i < sh.length := hL i (by simp)
    have hL' : ∀ j ∈ is, j < sh.length := fun j hj => hL j (by simp [hj])
    have hsi : sh[i]? = some sh[i] := List.getElem?_eq_getElem hi
    simp only [placeIdx, List.zip_cons_cons, List.zip_nil_right, List.lookup_cons, List.lookup_nil]
    rw [List.filterMap_cons, hsi]
    by_cases h1 : i = ax1
    · have hb1 : (i == ax1) = true := by simpa using h1
      simp only [hb1, InShape]
      refine ⟨?_, ih free hL' (by simpa [List.filter_cons, h1] using hfree)⟩
      subst h1; rw [hsi] at hn1; simp at hn1; omega
    · by_cases h2 : i = ax2
      · have hb1 : (i == ax1) = false := by simpa using h1
        have hb2 : (i == ax2) = true := by simpa using h2
        simp only [hb1, hb2, InShape]
        refine ⟨?_, ih free hL' (by simpa [List.filter_cons, h1, h2] using hfree)⟩
        subst h2; rw [hsi] at hn2; simp at hn2; omega
      · have hb1 : (i == ax1) = false := by simpa using h1
        have hb2 : (i == ax2) = false := by simpa using h2
        simp only [hb1, hb2]
        have hfree' : InShape free (sh[i] :: (is.filter (fun i => decide (i ≠ ax1 ∧ i ≠ ax2))).filterMap (fun i => sh[i]?)) := by
          simpa [List.filter_cons, h1, h2, hsi] using hfree
        match free, hfree' with
        | f :: fs, hf =>
          simp only [InShape] at hf ⊢
          exact ⟨hf.1, ih fs hL' hf.2⟩
        | [], hf => simp [InShape] at hf

theorem filterMap_congr_mem {α β : Type} {l : List α} {f g : α → Option β} (h : ∀ a ∈ l, f a = g a) :
    l.filterMap f = l.filterMap g := by
  induction l with
  | nil => rfl
  | cons x xs ih =>
    simp only [List.filterMap_cons, h x (by simp)]
    rw [ih (fun a ha => h a (by simp [ha]))]

theorem filterMap_getElem?_range (s : List Nat) : (List.range s.length).filterMap (fun i => s[i]?) = s := by
  have : (List.range s.length).filterMap (fun i => s[i]?) = (List.range s.length).filterMap (fun i => some (s.getD i 0)) := by
    apply filterMap_congr_mem
    intro j hj
    simp [List.mem_range.1 hj, List.getD_eq_getElem?_getD]
  rw [this, List.filterMap_eq_map']
  apply List.ext_getElem
  · simp
  · intro i h1 h2; simp at h1; simp [List.getElem?_eq_getElem h1]

theorem foldl_zip_offset (st i : List Nat) (acc : Int) :
    ((st.zip (i.map (fun (x : Nat) => (x : Int)))).foldl (fun acc p => acc + (p.1 : Int) * p.2) acc) = acc + (computeOffset i st : Nat) := by
  induction st generalizing i acc with
  | nil => cases i <;> simp [computeOffset]
  | cons s st ih =>
    cases i with
    | nil => simp [computeOffset]
    | cons x i =>
      simp only [List.map_cons, List.zip_cons_cons, List.foldl_cons, computeOffset, ih]
      push_cast
      omega

/-- reading a leaf at an in-shape index reads its row-major buffer position -/
theorem leafRead_inShape {s i : List Nat} (h : InShape i s) :
    leafRead s (i.map (fun (x : Nat) => (x : Int))) = some (computeOffset i (strides s)) := by
  have hlt := offset_lt h
  unfold leafRead
  simp only [foldl_zip_offset, Int.zero_add]
  rw [if_pos (by constructor <;> omega)]
  simp

theorem length_filterMap_getElem? (s L : List Nat) (h : ∀ i ∈ L, i < s.length) :
    (L.filterMap (fun i => s[i]?)).length = L.length := by
  induction L with
  | nil => rfl
  | cons x xs ih =>
    have hxl : x < s.length := h x (by simp)
    have hx : s[x]? = some s[x] := List.getElem?_eq_getElem hxl
    rw [List.filterMap_cons, hx]
    simp [ih (fun i hi => h i (by simp [hi]))]

theorem trace_eq_spec (s : Shape) (off : Int) (a1 a2 : Int) (ax1 ax2 n1 n2 : Nat)
    (hax1 : normAxis a1 s.length = some ax1) (hax2 : normAxis a2 s.length = some ax2)
    (h12 : ax1 ≠ ax2) (hn1 : s[ax1]? = some n1) (hn2 : s[ax2]? = some n2)
    (hlo : -(n1 : Int) < off) (hhi : off < n2) :
    ∃ r sp, trace s off a1 a2 = some r ∧ specTrace s off ax1 ax2 = some sp ∧ r.shape = sp.shape ∧
      ∀ d, InShape d sp.shape →
        r.get d = (sp.get d).map (fun i => some (computeOffset i (strides s))) ∧ ∀ i ∈ sp.get d, InShape i s := by
  let rest := ((List.range s.length).filter (fun i => decide (i ≠ ax1 ∧ i ≠ ax2))).filterMap (fun i => s[i]?)
  let len := min (n1 - (-off).toNat) (n2 - off.toNat)
  have hsd : shapeDiagonal s off ax1 ax2 = some (rest ++ [len]) := by
    unfold shapeDiagonal
    simp only [hn1, hn2]
    simp only [rest, len]
    congr 2; congr 1
    repeat' split
    all_goals omega
  have htr : trace s off a1 a2 = some (sumLast 1 (⟨rest ++ [len], fun d => leafRead s (diagonalIdx s.length d off ax1 ax2)⟩ : Arr (Option Nat))) := by
    unfold trace
    simp only [hax1, hax2, hsd, Option.bind_eq_bind, Option.bind_some, Option.pure_def]
    rw [if_neg (by simp)]
  have hsp : specTrace s off ax1 ax2 = some ⟨rest, fun d =>
      (List.range len).map (fun i => placeIdx [ax1, ax2] [i + (-off).toNat, i + off.toNat] (List.range s.length) d)⟩ := by
    unfold specTrace
    simp only [hn1, hn2]
    rw [if_pos h12]
  refine ⟨_, _, htr, hsp, ?_, ?_⟩
  · rw [sumLast_one_shape _ rest len rfl]
  · intro d hd
    simp only at hd
    rw [sumLast_one_get _ rest len rfl]
    simp only [List.map_map]
    have hlenfree : ((List.range s.length).filter (fun i => decide (i ≠ ax1 ∧ i ≠ ax2))).length ≤ d.length := by
      have h1 := hd.length_eq
      simp only [rest] at h1
      rw [length_filterMap_getElem? s _ (fun i hi => List.mem_range.1 (List.mem_filter.1 hi).1)] at h1
      omega
    have hterm : ∀ i, i < len → InShape (placeIdx [ax1, ax2] [i + (-off).toNat, i + off.toNat] (List.range s.length) d) s := by
      intro i hi
      have := placeIdx_inShape s ax1 ax2 (i + (-off).toNat) (i + off.toNat) n1 n2 h12 hn1 hn2 (by simp only [len] at hi; omega)
        (by simp only [len] at hi; omega) (List.range s.length) d (fun j hj => List.mem_range.1 hj) hd
      rwa [filterMap_getElem?_range] at this
    constructor
    · apply List.map_congr_left
      intro i hi
      have hi' := List.mem_range.1 hi
      simp only [Function.comp]
      unfold diagonalIdx
      have hgl : (d ++ [i]).getLast? = some i := by simp
      rw [hgl]
      simp only
      have hc1 : (i : Int) + (if off < 0 then -off else 0) = ((i + (-off).toNat : Nat) : Int) := by split <;> omega
      have hc2 : (i : Int) + (if off > 0 then off else 0) = ((i + off.toNat : Nat) : Int) := by split <;> omega
      rw [hc1, hc2]
      rw [diagonalFill_eq_placeIdx ax1 ax2 (i + (-off).toNat) (i + off.toNat) h12 (List.range s.length) d [i] hlenfree]
      rw [leafRead_inShape (hterm i hi')]
    · intro idx hidx
      simp only [List.mem_map, List.mem_range] at hidx
      obtain ⟨i, hi, rfl⟩ := hidx
      exact hterm i hi

end NmVerif
