// C12 harness, integer element types: array::fn(args, SIMD context) next to array::fn(args) (scalar evaluator) in the
// same binary, for every integer element type the simd_op_t specialisation of the context provides an instruction for.
// Each context TU (h_c12i_<ctx>.cpp) defines
//   C12_CTX        the context object
//   C12_BITS       its register width in bits   (lanes = C12_BITS / (8*sizeof(T)))
//   C12I_NO_MUL8   simd_op_t<ctx,T>::mul has no 8-bit branch  (returns void: multiply does not compile)   x86 SSE/AVX, SIMDe
//   C12I_NO_MUL64  ... no 64-bit branch                                                                   x86 SSE/AVX
//   C12I_NO_MATMUL simd_op_t<ctx,T>::fmadd has no integer branch (calls the float / double intrinsic)     x86 AVX, SIMDe
// and includes this file.
//
// The element type of the RESULT selects the instruction (element_type = get_element_type_t<output_t>) and the packed
// loads take `const element_type*`: the operands must have exactly the result's element type, i.e.
//   binary : na::add / subtract / multiply (a, b, casting::same_kind_t{}, ctx)      (result type = operand type T)
//   outer  : na::add / subtract / multiply .outer(a, b, dtype<T>, ctx)
//   reduce : na::add / multiply .reduce(a, axis, None, None, keepdims, ctx)          (result type T for every integer T)
//   matmul : na::matmul(lhs row-major (M,K), rhs column-major (K,N), ctx)            (fmadd = mul + add; needs mul for the width)
//
// request : ibinary|iouter|ireduce|imatmul dtype=i8|u8|i16|u16|i32|u32|i64|u64 op=add|subtract|multiply lanes=<L> ...
// answer  : ok shape=<simd result shape> val=<elements, decimal, row-major order>
//           followed by " MISMATCH at=<k> simd=<v> scalar=<v> sshape=<scalar shape>" when the SIMD result is not
//           bit-identical to the scalar evaluator's result; "unsupported" for an (op, type) pair without instruction.
#pragma once
#include "nmtools/array/array/ufuncs/add.hpp"
#include "nmtools/array/array/ufuncs/subtract.hpp"
#include "nmtools/array/array/ufuncs/multiply.hpp"
#ifndef C12I_NO_MATMUL
#include "nmtools/array/array/matmul.hpp"
#endif
#include "nmtools/array/ndarray.hpp"
#include "nmtools/array/index/ndindex.hpp"
#include "nmtools/utility/at.hpp"
#include "proto.hpp"
#include <vector>
#include <cstring>
#include <cstdint>
#include <type_traits>

namespace nm = nmtools; namespace na = nmtools::array; namespace meta = nmtools::meta;
using namespace proto;

namespace c12i {

template <typename T> using row_t = na::ndarray_t<std::vector<T>, std::vector<size_t>>;
template <typename T> using col_t = na::column_major_ndarray_t<std::vector<T>, std::vector<size_t>>;

template <typename T> std::string show(T v) {
    if constexpr (std::is_signed_v<T>) return std::to_string((long long)v);
    else return std::to_string((unsigned long long)v);
}

// decimal tokens; negative ones through strtoll, others through strtoull (uint64 values above 2^63), then cast to T
template <typename T> std::vector<T> values(const Args& a, const std::string& k) {
    std::vector<T> r; const auto& s = get(a,k); if (s=="[]"||s.empty()) return r;
    for (auto& t : split(s,',')) {
        if (!t.empty() && t[0]=='-') r.push_back((T)std::strtoll(t.c_str(), nullptr, 10));
        else r.push_back((T)std::strtoull(t.c_str(), nullptr, 10));
    }
    return r;
}

template <typename T> struct flat_t { uvec shape; std::vector<T> vals; bool scalar=false; };

template <typename T, typename R> flat_t<T> flatten(const R& r) {
    flat_t<T> f;
    if constexpr (meta::is_num_v<R>) {
        static_assert(std::is_same_v<R,T>, "C12 integer harness: the result element type is not the operand type");
        f.scalar = true; f.vals.push_back(r);
    } else {
        static_assert(std::is_same_v<meta::get_element_type_t<R>,T>, "C12 integer harness: the result element type is not the operand type");
        auto s = nm::shape(r);
        for (size_t i=0;i<(size_t)nm::len(s);i++) f.shape.push_back((size_t)nm::at(s,i));
        auto nd = nm::index::ndindex(f.shape);
        size_t n = nd.size();
        for (size_t k=0;k<n;k++) f.vals.push_back((T)nm::apply_at(r, nd[k]));
    }
    return f;
}
template <typename T, typename R> flat_t<T> flatten_maybe(const R& r, bool& has) {
    if constexpr (meta::is_maybe_v<R>) {
        has = nm::has_value(r);
        if (!has) return {};
        return flatten<T>(*r);
    } else { has = true; return flatten<T>(r); }
}
template <typename T> std::string fmt_shape(const flat_t<T>& f) { return f.scalar ? std::string("num") : fmt(f.shape); }

template <typename T, typename S, typename R>
std::string cmp2(const S& simd_r, const R& ref_r) {
    bool hs, hr;
    auto simd = flatten_maybe<T>(simd_r, hs);
    auto ref  = flatten_maybe<T>(ref_r, hr);
    if (!hs && !hr) return "nothing";
    if (hs != hr) return std::string("ok MISMATCH simd_has=") + (hs?"1":"0") + " scalar_has=" + (hr?"1":"0");
    std::string out = "ok shape=" + fmt_shape(simd) + " val=";
    for (size_t k=0;k<simd.vals.size();k++) { if (k) out += ','; out += show(simd.vals[k]); }
    if (simd.vals.empty()) out += "[]";
    long bad = -1;
    if (simd.scalar != ref.scalar || simd.shape != ref.shape || simd.vals.size() != ref.vals.size()) bad = 0;
    else for (size_t k=0;k<simd.vals.size();k++) if (simd.vals[k] != ref.vals[k]) { bad = (long)k; break; }
    if (bad >= 0) {
        out += " MISMATCH at=" + std::to_string(bad);
        if ((size_t)bad < simd.vals.size()) out += " simd=" + show(simd.vals[bad]);
        if ((size_t)bad < ref.vals.size())  out += " scalar=" + show(ref.vals[bad]);
        out += " sshape=" + fmt_shape(ref);
    }
    return out;
}

template <typename T> row_t<T> make(const Args& a, const std::string& shapek, const std::string& datak) {
    row_t<T> x; x.resize(nats(a,shapek));
    auto d = values<T>(a,datak);
    if (d.size() != (size_t)nm::size(x)) throw bad_args("data length");
    for (size_t k=0;k<d.size();k++) x.data()[k] = d[k];
    return x;
}

template <typename T> constexpr size_t lanes_of() { return C12_BITS / (8*sizeof(T)); }

template <typename T> constexpr bool has_mul() {
#ifdef C12I_NO_MUL8
    if (sizeof(T)==1) return false;
#endif
#ifdef C12I_NO_MUL64
    if (sizeof(T)==8) return false;
#endif
    return true;
}

template <typename T, typename A, typename AX, typename KD>
std::string reduce_with(const std::string& op, const A& a, AX axis, KD kd) {
    const auto& ctx = C12_CTX;
    if (op=="add") return cmp2<T>(na::add.reduce(a, axis, nm::None, nm::None, kd, ctx), na::add.reduce(a, axis, nm::None, nm::None, kd));
    if constexpr (has_mul<T>()) {
        if (op=="multiply") return cmp2<T>(na::multiply.reduce(a, axis, nm::None, nm::None, kd, ctx), na::multiply.reduce(a, axis, nm::None, nm::None, kd));
    } else if (op=="multiply") return "unsupported";
    return "unknown-op";
}

template <typename T>
std::string handle_t(const std::string& kind, const Args& a) {
    if (has(a,"lanes") && (size_t)integer(a,"lanes") != lanes_of<T>()) return "bad-args";
    const auto& ctx = C12_CTX;
    std::string op = get(a,"op");
    constexpr auto same_kind = nm::casting::same_kind_t{};
    constexpr auto dt = nm::dtype_t<T>{};
    if (kind=="ibinary") {
        auto x = make<T>(a,"lshape","ldata"); auto y = make<T>(a,"rshape","rdata");
        if (op=="add")      return cmp2<T>(na::add(x, y, same_kind, ctx), na::add(x, y, same_kind));
        if (op=="subtract") return cmp2<T>(na::subtract(x, y, same_kind, ctx), na::subtract(x, y, same_kind));
        if constexpr (has_mul<T>()) {
            if (op=="multiply") return cmp2<T>(na::multiply(x, y, same_kind, ctx), na::multiply(x, y, same_kind));
        } else if (op=="multiply") return "unsupported";
        return "unknown-op";
    }
    if (kind=="iouter") {
        auto x = make<T>(a,"lshape","ldata"); auto y = make<T>(a,"rshape","rdata");
        if (op=="add")      return cmp2<T>(na::add.outer(x, y, dt, ctx), na::add.outer(x, y, dt));
        if (op=="subtract") return cmp2<T>(na::subtract.outer(x, y, dt, ctx), na::subtract.outer(x, y, dt));
        if constexpr (has_mul<T>()) {
            if (op=="multiply") return cmp2<T>(na::multiply.outer(x, y, dt, ctx), na::multiply.outer(x, y, dt));
        } else if (op=="multiply") return "unsupported";
        return "unknown-op";
    }
    if (kind=="imatmul") {
#ifdef C12I_NO_MATMUL
        return "unsupported";
#else
        if constexpr (has_mul<T>()) {
            // lhs row-major (M,K), rhs column-major (K,N), buffers in storage order: the pair eval_matmul accepts
            auto l = make<T>(a,"lshape","ldata");
            col_t<T> r; r.resize(nats(a,"rshape"));
            auto d = values<T>(a,"rdata");
            if (d.size() != (size_t)nm::size(r)) throw bad_args("data length");
            for (size_t k=0;k<d.size();k++) r.data()[k] = d[k];
            return cmp2<T>(na::matmul(l, r, ctx), na::matmul(l, r));
        } else return "unsupported";
#endif
    }
    if (kind=="ireduce") {
        auto x = make<T>(a,"shape","data");
        bool keep = integer(a,"keepdims") != 0;
        if (is_none(a,"axis"))
            return keep ? reduce_with<T>(op, x, nm::None, nm::True) : reduce_with<T>(op, x, nm::None, nm::False);
        int axis = (int)integer(a,"axis");
        return keep ? reduce_with<T>(op, x, axis, nm::True) : reduce_with<T>(op, x, axis, nm::False);
    }
    return "unknown-op";
}

} // namespace c12i

extern "C" const char* __asan_default_options() { return "symbolize=0:fast_unwind_on_fatal=1:malloc_context_size=0"; }

std::string handle(const std::string& kind, const Args& a) {
    if (kind=="ilanes") return "ok i8=" + std::to_string(c12i::lanes_of<int8_t>()) + " i64=" + std::to_string(c12i::lanes_of<int64_t>());
    std::string dt = get(a,"dtype");
#ifndef C12I_ONLY_WIDE
    if (dt=="i8")  return c12i::handle_t<int8_t>(kind, a);
    if (dt=="u8")  return c12i::handle_t<uint8_t>(kind, a);
    if (dt=="i16") return c12i::handle_t<int16_t>(kind, a);
    if (dt=="u16") return c12i::handle_t<uint16_t>(kind, a);
#endif
#ifndef C12I_ONLY_NARROW
    if (dt=="i32") return c12i::handle_t<int32_t>(kind, a);
    if (dt=="u32") return c12i::handle_t<uint32_t>(kind, a);
    if (dt=="i64") return c12i::handle_t<int64_t>(kind, a);
    if (dt=="u64") return c12i::handle_t<uint64_t>(kind, a);
#endif
    return "bad-args";
}
