import NmVerif.Index.Ufunc
import NmVerif.Index.Reduce
import NmVerif.Linalg
/-
  NN/Compose — softmax / softmin, linear, pairwise_distance, cosine_similarity and the four normalisations as the
  headers compose them from element-wise functions (C07 model: `ufunc2`, broadcasting through `broadcast_arrays`),
  reductions (C08 model: `reduce`, `mean`, `var`) and the linear-algebra views (C16 model: `tensordotAxes`, `reshape`,
  `transpose`), over an ABSTRACT element type `α` with opaque element operations (`exp`, `add`, `div`, …).

  What these models fix is the shape of every intermediate view and *which source element feeds which result
  element, in which fold order*; floating-point behaviour of the element operations is not modelled (the driver
  instantiates `α := Float32` or `Int` for the correspondence run).

  An intermediate view is an `OArr α = Arr (Option α)`: element `none` = the C++ would run into undefined behaviour
  computing it (an out-of-range `at`, the first element of an empty slice); the outer `Option` of a routine is the
  C++ `Nothing` (incompatible shapes) or undefined behaviour while computing a shape.

    view/softmax.hpp:23        softmax       reduce_maximum(keepdims) → subtract → exp → reduce_add(keepdims) → divide
    view/softmin.hpp           softmin       softmax(negative(x))
    view/linear.hpp            linear        tensordot(input, weight, ((-1),(-1))) [+ bias]
    view/pairwise_distance.hpp pairwiseDistance   vector_norm(lhs − rhs + eps, axis −1, keepdims, ord)
    view/cosine_similarity.hpp cosineSimilarity   sum((a·b) / (max(‖a‖,eps)·max(‖b‖,eps)), axis) on the broadcast operands
    view/batch_norm.hpp        batchNorm     parameters through atleast_nd(dim(input)−1) and moveaxis(−1 → 0), then element-wise
    view/layer_norm.hpp        layerNorm     mean / var over the trailing axes (keepdims), element-wise, weight, bias
    view/instance_norm.hpp     instanceNorm  mean / var over the last ND axes, parameters moved to axis −ND−1
    view/group_norm.hpp        groupNorm     reshape to (N, G, C/G, …), mean / var over axes 2.., reshape back

  Core Lean only (linked into the driver).
-/
namespace NmVerif.NN
open NmVerif.Reduce

variable {α : Type}

abbrev OArr (α : Type) := Arr (Option α)

/-- an operand array as a view: every element defined -/
def lift (x : Arr α) : OArr α := ⟨x.shape, fun i => some (x.get i)⟩

def joinA (v : Arr (Option (Option α))) : OArr α := ⟨v.shape, fun j => (v.get j).join⟩

/-- broadcasting binary ufunc (`view::subtract`, `divide`, `multiply`, `add`, `maximum` on two arrays): `broadcast_arrays`
    of the two operands (`Nothing` when incompatible), then `f` per element; an undefined operand element makes the
    result element undefined -/
def bin (f : α → α → α) (a b : OArr α) : Option (OArr α) := (ufunc2 (optOp f) a b).map joinA

/-- unary ufunc, and binary ufunc with a scalar operand (`add(x, eps)`, `maximum(x, eps)`, `power(x, ord)`) -/
def un (f : α → α) (a : OArr α) : OArr α := ⟨a.shape, fun d => (a.get d).map f⟩

/-- `view::reduce(op, a, axis, dtype=None, initial=None, keepdims)` -/
def red (op : α → α → α) (a : OArr α) (axis : AxisArg) (keep : Bool) : Option (OArr α) :=
  (reduce (optOp op) none a axis keep).map joinA

/-! ### softmax / softmin -/

/-- `view::softmax(input, axis)`:
    `a = reduce_maximum(input, axis, None, None, keepdims=True)`, `b = subtract(input, a)`, `c = exp(b)`,
    `d = reduce_add(c, axis, None, None, keepdims=True)`, `divide(c, d)` -/
def softmax (mx sub add div : α → α → α) (exp : α → α) (x : OArr α) (axis : Int) : Option (OArr α) :=
  (red mx x (some [axis]) true).bind fun a =>
  (bin sub x a).bind fun b =>
  let c := un exp b
  (red add c (some [axis]) true).bind fun d =>
  bin div c d

/-- `view::softmin(input, dim)` = `softmax(negative(input), dim)` -/
def softmin (mx sub add div : α → α → α) (exp neg : α → α) (x : OArr α) (axis : Int) : Option (OArr α) :=
  softmax mx sub add div exp (un neg x) axis

/-! ### linear -/

/-- `view::tensordot(lhs, rhs, (lhs_axes, rhs_axes))` with data: the C16 model gives, per result index, the list of
    (lhs index, rhs index) product terms in fold order; `view::sum(…, initial=None)` folds them from the first one -/
def tensordotVal (add mul : α → α → α) (x w : Arr α) (la ra : List Int) : Option (OArr α) :=
  (Linalg.tensordotAxes x.shape w.shape la ra).map fun t =>
    ⟨t.shape, fun d => foldFirst add none ((t.get d).map fun tm => mul (x.get tm.1) (w.get tm.2))⟩

/-- `view::linear(input, weight, bias)`: `tensordot(input, weight, ((-1),(-1)))`, plus the broadcast bias when given -/
def linear (add mul : α → α → α) (x w : Arr α) (bias : Option (Arr α)) : Option (OArr α) :=
  (tensordotVal add mul x w [-1] [-1]).bind fun y =>
    match bias with
    | none => some y
    | some b => bin add y (lift b)

/-! ### pairwise_distance / cosine_similarity -/

/-- `view::vector_norm(array, axis, keepdims, ord)` = `power(sum(power(fabs(array), ord), axis, None, None, keepdims), 1/ord)`;
    `pre x = |x|^ord`, `post y = y^(1/ord)` -/
def vectorNormO (add : α → α → α) (pre post : α → α) (a : OArr α) (axis : AxisArg) (keep : Bool) : Option (OArr α) :=
  (red add (un pre a) axis keep).map (un post)

/-- `view::pairwise_distance(lhs, rhs, ord, eps, keepdims)`: `d = add(subtract(lhs, rhs), eps)` (eps a scalar),
    `vector_norm(d, axis = −1, keepdims, ord)` -/
def pairwiseDistance (add sub : α → α → α) (pre post : α → α) (eps : α) (a b : Arr α) (keep : Bool) : Option (OArr α) :=
  (bin sub (lift a) (lift b)).bind fun d =>
    vectorNormO add pre post (un (fun t => add t eps) d) (some [-1]) keep

/-- `view::broadcast_arrays(lhs, rhs)`: both operands broadcast to the common shape (`ufunc2` is `broadcast_arrays`
    followed by an element function; pairing keeps both broadcast operands) -/
def broadcast2 (a b : OArr α) : Option (OArr α × OArr α) :=
  (ufunc2 (fun (x y : Option α) => (x, y)) a b).map fun u =>
    (⟨u.shape, fun d => ((u.get d).map Prod.fst).join⟩, ⟨u.shape, fun d => ((u.get d).map Prod.snd).join⟩)

/-- `view::cosine_similarity(lhs, rhs, axis, eps)`: on the broadcast operands `a`, `b`:
    `ln = maximum(vector_norm(a, axis, keepdims=True), eps)`, `rn` likewise,
    `sum(divide(multiply(a, b), multiply(ln, rn)), axis)`; `pre x = |x|²`, `post = sqrt` (`ord = 2`) -/
def cosineSimilarity (add mul div mx : α → α → α) (pre post : α → α) (eps : α) (x y : Arr α) (axis : Int) :
    Option (OArr α) :=
  (broadcast2 (lift x) (lift y)).bind fun (a, b) =>
  (vectorNormO add pre post a (some [axis]) true).bind fun na =>
  (vectorNormO add pre post b (some [axis]) true).bind fun nb =>
  let ln := un (fun t => mx t eps) na
  let rn := un (fun t => mx t eps) nb
  (bin mul a b).bind fun num =>
  (bin mul ln rn).bind fun den =>
  (bin div num den).bind fun q =>
  red add q (some [axis]) false

/-! ### normalisations -/

/-- `view::atleast_nd(a, n)` = `reshape(a, shape_atleast_nd(shape, n))`: ones prepended up to rank `n` -/
def atleastNd (a : OArr α) (n : Nat) : Option (OArr α) :=
  Linalg.reshape a (List.replicate (n - a.shape.length) 1 ++ a.shape)

/-- `index::moveaxis_to_transpose(shape, −1, −k)`: the axes `0 .. r−2` with the last axis `r−1` inserted at
    position `r − k` (`Nothing` unless `1 ≤ k ≤ r`: `normalize_axis` fails) -/
def moveLastOrder (r k : Nat) : Option (List Nat) :=
  if k = 0 ∨ r < k then none
  else some ((List.range (r - 1)).take (r - k) ++ [r - 1] ++ (List.range (r - 1)).drop (r - k))

/-- `view::moveaxis(a, −1, −k)` = `transpose(a, order)` -/
def moveLast (a : OArr α) (k : Nat) : Option (OArr α) :=
  (moveLastOrder a.shape.length k).bind fun order => Linalg.transpose a order

/-- a per-channel parameter as batch_norm / instance_norm prepare it: `moveaxis(atleast_nd(p, n), −1, −n)` -/
def chanParam (p : Arr α) (n : Nat) : Option (OArr α) :=
  (atleastNd (lift p) n).bind fun q => moveLast q n

/-- `nd` of `view::batch_norm` (fixes/C17-batch-norm-rank): `dim(input) − 1`, and 1 for an input of rank ≤ 1 -/
def batchNormNd (r : Nat) : Nat := if r > 1 then r - 1 else 1

/-- a per-channel parameter as batch_norm prepares it: `moveaxis(atleast_nd(p, n), −1, 0)` — the last axis to the front -/
def chanParamFront (p : Arr α) (n : Nat) : Option (OArr α) :=
  (atleastNd (lift p) n).bind fun q => moveLast q q.shape.length

/-- `view::batch_norm(input, mean, var, weight, bias, eps)`:
    the four parameters through `atleast_nd(·, nd)` and `moveaxis(·, −1, 0)` with `nd = dim(input) − 1` (a `(C)` parameter
    becomes `(C, 1, …, 1)` with `dim(input) − 1` axes, which broadcasts against axis 1 of the input; before
    fixes/C17-batch-norm-rank it was `atleast_nd(·, 3)` and `moveaxis(·, −1, −3)` for every input rank: `batchNormOld`);
    `stddev = sqrt(add(var, eps))`, `add(multiply(divide(subtract(input, mean), stddev), weight), bias)` -/
def batchNorm (add sub mul div : α → α → α) (sqrt : α → α) (eps : α) (x m v w b : Arr α) : Option (OArr α) :=
  let nd := batchNormNd x.shape.length
  (chanParamFront w nd).bind fun w' =>
  (chanParamFront b nd).bind fun b' =>
  (chanParamFront m nd).bind fun m' =>
  (chanParamFront v nd).bind fun v' =>
  let sd := un (fun t => sqrt (add t eps)) v'
  (bin sub (lift x) m').bind fun s =>
  (bin div s sd).bind fun d =>
  (bin mul d w').bind fun p =>
  bin add p b'

/-- `view::batch_norm` before fixes/C17-batch-norm-rank: the parameters always at axis −3 of three (kept for the
    regression instance) -/
def batchNormOld (add sub mul div : α → α → α) (sqrt : α → α) (eps : α) (x m v w b : Arr α) : Option (OArr α) :=
  (chanParam w 3).bind fun w' =>
  (chanParam b 3).bind fun b' =>
  (chanParam m 3).bind fun m' =>
  (chanParam v 3).bind fun v' =>
  let sd := un (fun t => sqrt (add t eps)) v'
  (bin sub (lift x) m').bind fun s =>
  (bin div s sd).bind fun d =>
  (bin mul d w').bind fun p =>
  bin add p b'

/-- the shared core of layer / instance / group norm on an input `x` and an axis list:
    `mean = mean(x, axis, None, keepdims=True)`, `shift = subtract(x, mean)`, `var = var(x, axis, None, 0, True)`,
    `std = sqrt(add(var, eps))`, `divide(shift, std)` -/
def normCore (add sub div : α → α → α) (sqabs sqrt : α → α) (divn : α → Nat → α) (eps : α) (x : Arr α) (axis : List Int) :
    Option (OArr α) :=
  (mean add divn x (some axis) true).bind fun mu =>
  (bin sub (lift x) mu).bind fun shift =>
  (var add sub sqabs divn x (some axis) 0 true).bind fun vr =>
  bin div shift (un (fun t => sqrt (add t eps)) vr)

/-- `index::layer_norm_axis(shape(weight))`: `−k, …, −1` for a weight of rank `k` -/
def trailingAxes (k : Nat) : List Int := (List.range k).map fun (i : Nat) => -(k : Int) + (i : Int)

/-- `view::layer_norm(input, weight, bias, eps)`: statistics over the last `rank(weight)` axes;
    `add(multiply(norm, weight), bias)` -/
def layerNorm (add sub mul div : α → α → α) (sqabs sqrt : α → α) (divn : α → Nat → α) (eps : α) (x w b : Arr α) :
    Option (OArr α) :=
  (normCore add sub div sqabs sqrt divn eps x (trailingAxes w.shape.length)).bind fun nrm =>
  (bin mul nrm (lift w)).bind fun p =>
  bin add p (lift b)

/-- `view::instance_norm(input, weight, bias, ND, eps)`: statistics over the last `ND` axes, weight and bias through
    `moveaxis(atleast_nd(·, ND+1), −1, −ND−1)` -/
def instanceNorm (add sub mul div : α → α → α) (sqabs sqrt : α → α) (divn : α → Nat → α) (eps : α) (x w b : Arr α)
    (nd : Nat) : Option (OArr α) :=
  (chanParam w (nd + 1)).bind fun w' =>
  (chanParam b (nd + 1)).bind fun b' =>
  (normCore add sub div sqabs sqrt divn eps x (trailingAxes nd)).bind fun nrm =>
  (bin mul nrm w').bind fun p =>
  bin add p b'

/-- `index::group_norm_reshape(src_shape, G)` for a resizable result: `src_dim + 1` entries, `[1] = G`,
    `[2] = src[1] / G`, `[−i] = src[−i]` for `i = 0 .. src_dim−2` (`−0` is position 0: the batch extent).
    `none`: rank < 2 (out-of-range `at`) or `G = 0` (division by zero) -/
def groupNormReshape (src : Shape) (g : Nat) : Option Shape :=
  match src with
  | n :: c :: sp => if g = 0 then none else some (n :: g :: (c / g) :: sp)
  | _ => none

/-- `index::group_norm_axis(src_shape)`: `2, 3, …, src_dim` -/
def groupNormAxis (src : Shape) : List Int := (List.range (src.length - 1)).map fun (i : Nat) => ((i + 2 : Nat) : Int)

/-- `index::group_norm_args_reshape(src_shape, wb_shape)`: ones, with `[1] = product(wb_shape)` -/
def groupNormArgsReshape (src wb : Shape) : Option Shape :=
  if src.length < 2 then none else some ((List.replicate src.length 1).set 1 (prod wb))

/-- `view::group_norm(input, num_groups, weight, bias, eps)` -/
def groupNorm (add sub mul div : α → α → α) (sqabs sqrt : α → α) (divn : α → Nat → α) (eps : α) (x w b : Arr α)
    (g : Nat) : Option (OArr α) :=
  (groupNormReshape x.shape g).bind fun gs =>
  (groupNormArgsReshape x.shape w.shape).bind fun ws =>
  (Linalg.reshape x gs).bind fun xg =>
  (Linalg.reshape (lift w) ws).bind fun w' =>
  (Linalg.reshape (lift b) ws).bind fun b' =>
  (normCore add sub div sqabs sqrt divn eps xg (groupNormAxis x.shape)).bind fun nrm =>
  (Linalg.reshape nrm x.shape).bind fun nr =>
  (bin mul nr w').bind fun p =>
  bin add p b'

/-! ### bilinear -/

/-- `index::bilinear_input_reshape(shape)` for a resizable result (as repaired by fix commit 908c6a6,
    fixes/C17-bilinear-lead-axes.diff): rank ≤ 2 unchanged; rank > 2: one unit axis inserted right BEFORE the last two
    axes, so that every leading (batch) axis stays in front of it and only the unit axis broadcasts against the
    out-features axis of the weight.  `none`: rank 0 (`at(shape, 0)` out of range). -/
def bilinearInputReshape (s : Shape) : Option Shape :=
  match s with
  | [] => none
  | _ => some (if 2 < s.length then s.take (s.length - 2) ++ 1 :: s.drop (s.length - 2) else s)

/-- the form before the repair: the unit axis right after the FIRST axis (agrees with the above up to rank 3) -/
def bilinearInputReshapeOld (s : Shape) : Option Shape :=
  match s with
  | [] => none
  | s0 :: rest => some (if 2 < rest.length + 1 then s0 :: 1 :: rest else s0 :: rest)

/-- `index::bilinear_result_transpose(dim)`: the identity permutation with the last two axes swapped (`dim ≥ 2`) -/
def bilinearResultTranspose (n : Nat) : List Nat :=
  if 2 ≤ n then List.range (n - 2) ++ [n - 1, n - 2] else List.range n

/-- `view::matmulv2(a, b)` with data: the C16 term lists folded from the first product -/
def matmulVal (add mul : α → α → α) (a b : Arr α) : Option (OArr α) :=
  (Linalg.matmulV2 a.shape b.shape).map fun t =>
    ⟨t.shape, fun d => foldFirst add none ((t.get d).map fun tm => mul (a.get tm.1) (b.get tm.2))⟩

/-- `view::bilinear(lhs, rhs, weight, bias)`:
    `a = matmulv2(reshape(lhs, bilinear_input_reshape(shape lhs)), weight)`,
    `b = multiply(a, reshape(rhs, bilinear_input_reshape(shape rhs)))`, `c = sum(b, −1)`,
    `d = transpose(c, bilinear_result_transpose(dim c))`, `add(d, bias)` when a bias is given -/
def bilinear (add mul : α → α → α) (x y w : Arr α) (bias : Option (Arr α)) : Option (OArr α) :=
  (bilinearInputReshape x.shape).bind fun xs =>
  (bilinearInputReshape y.shape).bind fun ys =>
  (Linalg.reshape x xs).bind fun x' =>
  (Linalg.reshape y ys).bind fun y' =>
  (matmulVal add mul x' w).bind fun a =>
  (bin mul a (lift y')).bind fun b =>
  (red add b (some [-1]) false).bind fun c =>
  (Linalg.transpose c (bilinearResultTranspose c.shape.length)).bind fun d =>
    match bias with
    | none => some d
    | some bb => bin add d (lift bb)

end NmVerif.NN
