import NmVerif.Index.SelCommon
import NmVerif.Lemmas.SelUtil
/-
  Lemmas about the shared pieces of the C04 models: `posPy` / `atPy` / `setPy` (Python-style `nmtools::at`)
  and `mapAt` (the `i == axis ? f(d[i]) : d[i]` loop).
-/
namespace NmVerif.Index

theorem i2u_nat (j : Nat) : i2u (j : Int) = j := by
  have : ¬ ((j : Int) < 0) := by omega
  simp [i2u, this]

theorem i2u_of_nonneg (v : Int) (h : 0 ≤ v) : i2u v = v.toNat := by
  have : ¬ (v < 0) := by omega
  simp [i2u, this]

theorem posPy_nat (n k : Nat) : posPy n (k : Int) = some k := by
  have : ¬ ((k : Int) < 0) := by omega
  simp [posPy, this]

theorem posPy_neg (n : Nat) (i : Int) (h1 : i < 0) (h2 : 0 ≤ (n : Int) + i) :
    posPy n i = some ((n : Int) + i).toNat := by
  simp [posPy, h1, h2]

theorem atPy_nat {α} (l : List α) (k : Nat) : atPy l (k : Int) = l[k]? := by
  simp [atPy, posPy_nat]

theorem setPy_nat {α} (l : List α) (k : Nat) (v : α) : setPy l (k : Int) v = l.set k v := by
  simp [setPy, posPy_nat]

theorem normalizeAxis1_some (axis : Int) (n k : Nat) (h : normalizeAxis1 axis n = some k) :
    k < n ∧ posPy n axis = some k := by
  unfold normalizeAxis1 at h
  split at h
  · simp at h
  · rename_i hr
    split at h
    · rename_i hneg
      simp only [Option.some.injEq] at h
      subst h
      refine ⟨by omega, ?_⟩
      rw [posPy_neg n axis hneg (by omega)]
    · rename_i hneg
      simp only [Option.some.injEq] at h
      subst h
      refine ⟨by omega, ?_⟩
      have : ¬ axis < 0 := hneg
      simp [posPy, this]

theorem normalizeAxis1_none (axis : Int) (n : Nat) (h : axis < -(n : Int) ∨ (n : Int) ≤ axis) :
    normalizeAxis1 axis n = none := by
  simp [normalizeAxis1, h]

theorem normalizeAxis1_nat (k n : Nat) (h : k < n) : normalizeAxis1 (k : Int) n = some k := by
  unfold normalizeAxis1
  have h1 : ¬ ((k : Int) < -(n : Int) ∨ (n : Int) ≤ (k : Int)) := by omega
  have h2 : ¬ ((k : Int) < 0) := by omega
  rw [if_neg h1, if_neg h2]
  simp

theorem normAxis_nat (k n : Nat) : normAxis (k : Int) n = (k : Int) := by
  have : ¬ ((k : Int) < 0) := by omega
  simp [normAxis, this]

/-- on an accepted axis the unchecked normalisation of the repaired index functions agrees with `normalize_axis` -/
theorem normAxis_of_normalizeAxis1 (axis : Int) (n k : Nat) (h : normalizeAxis1 axis n = some k) :
    normAxis axis n = (k : Int) := by
  unfold normalizeAxis1 at h
  split at h
  · simp at h
  · split at h
    · rename_i hneg
      simp only [Option.some.injEq] at h
      subst h
      simp only [normAxis, hneg, if_true]
      omega
    · rename_i hneg
      simp only [Option.some.injEq] at h
      subst h
      simp only [normAxis, hneg, if_false]
      omega

theorem atPy_of_normalizeAxis1 {α} (l : List α) (axis : Int) (k : Nat) (h : normalizeAxis1 axis l.length = some k) :
    atPy l axis = l[k]? := by
  simp [atPy, (normalizeAxis1_some axis _ k h).2]

theorem setPy_of_normalizeAxis1 {α} (l : List α) (axis : Int) (k : Nat) (v : α) (h : normalizeAxis1 axis l.length = some k) :
    setPy l axis v = l.set k v := by
  simp [setPy, (normalizeAxis1_some axis _ k h).2]

/-- `mapAt` at loop offset `i` with a non-negative axis `i + k` touches exactly position `k` -/
theorem mapAt_offset (f : Nat → Nat) (i k : Nat) (d : List Nat) :
    mapAt f ((i + k : Nat) : Int) i d = match d[k]? with | some x => d.set k (f x) | none => d := by
  induction d generalizing i k with
  | nil => simp [mapAt]
  | cons x xs ih =>
    cases k with
    | zero => 
      simp only [mapAt, Nat.add_zero, if_true, List.getElem?_cons_zero, List.set_cons_zero]
      congr 1
      -- axis = i: positions i+1.. never match
      have h : ∀ (j : Nat) (l : List Nat), i < j → mapAt f ((i : Nat) : Int) j l = l := by
        intro j l hj
        induction l generalizing j with
        | nil => simp [mapAt]
        | cons y ys ihy =>
          simp only [mapAt]
          have : ((j : Nat) : Int) ≠ (i : Int) := by omega
          simp [this, ihy (j + 1) (by omega)]
      exact h (i + 1) xs (by omega)
    | succ k =>
      have hne : ((i : Nat) : Int) ≠ ((i + (k + 1) : Nat) : Int) := by omega
      simp only [mapAt, hne, if_false, List.getElem?_cons_succ]
      have := ih (i + 1) k
      have e : i + 1 + k = i + (k + 1) := by omega
      rw [e] at this
      rw [this]
      cases h : xs[k]? <;> simp

theorem mapAt_nat (f : Nat → Nat) (k : Nat) (d : List Nat) :
    mapAt f (k : Int) 0 d = match d[k]? with | some x => d.set k (f x) | none => d := by
  have := mapAt_offset f 0 k d
  simpa using this

theorem mapAt_neg (f : Nat → Nat) (axis : Int) (h : axis < 0) (i : Nat) (d : List Nat) : mapAt f axis i d = d := by
  induction d generalizing i with
  | nil => simp [mapAt]
  | cons x xs ih =>
    have : ((i : Nat) : Int) ≠ axis := by omega
    simp [mapAt, this, ih]

theorem mapAt_length (f : Nat → Nat) (axis : Int) (i : Nat) (d : List Nat) : (mapAt f axis i d).length = d.length := by
  induction d generalizing i with
  | nil => simp [mapAt]
  | cons x xs ih => simp [mapAt, ih]

/-- in-shape after replacing one coordinate / extent -/
theorem inShape_set {d : Idx} {s : Shape} {k x e : Nat} (h : InShape d s) (hx : x < e) :
    InShape (d.set k x) (s.set k e) := by
  rw [inShape_iff_forall] at *
  obtain ⟨hl, hh⟩ := h
  refine ⟨by simp [hl], ?_⟩
  intro j h1 h2
  simp only [List.getElem_set]
  by_cases hj : k = j
  · simp [hj, hx]
  · simp only [hj, if_false]
    exact hh j (by simpa using h1) (by simpa using h2)

/-- replacing coordinate `k` by a value below the source extent, when `d` is in a shape that differs at `k` only -/
theorem inShape_set_of_set {d : Idx} {s : Shape} {k x e : Nat} (h : InShape d (s.set k e)) (hk : k < s.length)
    (hx : x < s[k]) : InShape (d.set k x) s := by
  have := inShape_set (k := k) (x := x) (e := s[k]) h hx
  simpa using this

end NmVerif.Index
