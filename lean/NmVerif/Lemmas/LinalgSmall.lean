import NmVerif.Linalg
/-
  Kernel-checked small-scope agreement of MODEL and SPEC for the two routines whose general-rank element theorems are
  the longest (tensordot with explicit axes, kron): every operand shape of rank ≤ 2 with extents 1..2, every axis
  choice, every element — by `decide` (no native evaluation).  A cross-check that MODEL and SPEC are executable and
  agree; the general theorems are in Lemmas/LinalgTensordot.lean and Lemmas/LinalgKron.lean.
-/
namespace NmVerif
open Linalg

def arrEqOn {β : Type} [DecidableEq β] (a b : Arr β) : Bool :=
  a.shape == b.shape && (allIdx a.shape).all (fun d => a.get d == b.get d)

def optArrEq {β : Type} [DecidableEq β] (m s : Option (Arr β)) : Bool :=
  match m, s with
  | some a, some b => arrEqOn a b
  | none, none => true
  | _, _ => false

/-- all shapes of rank exactly `r` with extents `1..e` -/
def shapesOfRank (r e : Nat) : List Shape := (allIdx (List.replicate r e)).map (fun i => i.map (· + 1))

/-- all injective lists of length `n` over `0..dim-1` (ordered axis selections) -/
def axisLists (dim : Nat) : Nat → List (List Nat)
  | 0 => [[]]
  | n + 1 => (axisLists dim n).flatMap (fun l => ((List.range dim).filter (fun i => !l.contains i)).map (fun i => l ++ [i]))

def axisChoices (dim : Nat) : List (List Nat) := (List.range (dim + 1)).flatMap (fun n => axisLists dim n)

/-- for every ordered choice of contracted axes NumPy accepts: same shape, same term list at every index -/
def tensordotAgrees (sa sb : Shape) : Bool :=
  (axisChoices sa.length).all (fun la => (axisChoices sb.length).all (fun ra =>
    match specTensordot sa sb la ra with
    | none => true
    | some s => optArrEq (tensordotAxes sa sb (la.map Int.ofNat) (ra.map Int.ofNat)) (some s)))

def kronAgrees (sa sb : Shape) : Bool := optArrEq (kron sa sb) (some (specKron sa sb))

set_option maxRecDepth 100000

/-- shapes of rank 1 and 2 with extents 1..2 -/
def smallShapes : List Shape := shapesOfRank 1 2 ++ shapesOfRank 2 2

theorem tensordot_small : ∀ sa ∈ smallShapes, ∀ sb ∈ smallShapes, tensordotAgrees sa sb = true := by decide

theorem kron_small : ∀ sa ∈ smallShapes, ∀ sb ∈ smallShapes, kronAgrees sa sb = true := by decide

/-- the rank-difference recursion of `kron_dst_transpose` two levels deep -/
theorem kron_small_13 : ∀ sa ∈ shapesOfRank 1 2, ∀ sb ∈ shapesOfRank 3 2, kronAgrees sa sb = true := by decide
theorem kron_small_31 : ∀ sa ∈ shapesOfRank 3 2, ∀ sb ∈ shapesOfRank 1 2, kronAgrees sa sb = true := by decide

end NmVerif
