import NmVerif.Simd.Eval
import NmVerif.Simd.HorizLemmas
import NmVerif.Simd.OuterLemmas
import NmVerif.Simd.ReduceLemmas
import NmVerif.Simd.BinaryLemmas
import NmVerif.Simd.AxisLemmas
/-
  `eval_matmul`: every output element is the horizontal sum of `N` lane accumulators, lane `l` holding the fused
  multiply-adds of elements `l, N+l, 2N+l, …` of the lhs row and the rhs column (zero-padded to a multiple of `N`);
  over a commutative monoid with `fma x y z = x·y + z` that is the sum of the `K` products.
-/
namespace NmVerif.Simd
open NmVerif IsCommMonoid

variable {α : Type}

/-! ### the explicit association -/

/-- register `s` of a row: elements `s·N … s·N+N−1`, zero-padded past the end of the row -/
def pchunk (zero : α) (N : Nat) (row : List α) (s : Nat) : List α :=
  (row.drop (s * N)).take N ++ List.replicate (N - ((row.drop (s * N)).take N).length) zero

theorem pchunk_length (zero : α) (N : Nat) (row : List α) (s : Nat) : (pchunk zero N row s).length = N := by
  unfold pchunk
  have := List.length_take_le N (row.drop (s * N))
  rw [List.length_append, List.length_replicate]; omega

theorem fmaddLanes_length (fma : α → α → α → α) (l r acc : List α) (N : Nat)
    (hl : l.length = N) (hr : r.length = N) (ha : acc.length = N) : (fmaddLanes fma l r acc).length = N := by
  unfold fmaddLanes
  rw [List.length_zipWith, List.length_zip, hl, hr, ha]; omega

/-- the accumulator register after `m` inner steps: lane `l` = `fma(row[(m−1)N+l], col[(m−1)N+l], … fma(row[l], col[l], 0))` -/
def laneAccs (fma : α → α → α → α) (zero : α) (N : Nat) (row col : List α) (m : Nat) : List α :=
  (List.range m).foldl (fun acc s => fmaddLanes fma (pchunk zero N row s) (pchunk zero N col s) acc)
    (List.replicate N zero)

theorem laneAccs_succ (fma : α → α → α → α) (zero : α) (N : Nat) (row col : List α) (m : Nat) :
    laneAccs fma zero N row col (m + 1)
      = fmaddLanes fma (pchunk zero N row m) (pchunk zero N col m) (laneAccs fma zero N row col m) := by
  unfold laneAccs; rw [List.range_succ, List.foldl_append]; rfl

theorem laneAccs_length (fma : α → α → α → α) (zero : α) (N : Nat) (row col : List α) (m : Nat) :
    (laneAccs fma zero N row col m).length = N := by
  induction m with
  | zero => simp [laneAccs]
  | succ m ih =>
    rw [laneAccs_succ]
    exact fmaddLanes_length fma _ _ _ N (pchunk_length _ _ _ _) (pchunk_length _ _ _ _) ih

/-- **the order / association `eval_matmul` uses for output element `o`** (row `o / Nn` of lhs, column `o % Nn` of rhs):
    `N` lane-strided fused multiply-add chains over the zero-padded row/column, then their left-to-right horizontal sum -/
def matmulCell (fma : α → α → α → α) (add : α → α → α) (zero : α) (N K : Nat) (lhs rhsCol : List α) (Nn o : Nat) :
    Option α :=
  hfold add (laneAccs fma zero N (rowOf lhs K (o / Nn)) (rowOf rhsCol K (o % Nn)) (matmulInnerSize N K))

def matmulRef (fma : α → α → α → α) (add : α → α → α) (zero : α) (N : Nat) (lhs rhsCol : List α) (M K Nn : Nat) :
    Option (List α) :=
  allSome ((List.range (M * Nn)).map (matmulCell fma add zero N K lhs rhsCol Nn))

theorem hfold_isSome (add : α → α → α) (reg : List α) (h : 0 < reg.length) : ∃ v, hfold add reg = some v := by
  cases reg with
  | nil => simp at h
  | cons r rs => exact ⟨_, rfl⟩

/-! ### one inner step -/

theorem matmulInnerSize_eq (N K : Nat) : matmulInnerSize N K = oCs N K := rfl

/-- the register the code loads (PACKED) or assembles (`PAD_k`) at inner step `s` of row `r` is `pchunk` of that row -/
theorem matmul_load (zero : α) (N K : Nat) (hN : 0 < N) (buf : List α) (r s : Nat) (hs : s < oCs N K)
    (hb : r * K + K ≤ buf.length) :
    (if (if s * N + N ≤ K then Tag.PACKED else Tag.PAD (N - (K - K / N * N))) = Tag.PACKED then
        loadu buf (r * K + s * N) N
      else if 1 ≤ (if s * N + N ≤ K then Tag.PACKED else Tag.PAD (N - (K - K / N * N)))
              ∧ (if s * N + N ≤ K then Tag.PACKED else Tag.PAD (N - (K - K / N * N))) < (N : Int) then
        (loadu buf (r * K + s * N)
            (N - (if s * N + N ≤ K then Tag.PACKED else Tag.PAD (N - (K - K / N * N))).toNat)).map
          (fun l => l ++ List.replicate (if s * N + N ≤ K then Tag.PACKED else Tag.PAD (N - (K - K / N * N))).toNat zero)
      else none)
      = some (pchunk zero N (rowOf buf K r) s) := by
  have hrl := rowOf_length buf K r hb
  have hKdm : K = K / N * N + K % N := by
    have := Nat.div_add_mod K N; rw [Nat.mul_comm] at this; omega
  have hmod := Nat.mod_lt K hN
  by_cases hp : s * N + N ≤ K
  · simp only [hp, if_true]
    rw [loadu_row buf K r (s * N) N hp hb]
    unfold pchunk
    have hl : (((rowOf buf K r).drop (s * N)).take N).length = N := by
      rw [List.length_take, List.length_drop, hrl]; omega
    rw [hl, Nat.sub_self]; simp
  · have hsub : K - K / N * N = K % N := by omega
    have hseq : s = K / N := by
      unfold oCs at hs
      have h1 : ¬ (s < K / N) := by
        intro hlt
        have : (s + 1) * N ≤ K / N * N := Nat.mul_le_mul_right N hlt
        rw [Nat.succ_mul] at this; omega
      split at hs <;> omega
    have hm0 : K % N ≠ 0 := by
      intro h0
      unfold oCs at hs
      rw [if_neg (by simpa using h0)] at hs; omega
    have htag : ¬ (Tag.PAD (N - K % N) = Tag.PACKED) := by simp only [Tag.PAD, Tag.PACKED]; omega
    have hrange : 1 ≤ Tag.PAD (N - K % N) ∧ Tag.PAD (N - K % N) < (N : Int) := by simp only [Tag.PAD]; omega
    have hk : (Tag.PAD (N - K % N)).toNat = N - K % N := by simp only [Tag.PAD, Int.toNat_natCast]
    simp only [hp, if_false, hsub]
    rw [if_neg htag, if_pos hrange, hk]
    have hw : N - (N - K % N) = K % N := by omega
    rw [hw, loadu_row buf K r (s * N) (K % N) (by subst hseq; omega) hb]
    simp only [Option.map_some, Option.some.injEq]
    unfold pchunk
    have hdl : ((rowOf buf K r).drop (s * N)).length = K % N := by
      rw [List.length_drop, hrl]; subst hseq; omega
    rw [List.take_of_length_le (by omega : ((rowOf buf K r).drop (s * N)).length ≤ K % N),
        List.take_of_length_le (by omega : ((rowOf buf K r).drop (s * N)).length ≤ N), hdl]

theorem matmulStep_eq (N : Nat) (hN : 0 < N) (fma : α → α → α → α) (add : α → α → α) (zero : α)
    (lhs rhs : List α) (K Nn o : Nat) (hl : o / Nn * K + K ≤ lhs.length) (hr : o % Nn * K + K ≤ rhs.length)
    (s : Nat) (hs : s < oCs N K) (buf acc : List α) (ho : o < buf.length) (ha : acc.length = N) (v : α)
    (hv : hfold add (fmaddLanes fma (pchunk zero N (rowOf lhs K (o / Nn)) s) (pchunk zero N (rowOf rhs K (o % Nn)) s) acc)
            = some v) :
    matmulStep N fma add zero lhs rhs K Nn o (buf, acc) s
      = some (buf.set o v,
              fmaddLanes fma (pchunk zero N (rowOf lhs K (o / Nn)) s) (pchunk zero N (rowOf rhs K (o % Nn)) s) acc) := by
  have hL := matmul_load zero N K hN lhs (o / Nn) s hs hl
  have hR := matmul_load zero N K hN rhs (o % Nn) s hs hr
  unfold matmulStep matmulInner
  simp only
  by_cases hp : s * N + N ≤ K
  · simp only [hp, if_true] at hL hR ⊢
    rw [hL, hR]
    simp only [Option.bind_eq_bind, Option.bind_some, Option.pure_def, hv, writeAt, ho, if_true]
  · simp only [hp, if_false] at hL hR ⊢
    by_cases ht : Tag.PAD (N - (K - K / N * N)) = Tag.PACKED
    · -- impossible on this branch, but both sides agree anyway
      simp only [ht, if_true] at hL hR ⊢
      rw [hL, hR]
      simp only [Option.bind_eq_bind, Option.bind_some, Option.pure_def, hv, writeAt, ho, if_true]
    · simp only [ht, if_false] at hL hR ⊢
      by_cases hrg : 1 ≤ Tag.PAD (N - (K - K / N * N)) ∧ Tag.PAD (N - (K - K / N * N)) < (N : Int)
      · simp only [hrg, and_self, if_true] at hL hR ⊢
        cases hl1 : loadu lhs (o / Nn * K + s * N) (N - (Tag.PAD (N - (K - K / N * N))).toNat) with
        | none => rw [hl1] at hL; simp at hL
        | some l =>
          cases hr1 : loadu rhs (o % Nn * K + s * N) (N - (Tag.PAD (N - (K - K / N * N))).toNat) with
          | none => rw [hr1] at hR; simp at hR
          | some r =>
            rw [hl1] at hL; rw [hr1] at hR
            simp only [Option.map_some, Option.some.injEq] at hL hR
            simp only [Option.bind_eq_bind, Option.bind_some, Option.pure_def, hL, hR, hv, writeAt, ho, if_true]
      · simp only [hrg, if_false] at hL
        cases hL

/-! ### one output element, then all of them -/

theorem matmulCellLoop_eq (N : Nat) (hN : 0 < N) (fma : α → α → α → α) (add : α → α → α) (zero : α)
    (lhs rhs : List α) (K Nn o : Nat) (hK : 0 < K) (hl : o / Nn * K + K ≤ lhs.length) (hr : o % Nn * K + K ≤ rhs.length)
    (buf : List α) (ho : o < buf.length) (v : α) (hv : matmulCell fma add zero N K lhs rhs Nn o = some v) :
    matmulCellLoop N fma add zero lhs rhs K Nn buf o = some (buf.set o v) := by
  unfold matmulCellLoop
  rw [matmulInnerSize_eq]
  unfold matmulCell at hv
  rw [matmulInnerSize_eq] at hv
  have hCs : 0 < oCs N K := by
    unfold oCs
    by_cases h : K % N ≠ 0
    · rw [if_pos h]; exact Nat.succ_pos _
    · rw [if_neg h]
      have h0 : K % N = 0 := by omega
      have : 0 < K / N := Nat.div_pos (Nat.le_of_dvd hK (Nat.dvd_of_mod_eq_zero h0)) hN
      simpa using this
  have key : ∀ m, m ≤ oCs N K →
      ∃ b, (List.range m).foldlM (matmulStep N fma add zero lhs rhs K Nn o) (buf, List.replicate N zero)
            = some (b, laneAccs fma zero N (rowOf lhs K (o / Nn)) (rowOf rhs K (o % Nn)) m)
        ∧ b.length = buf.length
        ∧ (0 < m → ∀ w, hfold add (laneAccs fma zero N (rowOf lhs K (o / Nn)) (rowOf rhs K (o % Nn)) m) = some w →
              b = buf.set o w) := by
    intro m
    induction m with
    | zero => intro _; exact ⟨buf, by simp [laneAccs], rfl, fun h => by omega⟩
    | succ m ih =>
      intro hm
      obtain ⟨b, h1, h2, h3⟩ := ih (by omega)
      have hlen := laneAccs_length fma zero N (rowOf lhs K (o / Nn)) (rowOf rhs K (o % Nn)) (m + 1)
      obtain ⟨w, hw⟩ := hfold_isSome add _ (by rw [hlen]; exact hN)
      rw [laneAccs_succ] at hw
      have hstep := matmulStep_eq N hN fma add zero lhs rhs K Nn o hl hr m (by omega) b
        (laneAccs fma zero N (rowOf lhs K (o / Nn)) (rowOf rhs K (o % Nn)) m) (by rw [h2]; exact ho)
        (laneAccs_length _ _ _ _ _ _) w hw
      refine ⟨b.set o w, ?_, by rw [List.length_set, h2], ?_⟩
      · rw [List.range_succ, List.foldlM_append, h1]
        simp only [Option.bind_eq_bind, Option.bind_some, List.foldlM_cons, List.foldlM_nil]
        rw [hstep, laneAccs_succ]; rfl
      · intro _ w' hw'
        rw [laneAccs_succ, hw] at hw'
        have : w = w' := Option.some.inj hw'
        subst this
        rcases Nat.eq_zero_or_pos m with hm0 | hmp
        · subst hm0
          have hb : b = buf := by
            have := h1; simp [laneAccs] at this; exact this.symm
          rw [hb]
        · obtain ⟨u, hu⟩ := hfold_isSome add (laneAccs fma zero N (rowOf lhs K (o / Nn)) (rowOf rhs K (o % Nn)) m)
            (by rw [laneAccs_length]; exact hN)
          rw [h3 hmp u hu, List.set_set]
  obtain ⟨b, h1, _, h3⟩ := key (oCs N K) (Nat.le_refl _)
  rw [h1, h3 hCs v hv]
  rfl

/-- leftover-style loop with the buffer length known: cell `i` receives `res[i]` -/
theorem cells_fold (res out : List α) (n : Nat) (body : List α → Nat → Option (List α))
    (hres : res.length = n) (hout : out.length = n)
    (hbody : ∀ i o v, o.length = n → res[i]? = some v → body o i = some (o.set i v)) :
    ∀ j, j ≤ n → (List.range j).foldlM body out = some (res.take j ++ out.drop j) := by
  intro j
  induction j with
  | zero => intro _; simp
  | succ j ih =>
    intro hj
    have hlt : j < res.length := by omega
    rw [List.range_succ, List.foldlM_append, ih (by omega)]
    simp only [Option.bind_eq_bind, Option.bind_some, List.foldlM_cons, List.foldlM_nil]
    rw [hbody j _ res[j] (by rw [List.length_append, List.length_take, List.length_drop]; omega) (by simp [hlt])]
    simp only [Option.bind_some, Option.pure_def, Option.some.injEq]
    have hpl : (res.take j).length = j := by rw [List.length_take]; omega
    rw [List.set_append_right _ _ (by omega), hpl, Nat.sub_self,
        List.drop_eq_getElem_cons (by omega : j < out.length)]
    rw [List.set_cons_zero, List.take_add_one, List.getElem?_eq_getElem hlt]
    simp only [Option.toList_some, List.append_assoc, List.cons_append, List.nil_append]

/-- **`eval_matmul` = the explicit lane-strided association**, no algebraic law needed; the result is `some _`:
    no load or store leaves a buffer -/
theorem simdMatmul_eq_ref (N : Nat) (hN : 0 < N) (fma : α → α → α → α) (add : α → α → α) (zero : α)
    (lhs rhs : List α) (M K Nn : Nat) (hK : 0 < K) (hl : lhs.length = M * K) (hr : rhs.length = Nn * K)
    (out : List α) (ho : out.length = M * Nn) :
    simdMatmul N fma add zero lhs rhs M K Nn out = matmulRef fma add zero N lhs rhs M K Nn
    ∧ (matmulRef fma add zero N lhs rhs M K Nn).isSome := by
  have hsome : ∀ o, o < M * Nn → (matmulCell fma add zero N K lhs rhs Nn o).isSome := by
    intro o _
    unfold matmulCell
    obtain ⟨v, hv⟩ := hfold_isSome add (laneAccs fma zero N (rowOf lhs K (o / Nn)) (rowOf rhs K (o % Nn)) (matmulInnerSize N K))
      (by rw [laneAccs_length]; exact hN)
    rw [hv]; rfl
  obtain ⟨res, hres, hlen, hcell⟩ := allSome_range _ _ hsome
  have href : matmulRef fma add zero N lhs rhs M K Nn = some res := hres
  rw [href]
  refine ⟨?_, rfl⟩
  unfold simdMatmul
  have := cells_fold res out (M * Nn) (matmulCellLoop N fma add zero lhs rhs K Nn) hlen ho
    (by
      intro i o v hol hv
      have hi : i < M * Nn := by
        have := (List.getElem?_eq_some_iff.1 hv).1; omega
      have hNn : 0 < Nn := by
        rcases Nat.eq_zero_or_pos Nn with h0 | h0
        · rw [h0] at hi; simp at hi
        · exact h0
      have hrow : i / Nn < M := by rw [Nat.div_lt_iff_lt_mul hNn]; exact hi
      have hcol : i % Nn < Nn := Nat.mod_lt _ hNn
      have h1 : i / Nn * K + K ≤ lhs.length := by
        have : (i / Nn + 1) * K ≤ M * K := Nat.mul_le_mul_right K hrow
        rw [Nat.succ_mul] at this; omega
      have h2 : i % Nn * K + K ≤ rhs.length := by
        have : (i % Nn + 1) * K ≤ Nn * K := Nat.mul_le_mul_right K hcol
        rw [Nat.succ_mul] at this; omega
      exact matmulCellLoop_eq N hN fma add zero lhs rhs K Nn i hK h1 h2 o (by omega) v (by rw [← hcell i hi]; exact hv))
    (M * Nn) (Nat.le_refl _)
  rw [this, List.take_of_length_le (by omega), List.drop_of_length_le (by omega), List.append_nil]

/-! ### over a commutative monoid with `fma x y z = x·y + z`: the sum of the `K` products -/

theorem fmaddLanes_eq (fma : α → α → α → α) (mul add : α → α → α) (hfma : ∀ x y z, fma x y z = add (mul x y) z) :
    ∀ (l r acc : List α), fmaddLanes fma l r acc = List.zipWith add (List.zipWith mul l r) acc := by
  intro l
  induction l with
  | nil => intro r acc; simp [fmaddLanes]
  | cons x xs ih =>
    intro r acc
    cases r with
    | nil => simp [fmaddLanes]
    | cons y ys =>
      cases acc with
      | nil => simp [fmaddLanes]
      | cons c cs =>
        have := ih ys cs
        unfold fmaddLanes at this ⊢
        simp only [List.zip_cons_cons, List.zipWith_cons_cons]
        rw [this, hfma]

theorem msum_pad {add : α → α → α} {zero : α} (hm : IsCommMonoid add zero) (l : List α) (p : Nat) :
    msum add zero (l ++ List.replicate p zero) = msum add zero l := by
  rw [hm.msum_append, hm.msum_replicate_id, hm.id_right]

/-- the products of register `s` (padding contributes `0·0 = 0`) sum to those of elements `s·N … s·N+N−1` -/
theorem msum_pchunk {add : α → α → α} {zero : α} (hm : IsCommMonoid add zero) (mul : α → α → α) (hz : mul zero zero = zero)
    (N : Nat) (row col : List α) (hlen : row.length = col.length) (s : Nat) :
    msum add zero (List.zipWith mul (pchunk zero N row s) (pchunk zero N col s))
      = msum add zero (((List.zipWith mul row col).drop (s * N)).take N) := by
  unfold pchunk
  have hl : ((row.drop (s * N)).take N).length = ((col.drop (s * N)).take N).length := by
    simp only [List.length_take, List.length_drop, hlen]
  rw [List.zipWith_append hl, ← hl, List.zipWith_replicate, hz, Nat.min_self, msum_pad hm, List.drop_zipWith,
      List.take_zipWith]

theorem msum_laneAccs {add : α → α → α} {zero : α} (hm : IsCommMonoid add zero) (fma : α → α → α → α) (mul : α → α → α)
    (hfma : ∀ x y z, fma x y z = add (mul x y) z) (hz : mul zero zero = zero)
    (N : Nat) (row col : List α) (hlen : row.length = col.length) (m : Nat) :
    msum add zero (laneAccs fma zero N row col m) = msum add zero ((List.zipWith mul row col).take (m * N)) := by
  induction m with
  | zero => simp only [laneAccs, List.range_zero, List.foldl_nil, Nat.zero_mul, List.take_zero]; rw [hm.msum_replicate_id]; rfl
  | succ m ih =>
    rw [laneAccs_succ, fmaddLanes_eq fma mul add hfma,
        hm.msum_zipWith _ _ (by rw [List.length_zipWith, pchunk_length, pchunk_length, laneAccs_length, Nat.min_self]),
        msum_pchunk hm mul hz N row col hlen m, ih, hm.comm, ← hm.msum_append, Nat.succ_mul, List.take_add]

theorem oCs_mul_ge (N K : Nat) (hN : 0 < N) : K ≤ oCs N K * N := by
  have hKdm : K = K / N * N + K % N := by
    have := Nat.div_add_mod K N; rw [Nat.mul_comm] at this; omega
  have hmod := Nat.mod_lt K hN
  unfold oCs
  by_cases h : K % N ≠ 0
  · rw [if_pos h, Nat.add_mul]; omega
  · rw [if_neg h, Nat.add_zero]; omega

/-- **output element `o` = the monoid sum of the `K` products of row `o / Nn` of lhs and column `o % Nn` of rhs** -/
theorem matmulCell_eq_msum {add : α → α → α} {zero : α} (hm : IsCommMonoid add zero) (fma : α → α → α → α) (mul : α → α → α)
    (hfma : ∀ x y z, fma x y z = add (mul x y) z) (hz : mul zero zero = zero)
    (N : Nat) (hN : 0 < N) (K : Nat) (lhs rhs : List α) (Nn o : Nat)
    (hl : o / Nn * K + K ≤ lhs.length) (hr : o % Nn * K + K ≤ rhs.length) :
    matmulCell fma add zero N K lhs rhs Nn o
      = some (msum add zero (List.zipWith mul (rowOf lhs K (o / Nn)) (rowOf rhs K (o % Nn)))) := by
  unfold matmulCell
  have h1 := rowOf_length lhs K _ hl
  have h2 := rowOf_length rhs K _ hr
  rw [hfold_eq_msum hm _ (by rw [laneAccs_length]; exact hN),
      msum_laneAccs hm fma mul hfma hz N _ _ (by rw [h1, h2]), matmulInnerSize_eq,
      List.take_of_length_le (by rw [List.length_zipWith, h1, h2, Nat.min_self]; exact oCs_mul_ge N K hN)]

/-- the products of one output element, as the scalar reference enumerates them -/
theorem products_eq (mul : α → α → α) (lhs rhs : List α) (K r c : Nat) (hl : r * K + K ≤ lhs.length)
    (hr : c * K + K ≤ rhs.length) :
    allSome ((List.range K).map (fun k =>
        match lhs[r * K + k]?, rhs[c * K + k]? with
        | some x, some y => some (mul x y)
        | _, _ => none))
      = some (List.zipWith mul (rowOf lhs K r) (rowOf rhs K c)) := by
  apply allSome_of_getElem?
  · rw [List.length_zipWith, rowOf_length lhs K r hl, rowOf_length rhs K c hr, Nat.min_self]
  · intro k hk
    rw [List.getElem?_zipWith, rowOf_getElem? _ _ _ _ hk, rowOf_getElem? _ _ _ _ hk]
    cases lhs[r * K + k]? <;> cases rhs[c * K + k]? <;> rfl

/-- **`eval_matmul` = Σ_k lhs[i,k]·rhs[k,j]** over a commutative monoid `(add, 0)` with `fma x y z = x·y + z` (exact
    arithmetic: the rounding of a hardware `fmadd` is outside the model) and `0·0 = 0` (the padding lanes) -/
theorem simdMatmul_eq_scalar' {add : α → α → α} {zero : α} (hm : IsCommMonoid add zero) (fma : α → α → α → α) (mul : α → α → α)
    (hfma : ∀ x y z, fma x y z = add (mul x y) z) (hz : mul zero zero = zero)
    (N : Nat) (hN : 0 < N) (lhs rhs : List α) (M K Nn : Nat) (hK : 0 < K) (hl : lhs.length = M * K) (hr : rhs.length = Nn * K)
    (out : List α) (ho : out.length = M * Nn) :
    simdMatmul N fma add zero lhs rhs M K Nn out = scalarMatmul mul add zero lhs rhs M K Nn := by
  rw [(simdMatmul_eq_ref N hN fma add zero lhs rhs M K Nn hK hl hr out ho).1]
  unfold matmulRef scalarMatmul
  apply allSome_congr
  intro i hi
  have hi' : i < M * Nn := by simpa using hi
  have hNn : 0 < Nn := by
    rcases Nat.eq_zero_or_pos Nn with h0 | h0
    · rw [h0] at hi'; simp at hi'
    · exact h0
  have hrow : i / Nn < M := by rw [Nat.div_lt_iff_lt_mul hNn]; exact hi'
  have hcol : i % Nn < Nn := Nat.mod_lt _ hNn
  have h1 : i / Nn * K + K ≤ lhs.length := by
    have : (i / Nn + 1) * K ≤ M * K := Nat.mul_le_mul_right K hrow
    rw [Nat.succ_mul] at this; omega
  have h2 : i % Nn * K + K ≤ rhs.length := by
    have : (i % Nn + 1) * K ≤ Nn * K := Nat.mul_le_mul_right K hcol
    rw [Nat.succ_mul] at this; omega
  rw [matmulCell_eq_msum hm fma mul hfma hz N hN K lhs rhs Nn i h1 h2]
  have hp := products_eq mul lhs rhs K (i / Nn) (i % Nn) h1 h2
  exact (congrArg (Option.map (fun ps => List.foldl add zero ps)) hp).symm

/-- the n-d reference on a row-major `(M,K)` lhs and a column-major `(K,Nn)` rhs reads the buffers as `scalarMatmul` does -/
theorem scalarMatmulNDA_rowCol (mul add : α → α → α) (zero : α) (a b : NDA α) (M K Nn : Nat)
    (ha : a.shape = [M, K]) (hb : b.shape = [K, Nn]) (hra : a.colMajor = false) (hcb : b.colMajor = true) :
    scalarMatmulNDA mul add zero a b M K Nn = scalarMatmul mul add zero a.data b.data M K Nn := by
  unfold scalarMatmulNDA scalarMatmul
  apply allSome_congr
  intro o _
  simp only
  congr 1
  apply allSome_congr
  intro k _
  have e1 : a.get? [o / Nn, k] = a.data[o / Nn * K + k]? := by
    unfold NDA.get? NDA.offset NDA.stridesOf
    rw [hra, ha]
    simp only [Bool.false_eq_true, if_false, strides, prod, computeOffset, Nat.mul_one, Nat.one_mul, Nat.add_zero]
    rw [Nat.mul_comm K]
  have e2 : b.get? [k, o % Nn] = b.data[o % Nn * K + k]? := by
    unfold NDA.get? NDA.offset NDA.stridesOf colStrides
    rw [hcb, hb]
    simp only [if_true, strides, prod, computeOffset, Nat.mul_one, Nat.one_mul, Nat.add_zero, List.reverse_cons,
      List.reverse_nil, List.nil_append, List.cons_append]
    rw [Nat.mul_comm K, Nat.add_comm]
  rw [e1, e2]

end NmVerif.Simd
