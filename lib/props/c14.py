"""C14 — functors, currying, composition and extraction are equivalent to direct views.

IMPL   harness/h_c14_probe.cpp   the functor_t / functor_composition_t / combinator machinery observed with pure probe functors
       harness/h_c14_fn.cpp      functors of array/functional: all at once / curried in every split vs the direct view call
       harness/h_c14_ext.cpp     get_function_composition / get_function_operands / apply / get_compute_graph on views of depth 1..4
MODEL  lean/NmVerif/Functional.lean (applyFn, applyComp/run, FC.mul, combinators, compile, operandsOf, IView.graph) over symbolic values
ORACLE python: composition as function composition on operand lists following the parenthesisation tree; NumPy for the view
       programs; expected operand list = leaves in reading order; expected graph = one node per leaf occurrence and operation.
"""
import itertools
import re
import numpy as np
from runner import Case
from shapes import prod, fmt, fmt_lists

ID = 'C14'
LEVEL = 'proof'
RULE = ('probe machine: every composition of a menu of 50 (1..4 functors: unary/binary/ternary probes in every position, swap/dup/dig/bury, '
        'every parenthesisation of the 3- and 4-chains) x every split of the operand list into chunks (exact, over- and under-supplied), '
        'attribute/operand interleavings; functors: table of array/functional functors x every curry split vs direct view; '
        'extraction: view trees of depth 1..4. non-trivial = more than one functor or more than one chunk')
EXHAUSTIVE = {'quick': False, 'thorough': False}
ANCHORS = {'NmVerif.Functional.applyFn': 'functional::apply_function_t<functor_t>::operator() (functor.hpp:368-428), functor_t::operator[] / operator()',
           'NmVerif.Functional.applyComp/run': 'functional::apply_function_t<functor_composition_t>::operator() (functor.hpp:450-528)',
           'NmVerif.Functional.FC.mul': 'functor_t::operator* / operator*(functor_composition_t, ...) (functor.hpp:288-300,348-366)',
           'NmVerif.Functional.swapF/dupF/digF/buryF': 'combinator::swap / dup / dig_n / bury_n (combinator.hpp)',
           'NmVerif.Functional.View.compile': 'functional::get_function_composition (function_composition.hpp:14-128)',
           'NmVerif.Functional.View.operandsOf': 'functional::get_function_operands (functor.hpp:776-812)',
           'NmVerif.Functional.IView.graph': 'functional::get_compute_graph (compute_graph.hpp:14-275) over utility::ct_map / ct_digraph',
           'NmVerif.Functional.generateAlias': 'index::generate_alias (index/alias.hpp:60-88)'}
MANIFEST = dict(
    text='Proof: Lean theorems over ARBITRARY functors (any arity, any operand/attribute types): currying in every split equals one call (curry_any_split, curry_chunks), composition = apply the right-most functor and pass the rest on (comp_apply, comp_two), parenthesisation irrelevant (comp_assoc), combinators are the stated permutations, and a compiler-correctness theorem for extraction (compile_correct/compile_frame: extracted composition applied to extracted operands = host evaluation, by induction on the view tree) on the trees where it holds — with a machine-checked counterexample outside; tied to the C++ by differential runs of the real functor machinery (probe functors), of the array/functional functors against direct view calls, and of extraction / operand identity / compute graphs on view trees.',
    note='Lean kernel + propext/Classical.choice/Quot.sound. Node-id uniqueness of the compute graph is not a theorem (ids are hashes mod 1033 and graph-size counters): checked per explored program. Known findings: extraction is wrong when a view operand is not the first operand; dangling reference in get_function_composition.',
    technique='Lean 4 proofs over an abstract stack machine (compiler correctness by mutual structural induction) + differential correspondence')
ASSUMPTIONS = ['functors are pure functions of (attributes, operands)',
               'compute-graph node ids pairwise distinct (hypothesis of graph_nodes / graph_edges; explored, not proved)']
PARTIAL = []


def harness_specs(tier):
    return ([dict(name='h_c14_probe', src='h_c14_probe.cpp', flavour='fast')] +
            [dict(name='h_c14_ext%d' % g, src='h_c14_ext.cpp', flavour='fast', extra=['-DC14_GROUP=%d' % g]) for g in EXT_GROUPS])


# ---------------------------------------------------------------------------------------------------------------
# probe machine: reference semantics (independent of the stack machine: follows the parenthesisation tree)
# ---------------------------------------------------------------------------------------------------------------
ARITY = {'p1': 1, 'p2': 2, 'p3': 3, 'swap': 2, 'dup': 1, 'dig1': 2, 'dig2': 3, 'bury1': 2, 'bury2': 3}


class Partial(Exception):
    pass


def parse_term(s):
    """'M(M(p2,p1),dig2)' -> ('M', [('M', [...]), ('dig2', [])])"""
    pos = 0

    def term():
        nonlocal pos
        m = re.compile(r'[^(),]+').match(s, pos)
        name = m.group(0); pos = m.end(); args = []
        if pos < len(s) and s[pos] == '(':
            pos += 1
            while True:
                args.append(term())
                if s[pos] == ',':
                    pos += 1
                else:
                    assert s[pos] == ')'; pos += 1; break
        return (name, args)
    t = term(); assert pos == len(s), s
    return t


def atom_apply(name, ops, attrs=()):
    k = ARITY[name]
    if len(ops) < k:
        raise Partial()
    x, rest = list(ops[:k]), list(ops[k:])
    if name.startswith('p'):
        r = ['%s(%s)' % (name, ','.join(x + list(attrs)))]
    elif name == 'swap' or name == 'dig1' or name == 'bury1':
        r = [x[1], x[0]]
    elif name == 'dup':
        r = [x[0], x[0]]
    elif name == 'dig2':
        r = [x[2], x[0], x[1]]
    elif name == 'bury2':
        r = [x[1], x[2], x[0]]
    return r + rest


def tree_apply(t, ops):
    """(l * r)(ops) = l(r(ops)) — function composition on operand lists"""
    name, args = t
    if name == 'M':
        return tree_apply(args[0], tree_apply(args[1], ops))
    return atom_apply(name, ops)


def needed(t):
    for n in range(0, 8):
        try:
            tree_apply(t, [str(i) for i in range(n)]); return n
        except Partial:
            pass
    raise AssertionError(t)


def compositions(n):
    """all ways to cut a list of n items into non-empty chunks (sizes)"""
    if n == 0:
        yield []
        return
    for first in range(1, n + 1):
        for rest in compositions(n - first):
            yield [first] + rest


MENU = ['p1', 'p2', 'p3', 'swap', 'dup', 'dig1', 'dig2', 'bury1', 'bury2',
        'M(p1,p1)', 'M(p1,p2)', 'M(p2,p1)', 'M(p2,p2)', 'M(p1,p3)', 'M(p3,p1)', 'M(p3,p2)', 'M(p2,p3)',
        'M(p2,swap)', 'M(p2,dup)', 'M(p3,dig2)', 'M(p3,bury2)', 'M(dup,p1)', 'M(swap,swap)', 'M(bury2,dig2)', 'M(p2,dig1)', 'M(p2,bury1)',
        'M(M(p2,p1),dig2)', 'M(p2,M(p1,dig2))', 'M(M(p1,p2),p2)', 'M(p1,M(p2,p2))', 'M(M(p2,swap),p2)', 'M(p2,M(swap,p2))',
        'M(M(p2,p2),dup)', 'M(p2,M(p2,dup))', 'M(M(p3,bury2),p1)', 'M(p3,M(bury2,p1))', 'M(M(p2,p3),p2)', 'M(p2,M(p3,p2))',
        'M(M(p2,p2),M(p1,bury2))', 'M(p2,M(p2,M(p1,bury2)))', 'M(M(M(p2,p2),p1),bury2)', 'M(M(p2,M(p2,p1)),bury2)', 'M(p2,M(M(p2,p1),bury2))',
        'M(M(p1,p2),M(swap,dup))', 'M(p1,M(p2,M(swap,dup)))', 'M(M(p2,p1),M(p2,dig2))', 'M(M(M(p2,p1),p2),dig2)',
        'M(M(p3,p1),M(p2,p2))', 'M(p3,M(p1,M(p2,p2)))']


def nfun(t):
    return 1 if t[0] != 'M' else nfun(t[1][0]) + nfun(t[1][1])


def probe_cases(tier, rng):
    for comp in MENU:
        t = parse_term(comp)
        n = needed(t)
        nf = nfun(t)
        vals = [str(v) for v in rng.sample(range(1, 90), 6)]
        variants = []      # (chunk sizes, total operands)
        for total in sorted({max(n - 1, 0), n, min(n + 1, 5)}):
            if total == 0:
                continue
            for cs in compositions(total):
                variants.append(cs)
        for cs in variants:
            ops = vals[:sum(cs)]
            chunks = []; i = 0
            for c in cs:
                chunks.append(ops[i:i + c]); i += c
            steps = ';'.join('o:' + ','.join(c) for c in chunks)
            # spec: defined when the call sequence completes exactly with the last chunk
            oracle = None
            try:
                tree_apply(t, ops[:sum(cs[:-1])])
                early = True
            except Partial:
                early = False
            if not early:
                try:
                    oracle = 'ok values ' + ';'.join(tree_apply(t, ops))
                except Partial:
                    oracle = None      # still curried: the model is the judge
            yield Case('c14_probe comp=%s steps=%s' % (comp, steps), 'h_c14_probe', oracle=oracle,
                       nontrivial=(nf > 1 or len(cs) > 1),
                       tags=['probe', 'nfun=%d' % nf, 'chunks=%d' % len(cs), 'supply=' + ('exact' if sum(cs) == n else 'over' if sum(cs) > n else 'under'),
                             'spec' if oracle else 'model-only'])
    # attributes and operands in every interleaving (single probe functors)
    for name in ['p1', 'p2', 'p3']:
        k = ARITY[name]
        for na in [1, 2]:
            attrs = [str(v) for v in rng.sample(range(90, 100), na)]
            for cs in compositions(k):
                ops = [str(v) for v in rng.sample(range(1, 90), k)]
                chunks = []; i = 0
                for c in cs:
                    chunks.append(ops[i:i + c]); i += c
                # attribute steps can go before any operand chunk (after the last one the functor has been applied)
                slots = len(chunks)
                for pos in itertools.combinations_with_replacement(range(slots), na):
                    steps = []
                    ai = 0
                    for ci, c in enumerate(chunks):
                        while ai < na and pos[ai] == ci:
                            steps.append('a:' + attrs[ai]); ai += 1
                        steps.append('o:' + ','.join(c))
                    oracle = 'ok values %s(%s)' % (name, ','.join(ops + attrs))
                    yield Case('c14_probe comp=%s steps=%s' % (name, ';'.join(steps)), 'h_c14_probe', oracle=oracle,
                               tags=['probe', 'attrs=%d' % na, 'chunks=%d' % len(cs)])


# ---------------------------------------------------------------------------------------------------------------
# extraction on view trees: programs, NumPy semantics of the tree nodes, symbolic-term evaluation
# ---------------------------------------------------------------------------------------------------------------
def leaf(shape, j, data):
    n = prod(shape)
    k = np.arange(n, dtype=np.int64)
    if data == 'cond' and j == 0:
        v = (k % 3 != 1).astype(np.int64)
    else:
        v = k + 1000 * j
    return v.reshape(shape)


OPS = {
    'transpose': lambda x, p: np.transpose(x[0], p['axes']),
    'reduce_add': lambda x, p: np.sum(x[0], axis=p['axis']),
    'reduce_max_keep': lambda x, p: np.max(x[0], axis=p['axis'], keepdims=True),
    'accumulate_add': lambda x, p: np.cumsum(x[0], axis=p['axis']),
    'flip': lambda x, p: np.flip(x[0], p['axis']),
    'tile': lambda x, p: np.tile(x[0], p['reps']),
    'add': lambda x, p: x[0] + x[1],
    'multiply': lambda x, p: x[0] * x[1],
    'subtract': lambda x, p: x[0] - x[1],
    'negative': lambda x, p: -x[0],
    'matmul': lambda x, p: np.matmul(x[0], x[1]),
    'concatenate': lambda x, p: np.concatenate([x[0], x[1]], p['axis']),
    'concatenate0': lambda x, p: np.concatenate([x[0], x[1]], 0),
    'where': lambda x, p: np.where(x[0] != 0, x[1], x[2]),
    'bcast': lambda x, p: np.broadcast_to(x[0], p['bshape']),
    'reshape_v': lambda x, p: x[0].reshape(1, -1) if x[0].ndim == 1 else x[0],
}


def eval_term(t, env, params):
    """t: parsed term over leaves `x<i>` / `<i>` / `a<i>`"""
    name, args = t
    if not args:
        m = re.fullmatch(r'[xa]?(\d+)', name)
        return env[int(m.group(1))]
    return OPS[name]([eval_term(a, env, params) for a in args], params)


def tree_leaves(t):
    name, args = t
    if not args:
        return [int(re.fullmatch(r'[xa]?(\d+)', name).group(1))]
    return [l for a in args for l in tree_leaves(a)]


def tree_depth(t):
    return 0 if not t[1] else 1 + max(tree_depth(a) for a in t[1])


def rshape(rng, min_rank=1, max_rank=4, max_extent=4, cap=30):
    while True:
        s = [rng.randint(1, max_extent) for _ in range(rng.randint(min_rank, max_rank))]
        if prod(s) <= cap:
            return s


def bpartner(rng, s):
    k = rng.randint(0, len(s) - 1) if len(s) > 1 else 0
    t = [e if rng.random() < 0.6 else 1 for e in s[k:]]
    return t if t else [1]


def perm(rng, n):
    p = list(range(n)); rng.shuffle(p); return p


def _ext_progs():
    pr = {}

    def add(name, group, tree, gen, graph=False, nonfirst=False, bview=False, sibling=False, data='prov'):
        # nonfirst: a view operand that is not the first operand; bview: binary ufunc over a view operand (dangling reference);
        # sibling: two sibling sub-views over un-aliased leaves (compute-graph node ids collide)
        pr[name] = dict(group=group, tree=tree, gen=gen, graph=graph, nonfirst=nonfirst, bview=bview, sibling=sibling, data=data)

    def g_tr(rng):
        s = rshape(rng); return [s], dict(axes=perm(rng, len(s)))
    def g_axis(rng):
        s = rshape(rng, min_rank=2); return [s], dict(axis=rng.randrange(len(s)))
    def g_bin(rng):
        s = rshape(rng); t = bpartner(rng, s); return ([s, t] if rng.random() < 0.5 else [t, s]), {}
    def g_tri(rng):
        s = rshape(rng); sh = [s, bpartner(rng, s), bpartner(rng, s)]; rng.shuffle(sh); return sh, {}
    def g_quad(rng):
        s = rshape(rng); sh = [s, bpartner(rng, s), bpartner(rng, s), bpartner(rng, s)]; rng.shuffle(sh); return sh, {}
    def g_matmul(rng):
        m, k, n = rng.randint(1, 4), rng.randint(1, 4), rng.randint(1, 4); return [[m, k], [k, n]], {}
    def g_concat(rng):
        s = rshape(rng, cap=18); ax = rng.randrange(len(s)); t = list(s); t[ax] = rng.randint(1, 3); return [s, t], dict(axis=ax)
    def g_where(rng):
        s = rshape(rng, cap=24); sh = [bpartner(rng, s), s, bpartner(rng, s)]; return sh, dict(bshape=s)
    def g_vstack(rng):
        s = rshape(rng, cap=18)
        if len(s) == 1:
            return [s, list(s)], {}
        t = list(s); t[0] = rng.randint(1, 3); return [s, t], {}
    def g_bin_axis(rng):
        s = rshape(rng, min_rank=2); return [s, bpartner(rng, s)], dict(axis=rng.randrange(len(s)))
    def g_bin_axes(rng):
        s = rshape(rng); return [s, bpartner(rng, s)], dict(axes=perm(rng, len(s)))
    def g_tr_axis(rng):
        s = rshape(rng); return [s], dict(axes=perm(rng, len(s)), axis=rng.randrange(len(s)))
    def g_add_tr(rng):
        s = rshape(rng); ax = perm(rng, len(s)); ts = [s[i] for i in ax]; return [s, bpartner(rng, ts)], dict(axes=ax)
    def g_bin_axes_axis(rng):
        s = rshape(rng, min_rank=2); return [s, bpartner(rng, s)], dict(axes=perm(rng, len(s)), axis=rng.randrange(len(s)))
    def g_ftt(rng):
        s = rshape(rng, cap=12); return [s], dict(axes=perm(rng, len(s)), reps=[rng.randint(1, 2) for _ in s], axis=rng.randrange(len(s)))
    def g_same3(rng):
        s = rshape(rng, cap=12); return [s, list(s), list(s)], {}
    def g_same4(rng):
        s = rshape(rng, cap=12); return [s, list(s), list(s), list(s)], {}

    add('transpose', 1, 'transpose(0)', g_tr, graph=True)
    add('reduce_add', 1, 'reduce_add(0)', g_axis, graph=True)
    add('add', 1, 'add(0,1)', g_bin, graph=True)
    add('negative', 1, 'negative(0)', lambda rng: ([rshape(rng)], {}))
    add('matmul', 1, 'matmul(0,1)', g_matmul)
    add('concatenate', 1, 'concatenate(0,1)', g_concat)
    add('where', 1, 'where(bcast(0),bcast(1),bcast(2))', g_where, nonfirst=True, data='cond')
    add('vstack', 1, 'concatenate0(reshape_v(0),reshape_v(1))', g_vstack, nonfirst=True)
    add('neg_add', 1, 'negative(add(0,1))', g_bin, graph=True)
    add('sum_mul', 1, 'reduce_add(multiply(0,1))', g_bin_axis)
    add('tr_add', 1, 'transpose(add(0,1))', g_bin_axes, graph=True)
    add('cumsum_tr', 1, 'accumulate_add(transpose(0))', g_tr_axis)
    add('add_tr', 2, 'add(transpose(0),1)', g_add_tr, bview=True)
    add('add_mul2', 2, 'add(0,multiply(1,2))', g_tri, graph=True, nonfirst=True)
    add('neg_add_mul', 2, 'negative(add(multiply(0,1),2))', g_tri, graph=True, bview=True)
    add('tr_neg_add', 2, 'transpose(negative(add(0,1)))', g_bin_axes)
    add('sum_tr_mul', 2, 'reduce_add(transpose(multiply(0,1)))', g_bin_axes_axis)
    add('flip_tile_tr', 2, 'flip(tile(transpose(0)))', g_ftt)
    add('neg_sub_max', 2, 'negative(subtract(0,reduce_max_keep(0)))', g_axis, nonfirst=True)
    add('add_mm', 2, 'add(multiply(0,1),multiply(2,3))', g_quad, graph=True, nonfirst=True, sibling=True)
    add('add_ms', 2, 'add(multiply(0,1),subtract(2,3))', g_quad, graph=True, nonfirst=True, sibling=True)
    add('d4_neg_tr_neg_add', 3, 'negative(transpose(negative(add(0,1))))', g_bin_axes, graph=True)
    add('d4_sum_tr_neg_mul', 3, 'reduce_add(transpose(negative(multiply(0,1))))', g_bin_axes_axis)
    add('d4_flip_tile_tr_neg', 3, 'flip(tile(transpose(negative(0))))', g_ftt)
    add('d4_cumsum_neg_tr_add', 3, 'accumulate_add(negative(transpose(add(0,1))))', g_bin_axes_axis)
    add('rep_neg_add_mul', 3, 'negative(add(multiply(0,1),1))', lambda rng: (lambda s: ([s, bpartner(rng, s)], {}))(rshape(rng)), graph=True, bview=True)
    add('al_add_mm', 4, 'add(multiply(a0,a1),multiply(a1,a2))', g_same3, graph=True, nonfirst=True)
    add('al_neg_add_mul', 4, 'negative(add(multiply(a0,a1),a1))', g_same3, graph=True, bview=True)
    add('al_add_mul2', 4, 'add(a0,multiply(a1,a2))', g_same3, graph=True, nonfirst=True)
    return pr


EXT = _ext_progs()
EXT_GROUPS = [1, 2, 3, 4]


def parse_kv(ans):
    d = {}
    for kv in ans.split()[1:]:
        if '=' in kv:
            k, v = kv.split('=', 1); d[k] = v
    return d


def fmt_arr(x):
    x = np.asarray(x)
    return fmt(list(x.shape)) + '|' + fmt([int(v) for v in x.reshape(-1)])


def make_extract_cmp(env, params):
    """answers are compared on the keys both sides know: leaves, nfun, result (= what extraction + apply computes),
    host (= host evaluation of the view).  Symbolic terms (Lean model) are evaluated with NumPy here."""
    def canon(ans):
        if not ans.startswith('ok '):
            return {'raw': ans}
        d = parse_kv(ans); c = {'leaves': d.get('leaves')}
        if 'nfun' in d:
            c['nfun'] = d['nfun']
        if 'term' in d:          # model: symbolic
            for key, src in (('result', 'term'), ('host', 'view')):
                try:
                    c[key] = fmt_arr(eval_term(parse_term(d[src]), env, params))
                except Exception as e:
                    c[key] = 'error'
        else:
            if 'adata' in d:
                c['result'] = d['ashape'] + '|' + d['adata']
            if 'data' in d:
                c['host'] = d['shape'] + '|' + d['data']
            if 'result' in d:    # oracle
                c['result'] = d['result']; c['host'] = d['result']
        return c

    def cmp(a, b):
        ca, cb = canon(a), canon(b)
        if 'raw' in ca or 'raw' in cb:
            return a == b
        return all(ca[k] == cb[k] for k in ca if k in cb)
    return cmp


def canon_graph(ans):
    """isomorphism-invariant form of a compute graph answer: multiset of node signatures + edge consistency"""
    if not ans.startswith('ok '):
        return ans
    d = parse_kv(ans)
    nodes = {}
    for n in d['nodes'].split(','):
        k, lab = n.split(':', 1)
        if lab.startswith('L'):
            nodes[k] = ('L', lab[1:])
        else:
            m = re.fullmatch(r'F(\d+)\[(.*)\]', lab)
            nodes[k] = ('F', [x for x in m.group(2).split('/') if x != ''])
    edges = set() if d['edges'] == '[]' else set(tuple(e.split('>')) for e in d['edges'].split(','))
    want = set((o, k) for k, (kind, v) in nodes.items() if kind == 'F' for o in v)
    memo = {}

    def sig(k, depth=0):
        if k not in nodes or depth > 50:
            return '?'
        if k not in memo:
            kind, v = nodes[k]
            memo[k] = 'L' + v if kind == 'L' else 'F(' + ','.join(sig(o, depth + 1) for o in v) + ')'
        return memo[k]
    sigs = sorted(sig(k) for k in nodes)
    return 'graph n=%d edges_ok=%d sigs=%s' % (len(nodes), int(edges == want), '|'.join(sigs))


def graph_cmp(a, b):
    return canon_graph(a) == canon_graph(b)


def ideal_graph(t):
    """one node per leaf occurrence (per alias id for aliased leaves) and per operation; edges from each operation's inputs"""
    nodes = []; edges = []; ctr = [1000]; alias = {}

    def walk(t):
        name, args = t
        if not args:
            m = re.fullmatch(r'(a?)(\d+)', name)
            if m.group(1):
                k = 'a' + m.group(2)
                if k not in alias:
                    alias[k] = str(int(m.group(2))); nodes.append('%s:L%s' % (alias[k], m.group(2)))
                return alias[k]
            ctr[0] += 1; nid = str(ctr[0]); nodes.append('%s:L%s' % (nid, m.group(2))); return nid
        ins = [walk(a) for a in args]
        ctr[0] += 1; nid = str(ctr[0])
        nodes.append('%s:F%d[%s]' % (nid, len(ins), '/'.join(ins)))
        for i in ins:
            if '%s>%s' % (i, nid) not in edges:
                edges.append('%s>%s' % (i, nid))
        return nid
    walk(t)
    return 'ok nodes=%s edges=%s' % (','.join(nodes), ','.join(edges) if edges else '[]')


def fmt_params(p):
    out = []
    for k in sorted(p):
        if k == 'bshape':
            continue
        v = p[k]
        out.append('%s=%s' % (k, fmt(v) if isinstance(v, (list, tuple)) else str(int(v))))
    return ' '.join(out)


def ext_cases(tier, rng):
    ncase = 4 if tier == 'quick' else 30
    for name, pg in EXT.items():
        t = parse_term(pg['tree'])
        h = 'h_c14_ext%d' % pg['group']
        tplain = re.sub(r'\ba(\d+)', r'\1', pg['tree'])
        made = tries = 0
        while made < ncase and tries < 10 * ncase:
            tries += 1
            shapes, params = pg['gen'](rng)
            env = [leaf(s, j, pg['data']) for j, s in enumerate(shapes)]
            try:
                res = np.asarray(eval_term(t, env, params))
            except ValueError:
                continue
            if res.size == 0 or res.size > 64 or np.abs(res).max() >= 2 ** 31:
                continue
            made += 1
            req = ' '.join(('c14_extract prog=%s shapes=%s %s data=%s' % (name, fmt_lists(shapes), fmt_params(params), pg['data'])).split())
            off = pg['nonfirst'] or pg['bview']
            oracle = 'ok leaves=%s result=%s' % (fmt(tree_leaves(t)), fmt_arr(res))
            yield Case(req, h, dom=not off, oracle=oracle, mreq='c14_extract tree=%s' % tplain, cmp=make_extract_cmp(env, params),
                       tags=['extract', 'prog=' + name, 'depth=%d' % tree_depth(t)] + (['nonfirst'] if pg['nonfirst'] else []) + (['bview'] if pg['bview'] else []))
            if pg['graph'] and made <= 2:
                greq = ' '.join(('c14_graph prog=%s shapes=%s %s data=%s' % (name, fmt_lists(shapes), fmt_params(params), pg['data'])).split())
                yield Case(greq, h, dom=not pg['sibling'], oracle=ideal_graph(t), mreq='c14_graph tree=%s' % pg['tree'], cmp=graph_cmp,
                           tags=['graph', 'prog=' + name, 'depth=%d' % tree_depth(t)] + (['sibling'] if pg['sibling'] else []))
    # generate_alias: the hash behind the node ids
    for i in range(40 if tier == 'quick' else 400):
        ids = [rng.randrange(1033) for _ in range(rng.randint(1, 6))]
        r = 0
        for x in ids:
            r = (r * 512 + x) % 1033
        yield Case('c14_alias ids=%s' % fmt(ids), 'h_c14_ext1', oracle='ok %d' % r, tags=['alias'])


def gen(tier, rng):
    yield from probe_cases(tier, rng)
    yield from ext_cases(tier, rng)


def _args(c):
    return dict(kv.split('=', 1) for kv in c.req.split()[1:] if '=' in kv)


def nonfirst_view_operand(c):
    return c.req.startswith('c14_extract ') and EXT.get(_args(c).get('prog'), {}).get('nonfirst', False)


def ufunc_view_operand(c):
    return c.req.startswith('c14_extract ') and EXT.get(_args(c).get('prog'), {}).get('bview', False)


def sibling_subviews_unaliased(c):
    return c.req.startswith('c14_graph ') and EXT.get(_args(c).get('prog'), {}).get('sibling', False)


KNOWN_PREDICATES = {'nonfirst_view_operand': nonfirst_view_operand, 'ufunc_view_operand': ufunc_view_operand,
                    'sibling_subviews_unaliased': sibling_subviews_unaliased}
