import NmVerif.Simd.Eval
import NmVerif.Simd.LoopLemmas
import NmVerif.Simd.OuterLemmas
import NmVerif.Simd.HorizLemmas
/-
  Identification of an n-d row-major reduction over its LAST axis with the 2-d problem `(prod pre, C)` the
  HORIZONTAL evaluator works on: the scalar reference `scalarReduceAxis` folds exactly the rows of the buffer.
-/
namespace NmVerif.Simd
open NmVerif IsCommMonoid

variable {α : Type}

theorem computeOffset_snoc (I st : List Nat) (k : Nat) (h : I.length = st.length) :
    computeOffset (I ++ [k]) (st ++ [1]) = computeOffset I st + k := by
  induction I generalizing st with
  | nil => cases st with
    | nil => simp [computeOffset]
    | cons _ _ => simp at h
  | cons x xs ih =>
    cases st with
    | nil => simp at h
    | cons s ss =>
      simp only [List.cons_append, computeOffset]
      rw [ih ss (by simpa using h)]; omega

theorem set_snoc (I : List Nat) (x k : Nat) : (I ++ [x]).set I.length k = I ++ [k] := by
  induction I with
  | nil => rfl
  | cons a t ih => simp [ih]

theorem allSome_window (data : List α) (b C : Nat) (h : b + C ≤ data.length) :
    allSome ((List.range C).map (fun k => data[b + k]?)) = some ((data.drop b).take C) := by
  have hl : ((data.drop b).take C).length = C := by rw [List.length_take, List.length_drop]; omega
  have e : allSome ((List.range C).map (fun k => data[b + k]?))
      = allSome ((List.range C).map (fun k => ((data.drop b).take C)[k]?)) := by
    apply allSome_congr
    intro k hk
    have hk' : k < C := by simpa using hk
    rw [List.getElem?_take, if_pos hk', List.getElem?_drop]
  rw [e]
  generalize (data.drop b).take C = l at hl
  subst hl
  rw [list_range_eq_map_getElem?]
  have := allSome_map_some l (fun x => x)
  simpa using this

/-- element `(I, k)` of a row-major array of shape `pre ++ [C]` sits at `offset(I)·C + k` -/
theorem get?_lastAxis (a : NDA α) (pre : List Nat) (C o k : Nat) (hsh : a.shape = pre ++ [C])
    (hr : a.colMajor = false) (hpos : Pos pre) (ho : o < prod pre) :
    a.get? ((ndindex (pre ++ [1]) o).set pre.length k) = a.data[o * C + k]? := by
  have hI : ndindex (pre ++ [1]) o = ndindex pre o ++ [0] := by
    rw [ndindex_snoc]; simp [Nat.mod_one]
  have hlen : (ndindex pre o).length = pre.length := computeIndices_length o pre
  rw [hI, ← hlen, set_snoc]
  unfold NDA.get? NDA.offset NDA.stridesOf
  rw [hr, hsh]
  simp only [Bool.false_eq_true, if_false]
  rw [strides_snoc, computeOffset_snoc _ _ _ (by rw [List.length_map, strides_length, hlen]), computeOffset_map_mul]
  have := offset_indices hpos ho
  unfold ndindex
  rw [this]

/-- the scalar reference over the last axis: the left fold (= monoid sum) of every buffer row -/
theorem scalarReduceAxis_lastAxis (op : α → α → α) (e : α) (hm : IsCommMonoid op e) (a : NDA α) (pre : List Nat) (C : Nat)
    (hsh : a.shape = pre ++ [C]) (hw : a.WF) (hr : a.colMajor = false) (hpos : Pos pre) (hC : 0 < C) :
    scalarReduceAxis op a pre.length
      = some ((List.range (prod pre)).map (fun o => msum op e (rowOf a.data C o))) := by
  have hlen : a.data.length = prod pre * C := by
    have : a.data.length = prod a.shape := hw
    rw [this, hsh, prod_snoc]
  unfold scalarReduceAxis keepShape
  have hset : a.shape.set pre.length 1 = pre ++ [1] := by
    rw [hsh]; exact set_snoc pre C 1
  have hget : a.shape.getD pre.length 0 = C := by rw [hsh]; simp
  simp only [hset, hget]
  rw [prod_snoc, Nat.mul_one]
  rw [← allSome_map_some (List.range (prod pre)) (fun o => msum op e (rowOf a.data C o))]
  apply allSome_congr
  intro o ho
  have ho' : o < prod pre := by simpa using ho
  have hrow : o * C + C ≤ a.data.length := by
    have : (o + 1) * C ≤ prod pre * C := Nat.mul_le_mul_right C ho'
    rw [Nat.succ_mul] at this; omega
  have hin : allSome ((List.range C).map (fun k => a.get? ((ndindex (pre ++ [1]) o).set pre.length k)))
      = some (rowOf a.data C o) := by
    rw [allSome_congr (h := fun k => a.data[o * C + k]?)
          (fun k _ => get?_lastAxis a pre C o k hsh hr hpos ho')]
    exact allSome_window a.data (o * C) C hrow
  rw [hin]
  have hrl := rowOf_length a.data C o hrow
  cases hrw : rowOf a.data C o with
  | nil => rw [hrw] at hrl; simp at hrl; omega
  | cons x xs =>
    simp only
    congr 1
    show xs.foldl op x = (x :: xs).foldl op e
    rw [List.foldl_cons, hm.id_left]

end NmVerif.Simd
