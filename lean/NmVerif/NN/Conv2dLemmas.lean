import NmVerif.NN.ConvLemmas
/-
  NN/Conv2dLemmas — the conv2d instance (n_planes = 2) of the convnd pipeline.
-/
namespace NmVerif.NN

theorem crw2 (O Cg KH KW g : Nat) : convReshapeWeight [O, Cg, KH, KW] g 2 = [O / g, g, Cg, KH, KW] := by
  simp [convReshapeWeight, setI, getI, posI, List.range, List.range.loop]

theorem cri2 (N C H W g : Nat) : convReshapeInput [N, C, H, W] g 2 = [1, 1, g, C / g, H, W] := by
  simp [convReshapeInput, setI, getI, posI, List.range, List.range.loop]

theorem crr2 (a b c d e : Nat) : convReshapeReduce [a, b, c, d, e] 2 = [a, b * c, d, e] := by
  simp [convReshapeReduce, setI, getI, posI, List.range, List.range.loop]

theorem crb2 (O : Nat) : convReshapeBias [O] 2 = [O, 1, 1] := by
  simp [convReshapeBias, setI, getI, posI, List.range, List.range.loop]

theorem cks2 (a b c d e : Nat) : convKernelSize [a, b, c, d, e] 2 = [e, d] := by
  simp [convKernelSize, getI, posI, List.range, List.range.loop]

theorem cwa2 : convWindowAxis 2 = [-1, -2] := by
  simp [convWindowAxis, List.range, List.range.loop]

theorem csa2 : convSumAxes 2 = [-1, -2, -5] := by
  simp [convSumAxes, convWindowAxis, List.range, List.range.loop]

theorem cpad2 (p : Nat) : convPad 6 (.int p) 2 = [0,0,0,0,p,p,0,0,0,0,p,p] := by
  simp [convPad, List.range, List.range.loop]

theorem convWeight2_shape {w : Arr Int} {Og g Cg KH KW : Nat} (hw : w.shape = [Og * g, Cg, KH, KW]) (hg : 0 < g)
    (hKH : 0 < KH) (hKW : 0 < KW) {dil : PArg} (hdil : PosForm dil) :
    ∃ aw, convWeight 2 w dil g = some aw ∧ aw.shape = [Og, g, Cg, (KH - 1) * dilV dil + 1, (KW - 1) * dilV dil + 1] := by
  have hdiv : Og * g / g = Og := Nat.mul_div_cancel _ hg
  have hprod : prod w.shape = prod [Og, g, Cg, KH, KW] := by rw [hw]; simp only [prod]; ring
  have hre := reshapeV_some (a := w) (dst := [Og, g, Cg, KH, KW]) (by simp) hprod
  unfold convWeight
  rw [hw, crw2, hdiv, hre]
  rcases hdil with rfl | ⟨d, hd, rfl⟩
  · refine ⟨_, rfl, ?_⟩
    simp [dilV]; omega
  · refine ⟨_, rfl, ?_⟩
    obtain ⟨d', rfl⟩ : ∃ d', d = d' + 1 := ⟨d - 1, by omega⟩
    obtain ⟨KH', rfl⟩ : ∃ K', KH = K' + 1 := ⟨KH - 1, by omega⟩
    obtain ⟨KW', rfl⟩ : ∃ K', KW = K' + 1 := ⟨KW - 1, by omega⟩
    simp [dilV, expandV, expandShape, cwa2, convExpandSpacing, posI]
    constructor <;> ring

theorem convInput2_shape {x : Arr Int} {g Cg H W : Nat} (hx : x.shape = [1, g * Cg, H, W]) (hg : 0 < g) {pad : PArg} (hpad : IntForm pad) :
    ∃ ain, convInput 2 x pad g = .ok ain ∧ ain.shape = [1, 1, g, Cg, H + 2 * padVal pad, W + 2 * padVal pad] := by
  have hdiv : g * Cg / g = Cg := Nat.mul_div_cancel_left _ hg
  have hprod : prod x.shape = prod [1, 1, g, Cg, H, W] := by rw [hx]; simp only [prod]; ring
  have hre := reshapeV_some (a := x) (dst := [1, 1, g, Cg, H, W]) (by simp) hprod
  unfold convInput
  rw [hx, cri2, hdiv, hre]
  rcases hpad with rfl | ⟨p, rfl⟩
  · exact ⟨_, rfl, by simp [padVal]⟩
  · simp only [List.length_cons, List.length_nil, Nat.reduceAdd, Nat.zero_add, padV, cpad2]
    refine ⟨_, rfl, ?_⟩
    simp [padShape, padVal]; omega

theorem convCore2_shape {ain aw : Arr Int} {Og g Cg Hp Wp KHp KWp : Nat} (hain : ain.shape = [1, 1, g, Cg, Hp, Wp])
    (haw : aw.shape = [Og, g, Cg, KHp, KWp]) (hOg : 0 < Og) (hKH : 0 < KHp) (hKW : 0 < KWp) (hfH : KHp ≤ Hp) (hfW : KWp ≤ Wp) :
    ∃ rs, convCore 2 ain aw = some rs ∧ rs.shape = [1, Og * g, Hp - (KHp - 1), Wp - (KWp - 1)] := by
  have e1 : KHp - (KHp - 1) = 1 := by omega
  have e2 : KWp - (KWp - 1) = 1 := by omega
  have h1 : max (Hp - (KHp - 1)) 1 = Hp - (KHp - 1) := by omega
  have h2 : max (Wp - (KWp - 1)) 1 = Wp - (KWp - 1) := by omega
  have h3 : max 1 Og = Og := by omega
  have swi : slidingWindowShape [1, 1, g, Cg, Hp, Wp] [KWp, KHp] [-1, -2] = [1, 1, g, Cg, Hp - (KHp - 1), Wp - (KWp - 1), KWp, KHp] := by
    simp [slidingWindowShape, posI]
  have sww : slidingWindowShape [Og, g, Cg, KHp, KWp] [KWp, KHp] [-1, -2] = [Og, g, Cg, 1, 1, KWp, KHp] := by
    simp [slidingWindowShape, posI, e1, e2]
  have hbs : bshape [1, 1, g, Cg, Hp - (KHp - 1), Wp - (KWp - 1), KWp, KHp] [Og, g, Cg, 1, 1, KWp, KHp]
      = some [1, Og, g, Cg, Hp - (KHp - 1), Wp - (KWp - 1), KWp, KHp] := by
    simp [bshape, bshapeRev, h1, h2, h3]
  unfold convCore
  simp only [haw, cks2, cwa2, csa2, slidingWindowV, hain, swi, sww, binop, hbs,
    Option.map_some, Option.bind_some, sumAxes, List.length_cons, List.length_nil, List.map_cons, List.map_nil]
  have hp7 : posI (0 + 1 + 1 + 1 + 1 + 1 + 1 + 1 + 1) (-1) = 7 := by decide
  have hp6 : posI (0 + 1 + 1 + 1 + 1 + 1 + 1 + 1 + 1) (-2) = 6 := by decide
  have hp3 : posI (0 + 1 + 1 + 1 + 1 + 1 + 1 + 1 + 1) (-5) = 3 := by decide
  have hrm : removeAxes [7, 6, 3] 0 [1, Og, g, Cg, Hp - (KHp - 1), Wp - (KWp - 1), KWp, KHp] = [1, Og, g, Hp - (KHp - 1), Wp - (KWp - 1)] := by
    simp [removeAxes]
  simp only [hp7, hp6, hp3, hrm, crr2]
  rw [reshapeV_some (by simp) (by simp only [prod]; ring)]
  exact ⟨_, rfl, rfl⟩

theorem convBias2_shape {rs : Arr Int} {O Ho Wo : Nat} (hrs : rs.shape = [1, O, Ho, Wo]) (hHo : 0 < Ho) (hWo : 0 < Wo) (bias : Option (Arr Int))
    (hb : ∀ b, bias = some b → b.shape = [O]) :
    ∃ ad, convBias 2 rs bias = some ad ∧ ad.shape = [1, O, Ho, Wo] := by
  cases bias with
  | none => exact ⟨rs, rfl, hrs⟩
  | some b =>
    have hbs := hb b rfl
    have h1 : max Ho 1 = Ho := by omega
    have h2 : max Wo 1 = Wo := by omega
    have hbsh : bshape [1, O, Ho, Wo] [O, 1, 1] = some [1, O, Ho, Wo] := by simp [bshape, bshapeRev, h1, h2]
    unfold convBias
    simp only [hbs, crb2]
    rw [reshapeV_some (by simp) (by rw [hbs]; simp only [prod])]
    simp only [Option.bind_some, binop, hrs, hbsh, Option.map_some]
    exact ⟨_, rfl, rfl⟩

theorem convStride2_shape {ad : Arr Int} {O Ho Wo : Nat} (had : ad.shape = [1, O, Ho, Wo]) {stride : PArg} (hs : PosForm stride) :
    (convStride 2 ad stride).shape
      = [1, O, (Ho + strideVal stride - 1) / strideVal stride, (Wo + strideVal stride - 1) / strideVal stride] := by
  rcases hs with rfl | ⟨s, hs, rfl⟩
  · simp [convStride, strideVal, had]
  · simp [convStride, strideVal, sliceStepV, sliceStepShape, convSteps, had]

/-- conv2d: the pipeline is defined and has the standard extents (None / integer forms of stride, padding, dilation) -/
theorem convnd2_shape {x w : Arr Int} {bias : Option (Arr Int)} {Og g Cg H W KH KW : Nat} {stride padding dilation : PArg}
    (hx : x.shape = [1, g * Cg, H, W]) (hw : w.shape = [Og * g, Cg, KH, KW]) (hb : ∀ b, bias = some b → b.shape = [Og * g])
    (hOg : 0 < Og) (hg : 0 < g) (hKH : 0 < KH) (hKW : 0 < KW) (hs : PosForm stride) (hp : IntForm padding) (hd : PosForm dilation)
    (hfH : (KH - 1) * dilV dilation + 1 ≤ H + 2 * padVal padding) (hfW : (KW - 1) * dilV dilation + 1 ≤ W + 2 * padVal padding) :
    ∃ r, convnd 2 x w bias stride padding dilation g = .ok r ∧
      r.shape = [1, Og * g, outSize H KH (strideVal stride) (padVal padding) (dilV dilation),
                 outSize W KW (strideVal stride) (padVal padding) (dilV dilation)] := by
  have hsp := strideVal_pos hs
  obtain ⟨aw, haw, haws⟩ := convWeight2_shape hw hg hKH hKW hd
  obtain ⟨ain, hain, hains⟩ := convInput2_shape hx hg hp
  obtain ⟨rs, hrs, hrss⟩ := convCore2_shape hains haws hOg (Nat.succ_pos _) (Nat.succ_pos _) hfH hfW
  obtain ⟨ad, had, hads⟩ := convBias2_shape hrss (by omega) (by omega) bias hb
  refine ⟨convStride 2 ad stride, ?_, ?_⟩
  · unfold convnd
    rw [haw, hain]
    simp only [hrs, Option.bind_some, had]
  · rw [convStride2_shape hads hs, out_arith hsp hfH, out_arith hsp hfW]

/-! ### element level -/

theorem sumTo_add_fn (n : Nat) (f g : Nat → Int) : sumTo n (fun i => f i + g i) = sumTo n f + sumTo n g := by
  induction n with
  | zero => rfl
  | succ n ih => simp only [sumTo, ih]; omega

theorem sumTo_const_zero (n : Nat) : sumTo n (fun _ => 0) = 0 := sumTo_zero (fun _ _ => rfl)

theorem sumTo_comm (n m : Nat) (f : Nat → Nat → Int) :
    sumTo n (fun i => sumTo m (fun j => f i j)) = sumTo m (fun j => sumTo n (fun i => f i j)) := by
  induction n with
  | zero => simp [sumTo, sumTo_const_zero]
  | succ n ih =>
    simp only [sumTo, ih]
    rw [← sumTo_add_fn]

/-- sum over all multi-indices of a rank-3 shape = triple sum -/
theorem listSum_allIdx3 (A B C : Nat) (f : Idx → Int) :
    listSum ((allIdx [A, B, C]).map f) = sumTo A (fun i => sumTo B (fun j => sumTo C (fun k => f [i, j, k]))) := by
  have h : allIdx [A, B, C] = (List.range A).flatMap (fun i => (allIdx [B, C]).map (i :: ·)) := rfl
  rw [h, List.map_flatMap, listSum_flatMap_range]
  apply sumTo_congr; intro i _
  rw [List.map_map]
  exact listSum_allIdx2 B C (fun r => f (i :: r))

theorem rsh_weight2 {Og g Cg KH KW a b c kh kw : Nat} (ha : a < Og) (hb : b < g) (hc : c < Cg) (hkh : kh < KH) (hkw : kw < KW) :
    reshapeIdx [Og * g, Cg, KH, KW] [Og, g, Cg, KH, KW] [a, b, c, kh, kw] = [a * g + b, c, kh, kw] := by
  apply reshapeIdx_eq
  · simp only [InShape]; exact ⟨lt_mul_of_lt ha hb, hc, hkh, hkw, trivial⟩
  · simp only [computeOffset, strides, prod]; ring

theorem rsh_input2 {g Cg H W b c i j : Nat} (hb : b < g) (hc : c < Cg) (hi : i < H) (hj : j < W) :
    reshapeIdx [1, g * Cg, H, W] [1, 1, g, Cg, H, W] [0, 0, b, c, i, j] = [0, b * Cg + c, i, j] := by
  apply reshapeIdx_eq
  · simp only [InShape]; refine ⟨by omega, ?_, hi, hj, trivial⟩
    exact lt_mul_of_lt (a := b) (b := c) (Og := g) (g := Cg) hb hc
  · simp only [computeOffset, strides, prod]; ring

theorem rsh_reduce2 {Og g Ho Wo o i j : Nat} (hg : 0 < g) (ho : o < Og * g) (hi : i < Ho) (hj : j < Wo) :
    reshapeIdx [1, Og, g, Ho, Wo] [1, Og * g, Ho, Wo] [0, o, i, j] = [0, o / g, o % g, i, j] := by
  apply reshapeIdx_eq
  · simp only [InShape]
    exact ⟨by omega, (Nat.div_lt_iff_lt_mul hg).2 ho, Nat.mod_lt _ hg, hi, hj, trivial⟩
  · simp only [computeOffset, strides, prod]
    have := Nat.div_add_mod o g
    calc Og * g * (Ho * (Wo * 1)) * 0 + (Ho * (Wo * 1) * o + (Wo * 1 * i + (1 * j + 0))) = Ho * Wo * o + (Wo * i + j) := by ring
      _ = Ho * Wo * (g * (o / g) + o % g) + (Wo * i + j) := by rw [this]
      _ = _ := by ring

theorem rsh_bias2 {O o : Nat} (ho : o < O) : reshapeIdx [O] [O, 1, 1] [o, 0, 0] = [o] := by
  apply reshapeIdx_eq
  · simp only [InShape]; exact ⟨ho, trivial⟩
  · simp only [computeOffset, strides, prod]


def rwArr2 (w : Arr Int) (Og g Cg KH KW : Nat) : Arr Int :=
  ⟨[Og, g, Cg, KH, KW], fun d => w.get (reshapeIdx w.shape [Og, g, Cg, KH, KW] d)⟩

def awArr2 (w : Arr Int) (Og g Cg KH KW : Nat) (dil : PArg) : Arr Int :=
  match dil with
  | .none => rwArr2 w Og g Cg KH KW
  | _ => expandV (rwArr2 w Og g Cg KH KW) (convWindowAxis 2) (convExpandSpacing dil 2)

theorem convWeight2_eq {w : Arr Int} {Og g Cg KH KW : Nat} (hw : w.shape = [Og * g, Cg, KH, KW]) (hg : 0 < g) (dil : PArg) :
    convWeight 2 w dil g = some (awArr2 w Og g Cg KH KW dil) := by
  have hdiv : Og * g / g = Og := Nat.mul_div_cancel _ hg
  have hprod : prod w.shape = prod [Og, g, Cg, KH, KW] := by rw [hw]; simp only [prod]; ring
  have hre := reshapeV_some (a := w) (dst := [Og, g, Cg, KH, KW]) (by simp) hprod
  unfold convWeight
  rw [hw, crw2, hdiv, hre]
  cases dil <;> rfl

theorem awArr2_shape {w : Arr Int} {Og g Cg KH KW : Nat} (hKH : 0 < KH) (hKW : 0 < KW) {dil : PArg} (hdil : PosForm dil) :
    (awArr2 w Og g Cg KH KW dil).shape = [Og, g, Cg, (KH - 1) * dilV dil + 1, (KW - 1) * dilV dil + 1] := by
  rcases hdil with rfl | ⟨d, hd, rfl⟩
  · simp [awArr2, rwArr2, dilV]; omega
  · obtain ⟨d', rfl⟩ : ∃ d', d = d' + 1 := ⟨d - 1, by omega⟩
    obtain ⟨KH', rfl⟩ : ∃ K', KH = K' + 1 := ⟨KH - 1, by omega⟩
    obtain ⟨KW', rfl⟩ : ∃ K', KW = K' + 1 := ⟨KW - 1, by omega⟩
    simp [awArr2, rwArr2, dilV, expandV, expandShape, cwa2, convExpandSpacing, posI]
    constructor <;> ring

theorem div_lt_of_lt_dil {k' K d : Nat} (hK : 0 < K) (hd : 0 < d) (h : k' < (K - 1) * d + 1) : k' / d < K := by
  obtain ⟨K', rfl⟩ : ∃ K', K = K' + 1 := ⟨K - 1, by omega⟩
  rw [Nat.div_lt_iff_lt_mul hd]
  have e : (K' + 1) * d = K' * d + d := by ring
  simp only [Nat.add_sub_cancel] at h
  rw [e]; omega

theorem expandIdx_2 (sp a b c kh kw : Nat) :
    expandIdx 5 [(-1, sp), (-2, sp)] [a, b, c, kh, kw]
      = if kw % (sp + 1) ≠ 0 then none else (if kh % (sp + 1) ≠ 0 then none else some [a, b, c, kh / (sp + 1), kw / (sp + 1)]) := by
  have p1 : posI 5 (-1) = 4 := by decide
  have p2 : posI 5 (-2) = 3 := by decide
  simp only [expandIdx, p1, p2, List.getD_cons_zero, List.getD_cons_succ, List.set_cons_succ, List.set_cons_zero]

theorem awArr2_get {w : Arr Int} {Og g Cg KH KW : Nat} (hw : w.shape = [Og * g, Cg, KH, KW]) (hKH : 0 < KH) (hKW : 0 < KW)
    {dil : PArg} (hdil : PosForm dil) {a b c kh kw : Nat} (ha : a < Og) (hb : b < g) (hc : c < Cg)
    (hkh : kh < (KH - 1) * dilV dil + 1) (hkw : kw < (KW - 1) * dilV dil + 1) :
    (awArr2 w Og g Cg KH KW dil).get [a, b, c, kh, kw]
      = if kw % dilV dil = 0 then (if kh % dilV dil = 0 then w.get [a * g + b, c, kh / dilV dil, kw / dilV dil] else 0) else 0 := by
  rcases hdil with rfl | ⟨d, hd, rfl⟩
  · simp only [dilV, Nat.mul_one] at hkh hkw ⊢
    simp only [Nat.mod_one, if_true, Nat.div_one, awArr2, rwArr2, hw]
    rw [rsh_weight2 ha hb hc (by omega) (by omega)]
  · simp only [dilV] at hkh hkw ⊢
    have h1 := div_lt_of_lt_dil hKH hd hkh
    have h2 := div_lt_of_lt_dil hKW hd hkw
    obtain ⟨d', rfl⟩ : ∃ d', d = d' + 1 := ⟨d - 1, by omega⟩
    have hz : (convWindowAxis 2).zip (convExpandSpacing (.int (d' + 1)) 2) = [(-1, d'), (-2, d')] := by
      simp [cwa2, convExpandSpacing]
    simp only [awArr2, expandV, expandGet, hz]
    simp only [rwArr2, List.length_cons, List.length_nil, Nat.reduceAdd, Nat.zero_add, expandIdx_2]
    by_cases hm : kw % (d' + 1) = 0
    · by_cases hm2 : kh % (d' + 1) = 0
      · simp only [hm, hm2, ne_eq, not_true_eq_false, if_false, if_true, hw]
        rw [rsh_weight2 ha hb hc h1 h2]
      · simp only [hm, hm2, ne_eq, not_true_eq_false, not_false_eq_true, if_false, if_true]
    · simp only [hm, ne_eq, not_false_eq_true, if_true, if_false]


def rinArr2 (x : Arr Int) (g Cg H W : Nat) : Arr Int :=
  ⟨[1, 1, g, Cg, H, W], fun d => x.get (reshapeIdx x.shape [1, 1, g, Cg, H, W] d)⟩

def ainArr2 (x : Arr Int) (g Cg H W : Nat) (pad : PArg) : Arr Int :=
  match pad with
  | .none => rinArr2 x g Cg H W
  | _ => ⟨[1, 1, g, Cg, H + padVal pad + padVal pad, W + padVal pad + padVal pad],
          padGet (rinArr2 x g Cg H W) [0, 0, 0, 0, padVal pad, padVal pad]⟩

theorem convInput2_eq {x : Arr Int} {g Cg H W : Nat} (hx : x.shape = [1, g * Cg, H, W]) (hg : 0 < g) {pad : PArg} (hpad : IntForm pad) :
    convInput 2 x pad g = .ok (ainArr2 x g Cg H W pad) := by
  have hdiv : g * Cg / g = Cg := Nat.mul_div_cancel_left _ hg
  have hprod : prod x.shape = prod [1, 1, g, Cg, H, W] := by rw [hx]; simp only [prod]; ring
  have hre := reshapeV_some (a := x) (dst := [1, 1, g, Cg, H, W]) (by simp) hprod
  unfold convInput
  rw [hx, cri2, hdiv, hre]
  rcases hpad with rfl | ⟨p, rfl⟩
  · rfl
  · simp only [List.length_cons, List.length_nil, Nat.reduceAdd, Nat.zero_add, padV, cpad2]
    simp [ainArr2, padVal, padShape, rinArr2]

theorem ainArr2_shape {x : Arr Int} {g Cg H W : Nat} {pad : PArg} (hpad : IntForm pad) :
    (ainArr2 x g Cg H W pad).shape = [1, 1, g, Cg, H + 2 * padVal pad, W + 2 * padVal pad] := by
  rcases hpad with rfl | ⟨p, rfl⟩
  · simp [ainArr2, rinArr2, padVal]
  · simp [ainArr2, padVal]; omega

theorem padIdx_2d {g Cg H W p b c i j : Nat} (hb : b < g) (hc : c < Cg) :
    padIdx [0, 0, b, c, i, j] [1, 1, g, Cg, H, W] [0, 0, 0, 0, p, p]
      = if (i < p ∨ i ≥ H + p) ∨ (j < p ∨ j ≥ W + p) then none else some [0, 0, b, c, i - p, j - p] := by
  have h2 : ¬ g ≤ b := by omega
  have h3 : ¬ Cg ≤ c := by omega
  by_cases h : i < p ∨ i ≥ H + p <;> by_cases h' : j < p ∨ j ≥ W + p <;> simp [padIdx, h2, h3, h, h']

theorem ainArr2_get {x : Arr Int} {g Cg H W : Nat} (hx : x.shape = [1, g * Cg, H, W]) {pad : PArg} (hpad : IntForm pad)
    {b c i j : Nat} (hb : b < g) (hc : c < Cg) (hi : i < H + 2 * padVal pad) (hj : j < W + 2 * padVal pad) :
    (ainArr2 x g Cg H W pad).get [0, 0, b, c, i, j] = padRead2 x H W (padVal pad) (b * Cg + c) i j := by
  rcases hpad with rfl | ⟨p, rfl⟩
  · simp only [padVal, Nat.mul_zero, Nat.add_zero] at hi hj
    simp only [ainArr2, rinArr2, padRead2, padVal, hx, Nat.zero_le, true_and, Nat.add_zero, hi, hj, and_self, if_true, Nat.sub_zero]
    rw [rsh_input2 hb hc hi hj]
  · simp only [padVal] at hi hj
    simp only [ainArr2, padVal, padGet, padRead2, rinArr2, padIdx_2d hb hc]
    by_cases h : (p ≤ i ∧ i < H + p) ∧ (p ≤ j ∧ j < W + p)
    · have h1 : ¬ ((i < p ∨ i ≥ H + p) ∨ (j < p ∨ j ≥ W + p)) := by omega
      simp only [h1, if_false, h, and_self, if_true, hx]
      rw [rsh_input2 hb hc (by omega) (by omega)]
    · have h1 : ((i < p ∨ i ≥ H + p) ∨ (j < p ∨ j ≥ W + p)) := by omega
      simp only [h1, if_true, h, if_false]


theorem sw_idx6 (n0 n1 b c i j kw kh : Nat) :
    slidingWindowIdx 6 [-1, -2] [n0, n1, b, c, i, j, kw, kh] = [n0, n1, b, c, i + kh, j + kw] := by
  simp [slidingWindowIdx, slidingWindowIdx.go, posI]

theorem sw_idx5' (a b c z1 z2 kw kh : Nat) :
    slidingWindowIdx 5 [-1, -2] [a, b, c, z1, z2, kw, kh] = [a, b, c, z1 + kh, z2 + kw] := by
  simp [slidingWindowIdx, slidingWindowIdx.go, posI]

theorem merge8 (n a b i j c kw kh : Nat) : mergeIdx [7, 6, 3] 8 0 [n, a, b, i, j] [c, kw, kh] = [n, a, b, c, i, j, kw, kh] := by
  simp [mergeIdx]

theorem convCore2 {ain aw : Arr Int} {Og g Cg Hp Wp KHp KWp : Nat} (hain : ain.shape = [1, 1, g, Cg, Hp, Wp])
    (haw : aw.shape = [Og, g, Cg, KHp, KWp]) (hOg : 0 < Og) (hg : 0 < g) (hKH : 0 < KHp) (hKW : 0 < KWp) (hfH : KHp ≤ Hp) (hfW : KWp ≤ Wp) :
    ∃ rs, convCore 2 ain aw = some rs ∧ rs.shape = [1, Og * g, Hp - (KHp - 1), Wp - (KWp - 1)] ∧
      ∀ o i j, o < Og * g → i < Hp - (KHp - 1) → j < Wp - (KWp - 1) →
        rs.get [0, o, i, j] = sumTo Cg (fun c => sumTo KWp (fun kw => sumTo KHp (fun kh =>
          ain.get [0, 0, o % g, c, i + kh, j + kw] * aw.get [o / g, o % g, c, kh, kw]))) := by
  have e1 : KHp - (KHp - 1) = 1 := by omega
  have e2 : KWp - (KWp - 1) = 1 := by omega
  have h1 : max (Hp - (KHp - 1)) 1 = Hp - (KHp - 1) := by omega
  have h2 : max (Wp - (KWp - 1)) 1 = Wp - (KWp - 1) := by omega
  have h3 : max 1 Og = Og := by omega
  have swi : slidingWindowShape [1, 1, g, Cg, Hp, Wp] [KWp, KHp] [-1, -2] = [1, 1, g, Cg, Hp - (KHp - 1), Wp - (KWp - 1), KWp, KHp] := by
    simp [slidingWindowShape, posI]
  have sww : slidingWindowShape [Og, g, Cg, KHp, KWp] [KWp, KHp] [-1, -2] = [Og, g, Cg, 1, 1, KWp, KHp] := by
    simp [slidingWindowShape, posI, e1, e2]
  have hbs : bshape [1, 1, g, Cg, Hp - (KHp - 1), Wp - (KWp - 1), KWp, KHp] [Og, g, Cg, 1, 1, KWp, KHp]
      = some [1, Og, g, Cg, Hp - (KHp - 1), Wp - (KWp - 1), KWp, KHp] := by
    simp [bshape, bshapeRev, h1, h2, h3]
  unfold convCore
  simp only [haw, cks2, cwa2, csa2, slidingWindowV, hain, swi, sww, binop, hbs,
    Option.map_some, Option.bind_some, sumAxes, List.length_cons, List.length_nil, List.map_cons, List.map_nil]
  have hp7 : posI (0 + 1 + 1 + 1 + 1 + 1 + 1 + 1 + 1) (-1) = 7 := by decide
  have hp6 : posI (0 + 1 + 1 + 1 + 1 + 1 + 1 + 1 + 1) (-2) = 6 := by decide
  have hp3 : posI (0 + 1 + 1 + 1 + 1 + 1 + 1 + 1 + 1) (-5) = 3 := by decide
  have hrm : removeAxes [7, 6, 3] 0 [1, Og, g, Cg, Hp - (KHp - 1), Wp - (KWp - 1), KWp, KHp] = [1, Og, g, Hp - (KHp - 1), Wp - (KWp - 1)] := by
    simp [removeAxes]
  have hpk : pickAxes [7, 6, 3] 0 [1, Og, g, Cg, Hp - (KHp - 1), Wp - (KWp - 1), KWp, KHp] = [Cg, KWp, KHp] := by
    simp [pickAxes]
  simp only [hp7, hp6, hp3, hrm, hpk, crr2]
  rw [reshapeV_some (by simp) (by simp only [prod]; ring)]
  refine ⟨_, rfl, rfl, ?_⟩
  intro o i j ho hi hj
  simp only []
  rw [rsh_reduce2 hg ho hi hj, listSum_allIdx3]
  apply sumTo_congr; intro c hc
  apply sumTo_congr; intro kw hkw
  apply sumTo_congr; intro kh hkh
  have hb : o % g < g := Nat.mod_lt _ hg
  have ha : o / g < Og := (Nat.div_lt_iff_lt_mul hg).2 ho
  simp only [Nat.reduceAdd, Nat.zero_add, merge8, bIdx, List.length_cons, List.length_nil, Nat.sub_self, List.drop_zero, List.drop_succ_cons,
    List.zipWith_cons_cons, List.zipWith_nil_right, if_true, bsel hb, bsel hc, bsel hi, bsel hj, bsel hkw, bsel hkh, bsel ha, sw_idx6, sw_idx5', Nat.zero_add]


theorem convBias2 {rs : Arr Int} {O Ho Wo : Nat} (hrs : rs.shape = [1, O, Ho, Wo]) (hHo : 0 < Ho) (hWo : 0 < Wo) (bias : Option (Arr Int))
    (hb : ∀ b, bias = some b → b.shape = [O]) :
    ∃ ad, convBias 2 rs bias = some ad ∧ ad.shape = [1, O, Ho, Wo] ∧
      ∀ o i j, o < O → i < Ho → j < Wo → ad.get [0, o, i, j] = rs.get [0, o, i, j] + biasVal bias o := by
  cases bias with
  | none => exact ⟨rs, rfl, hrs, fun o i j _ _ _ => by simp [biasVal]⟩
  | some b =>
    have hbs := hb b rfl
    have h1 : max Ho 1 = Ho := by omega
    have h2 : max Wo 1 = Wo := by omega
    have hbsh : bshape [1, O, Ho, Wo] [O, 1, 1] = some [1, O, Ho, Wo] := by simp [bshape, bshapeRev, h1, h2]
    unfold convBias
    simp only [hbs, crb2]
    rw [reshapeV_some (by simp) (by rw [hbs]; simp only [prod])]
    simp only [Option.bind_some, binop, hrs, hbsh, Option.map_some]
    refine ⟨_, rfl, rfl, ?_⟩
    intro o i j ho hi hj
    simp only [biasVal, hbs, bIdx, List.length_cons, List.length_nil, Nat.reduceAdd, Nat.zero_add, Nat.sub_self, List.drop_zero,
      Nat.reduceSub, List.drop_succ_cons, List.zipWith_cons_cons, List.zipWith_nil_right, if_true, bsel ho, bsel hi, bsel hj,
      rsh_bias2 ho]

theorem convStride2 {ad : Arr Int} {O Ho Wo : Nat} (had : ad.shape = [1, O, Ho, Wo]) {stride : PArg} (hs : PosForm stride) :
    ∀ o i j, (convStride 2 ad stride).get [0, o, i, j] = ad.get [0, o, i * strideVal stride, j * strideVal stride] := by
  rcases hs with rfl | ⟨s, hs, rfl⟩
  · simp [convStride, strideVal]
  · simp [convStride, strideVal, sliceStepV, sliceStepIdx, convSteps, had]

/-- `Σ_{k'} [d ∣ k'] G k'` with the guard written as an `if` around an arbitrary body -/
theorem sumTo_dilate' (K d : Nat) (hK : 0 < K) (hd : 0 < d) (F : Nat → Nat → Int) :
    sumTo ((K - 1) * d + 1) (fun k' => if k' % d = 0 then F (k' / d) k' else 0) = sumTo K (fun k => F k (k * d)) := by
  obtain ⟨K', rfl⟩ : ∃ K', K = K' + 1 := ⟨K - 1, by omega⟩
  simpa using sumTo_dilate K' d hd F

theorem convnd2_eq_codeLoop {x w : Arr Int} {bias : Option (Arr Int)} {Og g Cg H W KH KW : Nat} {stride padding dilation : PArg}
    (hx : x.shape = [1, g * Cg, H, W]) (hw : w.shape = [Og * g, Cg, KH, KW]) (hb : ∀ b, bias = some b → b.shape = [Og * g])
    (hOg : 0 < Og) (hg : 0 < g) (hKH : 0 < KH) (hKW : 0 < KW) (hs : PosForm stride) (hp : IntForm padding) (hd : PosForm dilation)
    (hfH : (KH - 1) * dilV dilation + 1 ≤ H + 2 * padVal padding) (hfW : (KW - 1) * dilV dilation + 1 ≤ W + 2 * padVal padding) :
    ∃ r, convnd 2 x w bias stride padding dilation g = .ok r ∧
      r.shape = [1, Og * g, outSize H KH (strideVal stride) (padVal padding) (dilV dilation),
                 outSize W KW (strideVal stride) (padVal padding) (dilV dilation)] ∧
      ∀ o i j, o < Og * g → i < outSize H KH (strideVal stride) (padVal padding) (dilV dilation) →
        j < outSize W KW (strideVal stride) (padVal padding) (dilV dilation) →
        r.get [0, o, i, j] = conv2dLoop (grpCode g) x w bias H W Cg KH KW (strideVal stride) (padVal padding) (dilV dilation) o i j := by
  have hdp := dilV_pos hd
  have hsp := strideVal_pos hs
  obtain ⟨rs, hrs, hrss, hrsg⟩ := convCore2 (ain := ainArr2 x g Cg H W padding) (aw := awArr2 w Og g Cg KH KW dilation)
    (ainArr2_shape hp) (awArr2_shape hKH hKW hd) hOg hg (Nat.succ_pos _) (Nat.succ_pos _) hfH hfW
  obtain ⟨ad, had, hads, hadg⟩ := convBias2 hrss (by omega) (by omega) bias hb
  refine ⟨convStride 2 ad stride, ?_, ?_, ?_⟩
  · unfold convnd
    rw [convWeight2_eq hw hg, convInput2_eq hx hg hp]
    simp only [hrs, Option.bind_some, had]
  · rw [convStride2_shape hads hs, out_arith hsp hfH, out_arith hsp hfW]
  · intro o i j ho hi hj
    rw [convStride2 hads hs]
    have his : i * strideVal stride < H + 2 * padVal padding - ((KH - 1) * dilV dilation + 1 - 1) := by
      apply mul_lt_of_lt_ceil hsp; rw [out_arith hsp hfH]; exact hi
    have hjs : j * strideVal stride < W + 2 * padVal padding - ((KW - 1) * dilV dilation + 1 - 1) := by
      apply mul_lt_of_lt_ceil hsp; rw [out_arith hsp hfW]; exact hj
    rw [hadg o _ _ ho his hjs, hrsg o _ _ ho his hjs]
    unfold conv2dLoop
    congr 1
    apply sumTo_congr; intro c hc
    have hb' : o % g < g := Nat.mod_lt _ hg
    have ha' : o / g < Og := (Nat.div_lt_iff_lt_mul hg).2 ho
    have hog : o / g * g + o % g = o := by rw [Nat.mul_comm]; exact Nat.div_add_mod o g
    have step : ∀ kw, kw < (KW - 1) * dilV dilation + 1 → ∀ kh, kh < (KH - 1) * dilV dilation + 1 →
        (ainArr2 x g Cg H W padding).get [0, 0, o % g, c, i * strideVal stride + kh, j * strideVal stride + kw]
            * (awArr2 w Og g Cg KH KW dilation).get [o / g, o % g, c, kh, kw]
        = if kw % dilV dilation = 0 then
            (if kh % dilV dilation = 0 then
              padRead2 x H W (padVal padding) (grpCode g o * Cg + c) (i * strideVal stride + kh) (j * strideVal stride + kw)
                * w.get [o, c, kh / dilV dilation, kw / dilV dilation]
             else 0)
          else 0 := by
      intro kw hkw kh hkh
      rw [ainArr2_get hx hp hb' hc (by omega) (by omega), awArr2_get hw hKH hKW hd ha' hb' hc hkh hkw, hog]
      unfold grpCode
      split
      · split <;> simp
      · simp
    -- inner sums: guards out, then un-dilate kh; then un-dilate kw; then exchange the two kernel sums
    have inner : ∀ kw, kw < (KW - 1) * dilV dilation + 1 →
        sumTo ((KH - 1) * dilV dilation + 1) (fun kh =>
          (ainArr2 x g Cg H W padding).get [0, 0, o % g, c, i * strideVal stride + kh, j * strideVal stride + kw]
            * (awArr2 w Og g Cg KH KW dilation).get [o / g, o % g, c, kh, kw])
        = if kw % dilV dilation = 0 then
            sumTo KH (fun kh => padRead2 x H W (padVal padding) (grpCode g o * Cg + c) (i * strideVal stride + kh * dilV dilation) (j * strideVal stride + kw)
                * w.get [o, c, kh, kw / dilV dilation])
          else 0 := by
      intro kw hkw
      rw [sumTo_congr (fun kh hkh => step kw hkw kh hkh)]
      by_cases hm : kw % dilV dilation = 0
      · simp only [hm, if_true]
        exact sumTo_dilate' KH (dilV dilation) hKH hdp (fun k k' =>
          padRead2 x H W (padVal padding) (grpCode g o * Cg + c) (i * strideVal stride + k') (j * strideVal stride + kw) * w.get [o, c, k, kw / dilV dilation])
      · simp only [hm, if_false]
        exact sumTo_const_zero _
    rw [sumTo_congr inner]
    rw [sumTo_dilate' KW (dilV dilation) hKW hdp (fun k k' =>
      sumTo KH (fun kh => padRead2 x H W (padVal padding) (grpCode g o * Cg + c) (i * strideVal stride + kh * dilV dilation) (j * strideVal stride + k')
        * w.get [o, c, kh, k]))]
    exact sumTo_comm KW KH _


theorem conv2dLoop_congr_grp {grp grp' : Nat → Nat} {o : Nat} (h : grp o = grp' o) (x w : Arr Int) (bias : Option (Arr Int))
    (H W Cg KH KW s p d i j : Nat) : conv2dLoop grp x w bias H W Cg KH KW s p d o i j = conv2dLoop grp' x w bias H W Cg KH KW s p d o i j := by
  unfold conv2dLoop; rw [h]

end NmVerif.NN
