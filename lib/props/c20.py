"""C20 — array objects keep their invariants under resize / write / copy and writes through mutable views."""
import itertools, re
from runner import Case
from shapes import shapes, prod, fmt, all_idx

ID = 'C20'
LEVEL = 'proof'
RULE = ('operation sequences over {resize(shape), fill, write(index,v), copy} of length <= L on 12 array kinds (ndarray_t with dynamic / fixed / '
        'bounded shape and buffer, row and column major, hybrid_ndarray, dynamic_ndarray): every sequence of resize targets drawn from rank 1..3 '
        'shapes incl. dimension-changing and over-capacity ones (exhaustive over a fixed target set for length <= 3, random longer); after every '
        'step shape/strides/element count/contents are compared with the Lean state machine and checked against the invariants directly; '
        'mutable views: every index of every small shape. non-trivial = sequence contains a refused resize or a dimension change or a write')
EXHAUSTIVE = {'quick': False, 'thorough': False}
ANCHORS = {'NmVerif.NDObj.resize/accepts': 'array::ndarray_t::resize (ndarray.hpp), hybrid_ndarray::resize, dynamic_ndarray::resize',
           'NmVerif.NDObj.write/read?': 'base_ndarray_t::operator()', 'NmVerif.NDObj.init': 'ndarray_t() default constructor',
           'Driver.C20 mview': 'view::mutable_reshape / mutable_flatten / mutable_ref'}
MANIFEST = dict(
    text='Proof: the class invariant (element count = product of shape, strides match shape and layout, kind constraints) holds in EVERY reachable state of the array-object state machine (induction over arbitrary operation sequences), a refused resize leaves the state unchanged, an accepted one installs exactly the request and keeps the buffer prefix, distinct indices address distinct in-buffer cells, a write (also through a mutable indexing view) changes exactly the addressed element. The state machine is tied to ndarray_t / hybrid_ndarray / dynamic_ndarray by step-by-step differential runs of operation sequences on 12 kinds, plus direct invariant checks on the real objects.',
    note='Lean kernel + propext/Classical.choice/Quot.sound. The 15 shape-x-buffer kinds are abstracted to (shape kind, buffer kind, layout); constant-shape kinds have no resize; cast(kind)/cast(dtype) and mutable_slice are covered by correspondence of C09/C05 material only (listed under partial). Contents of cells created by a growing resize are unspecified by the property and not compared.',
    technique='Lean 4 invariant induction over operation histories + differential correspondence of operation sequences')
ASSUMPTIONS = ['cells created by a growing resize are not compared (std::vector zero-fills, static_vector keeps stale values)',
               'fixed_ndarray has no resize; its addressing is C01']
PARTIAL = ['cast(kind) / cast(dtype) preservation: not modelled in Lean (C09 kind matrix compares values across kinds)',
           'mutable_slice write-through: covered by mutable_view_write_exact only under the C05 in-bounds theorem; no separate correspondence run here']

KINDS = ['dd', 'ddc', 'fd6', 'fd6c', 'df2', 'df3c', 'bb', 'db3', 'b8d', 'ff', 'hyb', 'dyn']
COLMAJOR = {'ddc', 'fd6c', 'df3c'}


def harness_specs(tier):
    sp = [dict(name='h_c20', src='h_c20.cpp', flavour='fast'), dict(name='h_c20_san', src='h_c20.cpp', flavour='san-dbg')]
    return sp


def col_strides(s):
    r = s[::-1]
    st = [prod(r[k + 1:]) for k in range(len(r))]
    return st[::-1]


def row_strides(s):
    return [prod(s[k + 1:]) for k in range(len(s))]


def mk(kind, ops, h, tags=()):
    nt = True
    return Case('ndobj kind=%s ops=%s' % (kind, ';'.join(ops)), h, nontrivial=nt, tags=['ndobj', 'kind=' + kind] + list(tags))


def idx_of(s, k):
    out = []
    for e in reversed(s):
        out.append(k % e); k //= e
    return out[::-1]


def gen(tier, rng):
    targets = [[6], [2, 3], [3, 2], [1, 6], [2, 2], [4, 2], [2, 2, 2], [3, 3], [1, 2, 3], [8], [2], [3, 1, 2], [9], [1, 1]]
    hs = ['h_c20', 'h_c20_san']
    L = 3 if tier == 'quick' else 4
    n = 0
    for kind in KINDS:
        tg = targets if kind not in ('hyb',) else [t for t in targets if len(t) == 2]
        for ln in range(1, L + 1):
            seqs = list(itertools.product(range(len(tg)), repeat=ln))
            cap = (200 if ln <= 2 else 120) if tier == 'quick' else 1500   # all ordered pairs of targets are always covered
            if len(seqs) > cap:
                seqs = rng.sample(seqs, cap)
            for sq in seqs:
                if kind == 'hyb' and prod(tg[sq[0]]) > 8:
                    continue      # start legacy classes from an accepted resize (their default state is not modelled)
                ops = []
                for j, ti in enumerate(sq):
                    t = tg[ti]
                    ops.append('resize:' + fmt(t))
                    ops.append('fill:%d' % (10 * (j + 1)))
                # a write at a pseudo-random in-shape index of the last *accepted* target is unknowable here, so write
                # only when the last target is surely accepted: dynamic kinds
                if kind in ('dd', 'ddc', 'dyn'):
                    t = tg[sq[-1]]
                    k = (n * 7) % prod(t)
                    ops.append('write:%s:%d' % (fmt(idx_of(t, k)), 99))
                    ops.append('copy' if kind != 'dyn' else 'fill:1')
                elif kind not in ('hyb',):
                    ops.append('copy')
                if kind not in ('hyb', 'dyn'):
                    ops.append('probe')
                n += 1
                yield mk(kind, ops, hs[n % 2], tags=['len=%d' % ln])
    # writes at every index for kinds where the target is accepted from the initial state
    for kind, tg in [('dd', [[2, 3], [3, 2, 2], [4]]), ('ddc', [[2, 3], [3, 2, 2], [2, 2]]), ('fd6', [[2, 3], [6], [1, 2, 3]]), ('fd6c', [[2, 3], [3, 2]]),
                     ('df2', [[2, 3], [3, 1]]), ('df3c', [[2, 3, 2], [2, 1, 3]]), ('bb', [[2, 3], [2, 2, 2]]), ('ff', [[2, 3], [3, 2]]), ('hyb', [[2, 3], [4, 2]]), ('dyn', [[2, 3], [2, 2, 2]])]:
        for t in tg:
            for i in all_idx(t):
                n += 1
                yield mk(kind, ['resize:' + fmt(t), 'fill:1', 'write:%s:%d' % (fmt(i), 77)], hs[n % 2], tags=['write-every-index'])
    # mutable views: every index of every small shape (and every reshape target)
    E = 3 if tier == 'quick' else 4
    for s in shapes(3, E, min_rank=1):
        N = prod(s)
        for i in all_idx(s):
            n += 1
            yield Case('mview kind=ref shape=%s idx=%s v=-7' % (fmt(s), fmt(i)), hs[n % 2], tags=['mview', 'ref'],
                       oracle='ok data=' + fmt([(-7 if k == sum(a * b for a, b in zip(i, row_strides(s))) else k) for k in range(N)]))
        for k in range(N):
            n += 1
            yield Case('mview kind=flatten shape=%s idx=%d v=-7' % (fmt(s), k), hs[n % 2], tags=['mview', 'flatten'],
                       oracle='ok data=' + fmt([(-7 if j == k else j) for j in range(N)]))
        for to in shapes(3, E, min_rank=1):
            if prod(to) != N or to == s:
                continue
            for i in all_idx(to)[::max(1, N // 4)]:
                n += 1
                k = sum(a * b for a, b in zip(i, row_strides(to)))
                yield Case('mview kind=reshape shape=%s to=%s idx=%s v=-7' % (fmt(s), fmt(to), fmt(i)), hs[n % 2], tags=['mview', 'reshape'],
                           oracle='ok data=' + fmt([(-7 if j == k else j) for j in range(N)]))


SEG = re.compile(r'r=(\d) shape=(\S+) strides=(\S+) n=(\d+) data=(\S+)')


def parse_list(s):
    return [] if s == '[]' else [int(x) for x in s.split(',')]


def post(cases, tier):
    """direct invariant checks on the IMPL answers (independent of the Lean model)"""
    import runner
    bad = []
    colmajor_stride_mismatch = []
    for c in cases:
        if not c.req.startswith('ndobj') or not (c.impl or '').startswith('ok '):
            continue
        kind = re.search(r'kind=(\S+)', c.req).group(1)
        ops = re.search(r'ops=(\S+)', c.req).group(1).split(';')
        segs = c.impl[3:].split(' | ')
        prev = None
        for op, seg in zip(ops, segs):
            m = SEG.match(seg)
            if not m:
                bad.append((c, 'unparsable segment ' + seg)); break
            r, shape, strides, n, data = int(m.group(1)), parse_list(m.group(2)), parse_list(m.group(3)), int(m.group(4)), parse_list(m.group(5))
            if n != prod(shape):
                bad.append((c, 'element count %d != product of shape %s after %s' % (n, shape, op)))
            want = col_strides(shape) if kind in COLMAJOR else row_strides(shape)
            if strides != want:
                if kind in COLMAJOR and strides == row_strides(shape):
                    if not colmajor_stride_mismatch or colmajor_stride_mismatch[-1] is not c:
                        colmajor_stride_mismatch.append(c)
                else:
                    bad.append((c, 'strides %s do not match shape %s / layout after %s' % (strides, shape, op)))
            if op.startswith('resize:'):
                req = parse_list(op.split(':')[1])
                if r == 1 and shape != req:
                    bad.append((c, 'accepted resize to %s left shape %s' % (req, shape)))
                if r == 0 and prev is not None and (shape, strides, n) != prev[:3]:
                    bad.append((c, 'refused resize to %s changed the array: %s -> %s' % (req, prev[:3], (shape, strides, n))))
                if r == 0 and prev is not None and prev[3] is not None and data != prev[3]:
                    bad.append((c, 'refused resize to %s changed the contents' % req))
            full = data if len(data) == n else None
            prev = (shape, strides, n, full)
    out = []
    known = [e for e in runner.load_known(ID) if e.get('predicate') == 'colmajor_reported_strides']
    if colmajor_stride_mismatch:
        c = min(colmajor_stride_mismatch, key=lambda c: len(c.req))
        if known:
            print('KNOWN-FINDING: property=C20 id=%s site=%s class="%s" cases=%d e.g. "%s" impl="%s"' % (
                known[0]['id'], known[0].get('call_site'), known[0].get('class'), len(colmajor_stride_mismatch), c.req, c.impl[:120]))
        else:
            out.append(('property-fails', 'strides() of a column-major array does not match its layout: %s -> %s' % (c.req, c.impl[:200]),
                        {'cases': [{'req': c.req, 'harness': c.harness, 'impl_answer': c.impl}]}, False))
    if bad:
        c, why = min(bad, key=lambda t: len(t[0].req))
        out.append(('property-fails', 'invariant broken on the real object: %s (%d cases), e.g. %s -> %s' % (why, len(bad), c.req, c.impl[:300]),
                    {'cases': [{'req': b[0].req, 'harness': b[0].harness, 'impl_answer': b[0].impl, 'why': b[1], 'model': b[0].model, 'dom': True} for b in bad[:20]]}, False))
    return out
