// C14 harness (d): compositions f * g in which g's result is only VALIDATED AT RUN TIME — an nmtools_maybe<view> (reshape /
// broadcast_to / expand_dims / moveaxis / repeat with run-time arguments, succeeding and failing instances) — and f is a functor
// that CARRIES ATTRIBUTES (parametrised unary ufuncs with non-default run-time parameters, reductions / accumulations with
// axis / dtype / initial / keepdims, indexing functors, norms), also with only a prefix of its attributes bound (the others
// defaulted).  The maybe operand reaches the VIEW FUNCTION of f (view::unary_ufunc, view::reduce, view::transpose, ...), whose
// own maybe branch has to forward every attribute.
//   c14_mb f=<functor> g=<functor> shapes=<s0[;s1]> <attributes of g: gto= | gaxis= | gsrc= gdst= | gr= gaxis=> <attributes of f>
//     -> ok shape=<> data=<view_f(unwrap(view_g(a,..)), attributes of f), evaluated> forms=<call forms tried> agree=<equal to it, bit-exact>
//     -> nothing forms=<n> agree=<forms that are Nothing as well>         when view_g(a,..) is Nothing
//   call forms: (f*g)(a) ; (f*g)()(a) ; and when g succeeds also f(g(a)), f(view_g(a)) [a maybe operand given to the functor itself]
//   and view_f(view_g(a), attributes) [the view function called on the maybe operand]
//   c14_mbcall f=<binary functor> g=.. shapes=<s0;s1> .. pos=<0|1>: f(view_g(a), b) resp. f(b, view_g(a)), all operands at once
// One source, several TUs (-DC14_MB_GROUP=n).
#include "nmtools/array/functional.hpp"
#include "nmtools/array/functional/transpose.hpp"
#include "nmtools/array/functional/flip.hpp"
#include "nmtools/array/functional/tile.hpp"
#include "nmtools/array/functional/repeat.hpp"
#include "nmtools/array/functional/expand_dims.hpp"
#include "nmtools/array/functional/squeeze.hpp"
#include "nmtools/array/functional/flatten.hpp"
#include "nmtools/array/functional/moveaxis.hpp"
#include "nmtools/array/functional/reshape.hpp"
#include "nmtools/array/functional/broadcast_to.hpp"
#include "nmtools/array/functional/concatenate.hpp"
#include "nmtools/array/functional/ufuncs/add.hpp"
#include "nmtools/array/functional/ufuncs/multiply.hpp"
#include "nmtools/array/functional/ufuncs/subtract.hpp"
#include "nmtools/array/functional/ufuncs/maximum.hpp"
#include "nmtools/array/functional/ufuncs/negative.hpp"
#include "nmtools/array/functional/sum.hpp"
#include "nmtools/array/functional/prod.hpp"
#include "nmtools/array/functional/cumsum.hpp"
#include "nmtools/array/functional/cumprod.hpp"
#include "nmtools/array/functional/mean.hpp"
#include "nmtools/array/functional/var.hpp"
#include "nmtools/array/functional/stddev.hpp"
#include "nmtools/array/functional/softmax.hpp"
#include "nmtools/array/functional/softmin.hpp"
#include "nmtools/array/functional/activations/leaky_relu.hpp"
#include "nmtools/array/functional/activations/prelu.hpp"
#include "nmtools/array/functional/activations/elu.hpp"
#include "nmtools/array/functional/activations/celu.hpp"
#include "nmtools/array/functional/activations/hardtanh.hpp"
#include "nmtools/array/functional/activations/softplus.hpp"
#include "nmtools/array/functional/activations/hardshrink.hpp"
#include "nmtools/array/functional/activations/softshrink.hpp"
#include "nmtools/array/functional/activations/relu.hpp"
#include "nmtools/array/eval.hpp"
#include "nmtools/array/index/ndindex.hpp"
#include "nmtools/array/ndarray.hpp"
#include "proto.hpp"
#include <vector>
#include <string>
#include <cstring>

namespace nm = nmtools; namespace na = nmtools::array; namespace fn = nmtools::functional;
namespace view = nmtools::view; namespace meta = nmtools::meta; namespace ix = nmtools::index;
using namespace proto;

#ifndef C14_MB_GROUP
#error "C14_MB_GROUP not set"
#endif

template <typename T> using arr_of = na::ndarray_t<std::vector<T>, std::vector<size_t>>;

template <typename T> static arr_of<T> make_leaf(const uvec& shape, size_t j, const std::string& data) {
    arr_of<T> a; a.resize(shape);
    size_t n = 1; for (auto e : shape) n *= e;
    for (size_t k = 0; k < n; k++) {
        if (data == "float") a.data()[k] = (T)(0.5 * (double)((k * 7 + 3 * j) % 13) - 3.0);     // multiples of 0.5 in [-3, 3]
        else if (data == "small") a.data()[k] = (T)(((k * 5 + 2 * j) % 7) + 1);                   // 1..7 (products stay small)
        else a.data()[k] = (T)(k + 1000 * j);
    }
    return a;
}
template <typename T> static std::vector<arr_of<T>> make_leaves(const Args& a) {
    std::vector<arr_of<T>> l; std::string data = has(a, "data") ? get(a, "data") : "prov";
    auto shapes = int_lists(a, "shapes");
    for (size_t j = 0; j < shapes.size(); j++) { uvec s; for (auto v : shapes[j]) s.push_back((size_t)v); l.push_back(make_leaf<T>(s, j, data)); }
    return l;
}

struct evald { bool ok = false; uvec shape; std::vector<double> data; };
template <typename T> static void dump(const T& x, evald& e) {
    auto s = nm::shape(x);
    for (size_t i = 0; i < (size_t)nm::len(s); i++) e.shape.push_back((size_t)nm::at(s, i));
    size_t n = 1; for (auto d : e.shape) n *= d;
    auto nd = ix::ndindex(e.shape);
    for (size_t k = 0; k < n; k++) e.data.push_back((double)nm::apply_at(x, nd[k]));
    e.ok = true;
}
template <typename V> static evald evaluate(const V& v) {
    evald e;
    if constexpr (meta::is_maybe_v<V>) { if (!nm::has_value(v)) return e; return evaluate(*v); }
    else {
        auto r = na::eval(v);
        if constexpr (meta::is_maybe_v<decltype(r)>) { if (!nm::has_value(r)) return e; auto u = nm::unwrap(r); dump(u, e); }
        else if constexpr (meta::is_num_v<decltype(r)>) { e.ok = true; e.data.push_back((double)r); }
        else dump(r, e);
        return e;
    }
}
static bool same(const evald& a, const evald& b) {
    if (a.ok != b.ok || a.shape != b.shape || a.data.size() != b.data.size()) return false;
    return a.data.empty() || std::memcmp(a.data.data(), b.data.data(), a.data.size() * sizeof(double)) == 0;   // bit-exact
}
static std::string fmtd(const std::vector<double>& d) {
    if (d.empty()) return "[]";
    std::string s; char buf[64];
    for (size_t i = 0; i < d.size(); i++) { snprintf(buf, sizeof buf, "%.12g", d[i]); s += (i ? "," : ""); s += buf; }
    return s;
}
static std::string report(const evald& direct, const std::vector<evald>& forms) {
    size_t agree = 0; for (auto& f : forms) agree += same(direct, f);
    std::string tail = " forms=" + std::to_string(forms.size()) + " agree=" + std::to_string(agree);
    if (!direct.ok) return "nothing" + tail;
    return "ok shape=" + fmt(direct.shape) + " data=" + fmtd(direct.data) + tail;
}

// gb: g with its attributes bound; gv: view_g(a, ..) (a maybe); fb: f with its attributes bound; direct(x) = view_f(x, attributes of f)
template <typename A, typename GB, typename GV, typename FB, typename D>
static std::string mb1(const A& a, const GB& gb, const GV& gv, const FB& fb, const D& direct) {
    static_assert(meta::is_maybe_v<GV>, "g must return a maybe");
    std::vector<evald> r;
    auto comp = fb * gb;
    r.push_back(evaluate(comp(a)));
    r.push_back(evaluate(comp()(a)));
    evald d;
    if (nm::has_value(gv)) {
        d = evaluate(direct(nm::unwrap(gv)));
        r.push_back(evaluate(fb(gb(a))));
        r.push_back(evaluate(fb(gv)));
        r.push_back(evaluate(direct(gv)));
    }
    return report(d, r);
}
// binary f: the remaining operand b is passed on behind the result of g
template <typename A, typename GB, typename GV, typename FB, typename D>
static std::string mb2(const A& a, const A& b, const GB& gb, const GV& gv, const FB& fb, const D& direct) {
    static_assert(meta::is_maybe_v<GV>, "g must return a maybe");
    std::vector<evald> r;
    auto comp = fb * gb;
    r.push_back(evaluate(comp(a, b)));
    r.push_back(evaluate(comp(a)(b)));
    evald d;
    if (nm::has_value(gv)) {
        d = evaluate(direct(nm::unwrap(gv), b));
        r.push_back(evaluate(fb(gv)(b)));
        r.push_back(evaluate(direct(gv, b)));
    }
    return report(d, r);
}

// c14_mbcall: a BINARY functor called with all operands at once, one of them a maybe<view> that has a value (pos = its position)
//   -> ok shape=<> data=<>   |  curried arity=<n> when the call returns a functor instead of an array
template <typename T> struct is_functor : std::false_type {};
template <typename F, typename O, typename A> struct is_functor<fn::functor_t<F, O, A>> : std::true_type {};
template <typename R> static std::string show_call(const R& r) {
    if constexpr (is_functor<R>::value) return "curried arity=" + std::to_string((int)R::arity);
    else { auto e = evaluate(r); if (!e.ok) return "nothing"; return "ok shape=" + fmt(e.shape) + " data=" + fmtd(e.data); }
}
static std::string g_op;
template <typename A, typename GV, typename FB>
static std::string call2(const A& b, const GV& gv, const FB& fb, int pos) {
    if (!nm::has_value(gv)) return "bad-args";
    return pos == 0 ? show_call(fb(gv, b)) : show_call(fb(b, gv));
}

#define AXIS ((int)integer(a,"axis"))
#define Q(i) ((elem_t)(0.25 * (double)pq.at(i)))
#define F1(nm_, fb, direct) if (fname == nm_) return mb1(L0, gb, gv, fb, [&](const auto& x){ return direct; });
#define F2(nm_, fb, direct) if (fname == nm_ && g_op == "c14_mbcall") return call2(L.at(1), gv, fb, (int)integer(a, "pos")); \
    if (fname == nm_) return mb2(L0, L.at(1), gb, gv, fb, [&](const auto& x, const auto& y){ return direct; });
#define L0 L.at(0)

template <typename elem_t, typename GB, typename GV>
static std::string with_g(const std::string& fname, const Args& a, const std::vector<arr_of<elem_t>>& L, const GB& gb, const GV& gv) {
    auto pq = has(a, "pq") ? intsi(a, "pq") : std::vector<int>{};
    (void)pq;
#if C14_MB_GROUP == 1
    // parametrised unary ufuncs: the run-time parameters of the op are the attributes of the functor; `<name>1`: only the first bound
    F1("leaky_relu", fn::leaky_relu[Q(0)],       view::leaky_relu(x, Q(0)))
    F1("prelu",      fn::prelu[Q(0)],            view::prelu(x, Q(0)))
    F1("elu",        fn::elu[Q(0)],              view::elu(x, Q(0)))
    F1("celu",       fn::celu[Q(0)],             view::celu(x, Q(0)))
    F1("hardtanh",   fn::hardtanh[Q(0)][Q(1)],   view::hardtanh(x, Q(0), Q(1)))
    F1("hardtanh1",  fn::hardtanh[Q(0)],         view::hardtanh(x, Q(0)))
    F1("softplus",   fn::softplus[Q(0)][Q(1)],   view::softplus(x, Q(0), Q(1)))
    F1("softplus1",  fn::softplus[Q(0)],         view::softplus(x, Q(0)))
    F1("hardshrink", fn::hardshrink[Q(0)],       view::hardshrink(x, Q(0)))
    F1("softshrink", fn::softshrink[Q(0)],       view::softshrink(x, Q(0)))
    // attribute-free / default attributes (the unaffected neighbours)
    F1("relu",       fn::relu,                   view::relu(x))
    F1("leaky_relu0", fn::leaky_relu,            view::leaky_relu(x))
#elif C14_MB_GROUP == 2
    // reductions / accumulations: axis, dtype, initial, keepdims
    elem_t init = has(a, "init") ? (elem_t)integer(a, "init") : (elem_t)0;
    F1("reduce_add",       fn::reduce_add[AXIS],                                  view::reduce_add(x, AXIS))
    F1("reduce_add_init",  fn::reduce_add[AXIS][nm::None][init],                  view::reduce_add(x, AXIS, nm::None, init))
    F1("reduce_add_keep",  fn::reduce_add[AXIS][nm::None][nm::None][nm::True],    view::reduce_add(x, AXIS, nm::None, nm::None, nm::True))
    F1("reduce_add_init_keep", fn::reduce_add[AXIS][nm::None][init][nm::True],    view::reduce_add(x, AXIS, nm::None, init, nm::True))
    F1("reduce_maximum",   fn::reduce_maximum[AXIS],                              view::reduce_maximum(x, AXIS))
    F1("reduce_maximum_init_keep", fn::reduce_maximum[AXIS][nm::None][init][nm::True], view::reduce_maximum(x, AXIS, nm::None, init, nm::True))
    F1("reduce_multiply_init", fn::reduce_multiply[AXIS][nm::None][init],         view::reduce_multiply(x, AXIS, nm::None, init))
    F1("accumulate_add",   fn::accumulate_add[AXIS],                              view::accumulate_add(x, AXIS))
    F1("sum",              fn::sum[AXIS],                                         view::sum(x, AXIS))
    F1("sum_init_keep",    fn::sum[AXIS][nm::None][init][nm::True],               view::sum(x, AXIS, nm::None, init, nm::True))
    F1("prod",             fn::prod[AXIS],                                        view::prod(x, AXIS))
    F1("cumsum",           fn::cumsum[AXIS],                                      view::cumsum(x, AXIS))
    F1("cumprod",          fn::cumprod[AXIS],                                     view::cumprod(x, AXIS))
#elif C14_MB_GROUP == 3
    // indexing functors
    { auto axes = has(a,"axes") ? intsi(a,"axes") : std::vector<int>{};
      F1("transpose",   fn::transpose[axes],          view::transpose(x, axes)) }
    // view::flip over a maybe operand does not compile (dim of a maybe in index::flip): not covered
    { auto reps = has(a,"reps") ? nats(a,"reps") : uvec{};
      F1("tile",        fn::tile[reps],               view::tile(x, reps)) }
    if (fname == "repeat") { size_t r = (size_t)integer(a,"r"); int axis = AXIS;
      F1("repeat",      fn::repeat[r][axis],          view::repeat(x, r, axis)) }
    // view::expand_dims over a maybe operand does not compile either (dim of a maybe in index::expand_dims)
    if (fname == "moveaxis") { int s = (int)integer(a,"src"), d = (int)integer(a,"dst");
      F1("moveaxis",    fn::moveaxis[s][d],           view::moveaxis(x, s, d)) }
    { auto to = has(a,"to") ? intsi(a,"to") : std::vector<int>{};
      F1("reshape",     fn::reshape[to],              view::reshape(x, to)) }
    { auto to = has(a,"to") ? nats(a,"to") : uvec{};
      F1("broadcast_to",fn::broadcast_to[to],         view::broadcast_to(x, to)) }
    F1("flatten",     fn::flatten,                  view::flatten(x))
    F1("negative",    fn::negative,                 view::negative(x))
    // binary functors: the other operand is passed on behind the maybe result
    F2("add",         fn::add,                      view::add(x, y))
    F2("subtract",    fn::subtract,                 view::subtract(x, y))
    F2("concatenate", fn::concatenate[AXIS],        view::concatenate(x, y, AXIS))
#elif C14_MB_GROUP == 4
    // norms (floating point)
    F1("mean",        fn::mean[AXIS],               view::mean(x, AXIS))
    F1("var",         fn::var[AXIS],                view::var(x, AXIS))
    F1("stddev",      fn::stddev[AXIS],             view::stddev(x, AXIS))
    F1("softmax",     fn::softmax[AXIS],            view::softmax(x, AXIS))
    F1("softmin",     fn::softmin[AXIS],            view::softmin(x, AXIS))
#endif
    return "unknown-name";
}

template <typename elem_t>
static std::string with_leaves(const Args& a) {
    auto L = make_leaves<elem_t>(a);
    auto fname = get(a, "f"), gname = get(a, "g");
    // g: a functor whose view validates its arguments at run time
    if (gname == "reshape")      { auto to = intsi(a, "gto");  return with_g<elem_t>(fname, a, L, fn::reshape[to],      view::reshape(L0, to)); }
    if (gname == "broadcast_to") { auto to = nats(a, "gto");   return with_g<elem_t>(fname, a, L, fn::broadcast_to[to], view::broadcast_to(L0, to)); }
    if (gname == "expand_dims")  { int ax = (int)integer(a, "gaxis"); return with_g<elem_t>(fname, a, L, fn::expand_dims[ax], view::expand_dims(L0, ax)); }
    if (gname == "moveaxis")     { int s = (int)integer(a, "gsrc"), d = (int)integer(a, "gdst");
                                   return with_g<elem_t>(fname, a, L, fn::moveaxis[s][d], view::moveaxis(L0, s, d)); }
    return "unknown-name";
}

std::string handle(const std::string& op, const Args& a) {
    if (op != "c14_mb" && op != "c14_mbcall") return "unknown-op";
    g_op = op;
#if C14_MB_GROUP == 1
    return with_leaves<float>(a);
#elif C14_MB_GROUP == 4
    return with_leaves<double>(a);
#else
    return with_leaves<int>(a);
#endif
}
