import NmVerif.Lemmas.LinalgMatmul
import NmVerif.Lemmas.LinalgMatmulV2
import NmVerif.Lemmas.LinalgDot
import NmVerif.Lemmas.LinalgTensordot
import NmVerif.Lemmas.LinalgRefusal
/-
  The views with the contracted-extent validation of fix C15-contraction-extent (`matmulV2C`, `innerC`, `vecdotC`,
  `tensordotIntC`, `tensordotAxesC` = pipeline, then the check): on the operands NumPy accepts they are the pipelines
  (so the `…_eq_spec` theorems carry over), and they answer a value EXACTLY on the operands NumPy accepts.
-/
namespace NmVerif
open NmVerif.MB
open Linalg

/-! ### matmulv2 -/

theorem matmulV2C_eq_spec (sa sb dst : Shape) (ha : 1 ≤ sa.length) (hb : 1 ≤ sb.length) (hpa : Pos sa) (hpb : Pos sb)
    (hacc : specMatmulShape sa sb = some dst) :
    ∃ r, matmulV2C sa sb = some r ∧ r.shape = dst ∧ ∀ d, InShape d dst → r.get d = specMatmulTerms sa sb d := by
  obtain ⟨r, hr, hsh, hget⟩ := matmulV2_eq_spec sa sb dst ha hb hpa hpb hacc
  refine ⟨r, ?_, hsh, hget⟩
  unfold matmulV2C
  rw [hr, shapeMatmul_eq_spec sa sb ha hb, hacc]
  rfl

theorem matmulV2C_isSome_iff (sa sb : Shape) (ha : 1 ≤ sa.length) (hb : 1 ≤ sb.length) (hpa : Pos sa) (hpb : Pos sb) :
    (matmulV2C sa sb).isSome ↔ (specMatmulShape sa sb).isSome := by
  constructor
  · intro h
    unfold matmulV2C at h
    cases hp : matmulV2 sa sb with
    | none => simp [hp] at h
    | some r =>
      rw [hp, shapeMatmul_eq_spec sa sb ha hb] at h
      simp only [Option.bind_some] at h
      split at h
      · assumption
      · simp at h
  · intro h
    obtain ⟨dst, hd⟩ := Option.isSome_iff_exists.1 h
    obtain ⟨r, hr, -, -⟩ := matmulV2C_eq_spec sa sb dst ha hb hpa hpb hd
    simp [hr]

/-! ### inner / vecdot -/

theorem lastAligned_append_one (X Y : Shape) (k k' : Nat) : lastAligned (X ++ [k]) (Y ++ [k']) = decide (k = k') := by
  simp only [lastAligned, List.getLast?_append, List.getLast?_singleton, Option.some_or, List.length_append,
    List.length_cons, List.length_nil]
  by_cases e : k = k' <;> simp [e]

theorem specInner_isSome_iff (X Y : Shape) (k k' : Nat) : (specInner (X ++ [k]) (Y ++ [k'])).isSome ↔ k = k' := by
  unfold specInner
  simp only [List.getLast?_append, List.getLast?_singleton, Option.some_or]
  by_cases e : k = k' <;> simp [e]

theorem innerC_eq_spec (sa sb : Shape) (s : Arr (List Term)) (ha : 1 ≤ sa.length) (hb : 1 ≤ sb.length) (hpb : Pos sb)
    (hacc : specInner sa sb = some s) :
    ∃ r, innerC sa sb = some r ∧ r.shape = s.shape ∧ ∀ d, InShape d s.shape → r.get d = s.get d := by
  obtain ⟨r, hr, hsh, hget⟩ := inner_eq_spec sa sb s ha hb hpb hacc
  refine ⟨r, ?_, hsh, hget⟩
  obtain ⟨X, k, rfl⟩ := exists_append_one sa ha
  obtain ⟨Y, k', rfl⟩ := exists_append_one sb hb
  have hk : k = k' := (specInner_isSome_iff X Y k k').1 (by rw [hacc]; rfl)
  unfold innerC
  rw [hr, lastAligned_append_one]
  simp [hk]

theorem innerC_isSome_iff (sa sb : Shape) (ha : 1 ≤ sa.length) (hb : 1 ≤ sb.length) (hpb : Pos sb) :
    (innerC sa sb).isSome ↔ (specInner sa sb).isSome := by
  constructor
  · intro h
    obtain ⟨X, k, rfl⟩ := exists_append_one sa ha
    obtain ⟨Y, k', rfl⟩ := exists_append_one sb hb
    rw [specInner_isSome_iff]
    unfold innerC at h
    cases hp : inner (X ++ [k]) (Y ++ [k']) with
    | none => simp [hp] at h
    | some r =>
      rw [hp, lastAligned_append_one] at h
      simp only [Option.bind_some] at h
      by_cases e : k = k'
      · exact e
      · simp [e] at h
  · intro h
    obtain ⟨s, hs⟩ := Option.isSome_iff_exists.1 h
    obtain ⟨r, hr, -, -⟩ := innerC_eq_spec sa sb s ha hb hpb hs
    simp [hr]

theorem specVecdot_isSome_iff (X Y : Shape) (k k' : Nat) :
    (specVecdot (X ++ [k]) (Y ++ [k'])).isSome ↔ k = k' ∧ (broadcastShape X Y).isSome := by
  unfold specVecdot
  simp only [List.getLast?_append, List.getLast?_singleton, Option.some_or, List.length_append, List.length_cons,
    List.length_nil, Nat.zero_add, Nat.add_sub_cancel, List.take_left']
  by_cases e : k = k'
  · simp [e]
  · simp [e]

theorem vecdotC_eq_spec (sa sb : Shape) (s : Arr (List Term)) (ha : 1 ≤ sa.length) (hb : 1 ≤ sb.length)
    (hacc : specVecdot sa sb = some s) :
    ∃ r, vecdotC sa sb = some r ∧ r.shape = s.shape ∧ ∀ d, InShape d s.shape → r.get d = s.get d := by
  obtain ⟨r, hr, hsh, hget⟩ := vecdot_eq_spec sa sb s ha hb hacc
  refine ⟨r, ?_, hsh, hget⟩
  obtain ⟨X, k, rfl⟩ := exists_append_one sa ha
  obtain ⟨Y, k', rfl⟩ := exists_append_one sb hb
  have hk : k = k' := ((specVecdot_isSome_iff X Y k k').1 (by rw [hacc]; rfl)).1
  unfold vecdotC
  rw [hr, lastAligned_append_one]
  simp [hk]

theorem vecdotC_isSome_iff (sa sb : Shape) (ha : 1 ≤ sa.length) (hb : 1 ≤ sb.length) :
    (vecdotC sa sb).isSome ↔ (specVecdot sa sb).isSome := by
  constructor
  · intro h
    obtain ⟨X, k, rfl⟩ := exists_append_one sa ha
    obtain ⟨Y, k', rfl⟩ := exists_append_one sb hb
    rw [specVecdot_isSome_iff]
    unfold vecdotC at h
    cases hp : vecdot (X ++ [k]) (Y ++ [k']) with
    | none => simp [hp] at h
    | some r =>
      rw [hp, lastAligned_append_one] at h
      simp only [Option.bind_some] at h
      have e : k = k' := by
        by_cases e : k = k'
        · exact e
        · simp [e] at h
      refine ⟨e, ?_⟩
      -- the multiply of the pipeline broadcast the full shapes, hence the leading parts
      unfold vecdot mulT bcast2 at hp
      simp only [ident, Option.bind_eq_bind] at hp
      rw [broadcastShape_append_one] at hp
      subst e
      rw [bc1_self] at hp
      cases hb : broadcastShape X Y with
      | none => simp [hb] at hp
      | some bs => rfl
  · intro h
    obtain ⟨s, hs⟩ := Option.isSome_iff_exists.1 h
    obtain ⟨r, hr, -, -⟩ := vecdotC_eq_spec sa sb s ha hb hs
    simp [hr]

/-! ### tensordot -/

theorem tensordotAligned_of (sa sb lt rt FA FB CA CB : List Nat)
    (hta : lt.mapM (fun k => sa[k]?) = some (FA ++ CA)) (htb : rt.mapM (fun k => sb[k]?) = some (FB ++ CB))
    (hl : CA.length = CB.length) :
    tensordotAligned sa sb lt rt CA.length = decide (CA = CB) := by
  unfold tensordotAligned
  rw [hta, htb]
  have e1 : (FA ++ CA).length - CA.length = FA.length := by simp
  have e2 : (FB ++ CB).length - CA.length = FB.length := by simp [hl]
  simp only [e1, e2, List.drop_left']
  have h1 : decide (CA.length ≤ (FA ++ CA).length) = true := by simp
  have h2 : decide (CA.length ≤ (FB ++ CB).length) = true := by simp [hl]
  rw [h1, h2]
  by_cases e : CA = CB <;> simp [e]

theorem tensordotCoreC_of {sa sb lt rt : List Nat} {n : Nat} {r : Arr (List Term)}
    (h : tensordotCore sa sb lt rt n = some r) (ha : tensordotAligned sa sb lt rt n = true) :
    tensordotCoreC sa sb lt rt n = some r := by
  unfold tensordotCoreC; rw [h]; simp [ha]

theorem tensordotCoreC_some {sa sb lt rt : List Nat} {n : Nat} (h : (tensordotCoreC sa sb lt rt n).isSome) :
    tensordotAligned sa sb lt rt n = true := by
  unfold tensordotCoreC at h
  cases hp : tensordotCore sa sb lt rt n with
  | none => simp [hp] at h
  | some r =>
    rw [hp] at h
    simp only [Option.bind_some] at h
    split at h
    · assumption
    · simp at h

/-- the rhs transpose of `tensordot(a, b, n)`: the first `n` axes moved behind the others -/
theorem moveToEnd_prefix_mapM (C FB : Shape) :
    (moveToEnd (C ++ FB).length (List.range C.length)).mapM (fun k => (C ++ FB)[k]?) = some (FB ++ C) := by
  rw [List.length_append, moveToEnd_prefix, List.mapM_append, mapM_getElem?_range' C FB]
  have h2 : (List.range C.length).mapM (fun k => (C ++ FB)[k]?) = some C := by
    rw [mapM_range_some C.length _ (fun k => C.getD k 0)]
    · congr 1
      apply List.ext_getElem
      · simp
      · intro i h1 h2; simp at h1; simp [List.getElem?_eq_getElem h1]
    · intro i hi
      rw [List.getElem?_append_left hi]; simp [List.getElem?_eq_getElem hi]
  simp [h2]

/-- `view::tensordot(a, b, n)` (repaired) = NumPy on `a : FA ++ C`, `b : C ++ FB` -/
theorem tensordotIntC_elem (FA FB C : Shape) (hpb : Pos FB) :
    ∃ r, tensordotIntC (FA ++ C) (C ++ FB) C.length = some r ∧ r.shape = FA ++ FB ∧
      ∀ p q, InShape p FA → InShape q FB →
        r.get (p ++ q) = (allIdx C).map (fun c => (p ++ c, c ++ q)) := by
  obtain ⟨r, hr, hsh, hget⟩ := tensordotInt_elem FA FB C hpb
  refine ⟨r, ?_, hsh, hget⟩
  unfold tensordotIntC
  rw [if_pos (by simp)]
  apply tensordotCoreC_of hr
  rw [tensordotAligned_of (FA ++ C) (C ++ FB) _ _ FA FB C C (mapM_getElem?_range (FA ++ C)) (moveToEnd_prefix_mapM C FB) rfl]
  simp

/-- `view::tensordot(a, b, n)` (repaired) answers a value exactly when `n` does not exceed a rank and the last `n`
    extents of `a` are the first `n` extents of `b` -/
theorem tensordotIntC_isSome_iff (sa sb : Shape) (n : Nat) (hpb : Pos sb) :
    (tensordotIntC sa sb n).isSome ↔ (n ≤ sa.length ∧ n ≤ sb.length ∧ sa.drop (sa.length - n) = sb.take n) := by
  constructor
  · intro h
    unfold tensordotIntC at h
    split at h
    · rename_i hn
      refine ⟨hn.1, hn.2, ?_⟩
      have hal := tensordotCoreC_some h
      have hsa : sa = sa.take (sa.length - n) ++ sa.drop (sa.length - n) := (List.take_append_drop _ _).symm
      have hsb : sb = sb.take n ++ sb.drop n := (List.take_append_drop _ _).symm
      have hl1 : (sa.drop (sa.length - n)).length = n := by simp; omega
      have hl2 : (sb.take n).length = n := by simp; omega
      have hta : (List.range sa.length).mapM (fun k => sa[k]?) = some (sa.take (sa.length - n) ++ sa.drop (sa.length - n)) := by
        rw [← hsa]; exact mapM_getElem?_range sa
      have htb : (moveToEnd sb.length (List.range n)).mapM (fun k => sb[k]?) = some (sb.drop n ++ sb.take n) := by
        have := moveToEnd_prefix_mapM (sb.take n) (sb.drop n)
        rw [← hsb, hl2] at this
        exact this
      have := tensordotAligned_of sa sb _ _ _ _ _ _ hta htb (by rw [hl1, hl2])
      rw [hl1, hal] at this
      exact of_decide_eq_true this.symm
    · simp at h
  · rintro ⟨h1, h2, h3⟩
    have hsa : sa = sa.take (sa.length - n) ++ sa.drop (sa.length - n) := (List.take_append_drop _ _).symm
    have hsb : sb = sa.drop (sa.length - n) ++ sb.drop n := by rw [h3]; exact (List.take_append_drop _ _).symm
    have hl1 : (sa.drop (sa.length - n)).length = n := by simp; omega
    have hpf : Pos (sb.drop n) := fun x hx => hpb x (List.mem_of_mem_drop hx)
    obtain ⟨r, hr, -, -⟩ := tensordotIntC_elem (sa.take (sa.length - n)) (sb.drop n) (sa.drop (sa.length - n)) hpf
    rw [← hsa, ← hsb, hl1] at hr
    simp [hr]

/-- the transposed operand shape of `tensordot` with explicit (in-range) axes: free extents, then the listed ones -/
theorem moveToEnd_mapM (s : Shape) (A : List Nat) (hlt : ∀ x ∈ A, x < s.length) :
    (moveToEnd s.length A).mapM (fun k => s[k]?) =
      some (((List.range s.length).filter (fun i => !A.contains i)).filterMap (fun i => s[i]?) ++ A.filterMap (fun x => s[x]?)) := by
  rw [mapM_getElem?_of_lt]
  · simp only [moveToEnd, List.filterMap_append]
  · intro i hi
    simp only [moveToEnd, List.mem_append] at hi
    rcases hi with hi | hi
    · exact List.mem_range.1 (List.mem_filter.1 hi).1
    · exact hlt i hi

theorem mapM_normAxis_lt {la : List Int} {dim : Nat} {la' : List Nat} (h : la.mapM (normAxis · dim) = some la') :
    ∀ x ∈ la', x < dim := by
  induction la generalizing la' with
  | nil => simp at h; subst h; simp
  | cons a as ih =>
    rw [List.mapM_cons] at h
    cases ha : normAxis a dim with
    | none => simp [ha] at h
    | some k =>
      cases has : as.mapM (normAxis · dim) with
      | none => simp [ha, has] at h
      | some ks =>
        simp [ha, has] at h
        subst h
        intro x hx
        rcases List.mem_cons.1 hx with rfl | hx
        · exact normAxis_lt ha
        · exact ih has x hx

theorem map_getElem?_eq_map_some (s : Shape) (A : List Nat) (hA : ∀ x ∈ A, x < s.length) :
    A.map (fun x => s[x]?) = (A.filterMap (fun x => s[x]?)).map some := by
  induction A with
  | nil => rfl
  | cons x xs ih =>
    have hxl : x < s.length := hA x (by simp)
    have hx : s[x]? = some s[x] := List.getElem?_eq_getElem hxl
    rw [List.map_cons, List.filterMap_cons, hx, List.map_cons, ih (fun i hi => hA i (by simp [hi]))]

theorem map_getElem?_eq_of_filterMap {s t : Shape} {A B : List Nat} (hA : ∀ x ∈ A, x < s.length) (hB : ∀ x ∈ B, x < t.length)
    (h : A.filterMap (fun x => s[x]?) = B.filterMap (fun x => t[x]?)) :
    A.map (fun x => s[x]?) = B.map (fun x => t[x]?) := by
  rw [map_getElem?_eq_map_some s A hA, map_getElem?_eq_map_some t B hB, h]

/-- `view::tensordot` with explicit axes (repaired) = `np.tensordot`, every rank, every accepted axis lists -/
theorem tensordotAxesC_eq_spec (sa sb : Shape) (la ra : List Int) (la' ra' : List Nat) (s : Arr (List Term))
    (hla : la.mapM (normAxis · sa.length) = some la') (hra : ra.mapM (normAxis · sb.length) = some ra')
    (hpb : Pos sb) (hacc : specTensordot sa sb la' ra' = some s) :
    ∃ r, tensordotAxesC sa sb la ra = some r ∧ r.shape = s.shape ∧ ∀ d, InShape d s.shape → r.get d = s.get d := by
  obtain ⟨r, hr, hsh, hget⟩ := tensordotAxes_eq_spec sa sb la ra la' ra' s hla hra hpb hacc
  refine ⟨r, ?_, hsh, hget⟩
  have hlta := mapM_normAxis_lt hla
  have hltb := mapM_normAxis_lt hra
  unfold specTensordot at hacc
  split at hacc
  · rename_i hcond
    obtain ⟨hlen, -, -, -, -, hext⟩ := hcond
    have hC : la'.filterMap (fun x => sa[x]?) = ra'.filterMap (fun x => sb[x]?) := by
      have e1 : la'.filterMap (fun x => sa[x]?) = (la'.map (fun x => sa[x]?)).filterMap id := by
        rw [List.filterMap_map]; rfl
      have e2 : ra'.filterMap (fun x => sb[x]?) = (ra'.map (fun x => sb[x]?)).filterMap id := by
        rw [List.filterMap_map]; rfl
      rw [e1, e2, hext]
    have hl1 : (la'.filterMap (fun x => sa[x]?)).length = la.length := by
      rw [length_filterMap_getElem? sa la' hlta, la_mapM_some_length _ la la' hla]
    unfold tensordotAxes at hr
    unfold tensordotAxesC
    simp only [hla, hra, Option.bind_eq_bind, Option.bind_some] at hr ⊢
    apply tensordotCoreC_of hr
    have := tensordotAligned_of sa sb _ _ _ _ _ _ (moveToEnd_mapM sa la' hlta) (moveToEnd_mapM sb ra' hltb) (by rw [hC])
    rw [hl1] at this
    rw [this]
    simp [hC]
  · simp at hacc

/-- `view::tensordot` with explicit, valid axis lists (in range by normalisation, no axis listed twice, equal counts)
    answers a value exactly when NumPy accepts: the paired extents are equal -/
theorem tensordotAxesC_isSome_iff (sa sb : Shape) (la ra : List Int) (la' ra' : List Nat)
    (hla : la.mapM (normAxis · sa.length) = some la') (hra : ra.mapM (normAxis · sb.length) = some ra')
    (hnda : la'.Nodup) (hndb : ra'.Nodup) (hlen : la.length = ra.length) (hpb : Pos sb) :
    (tensordotAxesC sa sb la ra).isSome ↔ (specTensordot sa sb la' ra').isSome := by
  have hlta := mapM_normAxis_lt hla
  have hltb := mapM_normAxis_lt hra
  have hl' : la'.length = ra'.length := by
    rw [la_mapM_some_length _ la la' hla, la_mapM_some_length _ ra ra' hra, hlen]
  constructor
  · intro h
    unfold tensordotAxesC at h
    simp only [hla, hra, Option.bind_eq_bind, Option.bind_some] at h
    have hal := tensordotCoreC_some h
    have hl1 : (la'.filterMap (fun x => sa[x]?)).length = la.length := by
      rw [length_filterMap_getElem? sa la' hlta, la_mapM_some_length _ la la' hla]
    have hl2 : (la'.filterMap (fun x => sa[x]?)).length = (ra'.filterMap (fun x => sb[x]?)).length := by
      rw [length_filterMap_getElem? sa la' hlta, length_filterMap_getElem? sb ra' hltb, hl']
    have := tensordotAligned_of sa sb _ _ _ _ _ _ (moveToEnd_mapM sa la' hlta) (moveToEnd_mapM sb ra' hltb) hl2
    rw [hl1, hal] at this
    have hC := of_decide_eq_true this.symm
    unfold specTensordot
    rw [if_pos ⟨hl', hnda, hndb, hlta, hltb, map_getElem?_eq_of_filterMap hlta hltb hC⟩]
    rfl
  · intro h
    obtain ⟨s, hs⟩ := Option.isSome_iff_exists.1 h
    obtain ⟨r, hr, -, -⟩ := tensordotAxesC_eq_spec sa sb la ra la' ra' s hla hra hpb hs
    simp [hr]

end NmVerif
