"""C10 — eager evaluation returns exactly the lazy view; composition is unobservable.
IMPL: array::eval / evaluator_t<view,none> (row-/column-major resolvers, old default resolver, caller-supplied outputs),
array::fn(args) for every operation used, views of views (chains and binary trees of depth 1..3), fixed / bounded /
dynamic result storage, maybe-typed views.
ORACLE: NumPy evaluates the composed expression (np.transpose, np.tile, np.pad, np.add, np.sum, ... on the same provenance
data); the column-major buffer is `order='F'`; an output of the wrong shape must stay as it was.
MODEL (Lean): NmVerif.Eval.evalInto / evalFresh, parameterised by the view's denotation (shape + elements)."""
import itertools
import struct
import numpy as np
from runner import Case
from shapes import prod, fmt

ID = 'C10'
LEVEL = 'proof'

# ------------------------------------------------------------------------------------------------------------------
# operations (names / bit positions must match harness/c10_common.hpp)
# ------------------------------------------------------------------------------------------------------------------
NAMES = ['transpose', 'reshape', 'flatten', 'expand_dims', 'squeeze', 'flip', 'moveaxis', 'tile', 'repeat', 'roll', 'pad',
         'take', 'slice', 'broadcast_to', 'addb', 'mulb', 'where', 'sum', 'prod', 'amax', 'cumsum', 'matmul', 'concatenate',
         'stack', 'softmax', 'sumrt', 'transpose_n', 'reshape_ct', 'sum_ct', 'tile_ct', 'addself', 'concatself']
USES_B = {'addb', 'mulb', 'where', 'matmul', 'concatenate', 'stack'}
MAXSIZE = 96
I32 = 2 ** 31 - 1


def mask(names):
    m = 0
    for n in names:
        m |= 1 << NAMES.index(n)
    return '0x%xu' % m


class St:
    """operands of one composition besides leaf a: b (value of the right operand view), how it is built, c"""
    def __init__(self, dtype, b_ops_allowed=()):
        self.dtype = dtype
        self.b = None          # value of the right operand (after bops)
        self.bleaf = None      # shape of leaf b
        self.bops = []         # tokens of the chain over leaf b
        self.c = None          # condition leaf value
        self.b_ops_allowed = list(b_ops_allowed)


def leaf(shape, base, dtype):
    return (np.arange(prod(shape), dtype=np.int64) + base).reshape(shape).astype(dtype)


def cond_leaf(shape):
    return (np.arange(prod(shape)) % 3 == 0).astype(np.int64).reshape(shape)


def bc_partner(s, rng):
    """a shape broadcast-compatible with s (result size stays small)"""
    s = list(s)
    k = rng.randrange(5)
    if k == 0:
        return s
    if k == 1 and len(s) > 1:
        return s[rng.randint(1, len(s) - 1):]
    if k == 2:
        return [1 if rng.random() < 0.5 else e for e in s]
    if k == 3:
        t = [rng.randint(2, 3) if e == 1 else e for e in s]
        return t
    return [rng.randint(1, 2)] + s


def make_b(st, need, rng):
    """choose leaf b (and the chain over it) so that the right operand has shape `need`; False when b already exists
    with another shape"""
    need = list(need)
    if st.b is not None:
        return list(st.b.shape) == need
    ops = []
    lshape = need
    if st.b_ops_allowed and rng.random() < 0.85:
        name = rng.choice(st.b_ops_allowed)
        if name == 'transpose' and len(need) >= 1:
            p = list(range(len(need)))
            rng.shuffle(p)
            # view shape[i] = leaf[p[i]]  =>  leaf[p[i]] = need[i]
            lshape = [0] * len(need)
            for i, pi in enumerate(p):
                lshape[pi] = need[i]
            ops = ['transpose:%s' % fmt(p)]
        elif name == 'flip' and len(need) >= 1:
            ops = ['flip:%d' % rng.randrange(len(need))]
        elif name == 'sum' and 1 in need:
            ax = rng.choice([i for i, e in enumerate(need) if e == 1])
            lshape = list(need)
            lshape[ax] = rng.randint(1, 3)
            ops = ['sum:%d:1' % ax]
        elif name == 'reshape' and len(need) >= 1:
            n = prod(need)
            lshape = rng.choice([[n]] + [[d, n // d] for d in range(1, n + 1) if n % d == 0])
            ops = ['reshape:%s' % fmt(need)]
    if prod(lshape) == 0 or prod(lshape) > MAXSIZE:
        return False
    st.bleaf = list(lshape)
    st.bops = ops
    v = leaf(lshape, 1000, st.dtype)
    for t in ops:
        v = apply_token(t, v, st)
    assert list(v.shape) == need, (ops, lshape, need, v.shape)
    st.b = v
    return True


def apply_token(tok, x, st):
    """NumPy value of one operation token applied to x (the reference semantics)"""
    f = tok.split(':')
    n = f[0]
    ints = lambda k: [int(t) for t in f[k].split(',')] if f[k] != '[]' else []
    if n == 'transpose':
        return np.transpose(x, ints(1))
    if n == 'reshape':
        return np.reshape(x, ints(1))
    if n == 'flatten':
        return x.reshape(-1)
    if n == 'expand_dims':
        return np.expand_dims(x, tuple(ints(1)))
    if n == 'squeeze':
        return np.squeeze(x)
    if n == 'flip':
        return np.flip(x, tuple(ints(1)))
    if n == 'moveaxis':
        return np.moveaxis(x, ints(1), ints(2))
    if n == 'tile':
        return np.tile(x, ints(1))
    if n == 'repeat':
        return np.repeat(x, int(f[1]), axis=int(f[2]))
    if n == 'roll':
        return np.roll(x, int(f[1]), axis=int(f[2]))
    if n == 'pad':
        w = ints(1)
        d = x.ndim
        return np.pad(x, [(w[i], w[d + i]) for i in range(d)], mode='constant', constant_values=-1)
    if n == 'take':
        return np.take(x, ints(1), axis=int(f[2]))
    if n == 'slice':
        sl = tuple(slice(*[int(t) for t in part.split(',')]) for part in f[1].split('/'))
        return x[sl]
    if n == 'broadcast_to':
        return np.broadcast_to(x, ints(1))
    if n == 'addb':
        return np.add(x, st.b)
    if n == 'mulb':
        return np.multiply(st.b, x)
    if n == 'where':
        return np.where(st.c != 0, x, st.b)
    if n in ('sum', 'sumrt'):
        return np.sum(x, axis=int(f[1]), keepdims=bool(int(f[2])))
    if n == 'prod':
        return np.prod(x, axis=int(f[1]))
    if n == 'amax':
        return np.max(x, axis=int(f[1]), keepdims=True)
    if n == 'cumsum':
        return np.cumsum(x, axis=int(f[1]))
    if n == 'matmul':
        return np.matmul(x, st.b)
    if n == 'concatenate':
        return np.concatenate([x, st.b], axis=int(f[1]))
    if n == 'stack':
        return np.stack([x, st.b], axis=int(f[1]))
    if n == 'softmax':
        ax = int(f[1])
        e = np.exp(x - np.max(x, axis=ax, keepdims=True))
        return (e / np.sum(e, axis=ax, keepdims=True)).astype(x.dtype)
    if n == 'transpose_n':
        return np.transpose(x)
    if n == 'reshape_ct':
        return np.reshape(x, (3, 2))
    if n == 'sum_ct':
        return np.sum(x, axis=0, keepdims=True)
    if n == 'tile_ct':
        return np.tile(x, (2, 1))
    if n == 'addself':
        return x + x
    if n == 'concatself':
        return np.concatenate([x, x], axis=0)
    raise ValueError(tok)


def gen_token(name, x, st, rng, last):
    """arguments for operation `name` on an operand of x's shape, inside the accepted (defect-free) argument domain
    of C03-C08: non-negative axes except cumsum, in-range take indices, any Python slice (negative bounds and steps).  None = not applicable to this operand."""
    s = list(x.shape)
    d = len(s)
    if d == 0:
        return None
    if name == 'transpose':
        p = list(range(d))
        rng.shuffle(p)
        return 'transpose:%s' % fmt(p)
    if name == 'reshape':
        n = prod(s)
        divs = [k for k in range(1, n + 1) if n % k == 0]
        a = rng.choice(divs)
        b = rng.choice([k for k in divs if (n // a) % k == 0])
        t = rng.choice([[n], [a, n // a], [a, b, n // a // b]])
        return 'reshape:%s' % fmt(t)
    if name == 'flatten':
        return 'flatten'
    if name == 'expand_dims':
        return 'expand_dims:%d' % rng.randint(0, d)
    if name == 'squeeze':
        # squeeze to rank 0 is the known C03 finding reshape.rank0-result: keep one extent > 1
        if all(e == 1 for e in s):
            return None
        return 'squeeze'
    if name == 'flip':
        return 'flip:%d' % rng.randrange(d)
    if name == 'moveaxis':
        if d >= 3 and rng.random() < 0.7:
            # source and destination at distance >= 2: moving a -> b differs from moving b -> a
            a, b = rng.choice([(i, j) for i in range(d) for j in range(d) if abs(i - j) >= 2])
            return 'moveaxis:%d:%d' % (a, b)
        return 'moveaxis:%d:%d' % (rng.randrange(d), rng.randrange(d))
    if name == 'tile':
        reps = [rng.randint(1, 2) for _ in range(d)]
        if rng.random() < 0.3:
            reps = [2] + reps
        return 'tile:%s' % fmt(reps)
    if name == 'repeat':
        return 'repeat:%d:%d' % (rng.randint(1, 3), rng.randrange(d))
    if name == 'roll':
        return 'roll:%d:%d' % (rng.randint(-3, 3), rng.randrange(d))
    if name == 'pad':
        return 'pad:%s' % fmt([rng.randint(0, 1) for _ in range(2 * d)])
    if name == 'take':
        ax = rng.randrange(d)
        return 'take:%s:%d' % (fmt([rng.randrange(s[ax]) for _ in range(rng.randint(1, 3))]), ax)
    if name == 'slice':
        # Python-exact slicing (slice.indices): negative starts / stops, negative steps, out-of-range bounds are clamped;
        # empty results are rejected by the caller (x.size == 0) and resampled
        parts = []
        for e in s:
            if rng.random() < 0.5:
                a = rng.randrange(e)
                b = rng.randint(a + 1, e)
                parts.append('%d,%d,%d' % (a, b, rng.randint(1, 2)))
            else:
                for _ in range(20):
                    st = rng.choice([1, 2, -1, -2])
                    a, b = rng.randint(-e - 1, e + 1), rng.randint(-e - 2, e + 1)
                    if len(range(*slice(a, b, st).indices(e))) > 0:
                        break
                else:
                    a, b, st = 0, e, 1
                parts.append('%d,%d,%d' % (a, b, st))
        return 'slice:' + '/'.join(parts)
    if name == 'broadcast_to':
        t = [rng.randint(2, 3) if e == 1 else e for e in s]
        if rng.random() < 0.5:
            t = [rng.randint(1, 2)] + t
        return 'broadcast_to:%s' % fmt(t)
    if name in ('addb', 'mulb'):
        return name if make_b(st, bc_partner(s, rng), rng) else None
    if name == 'where':
        if not make_b(st, bc_partner(s, rng), rng):
            return None
        if st.c is None:
            st.c = cond_leaf(bc_partner(s, rng))
        try:
            np.broadcast_shapes(tuple(s), st.b.shape, st.c.shape)
        except ValueError:
            return None
        return 'where'
    if name in ('sum', 'sumrt'):
        keep = rng.randint(0, 1)
        if d == 1 and not last:
            keep = 1     # a rank-0 result is a number: only as the final result
        return '%s:%d:%d' % (name, rng.randrange(d), keep)
    if name == 'prod':
        if d == 1 and not last:
            return None
        return 'prod:%d' % rng.randrange(d)
    if name == 'amax':
        return 'amax:%d' % rng.randrange(d)
    if name == 'cumsum':
        # any axis NumPy accepts, negative ones included (accumulate normalises the axis since the C08 fix)
        return 'cumsum:%d' % rng.randrange(-d, d)
    if name == 'matmul':
        if d < 2:
            return None
        return 'matmul' if make_b(st, [s[-1], rng.randint(1, 3)], rng) else None
    if name == 'concatenate':
        ax = rng.randrange(d)
        t = list(s)
        t[ax] = rng.randint(1, 3)
        return 'concatenate:%d' % ax if make_b(st, t, rng) else None
    if name == 'stack':
        return 'stack:%d' % rng.randint(0, d) if make_b(st, s, rng) else None
    if name == 'softmax':
        return 'softmax:%d' % rng.randrange(d)
    if name in ('transpose_n', 'sum_ct', 'addself', 'concatself'):
        return name
    if name == 'reshape_ct':
        return name if prod(s) == 6 else None
    if name == 'tile_ct':
        return name if d == 2 else None
    raise ValueError(name)


def rand_leaf_shape(rng, first):
    r = rng.choice([1, 2, 2, 2, 3, 3])
    if first in ('matmul', 'squeeze'):
        r = max(r, 2)
    if first == 'moveaxis' and rng.random() < 0.75:
        r = 3
    for _ in range(200):
        s = [rng.randint(1, 4) for _ in range(r)]
        if first == 'squeeze' and 1 not in s:
            s[rng.randrange(r)] = 1
        if first == 'broadcast_to' and 1 not in s and rng.random() < 0.7:
            s[rng.randrange(r)] = 1
        if (1 < prod(s) or first == 'broadcast_to') and prod(s) <= 24:
            return s
    return [2, 3]


def instantiate(seq, rng, dtype=np.int64, b_ops=(), tries=60, leaf_shape=None):
    """random operands and arguments for the op-name sequence `seq`; returns (leaf shape, tokens, St, value) or None"""
    for _ in range(tries):
        s = leaf_shape(rng) if leaf_shape else rand_leaf_shape(rng, seq[0])
        st = St(dtype, b_ops)
        x = leaf(s, 0, dtype)
        toks = []
        ok = True
        for i, name in enumerate(seq):
            t = gen_token(name, x, st, rng, last=(i == len(seq) - 1))
            if t is None:
                ok = False
                break
            try:
                x = apply_token(t, x, st)
            except Exception:
                ok = False
                break
            if x.size == 0 or x.size > MAXSIZE or (x.dtype.kind == 'i' and np.abs(x).max() > I32):
                ok = False
                break
            toks.append(t)
        if ok:
            return s, toks, st, x
    return None


# ------------------------------------------------------------------------------------------------------------------
# answers
# ------------------------------------------------------------------------------------------------------------------
def tok_of(v, dtype):
    if dtype == np.float32:
        return 'f%x' % struct.unpack('<I', struct.pack('<f', float(v)))[0]
    return str(int(v))


def toks_of(arr, dtype, order='C'):
    flat = np.asarray(arr).flatten(order=order)
    return '[]' if flat.size == 0 else ','.join(tok_of(v, dtype) for v in flat)


def comp_answer(r, dtype, eager_last):
    r = np.asarray(r)
    return 'ok shape=%s data=%s col=%s' % (fmt(r.shape), toks_of(r, dtype), '-' if eager_last else toks_of(r, dtype, 'F'))


def parse_tok(t):
    if t.startswith('f'):
        return struct.unpack('<f', struct.pack('<I', int(t[1:], 16)))[0]
    return float(t)


def float_cmp(a, b):
    """answers with float bit patterns: same structure, elements within 4 ulp-ish relative tolerance"""
    if a == b:
        return True
    fa, fb = a.split(' '), b.split(' ')
    if len(fa) != len(fb):
        return False
    for x, y in zip(fa, fb):
        if x == y:
            continue
        if '=' not in x or x.split('=')[0] != y.split('=')[0] or x.split('=')[0] not in ('data', 'col', 'buf'):
            return False
        xs, ys = x.split('=')[1].split(','), y.split('=')[1].split(',')
        if len(xs) != len(ys):
            return False
        for p, q in zip(xs, ys):
            if p == q:
                continue
            try:
                u, v = parse_tok(p), parse_tok(q)
            except ValueError:
                return False
            if not (abs(u - v) <= 2e-6 * max(1.0, abs(u), abs(v))):
                return False
    return True


# ------------------------------------------------------------------------------------------------------------------
# harness TUs: which op sequences each one can answer
# ------------------------------------------------------------------------------------------------------------------
ALL23 = ['transpose', 'reshape', 'flatten', 'expand_dims', 'squeeze', 'flip', 'moveaxis', 'tile', 'repeat', 'roll', 'pad', 'take',
         'slice', 'broadcast_to', 'addb', 'mulb', 'where', 'sum', 'prod', 'amax', 'cumsum', 'matmul', 'concatenate']
S1 = ['transpose', 'reshape', 'flip', 'slice', 'sum', 'addb', 'tile', 'take']
S2 = ['pad', 'where', 'cumsum', 'broadcast_to', 'expand_dims', 'moveaxis', 'concatenate', 'matmul']
# operations applied to fixed / bounded operands (compile-time arguments keep a fixed shape fixed)
ST_OPS = ['transpose', 'flatten', 'flip', 'tile', 'pad', 'take', 'slice', 'broadcast_to', 'addb', 'sum', 'prod', 'amax',
          'transpose_n', 'reshape_ct', 'sum_ct', 'tile_ct', 'addself', 'concatself']
LEAF_BITS = {'row': 1, 'col': 2, 'nested': 4, 'fixed': 8, 'cshape': 16, 'hybrid': 32, 'bounded': 64, 'cbounded': 128, 'dynfd': 256}
FIXED_LEAVES = ('nested', 'fixed', 'cshape')


def tu(name, m0, m1=(), m2=(), b0=(), defs=(), dtype=np.int64, leaves=('row',), tiers=('quick', 'thorough')):
    lk = sum(LEAF_BITS[k] for k in leaves)
    extra = ['-DPROTO_VERIF_EVENTS', '-DC10_MASK0=' + mask(m0), '-DC10_MASK1=' + mask(m1), '-DC10_MASK2=' + mask(m2),
             '-DC10_BMASK0=' + mask(b0), '-DC10_LEAF_KINDS=%d' % lk] + list(defs)
    return dict(name=name, src='h_c10.cpp', flavour='fast', extra=extra, m=[list(m0), list(m1), list(m2)], b0=list(b0),
                dtype=dtype, leaves=list(leaves), tiers=tiers)


TUS = [
    # every operation once, all three resolvers, maybe-typed views
    tu('h_c10_d1', ALL23 + ['sumrt'], defs=['-DC10_OLD_RESOLVER', '-DC10_MAYBE']),
    # column-major leaf operand
    tu('h_c10_cl', ['transpose', 'reshape', 'flip', 'slice', 'sum', 'addb', 'tile', 'pad', 'cumsum', 'matmul'], ['transpose', 'sum'],
       leaves=['col']),
    # all ordered pairs over two small op sets
    tu('h_c10_p1', S1, S1),
    tu('h_c10_p2', S2, S2),
    # chains of depth 3
    tu('h_c10_t3', ['transpose', 'slice', 'addb'], ['flip', 'sum', 'reshape', 'tile'], ['transpose', 'mulb', 'take', 'sum'], defs=['-DC10_NO_INTO']),
    # binary trees: the right operand is itself a view over leaf b
    tu('h_c10_tr', ['transpose', 'slice', 'addb', 'mulb'], ['addb', 'where', 'concatenate', 'matmul'], ['sum'],
       b0=['transpose', 'flip', 'sum', 'reshape'], defs=['-DC10_NO_INTO']),
    # view::stack needs its own include set (see c10_ops.hpp)
    tu('h_c10_ss', ['slice', 'stack', 'transpose', 'addb', 'expand_dims', 'tile'], ['slice', 'stack', 'transpose'],
       defs=['-DC10_WITH_STACK']),
    # float elements: same scalar operations in the same order => bit-identical results
    tu('h_c10_fl', ['softmax', 'transpose', 'addb', 'sum', 'mulb'], ['softmax', 'sum', 'transpose', 'addb'],
       defs=['-DC10_ELEM=float'], dtype=np.float32),
    # result storage: fixed operands (nested std::array, fixed_ndarray, constant-shape ndarray_t) / bounded and mixed operands
    tu('h_c10_sf', ST_OPS, leaves=['nested', 'fixed', 'cshape'], defs=['-DC10_REPORT_KIND', '-DC10_OUT_KINDS']),
    tu('h_c10_sb', ST_OPS, leaves=['hybrid', 'bounded', 'cbounded', 'dynfd'], defs=['-DC10_REPORT_KIND', '-DC10_OUT_KINDS']),
]
# thorough: every ordered pair of the 23 operations (blocks of four first operations), more depth-3 chains, depth 2 on fixed storage
for _k in range(0, len(ALL23), 4):
    TUS.append(tu('h_c10_ap%d' % (_k // 4), ALL23[_k:_k + 4], ALL23, defs=['-DC10_NO_INTO'], tiers=('thorough',)))
TUS.append(tu('h_c10_t3b', ['pad', 'tile', 'mulb', 'cumsum'], ['transpose', 'take', 'where', 'amax'], ['slice', 'addb', 'sum', 'flip'],
              defs=['-DC10_NO_INTO'], tiers=('thorough',)))
TUS.append(tu('h_c10_sf2', ['transpose_n', 'reshape_ct', 'sum_ct', 'tile_ct', 'addself', 'concatself', 'flip', 'pad'],
              ['transpose_n', 'sum_ct', 'addself', 'tile_ct', 'slice'], leaves=['nested', 'fixed', 'hybrid'],
              defs=['-DC10_REPORT_KIND', '-DC10_NO_INTO'], tiers=('thorough',)))
ADL = dict(name='h_c10_adl', src='h_c10adl.cpp', flavour='san')

import os, random
if os.environ.get('C10_ONLY'):      # development aid: restrict the run to some harness TUs
    TUS = [t for t in TUS if t['name'] in os.environ['C10_ONLY'].split(',')]


def sequences(t, maxd=3):
    m = t['m']
    out = [[a] for a in m[0]]
    if maxd >= 2:
        out += [[a, b] for a in m[0] for b in m[1]]
    if maxd >= 3:
        out += [[a, b, c] for a in m[0] for b in m[1] for c in m[2]]
    return out


def harness_specs(tier):
    specs = [dict(name=t['name'], src=t['src'], flavour=t['flavour'], extra=t['extra']) for t in TUS if tier in t['tiers']]
    if not os.environ.get('C10_ONLY') or 'h_c10_adl' in os.environ['C10_ONLY']:
        specs.append(dict(ADL))
    if not os.environ.get('C10_ONLY') or 'h_c10s' in os.environ['C10_ONLY']:
        specs.append(dict(name='h_c10s', src='h_c10s.cpp', flavour='fast'))      # number-typed views into supplied scalar outputs
    if not os.environ.get('C10_ONLY') or 'h_c17_lin' in os.environ['C10_ONLY']:
        specs.append(dict(name='h_c17_lin', src='h_c17_lin.cpp', flavour='fast'))      # (C17's TU) eager wrappers with optional arguments vs their views
    if not os.environ.get('C10_ONLY') or 'h_c08e' in os.environ['C10_ONLY']:
        specs.append(dict(name='h_c08e', src='h_c08e.cpp', flavour='fast'))      # (C08's TU) accumulate / reduce with a wider result dtype: view vs eval
    specs += [t for t in mx_tus(tier) if not os.environ.get('C10_ONLY') or t['name'] in os.environ['C10_ONLY'].split(',')]
    return specs


# ------------------------------------------------------------------------------------------------------------------
# generator
# ------------------------------------------------------------------------------------------------------------------
def comp_cases(t, seq, inst, mats, tags, rng, into=True, la='row'):
    s, toks, st, val = inst
    dtype = t['dtype']
    n = len(toks)
    base = 'a=%s' % fmt(s)
    if la != 'row':
        base += ' la=%s' % la
    if st.b is not None:
        base += ' b=%s' % fmt(st.bleaf)
        if st.bops:
            base += ' bops=%s' % ';'.join(st.bops)
    if st.c is not None:
        base += ' c=%s' % fmt(st.c.shape)
    base += ' ops=%s' % ';'.join(toks)
    cmpf = float_cmp if dtype == np.float32 else None
    vs, vd = fmt(val.shape), toks_of(val, dtype)
    nt = n >= 2 or bool(st.bops) or la not in ('row', 'col')
    for mat in mats:
        bmats = [0, 1] if st.bops else [0]
        for bmat in bmats:
            eager_last = bool((mat >> (n - 1)) & 1)
            req = 'comp %s mat=%d' % (base, mat) + (' bmat=%d' % bmat if st.bops else '')
            yield Case(req, t['name'], oracle=comp_answer(val, dtype, eager_last), cmp=cmpf, nontrivial=nt,
                       mreq='eval_fresh vshape=%s vdata=%s%s' % (vs, vd, ' col=0' if eager_last else ''),
                       tags=tags + ['comp', 'leaf=' + la, 'depth=%d' % n, 'mat=%s' % ('lazy' if mat == 0 else 'all-eager' if mat == (1 << n) - 1 else 'mixed')] +
                       ['op=' + x for x in seq] + (['tree'] if st.bops else []))
    if '-DC10_REPORT_KIND' in t['extra']:
        # which storage the resolver inferred: recorded in the evidence, not judged (no oracle, no model)
        yield Case('comp %s mat=0 kind=1' % base, t['name'], oracle=None, model=False, nontrivial=False, tags=tags + ['kind-probe', 'leaf=' + la])
    if into and val.ndim >= 1 and '-DC10_NO_INTO' not in t['extra']:
        vshape = list(val.shape)
        wrong = [vshape[::-1], [prod(vshape)], vshape + [1], [1] + vshape, [e + 1 for e in vshape], vshape[:-1] + [max(1, vshape[-1] - 1)]]
        wrong = [w for w in wrong if w != vshape and prod(w) > 0]
        outs = [(vshape, 'row'), (vshape, 'col'), (rng.choice(wrong), rng.choice(['row', 'col']))]
        if '-DC10_OUT_KINDS' in t['extra'] and val.ndim == 2:
            # fixed / bounded outputs: the type fixes the shape (3,2) / (2,3); hybrid takes any 2-d shape of <= 12 elements
            outs += [([3, 2], rng.choice(['nested32', 'fixed32'])), ([2, 3], rng.choice(['nested23', 'fixed23']))]
            if prod(vshape) <= 12:
                outs.append((vshape, 'hybrid'))
            w2 = [w for w in wrong if len(w) == 2 and prod(w) <= 12]
            if w2:
                outs.append((rng.choice(w2), 'hybrid'))
        for oshape, lay in outs:
            right = oshape == vshape
            if right:
                exp = 'ok shape=%s buf=%s' % (fmt(oshape), toks_of(val, dtype, 'F' if lay == 'col' else 'C'))
            else:
                exp = 'ok shape=%s buf=%s events=3:1' % (fmt(oshape), ','.join([tok_of(-7, dtype)] * prod(oshape)))
            # all steps but the last may be eager; the last one is the view that is evaluated into the output
            mat = rng.randrange(1 << (n - 1)) if n > 1 else 0
            # model: fixed / bounded outputs are row-major buffers whose logical C order is what the harness prints
            mlay = 'col' if lay == 'col' else 'row'
            yield Case('into %s mat=%d oshape=%s olayout=%s' % (base, mat, fmt(oshape), lay), t['name'], oracle=exp, cmp=cmpf,
                       mreq='eval_into vshape=%s vdata=%s oshape=%s olayout=%s init=%s' % (vs, vd, fmt(oshape), mlay, tok_of(-7, dtype)),
                       nontrivial=True, tags=tags + ['into', 'leaf=' + la, 'out=' + ('right-shape' if right else 'wrong-shape'), 'olayout=' + lay])


def storage_leaf_shape(la, seq):
    def f(rng):
        if la in FIXED_LEAVES:
            return [2, 3]
        if 'reshape_ct' in seq:
            return rng.choice([[2, 3], [3, 2], [1, 6], [6, 1]])
        if rng.random() < 0.4:
            # exactly the capacity of the bounded kinds (12 elements): a result buffer one element short shows
            return rng.choice([[3, 4], [4, 3], [2, 6], [6, 2]])
        while True:
            s = [rng.randint(1, 4), rng.randint(1, 4)]
            if 1 < prod(s) <= 12:
                return s
    return f


def gen_tu(t, tier, rng):
    quick = tier == 'quick'
    for la in t['leaves']:
        storage = la not in ('row', 'col')
        for seq in sequences(t):
            n = len(seq)
            if n == 1:
                k = 16 if quick else 40
            elif n == 2:
                k = 6 if quick else 12
            else:
                k = 3 if quick else 6
            if t['name'].startswith('h_c10_ap'):
                if n == 1:
                    continue
                k = 3
            if storage:
                k = 2 if la in FIXED_LEAVES else (6 if quick else 12)
            for j in range(k):
                inst = instantiate(seq, rng, t['dtype'], t['b0'], leaf_shape=storage_leaf_shape(la, seq) if storage else None)
                if inst is None:
                    continue
                if n <= 2:
                    mats = list(range(1 << n))
                else:
                    mats = [0, 7] + rng.sample([1, 2, 3, 4, 5, 6], 2 if quick else 6)
                yield from comp_cases(t, seq, inst, mats, [t['name']], rng, into=(j == 0), la=la)


def nothing_cases(tier):
    """maybe lifting: views that refuse their arguments are empty optionals; so must be their evaluation (through the chain
    interpreter, which unwraps, and through eval applied to the nmtools_maybe<view> itself: op `maybe`)"""
    h = 'h_c10_d1'
    if not any(t['name'] == h for t in TUS):
        return
    for mat in (0, 1):
        for req in ['comp a=2,3 ops=reshape:4,2 mat=%d' % mat, 'comp a=2,3 b=4 ops=addb mat=%d' % mat,
                    'comp a=2,3 ops=broadcast_to:3,2 mat=%d' % mat, 'comp a=2,3 ops=pad:1,1,1 mat=%d' % mat]:
            yield Case(req, h, oracle='nothing', mreq='eval_maybe has=0', tags=['comp', 'nothing', 'maybe'], nontrivial=True)
    yield Case('into a=2,3 ops=reshape:4,2 mat=0 oshape=4,2 olayout=row', h, oracle='nothing', model=False, tags=['into', 'nothing'])
    for s in ([2, 3], [4], [2, 2, 3], [1, 5], [6, 2]):
        n = prod(s)
        tos = [[n], [n, 1], [-1, 2], [2, -1], [n + 1], [2, n], [3, -1], s[::-1], [1, n, 1]]
        for to in tos:
            try:
                r = leaf(s, 0, np.int64).reshape(to)
                exp = comp_answer(r, np.int64, False)
                mreq = 'eval_maybe has=1 vshape=%s vdata=%s' % (fmt(r.shape), toks_of(r, np.int64))
            except ValueError:
                exp, mreq = 'nothing', 'eval_maybe has=0'
            yield Case('maybe a=%s to=%s' % (fmt(s), fmt(to)), h, oracle=exp, mreq=mreq, nontrivial=True,
                       tags=['maybe', 'maybe=' + ('empty' if exp == 'nothing' else 'value')])


def intofn_cases(tier, rng):
    """the output argument of array::fn itself (transpose with default axes, sum over an axis)"""
    h = 'h_c10_d1'
    if not any(t['name'] == h for t in TUS):
        return
    for _ in range(12 if tier == 'quick' else 60):
        s = [rng.randint(1, 4) for _ in range(rng.randint(2, 3))]
        x = leaf(s, 0, np.int64)
        if rng.random() < 0.5:
            r, args = np.transpose(x), 'fn=transpose_n a=%s' % fmt(s)
        else:
            ax, keep = rng.randrange(len(s)), rng.randint(0, 1)
            r, args = np.sum(x, axis=ax, keepdims=bool(keep)), 'fn=sum a=%s axis=%d keep=%d' % (fmt(s), ax, keep)
        vshape = list(r.shape)
        wrong = [w for w in (vshape[::-1], [prod(vshape)], vshape + [1], [e + 1 for e in vshape]) if w != vshape]
        for oshape, lay in [(vshape, 'row'), (vshape, 'col'), (rng.choice(wrong), rng.choice(['row', 'col']))]:
            right = oshape == vshape
            exp = ('ok shape=%s buf=%s' % (fmt(oshape), toks_of(r, np.int64, 'C' if lay == 'row' else 'F')) if right else
                   'ok shape=%s buf=%s events=3:1' % (fmt(oshape), ','.join(['-7'] * prod(oshape))))
            yield Case('intofn %s oshape=%s olayout=%s' % (args, fmt(oshape), lay), h, oracle=exp, nontrivial=True,
                       mreq='eval_into vshape=%s vdata=%s oshape=%s olayout=%s init=-7' % (fmt(vshape), toks_of(r, np.int64), fmt(oshape), lay),
                       tags=['intofn', 'out=' + ('right-shape' if right else 'wrong-shape'), 'olayout=' + lay])


def adl_cases():
    """regression of the repaired defect adl.eager-apply_slice: with array/array/slice.hpp in the same TU the views must
    still be lazy views (lazy=1) and view::matmul / array::matmul must return the matrix product (ASan/UBSan build)"""
    if os.environ.get('C10_ONLY') and 'h_c10_adl' not in os.environ['C10_ONLY']:
        return
    h = ADL['name']
    tg = ['adl', 'eager-slice-header-present']
    for a, b in (([2, 3], [3, 2]), ([1, 2], [2, 1]), ([3, 2], [2, 4]), ([2, 2, 3], [3, 2])):
        r = np.matmul(leaf(a, 0, np.int64), leaf(b, 1000, np.int64))
        yield Case('adl what=matmul a=%s b=%s' % (fmt(a), fmt(b)), h, dom=False, model=False,
                   oracle='ok shape=%s data=%s' % (fmt(r.shape), fmt(r.reshape(-1))), tags=tg + ['op=matmul'])
    for s in ([2, 3], [4], [2, 3, 2], [4, 3]):
        x = leaf(s, 0, np.int64)
        for ax in range(len(s)):
            r = np.flip(x, ax)
            yield Case('adl what=flip a=%s axis=%d' % (fmt(s), ax), h, dom=False, model=False,
                       oracle='ok lazy=1 shape=%s data=%s' % (fmt(r.shape), fmt(r.reshape(-1))), tags=tg + ['op=flip'])
            r = np.sum(x, axis=ax)
            yield Case('adl what=sum a=%s axis=%d' % (fmt(s), ax), h, dom=False, model=False,
                       oracle='ok shape=%s data=%s' % (fmt(r.shape), fmt(r.reshape(-1))), tags=tg + ['op=sum'])
            r = np.cumsum(x, axis=ax)
            yield Case('adl what=cumsum a=%s axis=%d' % (fmt(s), ax), h, dom=False, model=False,
                       oracle='ok shape=%s data=%s' % (fmt(r.shape), fmt(r.reshape(-1))), tags=tg + ['op=cumsum'])
        if len(s) == 2 and s[1] >= 2:
            r = x[0:s[0], 1:s[1]]
            yield Case('adl what=slice a=%s' % fmt(s), h, dom=False, model=False,
                       oracle='ok lazy=1 shape=%s data=%s' % (fmt(r.shape), fmt(r.reshape(-1))), tags=tg + ['op=slice'])
        if s[0] % 2 == 0:
            r = np.split(x, 2, axis=0)[0]
            yield Case('adl what=split a=%s' % fmt(s), h, dom=False, model=False,
                       oracle='ok lazy=1 shape=%s data=%s' % (fmt(r.shape), fmt(r.reshape(-1))), tags=tg + ['op=split'])


def intonum_cases(tier, rng):
    """a view that is a NUMBER (reduction over every axis) evaluated into a caller-supplied scalar that holds a sentinel
    (non-zero) before the call: the output must BE the value afterwards, also when the variable is reused (seeded C10-2:
    `output += value` is invisible when the library value-initialises the output itself)"""
    if os.environ.get('C10_ONLY') and 'h_c10s' not in os.environ['C10_ONLY']:
        return
    shp = [[4], [2, 3], [3, 1, 2]] if tier == 'quick' else [[4], [7], [2, 3], [3, 2], [3, 1, 2], [2, 2, 2]]
    for s in shp:
        x = np.array([(k % 5) + 1 for k in range(prod(s))], dtype=np.float64)
        ref = {'sum': float(x.sum()), 'prod': float(x.prod()), 'amax': float(x.max()), 'amin': float(x.min()), 'mean': float(x.mean())}
        for fn in ('sum', 'prod', 'amax', 'amin', 'mean'):
            for et in (('d',) if fn == 'mean' else ('i', 'd')):
                for sent in (100, -7, 0, 1):
                    for mode in (('fn',) if fn in ('amax', 'amin', 'mean') else ('fn', 'eval', 'reuse')):
                        v = ref[fn]
                        tok = ('%.17g' % v)
                        exp = 'ok out=' + tok + ((' out2=' + tok) if mode == 'reuse' else '')
                        yield Case('intonum fn=%s et=%s a=%s sentinel=%d mode=%s' % (fn, et, fmt(s), sent, mode), 'h_c10s', oracle=exp, model=False,
                                   nontrivial=True, tags=['intonum', 'fn=' + fn, 'mode=' + mode, 'sentinel=' + ('zero' if sent == 0 else 'non-zero')])


def dtype_eval_cases(tier, rng):
    """cumsum / cumprod / sum / prod of narrow element types with a WIDER result dtype, lazily (view read element by element) and
    eagerly (array::fn = eval): the evaluated array must hold the view's elements, so its buffer has to be of the requested dtype
    (seeded change C10-3: the element type of the result buffer was taken from the operand).  Both forms of every request."""
    if os.environ.get('C10_ONLY') and 'h_c08e' not in os.environ['C10_ONLY']:
        return
    import importlib
    c08 = importlib.import_module('props.c08')
    seen = set()
    for c in c08.gen_narrow(tier, random.Random(rng.random())):
        for api in ('view', 'array'):
            req = ' '.join(('api=' + api) if f.startswith('api=') else f for f in c.req.split(' '))
            if req in seen:
                continue
            seen.add(req)
            yield Case(req, 'h_c08e', oracle=c.oracle, model=False, nontrivial=True, tags=['dtype-eval', 'api=' + api])


def optional_arg_cases(tier, rng):
    """eager wrappers that FORWARD optional arguments to their view (cosine_similarity / pairwise_distance with an explicit
    eps): array::fn(args) must equal the evaluated view::fn(args) (seeded change C10-4)."""
    if os.environ.get('C10_ONLY') and 'h_c17_lin' not in os.environ['C10_ONLY']:
        return
    import importlib
    c17 = importlib.import_module('props.c17')
    for c in c17.gen_eps_forms(tier, random.Random(rng.random())):
        yield Case(c.req, 'h_c17_lin', oracle=c.oracle, model=False, nontrivial=True, cmp=c.cmp, tags=['optional-argument-forwarding'] + [t for t in c.tags if t.startswith('api=')])


# ------------------------------------------------------------------------------------------------------------------
# mixed operand kinds x mixed element types: bare eval(view) (older resolver eval_t) / array::fn / lazy view
# (harness/h_c10mx.cpp; the predicates kinds_ok / mx_enabled / mx_enabled_u are the same formulas as there)
# ------------------------------------------------------------------------------------------------------------------
MX_KINDS = 'FHDRAVS'
MX_ETS = ['i32', 'f32', 'f64', 'i8', 'u8']
MX_NP = {'i32': np.int32, 'f32': np.float32, 'f64': np.float64, 'i8': np.int8, 'u8': np.uint8}
MX_BFN = ['add', 'multiply', 'subtract', 'less']
MX_UFN = ['negative', 'fabs', 'positive']
KF, KH, KD, KR, KA, KV, KS = range(7)


def mx_kinds_ok(lk, rk):
    if lk == KS and rk == KS:
        return False
    if lk == KV:
        return rk in (KV, KD, KS)
    if rk == KV:
        return lk in (KD, KS)
    return True


def mx_enabled(lk, rk, lt, rt, f, full):
    if not mx_kinds_ok(lk, rk):
        return False
    q, p = lk * 7 + rk, lt * 5 + rt
    if f == 0 and p in (2 * 5 + 0, 0 * 5 + 2, 3 * 5 + 4):
        return True
    if full:
        return f == 0 or (p * 3 + q + f * 7) % 11 == 0
    return (p * 3 + q + f * 7) % 23 == 0


def mx_enabled_u(k, t, f, full):
    return full or f == 0 or (k + t + f) % 2 == 0


def mx_ctype(lt, rt=None):
    """element type of the C++ expression `a op b` (usual arithmetic conversions; integer promotion for one operand):
    what the ufunc view declares as its element type"""
    pr = lambda t: 'i32' if t in ('i8', 'u8') else t
    ts = [pr(lt)] + ([pr(rt)] if rt is not None else [])
    return 'f64' if 'f64' in ts else 'f32' if 'f32' in ts else 'i32'


def mx_num(v):
    return '%.17g' % float(v)


def mx_values(et, n, rng):
    if et == 'i32':
        return [rng.choice([-1, 1]) * rng.randint(1, 1000) for _ in range(n)]
    if et == 'i8':
        return [rng.choice([-1, 1]) * rng.randint(1, 100) for _ in range(n)]
    if et == 'u8':
        return [rng.randint(1, 250) for _ in range(n)]
    # binary fractions: every sum / difference / product below is exact in float32; no zeros (-0 prints differently)
    return [rng.choice([-1, 1]) * rng.randint(1, 255) / 4.0 for _ in range(n)]


def mx_shape(ks, rng):
    if any(k in (KF, KR, KA) for k in ks):
        return [2, 3]
    if KV in ks:
        return [rng.randint(1, 6)]
    if KH in ks:
        return rng.choice([[2, 3], [3, 4], [1, 5], [4, 1], [6, 2], [2, 2], [1, 1]])
    r = rng.randint(1, 3)
    return [rng.randint(1, 3) for _ in range(r)]


def mx_tus(tier):
    full = tier == 'thorough'
    pre = 'h_c10_mxf' if full else 'h_c10_mx'
    return [dict(name='%s%d' % (pre, k), src='h_c10mx.cpp', flavour='fast', extra=['-DMX_LK=%d' % k] + (['-DMX_FULL'] if full else []))
            for k in range(8)]


def mx_answer(vt, shape, val, old=True):
    flat = np.asarray(val).reshape(-1)
    return 'ok vt=%s shape=%s data=%s et=%s ed=%s ft=%s fd=same' % (vt, fmt(shape), ','.join(mx_num(x) for x in flat),
                                                                    vt if old else 'n/a', 'same' if old else 'n/a', vt)


def mx_model_req(vt, shape, val, old=True):
    flat = np.asarray(val).reshape(-1)
    return 'eval_cast vt=%s vshape=%s vdata=%s%s' % (vt, fmt(shape), ','.join(mx_num(x) for x in flat), '' if old else ' old=0')


def mixed_cases(tier, rng):
    """every operand-kind pairing (fixed / hybrid / dynamic / raw array / std::array / std::vector / number, both orders) x
    element-type pairs: the evaluated array (bare eval(view) with the default, older resolver; array::fn) must have the view's
    element type and elements.  Shapes are ones both operand containers admit (the shape classes of the known finding
    C11.old-resolver-operand-container are C11's)."""
    full = tier == 'thorough'
    only = os.environ.get('C10_ONLY')
    pre = 'h_c10_mxf' if full else 'h_c10_mx'
    reps = 2 if full else 1
    for lk in range(7):
        h = '%s%d' % (pre, lk)
        if only and h not in only.split(','):
            continue
        for rk in range(7):
            for lt in range(5):
                for rt in range(5):
                    for f, fn in enumerate(MX_BFN):
                        if not mx_enabled(lk, rk, lt, rt, f, full):
                            continue
                        for _ in range(reps):
                            shape = mx_shape((lk, rk), rng)
                            n = prod(shape)
                            elt, ert = MX_ETS[lt], MX_ETS[rt]
                            lv = mx_values(elt, 1 if lk == KS else n, rng)
                            rv = mx_values(ert, 1 if rk == KS else n, rng)
                            la = np.array(lv, dtype=MX_NP[elt]).reshape([] if lk == KS else shape)
                            ra = np.array(rv, dtype=MX_NP[ert]).reshape([] if rk == KS else shape)
                            if fn == 'less':
                                val, vt = np.less(la, ra).astype(np.int64), 'b'
                            else:
                                # exact values (float64 holds every operand and result here exactly); the element type is C++'s
                                val = getattr(np, fn)(la.astype(np.float64), ra.astype(np.float64))
                                vt = mx_ctype(elt, ert)
                            req = 'mixb fn=%s lk=%s lt=%s rk=%s rt=%s shape=%s l=%s r=%s' % (
                                fn, MX_KINDS[lk], elt, MX_KINDS[rk], ert, fmt(shape), ','.join(mx_num(x) for x in lv), ','.join(mx_num(x) for x in rv))
                            yield Case(req, h, oracle=mx_answer(vt, shape, val, lk != KV), mreq=mx_model_req(vt, shape, val, lk != KV), nontrivial=True,
                                       tags=['mixed', 'arity=2', 'bare-eval=' + ('compiles' if lk != KV else 'compile-error'), 'fn=' + fn, 'kinds=%s%s' % (MX_KINDS[lk], MX_KINDS[rk]), 'ets=%s,%s->%s' % (elt, ert, vt),
                                             'vt-differs-from=' + ('both' if vt not in (elt, ert) else 'rhs' if vt != ert else 'lhs' if vt != elt else 'none')])
    h = pre + '7'
    if only and h not in only.split(','):
        return
    for k in range(7):
        for t in range(5):
            for f, fn in enumerate(MX_UFN):
                if not mx_enabled_u(k, t, f, full):
                    continue
                for _ in range(reps):
                    shape = mx_shape((k,), rng)
                    et = MX_ETS[t]
                    lv = mx_values(et, 1 if k == KS else prod(shape), rng)
                    la = np.array(lv, dtype=MX_NP[et]).astype(np.float64).reshape([] if k == KS else shape)
                    val = {'negative': np.negative, 'fabs': np.fabs, 'positive': np.positive}[fn](la)
                    vt = MX_UTYPE[fn](et)
                    req = 'mixu fn=%s lk=%s lt=%s shape=%s l=%s' % (fn, MX_KINDS[k], et, fmt([] if k == KS else shape), ','.join(mx_num(x) for x in lv))
                    yield Case(req, h, oracle=mx_answer(vt, [] if k == KS else shape, val), mreq=mx_model_req(vt, [] if k == KS else shape, val),
                               nontrivial=True, tags=['mixed', 'arity=1', 'fn=' + fn, 'kinds=' + MX_KINDS[k], 'ets=%s->%s' % (et, vt)])


# element type of the unary views (C++: -x and +x promote small integers; std::fabs of an integer is a double)
MX_UTYPE = {'negative': lambda t: mx_ctype(t), 'positive': lambda t: mx_ctype(t),
            'fabs': lambda t: t if t in ('f32', 'f64') else 'f64'}


def gen(tier, rng):
    yield from mixed_cases(tier, rng)
    yield from nothing_cases(tier)
    yield from intonum_cases(tier, rng)
    yield from dtype_eval_cases(tier, rng)
    yield from optional_arg_cases(tier, rng)
    yield from adl_cases()
    yield from intofn_cases(tier, rng)
    for t in TUS:
        if tier in t['tiers']:
            yield from gen_tu(t, tier, rng)


def post(cases, tier):
    """bit-exact agreement across evaluation strategies: the same composition evaluated lazily, with any inner view
    materialised first, or step by step through array::fn must print identical shape and elements (floats: identical
    bit patterns, since the same scalar operations run in the same order)"""
    groups = {}
    for c in cases:
        if c.req.startswith('comp ') and c.impl and c.impl.startswith('ok '):
            key = (c.harness, ' '.join(f for f in c.req.split(' ') if not f.startswith('mat=') and not f.startswith('bmat=')))
            groups.setdefault(key, []).append(c)
    out = []
    for key, cs in groups.items():
        vals = {' '.join(f for f in c.impl.split(' ') if not f.startswith('col=') and not f.startswith('kind=')) for c in cs}
        if len(vals) > 1:
            out.append(('property-fails', 'lazy and eager evaluation orders of one composition differ: %s -> %s' % (key[1], sorted(vals)[:3]),
                        {'cases': [{'req': c.req, 'harness': c.harness, 'impl_answer': c.impl, 'oracle': c.oracle} for c in cs]}, False))
    return out[:5]


def coverage_extra(cases, tier):
    """which result storage the row-major resolver inferred, per operand kind (evidence for 'fixed, bounded or dynamic')"""
    kinds = {}
    ops = {}
    for c in cases:
        la = [t for t in c.tags if t.startswith('leaf=')]
        if c.impl and ' kind=' in c.impl and la:
            k = '%s->%s' % (la[0][5:], c.impl.split(' kind=')[1].split(' ')[0])
            kinds[k] = kinds.get(k, 0) + 1
        for t in c.tags:
            if t.startswith('op='):
                ops[t[3:]] = ops.get(t[3:], 0) + 1
    return {'result_storage_by_operand_kind': kinds, 'cases_per_op': ops,
            'compositions': len({c.req.split(' mat=')[0] for c in cases if c.req.startswith('comp ')})}


RULE = ('per harness TU every operation sequence its op masks admit (depth 1: all 23 operations + run-time keepdims; depth 2: all ordered pairs over '
        'two 8-op sets (thorough: all 23x23 pairs); depth 3: 3x4x4 chains; binary trees whose right operand is a view over a second leaf), each with seeded '
        'random operand shapes (rank 1..3, extents 1..4) and arguments in the accepted domain, each evaluated with every lazy/eager split '
        '(bit i of mat = step i through array::fn); per composition: view read element-wise vs eval (row-major, column-major, old resolver), '
        'caller-supplied outputs of the right shape (both layouts) and of a wrong shape; fixed/bounded/dynamic operand storage; maybe-typed views. '
        'non-trivial = depth >= 2, a tree, a caller-supplied output, a maybe-typed view, or a non-dynamic storage kind. '
        'Mixed scope (op mixb / mixu): every ordered pairing of operand kinds fixed_ndarray / hybrid_ndarray / dynamic ndarray / raw array / nested std::array / '
        'std::vector / number (std::vector only with rank-1-capable partners; 40 pairings) x element-type pairs from {i32,f32,f64,i8,u8}^2 (quick: (f64,i32), (i32,f64), (i8,u8) for add on '
        'every pairing + a 1/23 sample of all (pair, function in add/multiply/subtract/less) combinations; thorough: all 25 pairs for add + a 1/11 sample) and unary '
        'negative / fabs / positive on every kind x element type: element type and every element of bare eval(view) (older resolver eval_t) and of array::fn vs the lazy view vs NumPy')
EXHAUSTIVE = {'quick': False, 'thorough': False}
ANCHORS = {'NmVerif.Eval.evalInto': 'array::evaluator_t<view,none>::operator()(output&) (eval.hpp:141-170), hook event 3 on the silent return',
           'NmVerif.Eval.evalFresh': 'array::evaluator_t<view,none>::operator()() + detail::apply_resize (eval.hpp:179-192), resolvers eval_result_t<ROW_MAJOR|COLUMN_MAJOR>',
           'NmVerif.Driver.C10 eval_maybe (Option.map evalFresh)': 'array::detail::eval maybe lifting (eval.hpp:218-277)',
           'NmVerif.Eval.evalFreshCast / evalIntoCast (Eval/Cast.lean), driver op eval_cast': 'the copy loop of evaluator_t when the result element type differs from the view\'s (implicit conversion); result element type = get_element_type_t<view> in every branch of meta::resolve_unary_array_type / resolve_binary_array_type (eval.hpp:395-672, resolver eval_t :888-948) and of eval_result_t; harness/h_c10mx.cpp',
           'Arr (shape + get) as view denotation': 'nmtools::shape(view) / apply_at(view, ndindex(shape)[i]) read by the harness for every composition'}
MANIFEST = dict(
    text='Proof: Lean theorems about the evaluator model over an ARBITRARY view denotation (any shape, any element function): evaluating into a '
         'supplied output of the right shape makes every element equal the view\'s element for row- and column-major outputs, a wrong-shaped output is '
         'left untouched, the library-allocated result denotes the view for both resolvers and the two layouts agree, the maybe lifting is empty iff the '
         'view is, and composition is unobservable: indexing views, element-wise maps, broadcasting binary/ternary ufuncs, reductions and accumulations '
         'all respect array equivalence, so an outer operation over a lazy inner view equals the same operation over the inner view evaluated first, to any '
         'depth. Tied to the C++ on every run by generated compositions (chains and binary trees of depth 1..3 over 25 operations) evaluated lazily, '
         'eagerly and with every inner view materialised, compared with NumPy and with the Lean evaluator model.',
    note='Lean kernel + propext/Classical.choice/Quot.sound; the evaluator model is hand-written and parameterised by the view (its fidelity and the '
         'per-operation denotations rest on the correspondence run and on C03-C08); compositions are sampled, not exhaustive; SIMD / device evaluators are '
         'C12/C13; one genuine defect found here was repaired in /repo (ADL picked the eager array::apply_slice inside view::matmul / flip / slice / split / reduce / accumulate when array/slice.hpp was included; the calls are now qualified) and is re-run as a sanitizer regression TU.',
    technique='Lean 4 proofs about the evaluator model over an arbitrary view denotation + differential correspondence on generated compositions + NumPy oracle')
ASSUMPTIONS = ['each operation\'s own denotation (shape and element function) is what C03-C08/C16/C17 establish; C10 quantifies over the denotation',
               'arguments stay in the accepted, defect-free domain of C03-C08 (non-negative axes except for cumsum, in-range take indices, no rank-0 reshape; slices are arbitrary Python slices incl. negative bounds and steps, non-empty results)',
               'integer provenance data stays below 2^31 (generator rejects larger intermediate values); float32 results are compared with NumPy under a 2e-6 relative tolerance and bit-exactly between evaluation strategies',
               'compile-time-constant index kinds beyond the six ct operations here, clipped shapes and NMTOOLS_DISABLE_STL builds are C09/C11']
PARTIAL = []
KNOWN_PREDICATES = {}
