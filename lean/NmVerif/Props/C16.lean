import NmVerif.Basic
import NmVerif.Arr
import NmVerif.Linalg
import NmVerif.Lemmas.LinalgList
import NmVerif.Lemmas.LinalgMatmul
import NmVerif.Lemmas.LinalgMatmulV2
import NmVerif.Lemmas.LinalgMatmul1d
import NmVerif.Lemmas.LinalgDot
import NmVerif.Lemmas.LinalgTrace
import NmVerif.Lemmas.LinalgTensordot
import NmVerif.Lemmas.LinalgSmall
import NmVerif.Lemmas.LinalgKron
import NmVerif.Lemmas.LinalgRefusal
import NmVerif.Lemmas.LinalgChecked
/-
  C16 — Linear-algebra routines equal their mathematical definitions.
  Only property statements (+ non-vacuity examples, counterexample theorems) live here; the proofs are in
  Lemmas/Linalg*.lean.  MODEL and SPEC: NmVerif/Linalg.lean, Index/Matmul.lean, Index/MatmulBroadcast.lean.

  Results are *symbolic*: a routine returns, for every destination index, the list of product terms
  `(lhs index, rhs index)` it sums, in fold order; `valueAt` evaluates such a list on concrete data.
-/
namespace NmVerif.Props.C16
open NmVerif.MB
open NmVerif NmVerif.Linalg

/-! ### matmul -/

/-- `index::shape_matmul` is NumPy's rule for every pair of operand shapes of rank ≥ 1 (accepted or refused):
    `Nothing` exactly when the contracted extents differ or the batch parts do not broadcast; otherwise
    broadcast(batch) ++ [m] (lhs not 1-d) ++ [n] (rhs not 1-d). -/
theorem shapeMatmul_eq_numpy (sa sb : Shape) (ha : 1 ≤ sa.length) (hb : 1 ≤ sb.length) :
    shapeMatmul sa sb = specMatmulShape sa sb := shapeMatmul_eq_spec sa sb ha hb

example : shapeMatmul [2, 1, 3, 4] [5, 4, 2] = some [2, 5, 3, 2] := by decide
example : shapeMatmul [4] [3, 4, 2] = some [3, 2] := by decide
example : shapeMatmul [2, 3] [4, 2] = none := by decide

/-- `view::matmul` (slicing implementation), every pair of operand shapes of rank ≥ 1 that NumPy accepts — any batch ranks /
    broadcast pattern, 1-d promotion on either side (fix C16-matmul-1d-operand: a 1-d lhs is the row, a 1-d rhs the column,
    the result has no coordinate for it): the shape is NumPy's and the terms summed for `out[β…, i, j]` are exactly
    `a[β_a…, i, k] · b[β_b…, k, j]` for `k = 0, …, K-1`, in this order (the `i` / `j` coordinate absent for a 1-d lhs /
    rhs); no element access leaves the result index (`some`). -/
theorem matmul_elem_eq_sum (sa sb dst : Shape) (ha : 1 ≤ sa.length) (hb : 1 ≤ sb.length)
    (hacc : specMatmulShape sa sb = some dst) :
    ∃ r, matmulV1 sa sb = some r ∧ r.shape = dst ∧
      ∀ d, InShape d dst → r.get d = some (specMatmulTerms sa sb d) :=
  matmulV1_eq_spec_all sa sb dst ha hb hacc

example : specMatmulShape [2, 1, 2, 3] [4, 3, 2] = some [2, 4, 2, 2] := by decide
example : specMatmulTerms [2, 1, 2, 3] [4, 3, 2] [1, 3, 0, 1] =
    [([1, 0, 0, 0], [3, 0, 1]), ([1, 0, 0, 1], [3, 1, 1]), ([1, 0, 0, 2], [3, 2, 1])] := by decide
-- 1-d promotion on either side
example : specMatmulShape [3] [2, 3, 2] = some [2, 2] ∧ specMatmulShape [2, 2, 3] [3] = some [2, 2] ∧ specMatmulShape [3] [3] = some [] := by decide
example : specMatmulTerms [2, 2, 3] [3] [1, 0] = [([1, 0, 0], [0]), ([1, 0, 1], [1]), ([1, 0, 2], [2])] := by decide

/-- `view::matmulv2` (tile / reshape / transpose / reshape / multiply / sum pipeline) is NumPy's matmul on every accepted
    pair of operand shapes of rank ≥ 1 with positive extents — batch broadcasting and 1-d promotion on either side
    included: NumPy's shape and, for every element, exactly the terms `a[β_a…, i, k] · b[β_b…, k, j]`, `k = 0 … K-1`,
    in order (the `i` / `j` coordinate absent for a 1-d lhs / rhs). -/
theorem matmulv2_eq_def (sa sb dst : Shape) (ha : 1 ≤ sa.length) (hb : 1 ≤ sb.length) (hpa : Pos sa) (hpb : Pos sb)
    (hacc : specMatmulShape sa sb = some dst) :
    ∃ r, matmulV2C sa sb = some r ∧ r.shape = dst ∧ ∀ d, InShape d dst → r.get d = specMatmulTerms sa sb d :=
  matmulV2C_eq_spec sa sb dst ha hb hpa hpb hacc

example : specMatmulShape [3] [2, 3, 2] = some [2, 2] ∧ Pos [3] ∧ Pos [2, 3, 2] := by decide
example : specMatmulTerms [3] [2, 3, 2] [1, 0] = [([0], [1, 0, 0]), ([1], [1, 1, 0]), ([2], [1, 2, 0])] := by decide

/-- both implementations sum the same terms in the same order on every accepted pair of operand shapes of rank ≥ 1 -/
theorem matmulv2_eq_matmul (sa sb dst : Shape) (ha : 1 ≤ sa.length) (hb : 1 ≤ sb.length) (hpa : Pos sa) (hpb : Pos sb)
    (hacc : specMatmulShape sa sb = some dst) :
    ∃ r1 r2, matmulV1 sa sb = some r1 ∧ matmulV2C sa sb = some r2 ∧ r1.shape = r2.shape ∧
      ∀ d, InShape d dst → r1.get d = some (r2.get d) := by
  obtain ⟨r1, h1, s1, g1⟩ := matmulV1_eq_spec_all sa sb dst ha hb hacc
  obtain ⟨r2, h2, s2, g2⟩ := matmulV2C_eq_spec sa sb dst ha hb hpa hpb hacc
  exact ⟨r1, r2, h1, h2, s1.trans s2.symm, fun d hd => by rw [g1 d hd, g2 d hd]⟩

example : specMatmulShape [3] [2, 3, 2] = some [2, 2] ∧ Pos [3] ∧ Pos [2, 3, 2] := by decide

/-- value form: for any integer operand data the element of `matmulv2` is `Σ_k A[…]·B[…]` over NumPy's terms -/
theorem matmulv2_value (sa sb dst : Shape) (ha : 1 ≤ sa.length) (hb : 1 ≤ sb.length) (hpa : Pos sa) (hpb : Pos sb)
    (hacc : specMatmulShape sa sb = some dst) (A B : Idx → Int) :
    ∃ r, matmulV2C sa sb = some r ∧ ∀ d, InShape d dst →
      valueAt A B (r.get d) = valueAt A B (specMatmulTerms sa sb d) := by
  obtain ⟨r, h, _, g⟩ := matmulV2C_eq_spec sa sb dst ha hb hpa hpb hacc
  exact ⟨r, h, fun d hd => by rw [g d hd]⟩

/-- value form for `view::matmul`: for any integer operand data the element is `Σ_k A[…]·B[…]` over NumPy's terms -/
theorem matmul_value (sa sb dst : Shape) (ha : 1 ≤ sa.length) (hb : 1 ≤ sb.length)
    (hacc : specMatmulShape sa sb = some dst) (A B : Idx → Int) :
    ∃ r, matmulV1 sa sb = some r ∧ ∀ d, InShape d dst →
      (r.get d).map (valueAt A B) = some (valueAt A B (specMatmulTerms sa sb d)) := by
  obtain ⟨r, h, _, g⟩ := matmulV1_eq_spec_all sa sb dst ha hb hacc
  exact ⟨r, h, fun d hd => by rw [g d hd]; rfl⟩

example : specMatmulShape [2, 3] [3] = some [2] ∧ specMatmulTerms [2, 3] [3] [1] = [([1, 0], [0]), ([1, 1], [1]), ([1, 2], [2])] := by decide

/-- regression instance of the repaired defect matmul.v1-1d-operand (fix C16-matmul-1d-operand): `view::matmul` of two 1-d
    operands reads `Σ_k a[k]·b[k]` (formerly `at(indices,-2)` of an empty index: every element access out of range) -/
theorem matmul_v1_1d_regression :
    (matmulV1 [3] [3]).map (fun r => r.get []) = some (some [([0], [0]), ([1], [1]), ([2], [2])]) ∧
    (specMatmul [3] [3]).map (fun r => r.get []) = some [([0], [0]), ([1], [1]), ([2], [2])] ∧
    (matmulV1 [3] [3, 2]).map (fun r => r.get [1]) = some (some [([0], [0, 1]), ([1], [1, 1]), ([2], [2, 1])]) ∧
    (matmulV1 [2, 3] [3]).map (fun r => r.get [1]) = some (some [([1, 0], [0]), ([1, 1], [1]), ([1, 2], [2])]) :=
  ⟨by decide, by decide, by decide, by decide⟩

/-! ### refusals: operand pairs NumPy does not accept -/

/-- `view::matmul` answers a view exactly on the operand pairs (ranks ≥ 1) `np.matmul` accepts: `Nothing` for mismatching
    contracted extents (also 1 against n: not broadcast) and for batch axes that do not broadcast -/
theorem matmul_isSome_iff (sa sb : Shape) (ha : 1 ≤ sa.length) (hb : 1 ≤ sb.length) :
    (matmulV1 sa sb).isSome ↔ (specMatmulShape sa sb).isSome := matmulV1_isSome_iff sa sb ha hb

example : (matmulV1 [2, 1] [3, 2]).isSome = false ∧ (specMatmulShape [2, 1] [3, 2]).isSome = false ∧
    (matmulV1 [2, 3] [3, 2]).isSome = true := by decide

/-- `view::dot` answers a value exactly on the operand pairs (ranks ≥ 1, positive extents) `np.dot` accepts: the reshape of
    the tiled lhs has the element count `… k·n` against `… n·k'`, equal only for `k = k'` -/
theorem dot_isSome_iff (sa sb : Shape) (ha : 1 ≤ sa.length) (hb : 1 ≤ sb.length) (hpa : Pos sa) (hpb : Pos sb) :
    (dot sa sb).isSome ↔ (specDot sa sb).isSome := dot_isSome_iff_spec sa sb ha hb hpa hpb

example : (dot [2, 1] [3, 2]).isSome = false ∧ (specDot [2, 1] [3, 2]).isSome = false ∧ (dot [2, 3] [4, 3, 2]).isSome = true ∧
    Pos [2, 1] ∧ Pos [3, 2] := by decide

/-- `view::matmulv2` (repaired, fix C15-contraction-extent: `index::shape_matmul` is asked, as in `view::matmul`) answers a
    value exactly on the operand pairs (ranks ≥ 1, positive extents) `np.matmul` accepts -/
theorem matmulv2_isSome_iff (sa sb : Shape) (ha : 1 ≤ sa.length) (hb : 1 ≤ sb.length) (hpa : Pos sa) (hpb : Pos sb) :
    (matmulV2C sa sb).isSome ↔ (specMatmulShape sa sb).isSome := matmulV2C_isSome_iff sa sb ha hb hpa hpb

example : (matmulV2C [2, 1] [3, 2]).isSome = false ∧ (matmulV2C [2, 3] [3, 2]).isSome = true ∧ Pos [2, 1] ∧ Pos [3, 2] := by decide

/-- `view::inner` (repaired) answers a value exactly on the operand pairs (ranks ≥ 1, positive extents) `np.inner` accepts:
    equal last extents — a last extent 1 is not broadcast against its partner -/
theorem inner_isSome_iff (sa sb : Shape) (ha : 1 ≤ sa.length) (hb : 1 ≤ sb.length) (hpb : Pos sb) :
    (innerC sa sb).isSome ↔ (specInner sa sb).isSome := innerC_isSome_iff sa sb ha hb hpb

example : (innerC [2, 1] [2, 3]).isSome = false ∧ (innerC [2, 3] [4, 3]).isSome = true ∧ Pos [2, 3] := by decide

/-- `view::vecdot` (repaired) answers a value exactly on the operand pairs (ranks ≥ 1) `np.vecdot` accepts: equal last
    extents and leading axes that broadcast -/
theorem vecdot_isSome_iff (sa sb : Shape) (ha : 1 ≤ sa.length) (hb : 1 ≤ sb.length) :
    (vecdotC sa sb).isSome ↔ (specVecdot sa sb).isSome := vecdotC_isSome_iff sa sb ha hb

example : (vecdotC [2, 1] [2, 3]).isSome = false ∧ (vecdotC [2, 1, 3] [4, 3]).isSome = true ∧ (vecdotC [2, 3] [3, 3]).isSome = false := by decide

/-- `view::tensordot(a, b, n)` (repaired) answers a value exactly when `n` exceeds neither rank and the last `n` extents of
    `a` ARE the first `n` extents of `b` (NumPy's rule; no broadcasting of a contracted extent 1, `Nothing` instead of an
    out-of-range read for `n` beyond a rank) -/
theorem tensordot_int_isSome_iff (sa sb : Shape) (n : Nat) (hpb : Pos sb) :
    (tensordotIntC sa sb n).isSome ↔ (n ≤ sa.length ∧ n ≤ sb.length ∧ sa.drop (sa.length - n) = sb.take n) :=
  tensordotIntC_isSome_iff sa sb n hpb

example : (tensordotIntC [2, 1] [3, 2] 1).isSome = false ∧ (tensordotIntC [2] [2, 2] 2).isSome = false ∧
    (tensordotIntC [2, 3, 4] [3, 4, 5] 2).isSome = true ∧ Pos [3, 4, 5] := by decide

/-- `view::tensordot(a, b, (lhs_axes, rhs_axes))` (repaired) with valid axis lists (in range — normalisation succeeds —, no
    axis listed twice, equal counts) answers a value exactly when `np.tensordot` accepts: the paired extents are equal -/
theorem tensordot_isSome_iff (sa sb : Shape) (la ra : List Int) (la' ra' : List Nat)
    (hla : la.mapM (normAxis · sa.length) = some la') (hra : ra.mapM (normAxis · sb.length) = some ra')
    (hnda : la'.Nodup) (hndb : ra'.Nodup) (hlen : la.length = ra.length) (hpb : Pos sb) :
    (tensordotAxesC sa sb la ra).isSome ↔ (specTensordot sa sb la' ra').isSome :=
  tensordotAxesC_isSome_iff sa sb la ra la' ra' hla hra hnda hndb hlen hpb

example : [(-1 : Int)].mapM (normAxis · 2) = some [1] ∧ [(0 : Int)].mapM (normAxis · 2) = some [0] ∧
    (tensordotAxesC [2, 1] [3, 2] [-1] [0]).isSome = false ∧ (tensordotAxesC [2, 3] [3, 2] [-1] [0]).isSome = true := by decide

/-- regression instance of the repaired defect matmulv2.contraction-extent-broadcast (fix C15-contraction-extent): the
    pipeline alone pairs the contracted extent 1 with 3, the view refuses like NumPy and `view::matmul` -/
theorem matmulv2_contraction_regression :
    (matmulV2 [2, 1] [3, 2]).map (·.shape) = some [2, 2] ∧ matmulV2C [2, 1] [3, 2] = none ∧
    specMatmulShape [2, 1] [3, 2] = none ∧ (matmulV1 [2, 1] [3, 2]).isSome = false := by decide

/-- regression instances of the repaired defect C16.contraction-extent-broadcast (= C15.contraction-extent-broadcast) and
    of C15.tensordot-axes-beyond-rank: `view::inner`, `view::vecdot`, `view::tensordot` (integer and explicit axes) refuse
    a contracted extent 1 against another extent, and an integer `n` beyond a rank -/
theorem contraction_extent_regression :
    (innerC [2, 1] [2, 3] = none ∧ (specInner [2, 1] [2, 3]).isSome = false) ∧
    (vecdotC [2, 1] [2, 3] = none ∧ (specVecdot [2, 1] [2, 3]).isSome = false) ∧
    (tensordotIntC [2, 1] [3, 2] 1 = none ∧ (specTensordot [2, 1] [3, 2] [1] [0]).isSome = false) ∧
    (tensordotAxesC [2, 1] [3, 2] [-1] [0] = none) ∧ (tensordotIntC [2] [2, 2] 2 = none) :=
  ⟨by decide, by decide, by decide, by decide, by decide⟩

/-! ### dot / inner / outer / vecdot

  Each theorem: whenever NumPy accepts the operand shapes (`specX sa sb = some s`, ranks ≥ 1, positive extents), the
  nmtools pipeline yields a result of NumPy's shape whose every element sums exactly NumPy's terms, in order. -/

/-- `view::dot` = `np.dot`: `dot(a,b)[i…, j…, m] = Σ_k a[i…, k]·b[j…, k, m]` (1-d rhs: `Σ_k a[i…,k]·b[k]`),
    shape `a.shape[:-1] ++ b.shape[:-2] ++ b.shape[-1:]` -/
theorem dot_eq_def (sa sb : Shape) (s : Arr (List Term)) (ha : 1 ≤ sa.length) (hb : 1 ≤ sb.length) (hpb : Pos sb)
    (hacc : specDot sa sb = some s) :
    ∃ r, dot sa sb = some r ∧ r.shape = s.shape ∧ ∀ d, InShape d s.shape → r.get d = s.get d :=
  dot_eq_spec sa sb s ha hb hpb hacc

example : (specDot [2, 3] [4, 3, 5]).map (·.shape) = some [2, 4, 5] := by decide
example : (specDot [2, 3] [4, 3, 5]).map (·.get [1, 2, 4]) =
    some [([1, 0], [2, 0, 4]), ([1, 1], [2, 1, 4]), ([1, 2], [2, 2, 4])] := by decide

/-- `view::inner` = `np.inner`: `inner(a,b)[i…, j…] = Σ_k a[i…, k]·b[j…, k]`, shape `a.shape[:-1] ++ b.shape[:-1]` -/
theorem inner_eq_def (sa sb : Shape) (s : Arr (List Term)) (ha : 1 ≤ sa.length) (hb : 1 ≤ sb.length) (hpb : Pos sb)
    (hacc : specInner sa sb = some s) :
    ∃ r, innerC sa sb = some r ∧ r.shape = s.shape ∧ ∀ d, InShape d s.shape → r.get d = s.get d :=
  innerC_eq_spec sa sb s ha hb hpb hacc

example : (specInner [2, 3] [4, 2, 3]).map (·.shape) = some [2, 4, 2] := by decide
example : (specInner [2, 3] [4, 2, 3]).map (·.get [1, 3, 0]) =
    some [([1, 0], [3, 0, 0]), ([1, 1], [3, 0, 1]), ([1, 2], [3, 0, 2])] := by decide

/-- `view::outer` = `np.outer`: shape `(size a, size b)`, `out[x, y] = a.ravel()[x]·b.ravel()[y]`, any operand ranks -/
theorem outer_eq_def (sa sb : Shape) (hpa : Pos sa) (hpb : Pos sb) :
    ∃ r, outer sa sb = some r ∧ r.shape = (specOuter sa sb).shape ∧
      ∀ d, InShape d (specOuter sa sb).shape → r.get d = (specOuter sa sb).get d :=
  outer_eq_spec sa sb hpa hpb

example : (specOuter [2, 3] [2]).shape = [6, 2] ∧ (specOuter [2, 3] [2]).get [4, 1] = ([1, 1], [1]) := by decide

/-- `view::vecdot` = `np.vecdot`: the last axes are contracted, the leading axes broadcast:
    `out[β…] = Σ_k a[β_a…, k]·b[β_b…, k]` -/
theorem vecdot_eq_def (sa sb : Shape) (s : Arr (List Term)) (ha : 1 ≤ sa.length) (hb : 1 ≤ sb.length)
    (hacc : specVecdot sa sb = some s) :
    ∃ r, vecdotC sa sb = some r ∧ r.shape = s.shape ∧ ∀ d, InShape d s.shape → r.get d = s.get d :=
  vecdotC_eq_spec sa sb s ha hb hacc

example : (specVecdot [2, 1, 3] [4, 3]).map (·.shape) = some [2, 4] := by decide
example : (specVecdot [2, 1, 3] [4, 3]).map (·.get [1, 2]) =
    some [([1, 0, 0], [2, 0]), ([1, 0, 1], [2, 1]), ([1, 0, 2], [2, 2])] := by decide

/-! ### trace -/

/-- `view::trace(a, offset, axis1, axis2)` = `np.trace` for every rank ≥ 2, every pair of distinct axes (negative
    spellings included) and every offset of either sign with a non-empty diagonal (`-extent(axis1) < offset < extent(axis2)`):
    the two axes are removed from the shape and
    `out[rest] = Σ_i a[rest; axis1 = i + max(-offset,0), axis2 = i + max(offset,0)]`,
    `i = 0 … min(n1 - max(-offset,0), n2 - max(offset,0)) - 1` in order; every read is inside the operand.
    (Model elements are the buffer positions read, `some (row-major offset)`.)  The model is the repaired
    `index::diagonal` / `index::shape_diagonal` (fix commits C04-diagonal.negative-offset, C04-diagonal.offset-beyond-extent). -/
theorem trace_eq_def (s : Shape) (off : Int) (a1 a2 : Int) (ax1 ax2 n1 n2 : Nat)
    (hax1 : normAxis a1 s.length = some ax1) (hax2 : normAxis a2 s.length = some ax2)
    (h12 : ax1 ≠ ax2) (hn1 : s[ax1]? = some n1) (hn2 : s[ax2]? = some n2)
    (hlo : -(n1 : Int) < off) (hhi : off < n2) :
    ∃ r sp, trace s off a1 a2 = some r ∧ specTrace s off ax1 ax2 = some sp ∧ r.shape = sp.shape ∧
      ∀ d, InShape d sp.shape →
        r.get d = (sp.get d).map (fun i => some (computeOffset i (strides s))) ∧ ∀ i ∈ sp.get d, InShape i s :=
  trace_eq_spec s off a1 a2 ax1 ax2 n1 n2 hax1 hax2 h12 hn1 hn2 hlo hhi

example : normAxis (-1) 3 = some 2 ∧ normAxis 0 3 = some 0 ∧ [2, 3, 4][2]? = some 4 ∧ [2, 3, 4][0]? = some 2 := by decide
example : (specTrace [2, 3, 4] 1 2 0).map (·.shape) = some [3] := by decide
example : (specTrace [2, 3, 4] 1 2 0).map (·.get [2]) = some [[1, 2, 0]] := by decide
example : (specTrace [3, 4] 1 0 1).map (·.get []) = some [[0, 1], [1, 2], [2, 3]] := by decide
-- negative offset: rows shifted
example : (specTrace [3, 4] (-1) 0 1).map (·.get []) = some [[1, 0], [2, 1]] := by decide
example : (trace [2, 3, 3] (-1) 1 2).map (fun r => (r.shape, r.get [0], r.get [1])) =
    some ([2], [some 3, some 7], [some 12, some 16]) := by decide

/-! ### tensordot -/

/-- `view::tensordot(a, b, n)` with an integer `n` (any ranks, any `0 ≤ n ≤ min rank`; `n = 0` is the outer product):
    for `a` of shape `FA ++ C` and `b` of shape `C ++ FB` (`|C| = n`, positive extents) the result has NumPy's shape
    `FA ++ FB` and `out[p…, q…] = Σ_c a[p…, c…] · b[c…, q…]`, `c` running over exactly the contracted block `C` in
    row-major order — the last `n` axes of `a` paired in order with the first `n` axes of `b`. -/
theorem tensordot_int_eq_def (FA FB C : Shape) (hpb : Pos FB) :
    ∃ r, tensordotIntC (FA ++ C) (C ++ FB) C.length = some r ∧ r.shape = FA ++ FB ∧
      ∀ p q, InShape p FA → InShape q FB →
        r.get (p ++ q) = (allIdx C).map (fun c => (p ++ c, c ++ q)) :=
  tensordotIntC_elem FA FB C hpb

example : (tensordotIntC [2, 3, 4] [3, 4, 5] 2).map (fun r => (r.shape, r.get [1, 4])) =
    some ([2, 5], (allIdx [3, 4]).map (fun c => ([1] ++ c, c ++ [4]))) := by decide

/-- `view::tensordot(a, b, (lhs_axes, rhs_axes))` = `np.tensordot` for every operand rank, every pair of axis lists that
    NumPy accepts (equal counts, distinct in-range axes after normalising negative spellings, equal paired extents):
    the shape is (free extents of a) ++ (free extents of b) and
    `out[i_free…, j_free…] = Σ_c a[i_free on the free axes, c[t] on lhs_axes[t]] · b[j_free on the free axes, c[t] on rhs_axes[t]]`,
    `c` running over exactly the contracted extents in row-major order of the listed axes. -/
theorem tensordot_eq_def (sa sb : Shape) (la ra : List Int) (la' ra' : List Nat) (s : Arr (List Term))
    (hla : la.mapM (normAxis · sa.length) = some la') (hra : ra.mapM (normAxis · sb.length) = some ra')
    (hpb : Pos sb) (hacc : specTensordot sa sb la' ra' = some s) :
    ∃ r, tensordotAxesC sa sb la ra = some r ∧ r.shape = s.shape ∧ ∀ d, InShape d s.shape → r.get d = s.get d :=
  tensordotAxesC_eq_spec sa sb la ra la' ra' s hla hra hpb hacc

example : [(-3 : Int), 2].mapM (normAxis · 3) = some [0, 2] ∧ [(2 : Int), -2].mapM (normAxis · 3) = some [2, 1] ∧ Pos [5, 4, 2] ∧
    (specTensordot [2, 3, 4] [5, 4, 2] [0, 2] [2, 1]).map (fun s => (s.shape, (s.get [1, 3]).take 3)) =
      some ([3, 5], [([0, 1, 0], [3, 0, 0]), ([0, 1, 1], [3, 1, 0]), ([0, 1, 2], [3, 2, 0])]) := by decide

/-- auxiliary form, about the pipeline of `view::tensordot` (`tensordotAxes`, before its closing extent check): shape and
    term structure with the two transposes still in `scatter` form -/
theorem tensordot_axes_term_structure (sa sb : Shape) (la ra : List Int) (la' ra' : List Nat) (FA FB C : Shape)
    (hla : la.mapM (normAxis · sa.length) = some la') (hra : ra.mapM (normAxis · sb.length) = some ra')
    (hta : (moveToEnd sa.length la').mapM (fun k => sa[k]?) = some (FA ++ C))
    (htb : (moveToEnd sb.length ra').mapM (fun k => sb[k]?) = some (FB ++ C))
    (hn : la.length = C.length) (hlb : sb.length = FB.length + C.length) (hpb : Pos FB) :
    ∃ r, tensordotAxes sa sb la ra = some r ∧ r.shape = FA ++ FB ∧
      ∀ p q, InShape p FA → InShape q FB →
        r.get (p ++ q) = (allIdx C).map (fun c =>
          (scatter (p ++ c) (moveToEnd sa.length la'), scatter (q ++ c) (moveToEnd sb.length ra'))) :=
  tensordotAxes_elem_scatter sa sb la ra la' ra' FA FB C hla hra hta htb hn hlb hpb

example : [(-3 : Int), 2].mapM (normAxis · 3) = some [0, 2] ∧ (moveToEnd 3 [0, 2]).mapM (fun k => [2, 3, 4][k]?) = some ([3] ++ [2, 4])
    ∧ (moveToEnd 3 [2, 1]).mapM (fun k => [5, 4, 2][k]?) = some ([5] ++ [2, 4]) := by decide
example : scatter ([1] ++ [0, 3]) (moveToEnd 3 [0, 2]) = placeIdx [0, 2] [0, 3] (List.range 3) [1] := by decide

/-- cross-check of `tensordot_eq_def` by kernel evaluation: every pair of operand shapes of rank ≤ 2 with extents 1..2,
    every ordered choice of contracted axes that NumPy accepts — NumPy's shape and exactly NumPy's terms at every index -/
theorem tensordot_axes_small_scope (sa sb : Shape) (ha : sa ∈ smallShapes) (hb : sb ∈ smallShapes) :
    tensordotAgrees sa sb = true := tensordot_small sa ha sb hb

example : [2, 2] ∈ smallShapes ∧
    (specTensordot [2, 2] [2, 2] [1, 0] [0, 1]).map (fun s => (s.shape, s.get [])) =
      some ([], [([0, 0], [0, 0]), ([1, 0], [0, 1]), ([0, 1], [1, 0]), ([1, 1], [1, 1])]) := by decide

/-! ### kron -/

/-- `view::kron` = `np.kron` for every pair of operand ranks and positive extents: the shapes are right-aligned (the
    shorter one padded with leading ones), `out.shape[t] = a'[t]·b'[t]` and
    `out[d] = a[d[t] / b'[t] …] · b[d[t] % b'[t] …]` — one product term per element, every pair `(i, j)` of operand
    indices exactly once.  (Behind it: the closed form of `kron_dst_transpose` for all ranks — `kronDstTranspose_eq` —,
    the interleaving transpose and the reshape that merges each pair `(i_t, j_t)` into `i_t·b_t + j_t`.) -/
theorem kron_eq_def (sa sb : Shape) (hpb : Pos sb) :
    ∃ r, kron sa sb = some r ∧ r.shape = (specKron sa sb).shape ∧
      ∀ d, InShape d (specKron sa sb).shape → r.get d = (specKron sa sb).get d :=
  kron_eq_spec sa sb hpb

/-- the transposition axes `kron_dst_transpose` computes (a recursion on the rank difference with pairwise swaps) are,
    for all ranks: the leading axes of the longer operand, then the axes of both operands interleaved -/
theorem kron_dst_transpose_closed_form (l r : Nat) :
    kronDstTranspose (l + r + 1) l r = (List.range (l + r)).map (kronAxis l r) :=
  kronDstTranspose_eq _ l r (by split <;> omega)

example : (List.range 5).map (kronAxis 1 4) = [1, 2, 3, 0, 4] ∧ (List.range 5).map (kronAxis 3 2) = [0, 1, 3, 2, 4] := by decide

/-- cross-check of `kron_eq_def` by kernel evaluation on a small scope (ranks ≤ 2 / extents ≤ 2, and ranks (1,3), (3,1)) -/
theorem kron_small_scope (sa sb : Shape)
    (h : (sa ∈ smallShapes ∧ sb ∈ smallShapes) ∨ (sa ∈ shapesOfRank 1 2 ∧ sb ∈ shapesOfRank 3 2)
       ∨ (sa ∈ shapesOfRank 3 2 ∧ sb ∈ shapesOfRank 1 2)) :
    kronAgrees sa sb = true := by
  rcases h with ⟨ha, hb⟩ | ⟨ha, hb⟩ | ⟨ha, hb⟩
  · exact kron_small sa ha sb hb
  · exact kron_small_13 sa ha sb hb
  · exact kron_small_31 sa ha sb hb

example : [2, 2] ∈ smallShapes ∧ [2] ∈ smallShapes ∧ (specKron [2, 2] [2]).shape = [2, 4] ∧
    (specKron [2, 2] [2]).get [1, 3] = ([1, 1], [1]) := by decide

end NmVerif.Props.C16
