import NmVerif.Index.SlidingWindow
import NmVerif.Lemmas.Roll
import NmVerif.Lemmas.SelCommon
import NmVerif.Lemmas.SelUtil
/-
  NmVerif.Lemmas.SlidingWindow — SPEC side and helper lemmas for `view::sliding_window` with a window LIST
  (`numpy.lib.stride_tricks.sliding_window_view(a, window_shape, axis)`).

    `winSum ks o p`    sum of the entries `o[j]` whose axis `ks[j]` is `p` (NumPy adds the stride of axis `ks[j]` once per
                       window axis `j`, so a repeated axis accumulates)
    `swShape s ks ws`  NumPy's result shape: extent `p` trimmed by `Σ_{ks[j]=p} (ws[j]-1)`, then the window extents
    `swIndex i ks o`   NumPy's source index of element `(i…, o…)`: `i[p] + Σ_{ks[j]=p} o[j]`
-/
namespace NmVerif.Index

/-- total of the entries of `o` listed for axis `p` (0 for an axis that is not listed) -/
def winSum : List Nat → List Nat → Nat → Nat
  | k :: ks, x :: o, p => (if k = p then x else 0) + winSum ks o p
  | _, _, _ => 0

/-- NumPy: `x_shape_trimmed[ax] -= dim - 1` for every `(ax, dim)`, then `+ window_shape` -/
def swShape (s : Shape) (ks ws : List Nat) : Shape :=
  s.mapIdx (fun p e => e - winSum ks (ws.map (· - 1)) p) ++ ws

/-- NumPy: `out_strides = x.strides + (x.strides[ax] for ax in axis)`, i.e. coordinate `p` of the source index is
    `i[p]` plus every window coordinate whose axis is `p` -/
def swIndex (i : Idx) (ks o : List Nat) : Idx := i.mapIdx (fun p x => x + winSum ks o p)

theorem mapM_normalizeAxis1_of_axesNorm (n : Nat) (axes : List Int) (ks : List Nat) (h : AxesNorm n axes ks) :
    axes.mapM (fun a => normalizeAxis1 a n) = some ks := by
  induction h with
  | nil => rfl
  | cons hk _ ih => simp [hk, ih]

theorem AxesNorm.lt {n : Nat} {axes : List Int} {ks : List Nat} (h : AxesNorm n axes ks) : ∀ k ∈ ks, k < n := by
  induction h with
  | nil => simp
  | cons hk _ ih =>
    intro k hmem
    rcases List.mem_cons.1 hmem with rfl | h'
    · exact (normalizeAxis1_some _ _ _ hk).1
    · exact ih k h'

/-- the sequential trimming loop of `shape_sliding_window` = trimming every extent by its total -/
theorem shrinkAxes_eq (s : Shape) (ks ws : List Nat) (hks : ∀ k ∈ ks, k < s.length) :
    shrinkAxes s ks ws = s.mapIdx (fun p e => e - winSum ks (ws.map (· - 1)) p) := by
  induction ks generalizing s ws with
  | nil =>
    simp only [shrinkAxes, winSum, Nat.sub_zero]
    apply List.ext_getElem?
    intro p
    simp
  | cons k ks ih =>
    cases ws with
    | nil =>
      simp only [shrinkAxes, List.map_nil, winSum, Nat.sub_zero]
      apply List.ext_getElem?
      intro p
      simp
    | cons w ws =>
      have hk : k < s.length := hks k (by simp)
      simp only [shrinkAxes, List.getElem?_eq_getElem hk, List.map_cons, winSum]
      rw [ih _ ws (by intro k' hk'; simpa using hks k' (by simp [hk']))]
      apply List.ext_getElem?
      intro p
      simp only [List.getElem?_mapIdx, List.getElem?_set]
      by_cases hkp : k = p
      · subst hkp
        simp only [hk, if_true, Option.map_some, List.getElem?_eq_getElem hk]
        congr 1
        omega
      · simp only [hkp, if_false, Nat.zero_add]

/-- the offset loop of `index::sliding_window` on accepted axes (raw, possibly negative, repeats allowed) -/
theorem addWindowOffsets_eq (i : Idx) (axes : List Int) (ks o : List Nat) (h : AxesNorm i.length axes ks) :
    addWindowOffsets i axes o = some (swIndex i ks o) := by
  induction axes generalizing i ks o with
  | nil =>
    cases h
    simp only [addWindowOffsets, swIndex, winSum, Nat.add_zero, Option.some.injEq]
    apply List.ext_getElem?
    intro p
    simp
  | cons ax axes ih =>
    cases h with
    | cons hk hrest =>
      rename_i k ks'
      cases o with
      | nil =>
        simp only [addWindowOffsets, swIndex, winSum, Nat.add_zero, Option.some.injEq]
        apply List.ext_getElem?
        intro p
        simp
      | cons x o =>
        have hkn := (normalizeAxis1_some ax _ k hk).1
        simp only [addWindowOffsets, atPy_of_normalizeAxis1 i ax k hk, List.getElem?_eq_getElem hkn,
          setPy_of_normalizeAxis1 i ax k _ hk]
        rw [ih (i.set k (i[k] + x)) ks' o (by simpa using hrest)]
        simp only [swIndex, winSum, Option.some.injEq]
        apply List.ext_getElem?
        intro p
        simp only [List.getElem?_mapIdx, List.getElem?_set]
        by_cases hkp : k = p
        · subst hkp
          simp only [hkn, if_true, Option.map_some, List.getElem?_eq_getElem hkn]
          congr 1
          omega
        · simp only [hkp, if_false, Nat.zero_add]

/-- window coordinates inside the window shape add up to at most the total trim -/
theorem winSum_le (ks o ws : List Nat) (p : Nat) (ho : InShape o ws) : winSum ks o p ≤ winSum ks (ws.map (· - 1)) p := by
  induction ks generalizing o ws with
  | nil => simp [winSum]
  | cons k ks ih =>
    cases o with
    | nil => cases ws <;> simp [winSum, InShape] at ho ⊢
    | cons x o =>
      cases ws with
      | nil => simp [InShape] at ho
      | cons w ws =>
        simp only [InShape] at ho
        simp only [List.map_cons, winSum]
        have := ih o ws ho.2
        split <;> omega

/-- an index inside the trimmed shape plus window coordinates inside the window shape stays inside the source -/
theorem swIndex_inShape (s : Shape) (ks ws : List Nat) (i o : Idx)
    (hi : InShape i (s.mapIdx (fun p e => e - winSum ks (ws.map (· - 1)) p))) (ho : InShape o ws) :
    InShape (swIndex i ks o) s := by
  rw [inShape_iff_forall] at hi ⊢
  obtain ⟨hl, hh⟩ := hi
  simp only [List.length_mapIdx] at hl hh
  refine ⟨by simp [swIndex, hl], ?_⟩
  intro p h1 h2
  simp only [swIndex, List.length_mapIdx] at h1
  have := hh p h1 (by omega)
  have hle := winSum_le ks o ws p ho
  simp only [List.getElem_mapIdx] at this
  simp only [swIndex, List.getElem_mapIdx]
  omega

/-- axis None: every axis gets its own window; in-bounds part -/
theorem zipWith_add_inShape (s ws : List Nat) (i o : Idx) (hl : ws.length = s.length)
    (hi : InShape i (List.zipWith (fun e w => e - (w - 1)) s ws)) (ho : InShape o ws) :
    InShape (List.zipWith (· + ·) i o) s := by
  induction s generalizing ws i o with
  | nil =>
    cases ws with
    | nil => cases i <;> simp_all [InShape]
    | cons w ws => simp at hl
  | cons e s ih =>
    cases ws with
    | nil => simp at hl
    | cons w ws =>
      cases i with
      | nil => simp [InShape] at hi
      | cons x i =>
        cases o with
        | nil => simp [InShape] at ho
        | cons y o =>
          simp only [List.zipWith_cons_cons, InShape] at hi ho ⊢
          exact ⟨by omega, ih ws i o (by simpa using hl) hi.2 ho.2⟩

end NmVerif.Index
