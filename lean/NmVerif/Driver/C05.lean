import NmVerif.Proto
import NmVerif.Index.Slice
/-
  Driver for C05: answers the `slice` requests of harness/h_c05_*.cpp with the MODEL of NmVerif.Index.Slice
  (same request syntax, same canonical answer text; see harness/c05_common.hpp).
  `unmodelled` = the model says the C++ has UB / throws on this input (no value to compare).
-/
namespace NmVerif.Driver.C05
open NmVerif NmVerif.Proto NmVerif.Slice

def parsePart (s : String) : Option (Option Int) :=
  if s == "N" then some none else s.toInt?.map some

def parseEntry (t : String) : Option Entry :=
  if t == "e" then some .ellipsis
  else if t.startsWith "i" then (t.drop 1).toString.toInt?.map .int
  else match t.splitOn ":" with
    | [a, b, c] => do
      let a ← parsePart a; let b ← parsePart b; let c ← parsePart c
      pure (.range a b c)
    | [a, b] => do
      let a ← parsePart a; let b ← parsePart b
      pure (.range2 a b)
    | _ => none

def parseEntries (s : String) : Option (List Entry) :=
  if s == "[]" || s == "" then some [] else (s.splitOn ";").mapM parseEntry

def maxElems : Nat := 4096

/-- saturating element count of a possibly garbage shape (mirror of `numel_sat`) -/
def numelSat (s : List Nat) : Nat :=
  if s.any (· == 0) then 0 else
  s.foldl (fun p e => if e > maxElems || p > maxElems then maxElems + 1 else p * e) 1

def answerIndex (shapeF : Option (List Nat)) (idxF : List Nat → Option (List Nat)) (at? : Option (List Nat)) : String :=
  match shapeF with
  | none => "unmodelled"
  | some dst =>
    let hd := s!"ok shape={fmtNats dst} idx="
    let n := numelSat dst
    if let some d := at? then
      match idxF d with
      | none => "unmodelled"
      | some i => hd ++ fmtNats i
    else if n > maxElems then hd ++ "big"
    else if n == 0 then hd ++ "[]"
    else match (allIdx dst).mapM idxF with
      | none => "unmodelled"
      | some l => hd ++ ";".intercalate (l.map fmtNats)

def answerView (src : List Nat) (shapeF : Option (List Nat)) (idxF : List Nat → Option (List Nat)) : String :=
  match shapeF with
  | none => "unmodelled"
  | some dst =>
    let hd := s!"ok shape={fmtNats dst} data="
    let n := numelSat dst
    if n > maxElems then hd ++ "big"
    else if n == 0 then hd ++ "[]"
    else
      let rec go (ds : List (List Nat)) (k : Nat) (acc : List String) : String :=
        match ds with
        | [] => hd ++ ",".intercalate acc.reverse
        | d :: rest =>
          match idxF d with
          | none => "unmodelled"
          | some i =>
            if decide (InShape i src) then go rest (k + 1) (toString (computeOffset i (strides src)) :: acc)
            else hd ++ ",".intercalate acc.reverse ++ s!"oob@{k}"
      go (allIdx dst) 0 []

def answerMutable (src : List Nat) (shapeF : Option (List Nat)) (idxF : List Nat → Option (List Nat)) : String :=
  match shapeF with
  | none => "unmodelled"
  | some dst =>
    let hd := s!"ok shape={fmtNats dst} buf="
    let n := numelSat dst
    if n > maxElems then hd ++ "big"
    else
      let rec go (ds : List (List Nat)) (k : Nat) (buf : List Nat) : String :=
        match ds with
        | [] => hd ++ fmtNats buf
        | d :: rest =>
          match idxF d with
          | none => "unmodelled"
          | some i =>
            if decide (InShape i src) then go rest (k + 1) (buf.set (computeOffset i (strides src)) (k + 1))
            else hd ++ s!"oob@{k}"
      go (if n == 0 then [] else allIdx dst) 0 (List.replicate (prod src) 0)

def handle : Handler := fun op a =>
  match op with
  | "slice" => orBad do
      let enc ← a.get? "enc"
      let level ← a.get? "level"
      let src ← a.nats "shape"
      let es ← (a.get? "sl").bind parseEntries
      let dyn := enc == "dynP" || enc == "dynA"
      if !dyn && enc != "packed" then none
      let shapeF := if dyn then shapeDynamicSlice src es else shapeSlice src es
      let idxF := if dyn then dynamicSlice src es else sliceIdx src es
      match level with
      | "index" | "apply" => pure (answerIndex shapeF idxF (a.nats "at"))
      | "view" | "viewapply" => pure (answerView src shapeF idxF)
      | "mutable" | "mutableapply" => pure (answerMutable src shapeF idxF)
      | _ => none
  | "slice2" => orBad do     -- a[sl][sl2]: two nested slice views (run-time encoding)
      let src ← a.nats "shape"
      let es1 ← (a.get? "sl").bind parseEntries
      let es2 ← (a.get? "sl2").bind parseEntries
      match shapeDynamicSlice src es1 with
      | none => pure "unmodelled"
      | some mid =>
        pure (answerView src (shapeDynamicSlice mid es2)
          (fun d => (dynamicSlice mid es2 d).bind (fun m => if decide (InShape m mid) then dynamicSlice src es1 m else none)))
  | _ => none

end NmVerif.Driver.C05
