import NmVerif.Lemmas.SliceND
/-
  C05 helper lemmas, part 3: the run-time (list of either) loops of shape_dynamic_slice / dynamic_slice compute what the
  compile-time (`template_for`) recursion of shape_slice / slice computes, wherever the latter has a value.
-/
namespace NmVerif.Slice
open NmVerif

theorem getElem?_pre (pre : List Nat) (n : Nat) (t : List Nat) : (pre ++ n :: t)[pre.length]? = some n := by
  simp

/-- the counter-based loop of `shape_dynamic_slice` computes what the `template_for` recursion of `shape_slice` does:
    the entries written plus the axes not yet visited are the packed result -/
theorem shapeDyn_go (nEll : Nat) : ∀ (es : List Entry) (sh pre acc r : List Nat),
    shapeGo nEll sh es = some r →
    ∃ st, es.foldl (shapeDynStep (pre ++ sh) nEll) (some ⟨acc, pre.length⟩) = some st ∧
      st.res ++ (pre ++ sh).drop st.shp = acc ++ r := by
  intro es
  induction es with
  | nil =>
    intro sh pre acc r h
    simp [shapeGo] at h; subst h
    exact ⟨⟨acc, pre.length⟩, rfl, by simp⟩
  | cons e es ih =>
    intro sh pre acc r h
    cases e with
    | ellipsis =>
      have h' : nEll ≤ sh.length ∧ ∃ r', shapeGo nEll (sh.drop nEll) es = some r' ∧ r = sh.take nEll ++ r' := by
        cases sh <;> simp only [shapeGo] at h <;> split at h <;>
          first
          | (rename_i hc; obtain ⟨r', hr', hrr⟩ := Option.map_eq_some_iff.1 h; exact ⟨hc, r', hr', hrr.symm⟩)
          | simp at h
      obtain ⟨hle, r', hr', rfl⟩ := h'
      obtain ⟨st, hst, hinv⟩ := ih (sh.drop nEll) (pre ++ sh.take nEll) (acc ++ sh.take nEll) r' hr'
      have e1 : pre ++ sh.take nEll ++ sh.drop nEll = pre ++ sh := by
        rw [List.append_assoc, List.take_append_drop]
      have e3 : (pre ++ sh.take nEll).length = pre.length + nEll := by
        rw [List.length_append, List.length_take]; omega
      rw [e1, e3] at hst
      rw [e1] at hinv
      refine ⟨st, ?_, by rw [hinv, List.append_assoc]⟩
      simp only [List.foldl, shapeDynStep]
      have hle' : pre.length + nEll ≤ (pre ++ sh).length := by simp only [List.length_append]; omega
      rw [if_pos hle']
      have e2 : (pre ++ sh).drop pre.length = sh := by simp
      rw [e2]
      exact hst
    | int k =>
      cases sh with
      | nil => simp [shapeGo] at h
      | cons n t =>
        simp only [shapeGo] at h
        obtain ⟨st, hst, hinv⟩ := ih t (pre ++ [n]) acc r h
        have e1 : pre ++ [n] ++ t = pre ++ n :: t := by simp
        rw [e1] at hst hinv
        refine ⟨st, ?_, hinv⟩
        simp only [List.foldl, shapeDynStep]
        simpa using hst
    | range a b c =>
      cases sh with
      | nil => simp [shapeGo] at h
      | cons n t =>
        simp only [shapeGo] at h
        split at h
        · rename_i l hl
          obtain ⟨r', hr', rfl⟩ := Option.map_eq_some_iff.1 h
          obtain ⟨st, hst, hinv⟩ := ih t (pre ++ [n]) (acc ++ [l.toNat]) r' hr'
          have e1 : pre ++ [n] ++ t = pre ++ n :: t := by simp
          rw [e1] at hst hinv
          refine ⟨st, ?_, by rw [hinv]; simp⟩
          simp only [List.foldl, shapeDynStep, getElem?_pre, hl]
          simpa using hst
        · simp at h
    | range2 a b =>
      cases sh with
      | nil => simp [shapeGo] at h
      | cons n t =>
        simp only [shapeGo] at h
        split at h
        · rename_i l hl
          obtain ⟨r', hr', rfl⟩ := Option.map_eq_some_iff.1 h
          obtain ⟨st, hst, hinv⟩ := ih t (pre ++ [n]) (acc ++ [l.toNat]) r' hr'
          have e1 : pre ++ [n] ++ t = pre ++ n :: t := by simp
          rw [e1] at hst hinv
          refine ⟨st, ?_, by rw [hinv]; simp⟩
          simp only [List.foldl, shapeDynStep, getElem?_pre, hl]
          simpa using hst
        · simp at h

theorem padZeros_some_le {L : Nat} {l r : List Nat} (h : padZeros L l = some r) : l.length ≤ L := by
  unfold padZeros at h
  split at h
  · assumption
  · simp at h

theorem shape_packed_eq_dynamic (shape : List Nat) (es : List Entry) (r : List Nat)
    (h : shapeSlice shape es = some r) : shapeDynamicSlice shape es = some r := by
  unfold shapeSlice at h
  unfold shapeDynamicSlice
  simp only at h ⊢
  split at h
  · simp at h
  · rename_i h1
    split at h
    · simp at h
    · rename_i h2
      rw [if_neg h1, if_neg h2]
      obtain ⟨r', hr', hp⟩ := Option.bind_eq_some_iff.1 h
      obtain ⟨st, hst, hinv⟩ := shapeDyn_go _ es shape [] [] r' hr'
      simp only [List.nil_append, List.length_nil] at hst hinv
      rw [hst]
      simp only [Option.map_some, Option.bind_some]
      have hle := padZeros_some_le hp
      have hlen : st.res.length + (shape.drop st.shp).length = r'.length := by
        rw [← List.length_append, hinv]
      have : (shape.drop st.shp).take (shape.length - numInt es - st.res.length) = shape.drop st.shp :=
        List.take_of_length_le (by omega)
      rw [this, hinv]
      exact hp

theorem idxDyn_range_step (nEll n i : Nat) (t ix pre ipre acc : List Nat) (e : Entry) (es : List Entry)
    (he : (∃ a b c, e = .range a b c) ∨ (∃ a b, e = .range2 a b)) :
    (e :: es).foldl (idxDynStep (pre ++ n :: t) (ipre ++ i :: ix) nEll) (some ⟨acc, pre.length, ipre.length⟩) =
    es.foldl (idxDynStep (pre ++ n :: t) (ipre ++ i :: ix) nEll) (some ⟨acc ++ [(e.idx n i).toNat], pre.length + 1, ipre.length + 1⟩) := by
  rcases he with ⟨a, b, c, rfl⟩ | ⟨a, b, rfl⟩ <;> simp [List.foldl, idxDynStep]

theorem idxDyn_go (nEll : Nat) : ∀ (es : List Entry) (sh pre ix ipre acc r : List Nat),
    acc.length = pre.length →
    idxGo nEll sh ix es = some r →
    ∃ st, es.foldl (idxDynStep (pre ++ sh) (ipre ++ ix) nEll) (some ⟨acc, pre.length, ipre.length⟩) = some st ∧
      st.res ++ ((ipre ++ ix).drop st.ind).take ((pre ++ sh).length - st.res.length) = acc ++ r := by
  intro es
  induction es with
  | nil =>
    intro sh pre ix ipre acc r hacc h
    simp [idxGo] at h; subst h
    refine ⟨⟨acc, pre.length, ipre.length⟩, rfl, ?_⟩
    simp [hacc]
  | cons e es ih =>
    intro sh pre ix ipre acc r hacc h
    cases e with
    | ellipsis =>
      have h' : (nEll ≤ sh.length ∧ nEll ≤ ix.length) ∧
          ∃ r', idxGo nEll (sh.drop nEll) (ix.drop nEll) es = some r' ∧ r = ix.take nEll ++ r' := by
        cases sh <;> simp only [idxGo] at h <;> split at h <;>
          first
          | (rename_i hc; obtain ⟨r', hr', hrr⟩ := Option.map_eq_some_iff.1 h; exact ⟨hc, r', hr', hrr.symm⟩)
          | simp at h
      obtain ⟨hle, r', hr', rfl⟩ := h'
      have e3 : (pre ++ sh.take nEll).length = pre.length + nEll := by
        rw [List.length_append, List.length_take]; omega
      have e3' : (ipre ++ ix.take nEll).length = ipre.length + nEll := by
        rw [List.length_append, List.length_take]; omega
      have hacc' : (acc ++ ix.take nEll).length = (pre ++ sh.take nEll).length := by
        rw [e3, List.length_append, List.length_take]; omega
      obtain ⟨st, hst, hinv⟩ := ih (sh.drop nEll) (pre ++ sh.take nEll) (ix.drop nEll) (ipre ++ ix.take nEll)
        (acc ++ ix.take nEll) r' hacc' hr'
      have e1 : pre ++ sh.take nEll ++ sh.drop nEll = pre ++ sh := by
        rw [List.append_assoc, List.take_append_drop]
      have e1' : ipre ++ ix.take nEll ++ ix.drop nEll = ipre ++ ix := by
        rw [List.append_assoc, List.take_append_drop]
      rw [e1, e1', e3, e3'] at hst
      rw [e1, e1'] at hinv
      refine ⟨st, ?_, by rw [hinv, List.append_assoc]⟩
      simp only [List.foldl, idxDynStep]
      have hle' : pre.length + nEll ≤ (pre ++ sh).length ∧ ipre.length + nEll ≤ (ipre ++ ix).length := by
        simp only [List.length_append]; omega
      rw [if_pos hle']
      have e2 : (ipre ++ ix).drop ipre.length = ix := by simp
      rw [e2]
      exact hst
    | int k =>
      cases sh with
      | nil => simp [idxGo] at h
      | cons n t =>
        simp only [idxGo] at h
        obtain ⟨r', hr', rfl⟩ := Option.map_eq_some_iff.1 h
        obtain ⟨st, hst, hinv⟩ := ih t (pre ++ [n]) ix ipre (acc ++ [(intIndex n k).toNat]) r' (by simp [hacc]) hr'
        have e1 : pre ++ [n] ++ t = pre ++ n :: t := by simp
        rw [e1] at hst hinv
        refine ⟨st, ?_, by rw [hinv]; simp⟩
        simp only [List.foldl, idxDynStep, getElem?_pre]
        simpa using hst
    | range a b c =>
      cases sh with
      | nil => simp [idxGo] at h
      | cons n t =>
        cases ix with
        | nil => simp [idxGo] at h
        | cons i ix =>
          simp only [idxGo] at h
          obtain ⟨r', hr', rfl⟩ := Option.map_eq_some_iff.1 h
          obtain ⟨st, hst, hinv⟩ := ih t (pre ++ [n]) ix (ipre ++ [i]) (acc ++ [((Entry.range a b c).idx n i).toNat]) r'
            (by simp [hacc]) hr'
          have e1 : pre ++ [n] ++ t = pre ++ n :: t := by simp
          have e1' : ipre ++ [i] ++ ix = ipre ++ i :: ix := by simp
          rw [e1, e1'] at hst hinv
          refine ⟨st, ?_, by rw [hinv]; simp⟩
          rw [idxDyn_range_step _ _ _ _ _ _ _ _ _ _ (Or.inl ⟨a, b, c, rfl⟩)]
          simpa using hst
    | range2 a b =>
      cases sh with
      | nil => simp [idxGo] at h
      | cons n t =>
        cases ix with
        | nil => simp [idxGo] at h
        | cons i ix =>
          simp only [idxGo] at h
          obtain ⟨r', hr', rfl⟩ := Option.map_eq_some_iff.1 h
          obtain ⟨st, hst, hinv⟩ := ih t (pre ++ [n]) ix (ipre ++ [i]) (acc ++ [((Entry.range2 a b).idx n i).toNat]) r'
            (by simp [hacc]) hr'
          have e1 : pre ++ [n] ++ t = pre ++ n :: t := by simp
          have e1' : ipre ++ [i] ++ ix = ipre ++ i :: ix := by simp
          rw [e1, e1'] at hst hinv
          refine ⟨st, ?_, by rw [hinv]; simp⟩
          rw [idxDyn_range_step _ _ _ _ _ _ _ _ _ _ (Or.inr ⟨a, b, rfl⟩)]
          simpa using hst

theorem idx_packed_eq_dynamic (shape : List Nat) (es : List Entry) (d r : List Nat)
    (h : sliceIdx shape es d = some r) : dynamicSlice shape es d = some r := by
  unfold sliceIdx at h
  unfold dynamicSlice
  simp only at h ⊢
  split at h
  · simp at h
  · rename_i h1
    rw [if_neg h1]
    obtain ⟨r', hr', hp⟩ := Option.bind_eq_some_iff.1 h
    obtain ⟨st, hst, hinv⟩ := idxDyn_go _ es shape [] d [] [] r' rfl hr'
    simp only [List.nil_append, List.length_nil] at hst hinv
    rw [hst]
    simp only [Option.map_some, Option.bind_some]
    rw [hinv]
    exact hp

end NmVerif.Slice
