import NmVerif.Lemmas.Reduce
import NmVerif.Index.ReduceTrace
/-
  Lemmas for `trace_eq_sum_diag` (C08): a reduction over the last axis folds `j ++ [0], j ++ [1], …`; the diagonal
  index map is NumPy's.

  The first block (`diagonalFill_eq_placeIdx` … `length_filterMap_getElem?`) restates, in this namespace, lemmas that C16
  proves in Lemmas/LinalgTrace.lean about the same model functions (`Linalg.diagonalFill`, `Linalg.placeIdx`): that file
  cannot be imported here, because its import closure (Lemmas/LinalgList.lean) declares `NmVerif.bcRev_comm`, which
  Lemmas/Broadcast.lean declares too, and Props/C02.lean, Props/C10.lean import Props/C08.lean next to Props/C06.lean.
-/
namespace NmVerif.Reduce
open NmVerif
open Linalg

/-- the code's fill loop and NumPy's "put `c1`, `c2` on the two axes, the rest in order" agree -/
theorem diagonalFill_eq_placeIdx (ax1 ax2 c1 c2 : Nat) (h12 : ax1 ≠ ax2) :
    ∀ (L : List Nat) (free extra : Idx),
      (L.filter (fun i => decide (i ≠ ax1 ∧ i ≠ ax2))).length ≤ free.length →
      diagonalFill ax1 ax2 (c1 : Int) (c2 : Int) L (free ++ extra) =
        (placeIdx [ax1, ax2] [c1, c2] L free).map (fun (x : Nat) => (x : Int)) := by
  intro L
  induction L with
  | nil => intro free extra _; simp [diagonalFill, placeIdx]
  | cons i is ih =>
    intro free extra hlen
    simp only [diagonalFill, placeIdx, List.zip_cons_cons, List.zip_nil_right, List.lookup_cons, List.lookup_nil]
    by_cases h2 : i = ax2
    · have h1 : i ≠ ax1 := by rw [h2]; exact h12.symm
      have hb1 : (i == ax1) = false := by simpa using h1
      have hb2 : (i == ax2) = true := by simpa using h2
      simp only [if_pos h2, hb1, hb2, List.map_cons]
      rw [ih free extra (by simpa [List.filter_cons, h1, h2] using hlen)]
    · by_cases h1 : i = ax1
      · have hb1 : (i == ax1) = true := by simpa using h1
        simp only [if_neg h2, if_pos h1, hb1, List.map_cons]
        rw [ih free extra (by simpa [List.filter_cons, h1, h2] using hlen)]
      · have hb1 : (i == ax1) = false := by simpa using h1
        have hb2 : (i == ax2) = false := by simpa using h2
        simp only [if_neg h2, if_neg h1, hb1, hb2]
        have hlen' : (is.filter (fun i => decide (i ≠ ax1 ∧ i ≠ ax2))).length + 1 ≤ free.length := by
          simpa [List.filter_cons, h1, h2] using hlen
        match free, hlen' with
        | f :: fs, hl =>
          simp only [List.cons_append, List.map_cons]
          rw [ih fs extra (by simpa using hl)]
        | [], hl => simp at hl

theorem placeIdx_inShape (sh : Shape) (ax1 ax2 c1 c2 n1 n2 : Nat) (h12 : ax1 ≠ ax2)
    (hn1 : sh[ax1]? = some n1) (hn2 : sh[ax2]? = some n2) (hc1 : c1 < n1) (hc2 : c2 < n2) :
    ∀ (L : List Nat) (free : Idx), (∀ i ∈ L, i < sh.length) →
      InShape free ((L.filter (fun i => decide (i ≠ ax1 ∧ i ≠ ax2))).filterMap (fun i => sh[i]?)) →
      InShape (placeIdx [ax1, ax2] [c1, c2] L free) (L.filterMap (fun i => sh[i]?)) := by
  intro L
  induction L with
  | nil => intro free _ _; simp [placeIdx, InShape]
  | cons i is ih =>
    intro free hL hfree
    have hi : i < sh.length := hL i (by simp)
    have hL' : ∀ j ∈ is, j < sh.length := fun j hj => hL j (by simp [hj])
    have hsi : sh[i]? = some sh[i] := List.getElem?_eq_getElem hi
    simp only [placeIdx, List.zip_cons_cons, List.zip_nil_right, List.lookup_cons, List.lookup_nil]
    rw [List.filterMap_cons, hsi]
    by_cases h1 : i = ax1
    · have hb1 : (i == ax1) = true := by simpa using h1
      simp only [hb1, InShape]
      refine ⟨?_, ih free hL' (by simpa [List.filter_cons, h1] using hfree)⟩
      subst h1; rw [hsi] at hn1; simp at hn1; omega
    · by_cases h2 : i = ax2
      · have hb1 : (i == ax1) = false := by simpa using h1
        have hb2 : (i == ax2) = true := by simpa using h2
        simp only [hb1, hb2, InShape]
        refine ⟨?_, ih free hL' (by simpa [List.filter_cons, h1, h2] using hfree)⟩
        subst h2; rw [hsi] at hn2; simp at hn2; omega
      · have hb1 : (i == ax1) = false := by simpa using h1
        have hb2 : (i == ax2) = false := by simpa using h2
        simp only [hb1, hb2]
        have hfree' : InShape free (sh[i] :: (is.filter (fun i => decide (i ≠ ax1 ∧ i ≠ ax2))).filterMap (fun i => sh[i]?)) := by
          simpa [List.filter_cons, h1, h2, hsi] using hfree
        match free, hfree' with
        | f :: fs, hf =>
          simp only [InShape] at hf ⊢
          exact ⟨hf.1, ih fs hL' hf.2⟩
        | [], hf => simp [InShape] at hf

theorem filterMap_congr_mem {α β : Type} {l : List α} {f g : α → Option β} (h : ∀ a ∈ l, f a = g a) :
    l.filterMap f = l.filterMap g := by
  induction l with
  | nil => rfl
  | cons x xs ih =>
    simp only [List.filterMap_cons, h x (by simp)]
    rw [ih (fun a ha => h a (by simp [ha]))]

theorem filterMap_getElem?_range (s : List Nat) : (List.range s.length).filterMap (fun i => s[i]?) = s := by
  have : (List.range s.length).filterMap (fun i => s[i]?) = (List.range s.length).filterMap (fun i => some (s.getD i 0)) := by
    apply filterMap_congr_mem
    intro j hj
    simp [List.mem_range.1 hj, List.getD_eq_getElem?_getD]
  rw [this, List.filterMap_eq_map']
  apply List.ext_getElem
  · simp
  · intro i h1 h2; simp at h1; simp [List.getElem?_eq_getElem h1]

theorem length_filterMap_getElem? (s L : List Nat) (h : ∀ i ∈ L, i < s.length) :
    (L.filterMap (fun i => s[i]?)).length = L.length := by
  induction L with
  | nil => rfl
  | cons x xs ih =>
    have hxl : x < s.length := h x (by simp)
    have hx : s[x]? = some s[x] := List.getElem?_eq_getElem hxl
    rw [List.filterMap_cons, hx]
    simp [ih (fun i hi => h i (by simp [hi]))]



theorem normAxis_neg_one (m : Nat) : normAxis (m+1) (-1) = m := by
  unfold normAxis
  have : (-1 : Int) % ((m+1 : Nat) : Int) = m := by
    rw [← Int.add_emod_right, Int.emod_eq_of_lt (by omega) (by omega)]
    omega
  rw [this]; simp

theorem removeDimsLoop_last (p : Nat → Bool) (len : Nat) :
    ∀ (rest : Shape) (i : Nat), (∀ k, k < rest.length → p (i + k) = false) → p (i + rest.length) = true →
      removeDimsLoop p false i (rest ++ [len]) = rest := by
  intro rest
  induction rest with
  | nil => intro i _ h; simp at h; simp [removeDimsLoop, h]
  | cons a t ih =>
    intro i h1 h2
    have h0 : p i = false := by simpa using h1 0 (by simp)
    simp only [List.cons_append, removeDimsLoop, h0, Bool.false_and, Bool.false_eq_true, if_false]
    rw [ih (i+1) (fun k hk => by rw [← h1 (k+1) (by simpa using hk)]; congr 1; omega)
      (by rw [← h2]; congr 1; simp; omega)]

theorem slicesL_last (p : Nat → Bool) (len : Nat) :
    ∀ (rest : Shape) (i : Nat) (j : Idx), j.length = rest.length →
      (∀ k, k < rest.length → p (i + k) = false) → p (i + rest.length) = true →
      slicesL p false i j (rest ++ [len]) = some (j.map (fun x => (x, x+1)) ++ [(0, len)]) := by
  intro rest
  induction rest with
  | nil =>
    intro i j hj _ h
    have : j = [] := List.length_eq_zero_iff.1 hj
    subst this
    simp at h
    simp [slicesL, h]
  | cons a t ih =>
    intro i j hj h1 h2
    have h0 : p i = false := by simpa using h1 0 (by simp)
    cases j with
    | nil => simp at hj
    | cons j0 j' =>
      simp only [List.cons_append, slicesL, h0, Bool.false_eq_true, if_false, List.map_cons]
      rw [ih (i+1) j' (by simpa using hj) (fun k hk => by rw [← h1 (k+1) (by simpa using hk)]; congr 1; omega)
        (by rw [← h2]; congr 1; simp; omega)]
      rfl

theorem boxIdx_last (len : Nat) : ∀ (j : Idx),
    boxIdx (j.map (fun x => (x, x+1)) ++ [(0, len)]) = (List.range len).map (fun i => j ++ [i]) := by
  intro j
  induction j with
  | nil =>
    simp only [List.map_nil, List.nil_append, boxIdx, Nat.sub_zero, List.map_cons, List.map_nil]
    rw [← List.range_eq_range']
    induction (List.range len) with
    | nil => rfl
    | cons x xs ih => simp [List.flatMap_cons, ih]
  | cons x xs ih =>
    simp only [List.map_cons, List.cons_append, boxIdx, Nat.add_sub_cancel_left, List.range'_one,
      List.flatMap_cons, List.flatMap_nil, List.append_nil, ih, List.map_map]
    rfl

/-- reducing the last axis: result shape = the other extents -/
theorem specShape_last (rest : Shape) (len : Nat) : specShape (rest ++ [len]) [rest.length] false = rest := by
  rw [specShape_eq_loop (fun k => decide (k ∈ [rest.length])) _ false _ (fun _ _ => rfl)]
  apply removeDimsLoop_last
  · intro k hk; simp; omega
  · simp

/-- reducing the last axis: result index `j` is fed by `j ++ [0], j ++ [1], …` in that order -/
theorem addressed_last (rest : Shape) (len : Nat) (j : Idx) (hj : InShape j rest) :
    addressed (rest ++ [len]) [rest.length] false j = (List.range len).map (fun i => j ++ [i]) := by
  let p : Nat → Bool := fun k => decide (k ∈ [rest.length])
  have hp1 : ∀ k, k < rest.length → p (0 + k) = false := by intro k hk; simp [p]; omega
  have hp2 : p (0 + rest.length) = true := by simp [p]
  have hrd := removeDimsLoop_last p len rest 0 hp1 hp2
  obtain ⟨sl, h1, h3⟩ := slicesL_box_all p false (rest ++ [len]) 0 j (by rw [hrd]; exact hj)
  rw [slicesL_last p len rest 0 j hj.length_eq hp1 hp2, Option.some.injEq] at h1
  rw [← h1, boxIdx_last] at h3
  rw [h3]
  simp only [addressed]
  apply List.filter_congr
  intro x hx
  rw [proj_eq_loop p _ false x (rest ++ [len]).length (mem_allIdx_length hx) (fun _ _ => rfl)]

theorem readAt_ofNat {α : Type} (a : Arr α) (i : Idx) (h : InShape i a.shape) :
    readAt a (i.map (fun (x : Nat) => (x : Int))) = some (a.get i) := by
  unfold readAt
  have hm : (i.map (fun (x : Nat) => (x : Int))).map Int.toNat = i := by
    rw [List.map_map]; conv => rhs; rw [← List.map_id i]
    apply List.map_congr_left; intro x _; simp
  rw [hm, if_pos ⟨by intro x hx; simp only [List.mem_map] at hx; obtain ⟨y, _, rfl⟩ := hx; omega, h⟩]

theorem foldNumpy_optOp_join {α β : Type} (f : α → α → α) (z : Option α) (g : β → α) (l : List β) :
    (foldNumpy (z.map some) (optOp f) none (l.map (fun x => some (g x)))).join = foldNumpy z f none (l.map g) := by
  cases l with
  | nil => cases z <;> rfl
  | cons b t => exact foldFirst_optOp_some f g (b :: t)

/-- `view::trace` on every accepted axis pair and EVERY offset (an empty diagonal included): NumPy's shape, and per result
    index the diagonal elements folded in increasing order (`zero` when there is none); every read inside the source shape -/
theorem trace_spec_all {α : Type} (add : α → α → α) (zero : Option α) (a : Arr α) (off axis1 axis2 : Int) (n1 n2 : Nat)
    (h1 : ValidAxis a.shape.length axis1) (h2 : ValidAxis a.shape.length axis2)
    (h12 : normAxis a.shape.length axis1 ≠ normAxis a.shape.length axis2)
    (hn1 : a.shape[normAxis a.shape.length axis1]? = some n1)
    (hn2 : a.shape[normAxis a.shape.length axis2]? = some n2) :
    ∃ v sp, trace add zero a off axis1 axis2 = some v ∧
      specTrace a.shape off (normAxis a.shape.length axis1) (normAxis a.shape.length axis2) = some sp ∧
      v.shape = sp.shape ∧
      ∀ j, InShape j sp.shape →
        v.get j = specTraceElem add zero a sp j ∧ ∀ i ∈ sp.get j, InShape i a.shape := by
  generalize hs : a.shape = s at *
  generalize hax1 : normAxis s.length axis1 = ax1 at *
  generalize hax2 : normAxis s.length axis2 = ax2 at *
  let rest := ((List.range s.length).filter (fun i => decide (i ≠ ax1 ∧ i ≠ ax2))).filterMap (fun i => s[i]?)
  let len := min (n1 - (-off).toNat) (n2 - off.toNat)
  have hsd : shapeDiagonal s off ax1 ax2 = some (rest ++ [len]) := by
    unfold shapeDiagonal
    simp only [hn1, hn2]
    simp only [rest, len]
    congr 2; congr 1
    repeat' split
    all_goals omega
  let dg : Arr (Option α) := ⟨rest ++ [len], fun d => readAt a (diagonalIdx s.length d off ax1 ax2)⟩
  have hdiag : diagonal a off axis1 axis2 = some dg := by
    unfold diagonal
    simp only [hs, normalizeAxis_of_valid h1, normalizeAxis_of_valid h2, hax1, hax2, if_neg h12, hsd, Option.map_some]
    rfl
  have hv : ValidAxes dg.shape.length (some [-1]) := by
    refine ⟨?_, by simp⟩
    intro x hx
    simp only [List.mem_singleton] at hx
    subst hx
    simp only [dg, List.length_append, List.length_singleton, ValidAxis]
    omega
  have hset : axisSet dg.shape.length (some [-1]) = [rest.length] := by
    simp only [dg, axisSet, List.length_append, List.length_singleton, List.map_cons, List.map_nil, normAxis_neg_one]
  have hshape : specShape dg.shape (axisSet dg.shape.length (some [-1])) false = rest := by
    rw [hset]; exact specShape_last rest len
  have hsp : specTrace s off ax1 ax2 = some ⟨rest, fun d =>
      (List.range len).map (fun i => placeIdx [ax1, ax2] [i + (-off).toNat, i + off.toNat] (List.range s.length) d)⟩ := by
    unfold specTrace
    simp only [hn1, hn2]
    rw [if_pos h12]
  refine ⟨⟨rest, fun j => (reduceElemId (zero.map some) (optOp add) none dg (some [-1]) false j).join⟩, _, ?_, hsp, rfl, ?_⟩
  · unfold trace
    simp only [hdiag, Option.bind_some, reduceId, removeDims_eq_spec dg.shape (some [-1]) false hv, hshape, Option.map_some]
  · intro j hj
    simp only at hj
    have hlenfree : ((List.range s.length).filter (fun i => decide (i ≠ ax1 ∧ i ≠ ax2))).length ≤ j.length := by
      have h1 := hj.length_eq
      simp only [rest] at h1
      rw [length_filterMap_getElem? s _ (fun i hi => List.mem_range.1 (List.mem_filter.1 hi).1)] at h1
      omega
    have hterm : ∀ i, i < len → InShape (placeIdx [ax1, ax2] [i + (-off).toNat, i + off.toNat] (List.range s.length) j) s := by
      intro i hi
      have := placeIdx_inShape s ax1 ax2 (i + (-off).toNat) (i + off.toNat) n1 n2 h12 hn1 hn2 (by simp only [len] at hi; omega)
        (by simp only [len] at hi; omega) (List.range s.length) j (fun k hk => List.mem_range.1 hk) hj
      rwa [filterMap_getElem?_range] at this
    have hread : ∀ i ∈ List.range len, dg.get (j ++ [i]) =
        some (a.get (placeIdx [ax1, ax2] [i + (-off).toNat, i + off.toNat] (List.range s.length) j)) := by
      intro i hi
      have hi' := List.mem_range.1 hi
      simp only [dg]
      unfold diagonalIdx
      have hgl : (j ++ [i]).getLast? = some i := by simp
      rw [hgl]
      simp only
      have hc1 : (i : Int) + (if off < 0 then -off else 0) = ((i + (-off).toNat : Nat) : Int) := by split <;> omega
      have hc2 : (i : Int) + (if off > 0 then off else 0) = ((i + off.toNat : Nat) : Int) := by split <;> omega
      rw [hc1, hc2]
      rw [diagonalFill_eq_placeIdx ax1 ax2 (i + (-off).toNat) (i + off.toNat) h12 (List.range s.length) j [i] hlenfree]
      exact readAt_ofNat a _ (by rw [hs]; exact hterm i hi')
    refine ⟨?_, ?_⟩
    · show (reduceElemId (zero.map some) (optOp add) none dg (some [-1]) false j).join = _
      rw [reduceElemId_eq_spec (zero.map some) (optOp add) none dg (some [-1]) false hv j (by rw [hshape]; exact hj)]
      simp only [specReduceElemId, hset]
      rw [show dg.shape = rest ++ [len] from rfl, addressed_last rest len j hj, List.map_map]
      rw [List.map_congr_left (g := fun i => some (a.get (placeIdx [ax1, ax2] [i + (-off).toNat, i + off.toNat] (List.range s.length) j)))
        (fun i hi => by simpa [Function.comp] using hread i hi)]
      rw [foldNumpy_optOp_join add zero (fun i => a.get (placeIdx [ax1, ax2] [i + (-off).toNat, i + off.toNat] (List.range s.length) j))]
      simp only [specTraceElem, List.map_map]
      rfl
    · intro idx hidx
      simp only [List.mem_map, List.mem_range] at hidx
      obtain ⟨i, hi, rfl⟩ := hidx
      exact hterm i hi

/-- … with a non-empty diagonal the fold starts from the first diagonal element (no identity needed) -/
theorem trace_spec {α : Type} (add : α → α → α) (zero : Option α) (a : Arr α) (off axis1 axis2 : Int) (n1 n2 : Nat)
    (h1 : ValidAxis a.shape.length axis1) (h2 : ValidAxis a.shape.length axis2)
    (h12 : normAxis a.shape.length axis1 ≠ normAxis a.shape.length axis2)
    (hn1 : a.shape[normAxis a.shape.length axis1]? = some n1)
    (hn2 : a.shape[normAxis a.shape.length axis2]? = some n2)
    (hlo : (-off).toNat < n1) (hhi : off.toNat < n2) :
    ∃ v sp, trace add zero a off axis1 axis2 = some v ∧
      specTrace a.shape off (normAxis a.shape.length axis1) (normAxis a.shape.length axis2) = some sp ∧
      v.shape = sp.shape ∧
      ∀ j, InShape j sp.shape →
        v.get j = foldFirst add none ((sp.get j).map a.get) ∧ sp.get j ≠ [] ∧ ∀ i ∈ sp.get j, InShape i a.shape := by
  obtain ⟨v, sp, hv, hsp, hsh, hel⟩ := trace_spec_all add zero a off axis1 axis2 n1 n2 h1 h2 h12 hn1 hn2
  refine ⟨v, sp, hv, hsp, hsh, ?_⟩
  intro j hj
  have hne : sp.get j ≠ [] := by
    unfold specTrace at hsp
    simp only [hn1, hn2, if_pos h12, Option.some.injEq] at hsp
    rw [← hsp]
    simp only [ne_eq, List.map_eq_nil_iff, List.range_eq_nil]
    omega
  obtain ⟨e1, e2⟩ := hel j hj
  refine ⟨?_, hne, e2⟩
  rw [e1, specTraceElem, foldNumpy_of_ne_nil _ _ _ (by simpa using hne)]

end NmVerif.Reduce
