import NmVerif.Containers.Core
import NmVerif.Containers.Spec
import NmVerif.Containers.Vector
/-
  Proofs about the `utl::vector` mirror: representation invariant, exact refinement of `std::vector`
  (`stdSpec`) on the histories that never rely on value-initialisation, object-level lemmas.
-/
namespace NmVerif.Containers
variable {α : Type}

theorem take_succ_set (l : List β) (n : Nat) (a : β) (h : n < l.length) :
    (l.set n a).take (n + 1) = l.take n ++ [a] := by
  induction l generalizing n with
  | nil => simp at h
  | cons x xs ih =>
    cases n with
    | zero => simp
    | succ m => simp at h; simp [ih m h]

namespace Vec

/-- representation invariant: a block is held, `cells` is that block, the logical size fits -/
structure Inv (v : Vec α) : Prop where
  blk : v.blk.isSome
  len : v.cells.length = v.cap
  le : v.size ≤ v.cap

theorem view_length (v : Vec α) (h : v.Inv) : v.view.length = v.size := by
  have := h.le
  simp [view, List.length_take, h.len]; omega

theorem mkDefault_inv (L : Ledger) : (mkDefault (α := α) L).1.Inv := by
  constructor <;> simp [mkDefault]

theorem initRange_length (zero : α) (cells : List (Cell α)) (old n : Nat) (hn : n ≤ cells.length) :
    (initRange zero cells old n).length = cells.length := by
  unfold initRange
  split
  · simp [List.length_take]; omega
  · rfl

theorem initRange_take_old (zero : α) (cells : List (Cell α)) (old n : Nat) (hn : n ≤ cells.length) :
    (initRange zero cells old n).take old = cells.take old := by
  unfold initRange
  split
  · rw [List.append_assoc, List.take_left']
    simp [List.length_take]; omega
  · rfl

theorem initRange_take (zero : α) (cells : List (Cell α)) (old n : Nat) (ho : old < n) (hn : n ≤ cells.length) :
    (initRange zero cells old n).take n = cells.take old ++ List.replicate (n - old) (some zero) := by
  unfold initRange
  simp only [ho, if_true]
  rw [List.take_left']
  simp [List.length_take]; omega

theorem resize_inv (zero : α) (v : Vec α) (n : Nat) (L : Ledger) (h : v.Inv) : (v.resize zero n L).1.Inv := by
  obtain ⟨p, hp⟩ := Option.isSome_iff_exists.mp h.blk
  have h1 := h.len; have h2 := h.le
  unfold resize
  simp only [hp]
  split
  · constructor
    · simp
    · simp [List.length_take]; omega
    · simp
  · constructor
    · simp [hp]
    · simp only []; rw [initRange_length zero v.cells v.size n (by omega)]; exact h.len
    · simp; omega

theorem resize_size (zero : α) (v : Vec α) (n : Nat) (L : Ledger) (h : v.Inv) : (v.resize zero n L).1.size = n := by
  obtain ⟨p, hp⟩ := Option.isSome_iff_exists.mp h.blk
  unfold resize
  simp only [hp]
  split <;> rfl

/-- `resize` is `std::vector::resize`: truncation, or growth by value-initialised elements -/
theorem resize_view (zero : α) (v : Vec α) (n : Nat) (L : Ledger) (h : v.Inv) :
    (v.resize zero n L).1.view =
      if n ≤ v.size then v.view.take n else v.view ++ List.replicate (n - v.size) (some zero) := by
  obtain ⟨p, hp⟩ := Option.isSome_iff_exists.mp h.blk
  have h1 := h.len; have h2 := h.le
  unfold resize
  simp only [hp]
  by_cases hc : v.cap < n
  · have hn : ¬ n ≤ v.size := by omega
    simp only [hc, if_true, hn, if_false, view]
    rw [List.take_of_length_le]
    simp [List.length_take]; omega
  · simp only [hc, if_false, view]
    by_cases hn : n ≤ v.size
    · have : ¬ v.size < n := by omega
      simp only [hn, if_true, initRange, this, if_false, List.take_take]
      congr 1; omega
    · simp only [hn, if_false]
      exact initRange_take zero v.cells v.size n (by omega) (by omega)

theorem copyFrom_inv (v o : Vec α) (L : Ledger) (h : v.Inv) (ho : o.Inv) (hs : v.size = o.size) :
    (v.copyFrom o L).1.Inv := by
  have h1 := h.len; have h2 := h.le; have h3 := ho.len; have h4 := ho.le
  constructor
  · exact h.blk
  · simp [copyFrom, List.length_take]; omega
  · exact h.le

theorem copyFrom_view (v o : Vec α) (L : Ledger) (ho : o.Inv) (hs : v.size = o.size) :
    (v.copyFrom o L).1.view = o.view := by
  have h3 := ho.len; have h4 := ho.le
  simp only [copyFrom, view]
  rw [List.take_left']
  · rw [hs]
  · simp [List.length_take]; omega

theorem storeAll_spec (v : Vec α) (i : Nat) (as : List α) (L : Ledger) (h : i + as.length ≤ v.cells.length) :
    storeAll v i as L =
      ({ v with cells := v.cells.take i ++ as.map some ++ v.cells.drop (i + as.length) }, L) := by
  induction as generalizing v i L with
  | nil => simp [storeAll]
  | cons a as ih =>
    simp only [List.length_cons] at h
    have hi : i < v.cells.length := by omega
    simp only [storeAll, store, hi, if_true]
    rw [ih]
    · simp only [List.length_cons, List.map_cons]
      congr 2
      have e1 : (v.cells.set i (some a)).take (i + 1) = v.cells.take i ++ [some a] := take_succ_set _ _ _ hi
      have e2 : (v.cells.set i (some a)).drop (i + 1 + as.length) = v.cells.drop (i + (as.length + 1)) := by
        rw [List.drop_set]
        have : i < i + 1 + as.length := by omega
        simp only [this, if_true]; congr 1; omega
      rw [e1, e2]; simp
    · simp; omega

theorem store_inv (v : Vec α) (i : Nat) (c : Cell α) (L : Ledger) (h : v.Inv) : (v.store i c L).1.Inv := by
  unfold store
  split
  · exact ⟨h.blk, by simp [h.len], h.le⟩
  · exact h

theorem mkSized_spec (zero : α) (n : Nat) (L : Ledger) :
    (mkSized zero n L).1.Inv ∧ (mkSized zero n L).1.view = List.replicate n (some zero) := by
  have h0 : ({ blk := some L.alloc.1, cells := List.replicate n none, size := 0, cap := n } : Vec α).Inv :=
    ⟨by simp, by simp, by simp⟩
  refine ⟨resize_inv zero _ n _ h0, ?_⟩
  unfold mkSized
  simp only []
  rw [resize_view zero _ n _ h0]
  by_cases hn : n = 0
  · subst hn; simp [view]
  · have : ¬ n ≤ 0 := by omega
    simp [this, view]

theorem mkVariadic_spec (zero : α) (vs : List α) (L : Ledger) :
    (mkVariadic zero vs L).1.Inv ∧ (mkVariadic zero vs L).1.view = vs.map some := by
  have h0 := mkDefault_inv (α := α) L
  have h1 := resize_inv zero _ vs.length (mkDefault (α := α) L).2 h0
  have h2 := resize_size zero _ vs.length (mkDefault (α := α) L).2 h0
  unfold mkVariadic
  simp only []
  rw [storeAll_spec]
  · constructor
    · exact ⟨h1.blk, by have := h1.len; have := h1.le; simp [List.length_take] at *; omega, h1.le⟩
    · simp only [view, h2, List.take_zero, List.nil_append]
      rw [List.take_left']
      simp
  · have := h1.len; have := h1.le; omega

theorem mkCopy_spec (zero : α) (o : Vec α) (L : Ledger) (ho : o.Inv) :
    (mkCopy zero o L).1.Inv ∧ (mkCopy zero o L).1.view = o.view := by
  have h0 := mkDefault_inv (α := α) L
  have h1 := resize_inv zero _ o.size (mkDefault (α := α) L).2 h0
  have h2 := resize_size zero _ o.size (mkDefault (α := α) L).2 h0
  exact ⟨copyFrom_inv _ o _ h1 ho h2, copyFrom_view _ o _ ho h2⟩

theorem assign_spec (zero : α) (v o : Vec α) (L : Ledger) (h : v.Inv) (ho : o.Inv) :
    (assign zero v o L).1.Inv ∧ (assign zero v o L).1.view = o.view := by
  have h1 := resize_inv zero v o.size L h
  have h2 := resize_size zero v o.size L h
  exact ⟨copyFrom_inv _ o _ h1 ho h2, copyFrom_view _ o _ ho h2⟩

theorem resize_same (zero : α) (v : Vec α) (L : Ledger) (h : v.Inv) : v.resize zero v.size L = (v, L) := by
  obtain ⟨p, hp⟩ := Option.isSome_iff_exists.mp h.blk
  have h1 := h.len; have h2 := h.le
  cases v with
  | mk blk cells size cap =>
    simp only at hp h1 h2
    subst hp
    have : ¬ cap < size := by omega
    simp [resize, this, initRange, Ledger.flagIf]

/-- `x = x` changes nothing at all -/
theorem assignSelf_eq (zero : α) (v : Vec α) (L : Ledger) (h : v.Inv) : assignSelf zero v L = (v, L) := by
  have h1 := h.len; have h2 := h.le
  unfold assignSelf
  simp only [resize_same zero v L h, copyFrom, List.take_append_drop]
  have : ¬ (v.cells.length < v.size) := by omega
  simp [Ledger.flagIf, this]

theorem pushCell_spec (zero : α) (v : Vec α) (c : Cell α) (L : Ledger) (h : v.Inv) :
    (pushCell zero v c L).1.Inv ∧ (pushCell zero v c L).1.view = v.view ++ [c] := by
  obtain ⟨p, hp⟩ := Option.isSome_iff_exists.mp h.blk
  have h1 := h.len; have h2 := h.le
  unfold pushCell
  split
  · -- full: reallocate to size+1
    have hr := resize_inv zero v (v.size + 1) L h
    have hs := resize_size zero v (v.size + 1) L h
    refine ⟨store_inv _ _ _ _ hr, ?_⟩
    have hc : (v.resize zero (v.size + 1) L).1.cells = v.cells.take v.size ++ [some zero] := by
      unfold resize; simp only [hp]
      have : v.cap < v.size + 1 := by omega
      simp [this]
    have hlen : v.size < (v.resize zero (v.size + 1) L).1.cells.length := by
      rw [hc]; simp [List.length_take]; omega
    simp only [store, hs, Nat.add_sub_cancel, hlen, if_true, view]
    rw [take_succ_set _ _ _ hlen, hc]
    rw [List.take_left']
    simp [List.length_take]; omega
  · have hlen : v.size < v.cells.length := by omega
    refine ⟨store_inv _ _ _ _ ⟨h.blk, h.len, by simp; omega⟩, ?_⟩
    simp only [store, Nat.add_sub_cancel, hlen, if_true, view]
    exact take_succ_set _ _ _ hlen

theorem write_spec (v : Vec α) (i : Nat) (a : α) (L : Ledger) (h : v.Inv) (hi : i < v.size) :
    (write v i a L).1.Inv ∧ (write v i a L).1.view = v.view.set i (some a) := by
  have h1 := h.len; have h2 := h.le
  have hlen : i < v.cells.length := by omega
  refine ⟨store_inv _ _ _ _ h, ?_⟩
  simp [write, store, hlen, view, List.take_set]

end Vec

/-- exact refinement relation towards `std::vector` -/
def RVec (v : Vec α) (l : List α) : Prop := v.Inv ∧ v.view = l.map some

/-- every operation of the alphabet is inside the refinement domain -/
def vecOk : Option (List α) → Op α → Prop := fun _ _ => True

theorem RVec.size_eq {v : Vec α} {l : List α} (h : RVec v l) : v.size = l.length := by
  have := Vec.view_length v h.1
  rw [h.2] at this; simpa using this.symm

theorem RVec.cell {v : Vec α} {l : List α} (h : RVec v l) (i : Nat) (hi : i < l.length) :
    v.cells[i]? = some (l[i]?) := by
  have hs := h.size_eq
  have hv := congrArg (fun t => t[i]?) h.2
  simp only [Vec.view, List.getElem?_take, List.getElem?_map] at hv
  have : i < v.size := by omega
  simp only [this, if_true] at hv
  rw [hv]
  simp [List.getElem?_eq_getElem hi]

theorem vec_sim (zero : α) : Sim (vecImpl zero) (stdSpec zero) RVec vecOk where
  size_eq := fun x y h => h.size_eq
  mkDefault := fun s L M _ => ⟨Vec.mkDefault_inv L, by simp [vecImpl, stdSpec, Vec.mkDefault, Vec.view]⟩
  mkSized := fun s n L M _ => ⟨(Vec.mkSized_spec zero n L).1, by
    show (Vec.mkSized zero n L).1.view = _
    rw [(Vec.mkSized_spec zero n L).2]; simp [stdSpec]⟩
  mkVariadic := fun s vs L M _ => ⟨(Vec.mkVariadic_spec zero vs L).1, (Vec.mkVariadic_spec zero vs L).2⟩
  mkCopy := fun d s x y L M _ h => ⟨(Vec.mkCopy_spec zero x L h.1).1, by
    show (Vec.mkCopy zero x L).1.view = _
    rw [(Vec.mkCopy_spec zero x L h.1).2]; exact h.2⟩
  assign := fun d s x y x' y' L M _ h h' => ⟨(Vec.assign_spec zero x x' L h.1 h'.1).1, by
    show (Vec.assign zero x x' L).1.view = _
    rw [(Vec.assign_spec zero x x' L h.1 h'.1).2]; exact h'.2⟩
  assignSelf := fun d x y L M _ h => by
    show RVec (Vec.assignSelf zero x L).1 y
    rw [Vec.assignSelf_eq zero x L h.1]; exact h
  push := fun s a x y L M _ h => ⟨(Vec.pushCell_spec zero x (some a) L h.1).1, by
    show (Vec.pushCell zero x (some a) L).1.view = _
    rw [(Vec.pushCell_spec zero x (some a) L h.1).2, h.2]; simp [stdSpec]⟩
  pushAt := fun s i x y L M _ h hi => by
    have hi' : i < y.length := hi
    have hc := h.cell i hi'
    show RVec (Vec.pushAt zero x i L).1 ((stdSpec zero).pushAt y i M).1
    simp only [Vec.pushAt, hc, stdSpec, List.getElem?_eq_getElem hi']
    refine ⟨(Vec.pushCell_spec zero x _ L h.1).1, ?_⟩
    rw [(Vec.pushCell_spec zero x _ L h.1).2, h.2]; simp
  resize := fun s n x y L M _ h => by
    have hs := h.size_eq
    refine ⟨Vec.resize_inv zero x n L h.1, ?_⟩
    show (Vec.resize zero x n L).1.view = _
    rw [Vec.resize_view zero x n L h.1, h.2, hs]
    simp only [stdSpec, listResize]
    split
    · simp [List.map_take]
    · simp
  write := fun s i a x y L M _ h hi => by
    have hi' : i < x.size := by rw [h.size_eq]; exact hi
    refine ⟨(Vec.write_spec x i a L h.1 hi').1, ?_⟩
    show (Vec.write x i a L).1.view = _
    rw [(Vec.write_spec x i a L h.1 hi').2, h.2]
    simp [stdSpec, List.map_set]

end NmVerif.Containers
