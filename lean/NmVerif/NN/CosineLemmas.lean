import NmVerif.NN.AxisLemmas
/-
  NN/CosineLemmas — `view::cosine_similarity`: broadcast operands, two keepdims vector norms clamped by eps, the quotient
  per element, and the final sum over the axis (no keepdims).
-/
namespace NmVerif.NN
open NmVerif.Reduce

variable {α : Type}

/-- `broadcast_arrays` of two defined operands: both results have the broadcast shape and read the operand at the NumPy
    broadcast position -/
theorem broadcast2_spec (x y : Arr α) (r : Shape) (hx : Pos x.shape) (hy : Pos y.shape)
    (hr : broadcastShape2 x.shape y.shape = some r) :
    ∃ a b, broadcast2 (lift x) (lift y) = some (a, b) ∧
      Den a r (fun d => x.get (specBroadcastIdx x.shape d)) ∧ Den b r (fun d => y.get (specBroadcastIdx y.shape d)) := by
  cases h : ufunc2 (fun (p q : Option α) => (p, q)) (lift x) (lift y) with
  | none =>
    have h1 := (NmVerif.Props.C07.ufunc2_none_iff_incompatible _ (lift x) (lift y) hx hy).1 h
    exact absurd ((NmVerif.Props.C06.broadcast2_eq_some_iff x.shape y.shape hx hy r).1 hr).1 h1
  | some u =>
    obtain ⟨h1, h2⟩ := NmVerif.Props.C07.ufunc2_spec _ (lift x) (lift y) u h
    have hsh : u.shape = r := by
      have : broadcastShape2 x.shape y.shape = some u.shape := h1
      rw [hr, Option.some.injEq] at this; exact this.symm
    refine ⟨⟨u.shape, fun d => ((u.get d).map Prod.fst).join⟩, ⟨u.shape, fun d => ((u.get d).map Prod.snd).join⟩,
      by simp only [broadcast2, h, Option.map_some], ⟨hsh, fun d hd => ?_⟩, ⟨hsh, fun d hd => ?_⟩⟩
    · show ((u.get d).map Prod.fst).join = _
      rw [h2 d (hsh ▸ hd)]; rfl
    · show ((u.get d).map Prod.snd).join = _
      rw [h2 d (hsh ▸ hd)]; rfl

/-- a keepdims `vector_norm` followed by the clamp `maximum(·, eps)`, read back at the position of source index `d` -/
theorem clampNorm_back (add mx : α → α → α) (pre post : α → α) (eps : α) {a : OArr α} {s : Shape} {g : Idx → α}
    (h : Den a s g) (hs : Pos s) (axis : Int) (hv : ValidAxis s.length axis) :
    ∃ v, vectorNormO add pre post a (some [axis]) true = some v ∧ v.shape = specShape s [normAxis s.length axis] true ∧
      ∀ d, InShape d s → (un (fun t => mx t eps) v).get (proj [normAxis s.length axis] true d) =
        (foldFirst add none ((grp s [normAxis s.length axis] d).map fun i => pre (g i))).map fun S => mx (post S) eps := by
  obtain ⟨hsh0, hg⟩ := h
  subst hsh0
  have hva := validAxes_single hv
  obtain ⟨v, h1, h2, h3⟩ := red_spec add (un pre a) (some [axis]) true hs hva
  have hsh : v.shape = specShape a.shape [normAxis a.shape.length axis] true := h2
  refine ⟨un post v, by simp only [vectorNormO, h1, Option.map_some], hsh, fun d hd => ?_⟩
  show ((v.get _).map post).map _ = _
  rw [h3 _ (by rw [hsh]; exact proj_true_inShape _ _ d hd)]
  have : (addressed (un pre a).shape (axisSet (un pre a).shape.length (some [axis])) true (proj [normAxis a.shape.length axis] true d)).map (un pre a).get
      = (grp a.shape [normAxis a.shape.length axis] d).map (fun i => some (pre (g i))) := by
    apply List.map_congr_left
    intro k hk
    show (a.get k).map pre = _
    rw [hg k (grp_inShape hk)]
    rfl
  rw [this, foldFirst_optOp_some, Option.map_map]
  rfl

theorem optOp_some_some (f : α → α → α) (x y : α) : optOp f (some x) (some y) = some (f x y) := rfl

/-- `view::cosine_similarity`: shape = the broadcast shape without the axis, and each element is the sum over the line
    of `(a·b) / (max(‖a‖, eps) · max(‖b‖, eps))` with both norms taken over that same line -/
theorem cosine_core (add mul div mx : α → α → α) (pre post : α → α) (eps : α) (x y : Arr α) (r : Shape) (axis : Int)
    (n : Nat) (hx : Pos x.shape) (hy : Pos y.shape) (hr : broadcastShape2 x.shape y.shape = some r)
    (hv : ValidAxis r.length axis) (hn : r[normAxis r.length axis]? = some n) :
    ∃ v, cosineSimilarity add mul div mx pre post eps x y axis = some v ∧
      v.shape = specShape r [normAxis r.length axis] false ∧
      ∀ j, InShape j (specShape r [normAxis r.length axis] false) →
        v.get j =
          (foldFirst add none (((List.range n).map (insAt j (normAxis r.length axis) ·)).map fun i =>
              pre (x.get (specBroadcastIdx x.shape i)))).bind fun SA =>
          (foldFirst add none (((List.range n).map (insAt j (normAxis r.length axis) ·)).map fun i =>
              pre (y.get (specBroadcastIdx y.shape i)))).bind fun SB =>
          foldFirst add none (((List.range n).map (insAt j (normAxis r.length axis) ·)).map fun i =>
            div (mul (x.get (specBroadcastIdx x.shape i)) (y.get (specBroadcastIdx y.shape i)))
              (mul (mx (post SA) eps) (mx (post SB) eps))) := by
  have hpr : Pos r := by
    apply NmVerif.Props.C06.broadcast_pos [x.shape, y.shape] (by simp)
      (by intro s hs; simp at hs; rcases hs with rfl | rfl <;> assumption) _
    rw [NmVerif.Props.C06.broadcast_pair]; exact hr
  have hva := validAxes_single hv
  have hpK := pos_specShape_keep r [normAxis r.length axis] hpr
  obtain ⟨a, b, hab, ha, hb⟩ := broadcast2_spec x y r hx hy hr
  obtain ⟨na, hna1, hna2, hna3⟩ := clampNorm_back add mx pre post eps ha hpr axis hv
  obtain ⟨nb, hnb1, hnb2, hnb3⟩ := clampNorm_back add mx pre post eps hb hpr axis hv
  -- numerator: multiply(a, b), same shape
  obtain ⟨num, hnum1, hnum2, hnum3⟩ := bin_spec mul a b r (by rw [ha.1]; exact hpr) (by rw [hb.1]; exact hpr)
    (by rw [ha.1, hb.1]; exact broadcastShape2_self r)
  have hnumden : Den num r (fun d => mul (x.get (specBroadcastIdx x.shape d)) (y.get (specBroadcastIdx y.shape d))) := by
    refine ⟨hnum2, fun d hd => ?_⟩
    rw [hnum3 d hd, ha.1, hb.1, sbi_self _ d hd, ha.2 d hd, hb.2 d hd]; rfl
  -- denominator: multiply(ln, rn), both of the keepdims shape
  obtain ⟨den, hden1, hden2, hden3⟩ := bin_spec mul (un (fun t => mx t eps) na) (un (fun t => mx t eps) nb)
    (specShape r [normAxis r.length axis] true) (by show Pos na.shape; rw [hna2]; exact hpK)
    (by show Pos nb.shape; rw [hnb2]; exact hpK)
    (by show broadcastShape2 na.shape nb.shape = _; rw [hna2, hnb2]; exact broadcastShape2_self _)
  -- quotient: divide(num, den), den broadcast back over the axis
  obtain ⟨q, hq1, hq2, hq3⟩ := bin_back div hnumden hpr (by rw [hden2]; exact hpK)
    (by rw [hden2]; exact bshape_keep r _ hpr)
  -- the final sum over the axis, no keepdims
  obtain ⟨v, hv1, hv2, hv3⟩ := red_spec add q (some [axis]) false (by rw [hq2]; exact hpr) (by rw [hq2]; exact hva)
  have hvsh : v.shape = specShape r [normAxis r.length axis] false := by rw [hv2, hq2]; rfl
  refine ⟨v, ?_, hvsh, fun j hj => ?_⟩
  · simp only [cosineSimilarity, hab, Option.bind_some, hna1, hnb1, hnum1, hden1, hq1]
    exact hv1
  · rw [hv3 j (by rw [hvsh]; exact hj), hq2]
    show (foldFirst (optOp add) none ((addressed r [normAxis r.length axis] false j).map q.get)).join = _
    have hL := addressed_false_single r hpr (normAxis r.length axis) n hn j hj
    have hn0 : 0 < n := hpr n (List.mem_of_getElem? hn)
    have hLne : (List.range n).map (insAt j (normAxis r.length axis) ·) ≠ [] := by
      intro h; have := congrArg List.length h; simp at this; omega
    obtain ⟨SA, hSA⟩ := foldFirst_map_some add (fun i => pre (x.get (specBroadcastIdx x.shape i))) hLne
    obtain ⟨SB, hSB⟩ := foldFirst_map_some add (fun i => pre (y.get (specBroadcastIdx y.shape i))) hLne
    have hqe : ∀ i ∈ addressed r [normAxis r.length axis] false j,
        q.get i = some (div (mul (x.get (specBroadcastIdx x.shape i)) (y.get (specBroadcastIdx y.shape i)))
          (mul (mx (post SA) eps) (mx (post SB) eps))) := by
      intro i hi
      have hiS : InShape i r := mem_allIdx_inShape (List.mem_filter.1 hi).1
      have hgrp : grp r [normAxis r.length axis] i = (List.range n).map (insAt j (normAxis r.length axis) ·) := by
        unfold grp; rw [addressed_true_proj r _ false j i hi, hL]
      have hpi := proj_true_inShape r [normAxis r.length axis] i hiS
      rw [hq3 i hiS, hden2, sbi_keep _ _ i hiS, hden3 _ hpi]
      show optOp div _ (optOp mul ((un (fun t => mx t eps) na).get (specBroadcastIdx na.shape _))
        ((un (fun t => mx t eps) nb).get (specBroadcastIdx nb.shape _))) = _
      rw [hna2, hnb2, sbi_self _ _ hpi, hna3 i hiS, hnb3 i hiS, hgrp, hSA, hSB]
      rfl
    rw [List.map_congr_left hqe, hL, foldFirst_optOp_some, hSA, hSB]
    rfl

end NmVerif.NN
