import NmVerif.Lemmas.LinalgTensordot
/-
  NN/LinearTensordot — the term structure of `tensordot(input, weight, ((-1),(-1)))` (what `view::linear` contracts),
  derived from the C16 lemmas (`tensordotAxes_elem_scatter`).
-/
namespace NmVerif.NN
open NmVerif.Linalg

/-! ### tensordot over the last axis of both operands -/

theorem filter_not_last (n : Nat) : (List.range (n + 1)).filter (fun i => !([n].contains i)) = List.range n := by
  rw [List.range_succ, List.filter_append]
  have h1 : (List.range n).filter (fun i => !([n].contains i)) = List.range n := by
    apply List.filter_eq_self.2
    intro i hi
    have : i < n := List.mem_range.1 hi
    simp; omega
  have h2 : [n].filter (fun i => !([n].contains i)) = [] := by simp
  rw [h1, h2, List.append_nil]

theorem moveToEnd_last (n : Nat) : moveToEnd (n + 1) [n] = List.range (n + 1) := by
  unfold moveToEnd
  rw [filter_not_last, List.range_succ]

theorem mapM_getElem?_range (l : List Nat) : (List.range l.length).mapM (fun k => l[k]?) = some l := by
  rw [mapM_range_some l.length _ (fun k => l.getD k 0)]
  · congr 1
    apply List.ext_getElem
    · simp
    · intro i h1 h2; simp at h1; simp [List.getElem?_eq_getElem h1]
  · intro i hi
    simp [List.getElem?_eq_getElem hi]

/-- `tensordot(x, w, ((-1),(-1)))` for `x : lead ++ [I]`, `w : [O, I]`: shape `lead ++ [O]`, and the element at
    `p ++ [o]` folds the products `x[p, i] · w[o, i]`, `i = 0 .. I−1` in this order -/
theorem tensordot_last_terms (lead : Shape) (I O : Nat) (hO : 0 < O) :
    ∃ r, tensordotAxes (lead ++ [I]) [O, I] [-1] [-1] = some r ∧ r.shape = lead ++ [O] ∧
      ∀ p o, InShape p lead → o < O →
        r.get (p ++ [o]) = (List.range I).map (fun i => (p ++ [i], [o, i])) := by
  have hlen : (lead ++ [I]).length = lead.length + 1 := by simp
  have hla : [(-1 : Int)].mapM (Linalg.normAxis · (lead ++ [I]).length) = some [lead.length] := by
    rw [hlen]
    have : Linalg.normAxis (-1) (lead.length + 1) = some lead.length := by
      unfold Linalg.normAxis
      rw [if_pos (by omega)]
      simp
      omega
    simp [this]
  have hra : [(-1 : Int)].mapM (Linalg.normAxis · [O, I].length) = some [1] := by
    show [(-1 : Int)].mapM (Linalg.normAxis · 2) = some [1]
    decide
  have hta : (moveToEnd (lead ++ [I]).length [lead.length]).mapM (fun k => (lead ++ [I])[k]?) = some (lead ++ [I]) := by
    rw [hlen, moveToEnd_last, ← hlen]
    exact mapM_getElem?_range _
  have htb : (moveToEnd [O, I].length [1]).mapM (fun k => [O, I][k]?) = some ([O] ++ [I]) := by
    have : moveToEnd [O, I].length [1] = [0, 1] := by
      show moveToEnd 2 [1] = [0, 1]
      decide
    rw [this]; rfl
  obtain ⟨r, h1, h2, h3⟩ := tensordotAxes_elem_scatter (lead ++ [I]) [O, I] [-1] [-1] [lead.length] [1] lead [O] [I]
    hla hra hta htb rfl rfl (by intro x hx; simp at hx; omega)
  refine ⟨r, h1, h2, fun p o hp ho => ?_⟩
  rw [h3 p [o] hp (by simp [InShape]; exact ho), allIdx_one, List.map_map]
  apply List.map_congr_left
  intro i _
  have hpl : (p ++ [i]).length = lead.length + 1 := by simp [hp.length_eq]
  have e1 : scatter (p ++ [i]) (moveToEnd (lead ++ [I]).length [lead.length]) = p ++ [i] := by
    rw [hlen, moveToEnd_last, ← hpl]; exact scatter_range _
  have e2 : scatter ([o] ++ [i]) (moveToEnd [O, I].length [1]) = [o, i] := by
    have : moveToEnd [O, I].length [1] = [0, 1] := by
      show moveToEnd 2 [1] = [0, 1]
      decide
    rw [this]; rfl
  simp only [Function.comp, e1, e2]

end NmVerif.NN
