"""C04 — selecting / replicating / joining / generating views equal their reference result.
IMPL: nmtools::view::{tile,repeat,roll,pad,take,concatenate,...} over dynamic ndarrays with provenance data.
ORACLE: NumPy called on np.arange(size).reshape(shape) (so an output element is the flat id of its source element)."""
import itertools
import numpy as np
from runner import Case
from shapes import shapes, prod, fmt, fmt_lists, all_idx, rand_shape
from props import c04_bc
from props import c04_gen

ID = 'C04'
LEVEL = 'proof'
RULE = ('exhaustive small scope per routine: source shapes rank 1..3 / extents 1..3 (quick), rank 1..4 / extents 1..4 (thorough) plus '
        'sampled larger shapes (rank <= 5, extents <= 7); tile reps 1..3 per axis (rep lists shorter / equal / longer than the rank); '
        'repeat scalar 1..3 and per-element counts 0..3, every axis incl. negative and None; roll shifts in [-2n,2n] per axis and '
        '[-2N,2N] flat, every axis incl. negative, distinct axis tuples with mixed signs, repeated axes; pad widths 0..2 per side; take '
        'index lists with negative and repeated entries; concatenate / stack family over every axis and compatible second shape; '
        'split sections and cut lists (interior / repeated / beyond the extent / descending, 1..3 cut points); sliding_window windows 1..extent (scalar, lists over axis None and over every axis list of length 1..2 incl. negative and repeated axes for rank <= 3); diagonal every axis pair in both spellings x every offset in [-3,3] ([-5,5] thorough) for rank <= 3 (rank 4: sampled offsets in the quick tier, all in the thorough tier); tril / triu / tri / eye offsets in the same range; '
        'where / compress over 0/1 patterns, where also over 500 triples of differently shaped operands (compatible and incompatible); resize targets 1..4; '
        'expand spacing 0..2 (axis lists incl. repeated axes); arange / linspace over integer and quarter grids, long ranges probed at selected positions, '
        'arange beyond the binary32-exact range (count only), the compile-time-constant argument forms of tri / eye / identity / full / zeros / ones(_like) / '
        'arange / linspace over a fixed table (non-square (N,M), mixed constant / run-time arguments). '
        'Every request is answered by the C++ view (IMPL), by the Lean model (MODEL) '
        'and by NumPy or the documented definition (ORACLE). non-trivial = the generator marked the result as different from the source')
EXHAUSTIVE = {'quick': True, 'thorough': True}
ANCHORS = {
    'NmVerif.Index.shapeTile / indexTile / tileView': 'index::shape_tile, index::tile, view::tile',
    'NmVerif.Index.shapeRepeat* / indexRepeat* / repeatView / repeatListView': 'index::shape_repeat, index::repeat, view::repeat',
    'NmVerif.Index.shapeRoll / normalizeRollIndex / indexRollU / rollView / rollAxesView / rollNoneView': 'index::shape_roll, index::roll (normalize_roll_index), view::roll',
    'NmVerif.Index.shapePad / indexPad / padView': 'index::shape_pad, index::pad, view::pad',
    'NmVerif.Index.shapeTake / indexTake / takeView': 'index::shape_take, index::take, view::take',
    'NmVerif.Index.shapeConcatenate / indexConcatenate / concatenateView': 'index::shape_concatenate, index::concatenate, view::concatenate',
    'NmVerif.Index.joinReshaped / stackView / hstackView / vstackView / dstackView / columnStackView': 'view::stack, hstack, vstack, dstack, column_stack (reshape + concatenate)',
    'NmVerif.Index.splitViews': 'view::detail::split_args, view::split',
    'NmVerif.Index.shapeSlidingWindow / indexSlidingWindow / slidingWindowView': 'index::shape_sliding_window, index::sliding_window, view::sliding_window',
    'NmVerif.Index.shapeDiagonal / indexDiagonal / diagonalView, diagflatView, trilView, triuView, triGen, eyeGen, identityGen': 'index::shape_diagonal, index::diagonal, index::diagflat, index::tril, index::triu, index::tri, index::eye; view::diagonal, diagflat, tril, triu, tri, eye, identity',
    'NmVerif.Index.whereView / WhereView.select (over NmVerif.broadcastArraysViews)': 'view::where (view::broadcast_arrays + where_t::operator())',
    'NmVerif.Index.compressView / nonzeroIdx': 'index::shape_compress, index::compress, view::compress',
    'NmVerif.Index.shapeResize / indexResize / resizeView': 'index::shape_resize, index::resize, view::resize',
    'NmVerif.Index.shapeExpand / indexExpand / expandView': 'index::shape_expand, index::expand, view::expand',
    'NmVerif.Index.arangeLen / arangeLenF32 / arangeElem / arangeGen': 'index::arange_shape (+ ceil_), view::arange_t::operator()',
    'NmVerif.Index.linspaceDiv / linspaceElem / linspaceGen': 'index::linspace_step, index::linspace_shape, view::linspace_t::operator()',
    'NmVerif.Index.fullGen / zerosGen / onesGen / fullLikeGen / zerosLikeGen / onesLikeGen': 'view::full, zeros, ones, full_like, zeros_like, ones_like',
}
MANIFEST = dict(
    text=('Proof: Lean theorems X_shape / X_elem / X_inBounds (all ranks, extents and arguments, positive extents as guard) about a hand-written '
          'model of the index functions of tile, repeat (scalar / per-element / axis None, every accepted axis incl. negative), roll (any shift, one axis / '
          'several axes incl. repeated ones = summed shifts / None), pad, take (negative and repeated entries, negative axes, None), concatenate, resize, '
          'compress, where (over the C06 model of broadcast_arrays: Nothing iff incompatible, shape = broadcast, element rule), tril/triu, diagflat, tri/eye/identity, full/zeros/ones(_like), arange (count = NumPy\'s for either step sign inside the binary32-exact range, element k = start + k*step), linspace (which rational each sample is), the stack family (through concatenate + flat-order preservation of reshape), '
          'expand (one axis and any axis list incl. repeats, per-axis spacings); split into equal sections and at cut-point lists (incl. the partition of the axis); sliding_window with scalar / list windows over axis / axis lists (repeats accumulate) / None; diagonal for every rank, accepted axis pair (incl. negative) and offset. The model is tied to the '
          'C++ by a differential run of every view over an exhaustive small scope on every check and cross-checked against NumPy / the documented '
          'definitions. The defects found on the original tree (negative axis in repeat / take / concatenate / stack / compress, negative take '
          'entries, repeated roll axes, diagonal with negative or too large offset, split cut points beyond the extent, arange negative count / negative '
          'integer step with real dtype, arange count computed in binary32, linspace num=1) are repaired in /repo; model and theorems follow the repaired code and the regression inputs stay in the generators.'),
    note=('Lean kernel + propext/Classical.choice/Quot.sound; model hand-written, fidelity rests on the correspondence run (IMPL = MODEL on every '
          'generated request); for arange / linspace with real elements the theorems fix the rational expression of each element, its binary32 / binary64 value is the '
          'harness\'s and is compared with relative tolerance 1e-6; statements listed in partial_statements are not claimed in full.'),
    technique='Lean 4 induction proofs over List Nat shapes + differential correspondence (exhaustive small scope) + NumPy oracle')
ASSUMPTIONS = [
    'machine width: model arithmetic is unbounded Nat/Int; a negative C++ int stored into size_t is modelled as 2^64 + v (u64/i2u), loop counters and ranks are far below 2^63',
    'resize: the float(...) round trip applied after the integer division in index::resize is exact below 2^24 (extents of the scope are far smaller)',
    'ndarray element access: data_.at(offset) with offset computed in size_t; an index outside the shape whose offset stays below the size is read silently (the harness prints what was read, `oob` when vector::at throws)',
    'split parts go through view::slice; the model uses stop-start extents with cut points clamped to the extent (C05 covers the slice arithmetic)',
    'arange quotient: for |stop - start|*sd < 2^24 and |step numerator| < 2^24 both conversions to binary32 are exact and the correctly rounded quotient float(stop - start) / step has the same sign and the same ceiling as the exact quotient (a non-integral quotient p/q with p, q < 2^24 is at least 1/q > ulp/2 away from every integer); the model computes the count from the exact quotient there and carries the binary32 computation out literally (f32Round) outside; checked by the correspondence run on every request, by a decide-checked grid in Props/C04Gen.lean and by an exhaustive C++ loop over all differences < 2^24 for 200 steps',
    'arange / linspace elements: T(start) + T(k)*step is an exact expression in the model; the harness value is compared within 1e-6 relative to the magnitude of start / stop',
    'where: the broadcast of the three operands is C06\'s model of broadcast_arrays (index::broadcast_shape fold + view::broadcast_to per operand)',
]
PARTIAL = [
    'sliding_window*: stated on the no-wrap domain (windows >= 1, total trim of an axis <= its extent; NumPy additionally refuses a trimmed extent 0); beyond it the C++ wraps in size_t (huge extent) while the model truncates at 0 — not generated, not claimed',
    'sliding_window: scalar window with axis None is NumPy-defined for rank 1 only (slidingWindowScalarNone_rank1); for higher ranks the C++ accepts the call (every axis shrinks, one window axis added to axis 0) — no reference, model mirrors it, not generated',
    'splitIdx_*: cut points >= 0 (a negative cut point wraps to a huge size_t in the C++ and means from-the-end in NumPy: outside the domain); splitIdx_partition additionally needs sorted cut points',
    'arange_len / arange_shape_elem with a REAL step: stated on the binary32-exact range |stop - start|*sd < 2^24, |step numerator| < 2^24 (integer steps: arange_len_int, every range); real start / stop do not instantiate in nmtools',
    'linspace_*: start / stop on the quarter grid (exactly representable); the theorems fix the rational expression, not the rounded floating value',
    'per-element repeats with axis None: does not instantiate in nmtools (shape_repeat multiplies the product by the repeats list); not runnable, not claimed',
]
KNOWN_PREDICATES = {}

H_A = 'h_c04a'
# tier B routines with a Lean model (lean/NmVerif/Index/{Stack,Split,SlidingWindow,Diagonal,Where,Compress,Resize,Expand}.lean)
MODELLED_BC = {'stack', 'hstack', 'vstack', 'dstack', 'column_stack', 'split', 'sliding_window', 'diagonal', 'diagflat',
               'tril', 'triu', 'tri', 'eye', 'identity', 'where', 'compress', 'resize', 'expand',
               # tier C generators (lean/NmVerif/Index/Generators.lean); real-valued elements are printed as fractions by
               # the model and compared with the relative tolerance of c04_bc.cmp_real
               'arange', 'linspace', 'full', 'zeros', 'ones', 'full_like', 'zeros_like', 'ones_like'}


def harness_specs(tier):
    return [dict(name=H_A, src='h_c04a.cpp', flavour='fast')] + c04_bc.harness_specs_bc(tier) + c04_gen.harness_specs_gen(tier)


def iota(s, base=0):
    return (np.arange(prod(s), dtype=np.int64) + base).reshape(s)


def ans(r):
    r = np.asarray(r)
    return 'ok shape=%s data=%s' % (fmt(r.shape), fmt(r.reshape(-1)))


def src_shapes(tier):
    R, E = (3, 3) if tier == 'quick' else (4, 4)
    return list(shapes(R, E, min_rank=1))


def gen_tile(tier, rng):
    maxlen = 3 if tier == 'quick' else 4
    for s in src_shapes(tier):
        a = iota(s)
        for l in range(1, maxlen + 1):
            allreps = list(itertools.product(range(1, 4), repeat=l))
            if tier != 'quick' and len(s) + l >= 7:
                allreps = rng.sample(allreps, 12)
            for reps in allreps:
                yield Case('tile shape=%s reps=%s' % (fmt(s), fmt(reps)), H_A, oracle=ans(np.tile(a, reps)),
                           nontrivial=any(r > 1 for r in reps), tags=['tile', 'rank=%d' % len(s), 'reps_len%s' % ('<' if l < len(s) else '=' if l == len(s) else '>')])



def parse(req):
    parts = req.split()
    d = {}
    for kv in parts[1:]:
        k, v = kv.split('=', 1)
        d[k] = v
    return parts[0], d


def ints(v):
    return [] if v in ('[]', '') else [int(x) for x in v.split(',')]


def axes_of(dim, with_none=True):
    """all valid axes incl. negative (and None)"""
    return ([None] if with_none else []) + list(range(dim)) + list(range(-dim, 0))


def axtag(ax):
    return 'axis=None' if ax is None else ('axis<0' if ax < 0 else 'axis>=0')


# ---------------------------------------------------------------- repeat
def gen_repeat(tier, rng):
    for s in src_shapes(tier):
        a = iota(s)
        for ax in axes_of(len(s)):
            for r in (1, 2, 3):
                yield Case('repeat shape=%s repeats=%d axis=%s' % (fmt(s), r, ax), H_A, oracle=ans(np.repeat(a, r, axis=ax)),
                           nontrivial=r > 1, tags=['repeat', 'repeat.scalar', axtag(ax)])
            if ax is None:
                continue        # per-element repeats with axis None do not instantiate in nmtools (not runnable)
            n = s[ax]
            lists = list(itertools.product(range(1, 4), repeat=n))
            if len(lists) > 9:
                lists = rng.sample(lists, 9)
            lists += [tuple(rng.randint(0, 3) for _ in range(n)) for _ in range(2)]    # zeros allowed by NumPy
            for rs in lists:
                yield Case('repeat shape=%s rlist=%s axis=%d' % (fmt(s), fmt(rs), ax), H_A, oracle=ans(np.repeat(a, rs, axis=ax)),
                           tags=['repeat', 'repeat.list', axtag(ax)] + (['repeat.list.zero'] if 0 in rs else []))




# ---------------------------------------------------------------- roll
def gen_roll(tier, rng):
    for s in src_shapes(tier):
        a = iota(s)
        dim = len(s)
        N = prod(s)
        # axis None: flat roll, shifts in [-2N, 2N]
        shifts = range(-2 * N, 2 * N + 1)
        if tier != 'quick' and N > 24:
            shifts = sorted(set(rng.sample(list(shifts), 24)) | {-2 * N, -N - 1, -N, -1, 0, 1, N, N + 1, 2 * N})
        for sh in shifts:
            yield Case('roll shape=%s shift=%d axis=None' % (fmt(s), sh), H_A, oracle=ans(np.roll(a, sh)),
                       nontrivial=sh % N != 0, tags=['roll', 'roll.none', 'shift>n' if abs(sh) > N else 'shift<=n'])
        # single axis: every axis incl. negative, shifts in [-2n, 2n]
        for ax in axes_of(dim, with_none=False):
            n = s[ax]
            for sh in range(-2 * n, 2 * n + 1):
                yield Case('roll shape=%s shift=%d axis=%d' % (fmt(s), sh, ax), H_A, oracle=ans(np.roll(a, sh, axis=ax)),
                           nontrivial=sh % n != 0, tags=['roll', 'roll.single', axtag(ax), 'shift>n' if abs(sh) > n else 'shift<=n'])
        # several axes: distinct (every ordered pair / triple, mixed signs), scalar and per-axis shifts; a few repeated axes
        if dim >= 2:
            combos = [c for k in (2, 3) if k <= dim for c in itertools.permutations(range(dim), k)]
            for axes in combos:
                for t in range(4):
                    axs = [x - dim if rng.random() < 0.5 else x for x in axes]
                    shs = [rng.randint(-2 * s[x], 2 * s[x]) if t == 3 else rng.randint(-s[x], s[x]) for x in axes]
                    small = all(abs(h) <= s[x] for h, x in zip(shs, axes))
                    yield Case('roll shape=%s slist=%s alist=%s' % (fmt(s), fmt(shs), fmt(axs)), H_A, oracle=ans(np.roll(a, shs, axis=tuple(axs))),
                               tags=['roll', 'roll.multi', 'shift<=n' if small else 'shift>n'])
                sh = rng.randint(-min(s[x] for x in axes), min(s[x] for x in axes))
                axs = [x - dim if rng.random() < 0.5 else x for x in axes]
                yield Case('roll shape=%s shift=%d alist=%s' % (fmt(s), sh, fmt(axs)), H_A, oracle=ans(np.roll(a, sh, axis=tuple(axs))),
                           tags=['roll', 'roll.multi', 'roll.multi.scalar-shift'])
            for x in range(dim):       # repeated axis: NumPy adds the shifts up
                axs = [x, x - dim]
                shs = [1, 1]
                yield Case('roll shape=%s slist=%s alist=%s' % (fmt(s), fmt(shs), fmt(axs)), H_A, oracle=ans(np.roll(a, shs, axis=tuple(axs))),
                           tags=['roll', 'roll.multi', 'roll.repeated-axis'])






# ---------------------------------------------------------------- pad
def np_pad_flat(a, w):
    d = a.ndim
    return np.pad(a, [(w[i], w[d + i]) for i in range(d)], mode='constant', constant_values=-1)


def gen_pad(tier, rng):
    for s in src_shapes(tier):
        a = iota(s)
        d = len(s)
        allw = list(itertools.product(range(3), repeat=2 * d))
        if len(allw) > 81:
            allw = rng.sample(allw, 40 if tier == 'quick' else 24) + [tuple([2] * (2 * d)), tuple([0] * (2 * d))]
        for w in allw:
            yield Case('pad shape=%s widths=%s' % (fmt(s), fmt(w)), H_A, oracle=ans(np_pad_flat(a, w)),
                       nontrivial=any(w), tags=['pad', 'rank=%d' % d])
        # wrong number of widths: the view is Nothing (no NumPy counterpart; IMPL vs MODEL only)
        yield Case('pad shape=%s widths=%s' % (fmt(s), fmt([1] * (2 * d + 1))), H_A, oracle='nothing', tags=['pad', 'pad.bad-length'])


# ---------------------------------------------------------------- take
def gen_take(tier, rng):
    for s in src_shapes(tier):
        a = iota(s)
        for ax in axes_of(len(s)):
            n = prod(s) if ax is None else s[ax]
            vals = list(range(-n, n))
            lists = [[v] for v in vals][:8]
            for _ in range(10 if tier == 'quick' else 8):
                lists.append([rng.choice(vals) for _ in range(rng.randint(2, 4))])
            for _ in range(6):      # non-negative only (the proved domain), with repeats
                lists.append([rng.randrange(n) for _ in range(rng.randint(1, 4))])
            for ind in lists:
                neg = any(v < 0 for v in ind)
                yield Case('take shape=%s indices=%s axis=%s' % (fmt(s), fmt(ind), ax), H_A, oracle=ans(np.take(a, ind, axis=ax)),
                           tags=['take', axtag(ax), 'index<0' if neg else 'index>=0'] + (['take.repeated'] if len(set(ind)) < len(ind) else []))






# ---------------------------------------------------------------- concatenate
def gen_concatenate(tier, rng):
    E = 3 if tier == 'quick' else 4
    ss = src_shapes(tier)
    for s in ss:
        a = iota(s)
        for ax in axes_of(len(s), with_none=False):
            for e in range(1, E + 1):
                s2 = list(s)
                s2[ax] = e
                b = iota(s2, 1000)
                yield Case('concatenate shape=%s shape2=%s axis=%d' % (fmt(s), fmt(s2), ax), H_A, oracle=ans(np.concatenate([a, b], axis=ax)),
                           tags=['concatenate', axtag(ax)])
    for _ in range(300 if tier == 'quick' else 1500):
        s, s2 = rng.choice(ss), rng.choice(ss)
        yield Case('concatenate shape=%s shape2=%s axis=None' % (fmt(s), fmt(s2)), H_A,
                   oracle=ans(np.concatenate([iota(s), iota(s2, 1000)], axis=None)), tags=['concatenate', 'axis=None'])






# ---------------------------------------------------------------- larger sampled shapes (rank <= 5, extents <= 7)
def gen_large(tier, rng):
    n = 60 if tier == 'quick' else 400
    for _ in range(n):
        s = rand_shape(rng, 5, 7)
        while prod(s) > 3000:
            s = rand_shape(rng, 5, 7)
        a = iota(s)
        dim = len(s)
        tg = ['large', 'rank=%d' % dim]
        reps = [rng.randint(1, 3) for _ in range(rng.randint(1, dim + 1))]
        if prod(s) * prod(reps) <= 20000:
            yield Case('tile shape=%s reps=%s' % (fmt(s), fmt(reps)), H_A, oracle=ans(np.tile(a, reps)), tags=['tile'] + tg)
        ax = rng.randrange(dim)
        r = rng.randint(1, 3)
        yield Case('repeat shape=%s repeats=%d axis=%d' % (fmt(s), r, ax), H_A, oracle=ans(np.repeat(a, r, axis=ax)), tags=['repeat'] + tg)
        rs = [rng.randint(0, 3) for _ in range(s[ax])]
        yield Case('repeat shape=%s rlist=%s axis=%d' % (fmt(s), fmt(rs), ax), H_A, oracle=ans(np.repeat(a, rs, axis=ax)), tags=['repeat'] + tg)
        yield Case('repeat shape=%s repeats=%d axis=None' % (fmt(s), r), H_A, oracle=ans(np.repeat(a, r)), tags=['repeat'] + tg)
        ax2 = rng.randrange(-dim, dim)
        sh = rng.randint(-3 * s[ax2], 3 * s[ax2])
        yield Case('roll shape=%s shift=%d axis=%d' % (fmt(s), sh, ax2), H_A, oracle=ans(np.roll(a, sh, axis=ax2)), tags=['roll'] + tg)
        sh = rng.randint(-3 * prod(s), 3 * prod(s))
        yield Case('roll shape=%s shift=%d axis=None' % (fmt(s), sh), H_A, oracle=ans(np.roll(a, sh)), tags=['roll'] + tg)
        axs = rng.sample(range(dim), rng.randint(1, dim))
        shs = [rng.randint(-3 * s[x], 3 * s[x]) for x in axs]
        axs = [x - dim if rng.random() < 0.5 else x for x in axs]
        yield Case('roll shape=%s slist=%s alist=%s' % (fmt(s), fmt(shs), fmt(axs)), H_A, oracle=ans(np.roll(a, shs, axis=tuple(axs))), tags=['roll'] + tg)
        w = [rng.randint(0, 2) for _ in range(2 * dim)]
        if prod([e + 4 for e in s]) <= 30000:
            yield Case('pad shape=%s widths=%s' % (fmt(s), fmt(w)), H_A, oracle=ans(np_pad_flat(a, w)), tags=['pad'] + tg)
        ind = [rng.randrange(s[ax]) for _ in range(rng.randint(1, 6))]
        yield Case('take shape=%s indices=%s axis=%d' % (fmt(s), fmt(ind), ax), H_A, oracle=ans(np.take(a, ind, axis=ax)), tags=['take'] + tg)
        ind = [rng.randrange(prod(s)) for _ in range(rng.randint(1, 6))]
        yield Case('take shape=%s indices=%s axis=None' % (fmt(s), fmt(ind)), H_A, oracle=ans(np.take(a, ind)), tags=['take'] + tg)
        s2 = list(s)
        s2[ax] = rng.randint(1, 7)
        yield Case('concatenate shape=%s shape2=%s axis=%d' % (fmt(s), fmt(s2), ax), H_A,
                   oracle=ans(np.concatenate([a, iota(s2, 1000)], axis=ax)), tags=['concatenate'] + tg)

KNOWN_PREDICATES.update(c04_bc.KNOWN_PREDICATES_BC)
KNOWN_PREDICATES.update(c04_gen.KNOWN_PREDICATES_GEN)


def gen(tier, rng):
    yield from gen_large(tier, rng)
    yield from gen_tile(tier, rng)
    yield from gen_repeat(tier, rng)
    yield from gen_roll(tier, rng)
    yield from gen_pad(tier, rng)
    yield from gen_take(tier, rng)
    yield from gen_concatenate(tier, rng)
    for c in c04_bc.gen_bc(tier, rng):
        if c.req.split(' ', 1)[0] in MODELLED_BC:
            # the Lean model answers these too
            c.model = True
        yield c
    yield from c04_gen.gen_more(tier, rng)
