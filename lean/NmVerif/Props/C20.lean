import NmVerif.Containers.NDArrayObj
import NmVerif.Lemmas.Addressing
import NmVerif.Lemmas.NDObj
import NmVerif.Lemmas.SliceDyn
import NmVerif.Index.Reshape
import NmVerif.Arr
/-
  C20 — Array objects keep their invariants under resize, write, copy/assign, cast, and writes through mutable views.

  MODEL  NmVerif.NDObj (Containers/NDArrayObj.lean): `init` / `resize` / `write` / `fill` of ndarray_t (15 shape × buffer
         kinds abstracted to (shape kind, buffer kind, layout)), hybrid_ndarray, dynamic_ndarray; `castInto` = the loop
         of utility/cast.hpp (default-construct, resize — result ignored —, copy by row-major rank through
         flatten / mutable_flatten); `kindCfg` = the destination kind resolved for a `cast(a, kind)` tag;
         mutable views = `write` at the source index an indexing view (NmVerif.IxView) maps the destination index to.
  SPEC   the class invariant `ObjInv`, NumPy's `astype` (same shape, every LOGICAL element converted), Python basic
         indexing for the slice views (C05), "exactly the addressed element / buffer cell changes".
  helpers: Lemmas/NDObj.lean.
-/
namespace NmVerif.Props.C20
open NmVerif NmVerif.NDObj

/-! ## construction, resize, write: the invariant in every reachable state -/

/-- a freshly constructed array satisfies the invariant (`DefaultOk`: see `init_clipped_counterexample`) -/
theorem init_inv (c : Cfg) (h : CfgOk c) (hd : DefaultOk c) : ObjInv c (init c) := init_objInv c h hd

/-- a refused resize returns false and leaves shape, strides and contents unchanged -/
theorem resize_refused_unchanged (c : Cfg) (st : St) (new : List Nat) (h : (resize c st new).2 = false) :
    (resize c st new).1 = st := by
  by_cases hacc : accepts c st new = true
  · simp [resize, hacc] at h
  · simp [resize, hacc]

/-- an accepted resize installs exactly the requested shape, matching strides and element count -/
theorem resize_accepted (c : Cfg) (st : St) (new : List Nat) (h : (resize c st new).2 = true) :
    (resize c st new).1.shape = new ∧ (resize c st new).1.strides = stridesOf c.colMajor new ∧
    (resize c st new).1.data.length = prod new := by
  by_cases hacc : accepts c st new = true
  · simp [resize, hacc, resizeBuf_length]
  · simp [resize, hacc] at h

/-- an accepted resize keeps the common prefix of the buffer (std::vector / static_vector semantics) -/
theorem resize_keeps_prefix (c : Cfg) (st : St) (new : List Nat) (k : Nat) (hk : k < st.data.length) (hk2 : k < prod new)
    (h : (resize c st new).2 = true) : (resize c st new).1.data[k]? = st.data[k]? := by
  by_cases hacc : accepts c st new = true
  · simp only [resize, hacc, if_true, resizeBuf, List.getElem?_take, hk2, List.getElem?_append_left hk]
  · simp [resize, hacc] at h

theorem resize_inv (c : Cfg) (st : St) (new : List Nat) (hi : ObjInv c st) : ObjInv c (resize c st new).1 :=
  resize_objInv c st new hi

theorem write_inv (c : Cfg) (st : St) (i : Idx) (v : Int) (hi : ObjInv c st) : ObjInv c (write st i v) :=
  write_objInv c st i v hi

theorem fill_inv (c : Cfg) (st : St) (b : Int) (hi : ObjInv c st) : ObjInv c (fill st b) := fill_objInv c st b hi

/-- one step preserves the invariant -/
theorem step_inv (c : Cfg) (st : St) (op : Op) (hi : ObjInv c st) : ObjInv c (step c st op).1 := by
  cases op with
  | resize s => exact resize_inv c st s hi
  | write i v => exact write_inv c st i v hi
  | fill b => exact fill_inv c st b hi

/-- EVERY reachable state (any operation sequence of any length) satisfies the invariant:
    product of shape = element count, strides match shape and layout, kind constraints hold -/
theorem reachable_inv (c : Cfg) (h : CfgOk c) (hd : DefaultOk c) (ops : List Op) : ObjInv c (run c (init c) ops) := by
  have key : ∀ (st : St), ObjInv c st → ObjInv c (run c st ops) := by
    induction ops with
    | nil => intro st hst; exact hst
    | cons o os ih => intro st hst; exact ih _ (step_inv c st o hst)
  exact key _ (init_inv c h hd)

/-- the strides used for ADDRESSING match shape and layout in every reachable state, for row- and column-major arrays
    alike (what the harness reads from the offset functor, `astrides=`) -/
theorem addressing_strides_match_layout (c : Cfg) (h : CfgOk c) (hd : DefaultOk c) (ops : List Op) :
    (run c (init c) ops).strides = (if c.colMajor then colStrides (run c (init c) ops).shape else strides (run c (init c) ops).shape) := by
  have := (reachable_inv c h hd ops).2.1
  simpa [stridesOf] using this

/-- distinct in-shape indices address distinct buffer cells, inside the buffer (either layout) -/
theorem distinct_cells (c : Cfg) (st : St) (hi : ObjInv c st) (i j : Idx) (hI : InShape i st.shape) (hJ : InShape j st.shape)
    (hne : i ≠ j) : computeOffset i st.strides ≠ computeOffset j st.strides ∧ computeOffset i st.strides < st.data.length :=
  ⟨cells_distinct c st hi hI hJ hne, offset_in_buffer c st hi hI⟩

/-- write then read: exactly the addressed element changes -/
theorem write_read (c : Cfg) (st : St) (hi : ObjInv c st) (i j : Idx) (hI : InShape i st.shape) (hJ : InShape j st.shape) (v : Int) :
    read? (write st i v) j = if i = j then some v else read? st j := read_write c st hi i j hI hJ v

/-! non-vacuity -/
example : CfgOk ⟨.fixedDim 2, .dyn, false⟩ ∧ CfgOk ⟨.dyn, .fixed 6, true⟩ ∧ CfgOk ⟨.bounded 3, .bounded 8, false⟩ ∧
    CfgOk ⟨.const [2,3], .fixed 6, true⟩ ∧ DefaultOk ⟨.fixedDim 2, .dyn, false⟩ ∧ DefaultOk ⟨.clipped [2,6], .fixed 6, false⟩ := by
  simp [CfgOk, DefaultOk, prod]
example : (resize ⟨.dyn, .fixed 6, false⟩ (resize ⟨.dyn, .fixed 6, false⟩ (init ⟨.dyn, .fixed 6, false⟩) [2,3]).1 [2,2,2]).2 = false := by decide
example : (resize ⟨.fixedDim 2, .dyn, false⟩ (init ⟨.fixedDim 2, .dyn, false⟩) [2,3]).2 = true := by decide
example : (run ⟨.dyn, .dyn, true⟩ (init ⟨.dyn, .dyn, true⟩) [.resize [2,3], .fill 1, .write [1,0] 9]).strides = [1,2] := by decide

/-- the default state of a clipped-shape, fixed-buffer array whose last maximum is below the buffer size breaks the
    invariant: `ndarray_t<array<int,6>, tuple<clipped_size_t<2>,clipped_size_t<3>>>{}` has shape (1,3) over 6 cells
    (known finding C20.clipped-default-shape); `DefaultOk` is exactly the guard that excludes it -/
theorem init_clipped_counterexample :
    let c : Cfg := ⟨.clipped [2,3], .fixed 6, false⟩
    CfgOk c ∧ ¬ DefaultOk c ∧ (init c).shape = [1,3] ∧ (init c).data.length = 6 ∧ ¬ ObjInv c (init c) := by
  refine ⟨by simp [CfgOk], by decide, by decide, by decide, ?_⟩
  intro h
  have := h.1
  revert this
  decide

/-- a column-major array with a clipped shape, as coded before fixes/C20-clipped-colmajor-reverse.diff, addresses a (2,3)
    array with strides (1,1) instead of (1,2): the distinct in-shape indices (0,1) and (1,0) are the same buffer cell
    (known finding C20.clipped-colmajor-strides; replayed on the real headers) -/
theorem clipped_colmajor_counterexample :
    colStridesClippedAsCoded [2,3] = [1,1] ∧ colStrides [2,3] = [1,2] ∧ InShape [0,1] [2,3] ∧ InShape [1,0] [2,3] ∧
    computeOffset [0,1] (colStridesClippedAsCoded [2,3]) = computeOffset [1,0] (colStridesClippedAsCoded [2,3]) ∧
    computeOffset [0,1] (colStrides [2,3]) ≠ computeOffset [1,0] (colStrides [2,3]) := by decide

/-! ## strides() as reported -/

/-- the strides an array reports agree with its addressing strides for row-major arrays … -/
theorem reportedStrides_rowMajor (c : Cfg) (st : St) (hi : ObjInv c st) (hc : c.colMajor = false) :
    reportedStrides st = st.strides := by
  obtain ⟨_, hstr, _, _⟩ := hi
  simp [reportedStrides, hstr, stridesOf, hc]

/-- … but NOT for column-major ones (known finding C20.colmajor-strides): `strides()` of a column-major (2,3) array
    reports (3,1) while elements are addressed with (1,2) -/
theorem reportedStrides_colMajor_counterexample :
    let c : Cfg := ⟨.dyn, .dyn, true⟩
    let st := (resize c (init c) [2,3]).1
    ObjInv c st ∧ reportedStrides st = [3,1] ∧ st.strides = [1,2] := by
  refine ⟨?_, by decide, by decide⟩
  exact resize_inv _ _ _ (init_inv _ (by simp [CfgOk]) (by simp [DefaultOk]))

/-! ## cast -/

/-- **cast preserves shape and (converted) values** — for every source kind/layout `cs`, every destination kind/layout
    `cd` that can take the shape, every element conversion: the result exists, has the source's shape, satisfies the
    invariant of the destination kind (element count, strides of ITS layout, …) and holds at every index the converted
    LOGICAL element of the source — so a row↔column-major cast permutes the buffer but keeps every `a(i,j,…)` -/
theorem cast_preserves_shape_and_values (cs cd : Cfg) (src : St) (conv : Int → Int)
    (hs : ObjInv cs src) (hd : CfgOk cd) (hfit : castFits cd src.shape = true) :
    ∃ r, castInto cd conv src = some r ∧ r.shape = src.shape ∧ ObjInv cd r ∧
      ∀ idx, InShape idx src.shape → ∃ v, read? src idx = some v ∧ read? r idx = some (conv v) := by
  have hr0 := castRet_objInv cd hd src.shape hfit
  have hsh := castFits_shape cd src.shape hfit
  obtain ⟨r, hf, hrs, hri, hrd⟩ := castLoop_spec cs cd conv src _ hs hr0 hsh (prod src.shape) (Nat.le_refl _)
  refine ⟨r, hf, hrs, hri, fun idx hI => ?_⟩
  obtain ⟨v, hv⟩ := read_isSome cs src hs hI
  refine ⟨v, hv, ?_⟩
  rw [hrd idx hI, if_pos (offset_lt hI), hv]; rfl

/-- the same across layouts, spelled out: the result's strides are those of the OTHER layout and every logical
    element is kept -/
theorem cast_across_layouts (cs cd : Cfg) (src : St) (hs : ObjInv cs src) (hd : CfgOk cd)
    (hfit : castFits cd src.shape = true) (hl : cd.colMajor = !cs.colMajor) :
    ∃ r, castInto cd id src = some r ∧ r.shape = src.shape ∧ r.strides = stridesOf (!cs.colMajor) src.shape ∧
      r.data.length = src.data.length ∧ ∀ idx, InShape idx src.shape → read? r idx = read? src idx := by
  obtain ⟨r, h1, h2, h3, h4⟩ := cast_preserves_shape_and_values cs cd src id hs hd hfit
  refine ⟨r, h1, h2, ?_, ?_, fun idx hI => ?_⟩
  · rw [h3.2.1, h2, hl]
  · rw [h3.1, h2, hs.1]
  · obtain ⟨v, hv1, hv2⟩ := h4 idx hI
    rw [hv1, hv2]; rfl

/-- a cast never breaks the invariant of its result, even when the destination kind refuses the shape (the result then
    has the destination's default shape: see `cast_refused_counterexample`) -/
theorem cast_inv (cs cd : Cfg) (src : St) (conv : Int → Int) (hs : ObjInv cs src) (hd : CfgOk cd) (hdd : DefaultOk cd) :
    ∃ r, castInto cd conv src = some r ∧ ObjInv cd r :=
  castLoop_inv cs cd conv src _ hs (resize_objInv cd _ _ (init_objInv cd hd hdd)) (prod src.shape) (Nat.le_refl _)

/-- every kind that is not clipped takes the shapes of its own states: `cast<T>(a)` (same kind, other element type)
    is never refused -/
theorem castFits_self (c : Cfg) (hc : CfgOk c) (hnc : ∀ ms, c.sk ≠ .clipped ms) (st : St) (hi : ObjInv c st) :
    castFits c st.shape = true := by
  obtain ⟨sk, bk, cm⟩ := c
  obtain ⟨h1, h2, h3, h4⟩ := hi
  obtain ⟨g1, g2, g3⟩ := hc
  unfold castFits accepts
  cases sk <;> cases bk <;> simp_all [init] <;> omega

/-- **cast(dtype)**: `cast<T>(a)` keeps kind, layout and shape and converts every element with `static_cast<T>` -/
theorem cast_dtype_preserves (c : Cfg) (hc : CfgOk c) (hnc : ∀ ms, c.sk ≠ .clipped ms) (src : St) (hs : ObjInv c src) (t : DType) :
    ∃ r, castInto c (convTo t) src = some r ∧ r.shape = src.shape ∧ r.strides = src.strides ∧ ObjInv c r ∧
      ∀ idx, InShape idx src.shape → ∃ v, read? src idx = some v ∧ read? r idx = some (convTo t v) := by
  obtain ⟨r, h1, h2, h3, h4⟩ := cast_preserves_shape_and_values c c src (convTo t) hs hc (castFits_self c hc hnc src hs)
  exact ⟨r, h1, h2, by rw [h3.2.1, h2, hs.2.1], h3, h4⟩

/-- the element conversions are the C++ ones: the result lies in the range of `T`, is congruent to the source modulo
    2^bits, and in-range values are unchanged -/
theorem convTo_spec (v : Int) :
    (-128 ≤ convTo .i8 v ∧ convTo .i8 v < 128 ∧ (convTo .i8 v - v) % 256 = 0 ∧ (-128 ≤ v → v < 128 → convTo .i8 v = v)) ∧
    (0 ≤ convTo .u8 v ∧ convTo .u8 v < 256 ∧ (convTo .u8 v - v) % 256 = 0 ∧ (0 ≤ v → v < 256 → convTo .u8 v = v)) ∧
    (-32768 ≤ convTo .i16 v ∧ convTo .i16 v < 32768 ∧ (convTo .i16 v - v) % 65536 = 0 ∧ (-32768 ≤ v → v < 32768 → convTo .i16 v = v)) ∧
    convTo .i64 v = v ∧ convTo .f64 v = v := by
  refine ⟨⟨?_, ?_, ?_, ?_⟩, ⟨?_, ?_, ?_, ?_⟩, ⟨?_, ?_, ?_, ?_⟩, rfl, rfl⟩ <;> simp only [convTo, wrapSigned] <;> omega

/-- **cast(kind)**: the destination kind resolved for any kind tag from a source of shape `s` always takes that shape … -/
theorem cast_kind_fits (k : KindTag) (s : List Nat) (hne : s ≠ []) (hp : 0 < prod s) :
    CfgOk (kindCfg k s) ∧ castFits (kindCfg k s) s = true := by
  have hl : 0 < s.length := List.length_pos_iff.mpr hne
  constructor
  · cases k with
    | fixed => simp [kindCfg, CfgOk]
    | hybrid => simp [kindCfg, CfgOk, hl, hp]
    | dynamic => simp [kindCfg, CfgOk]
    | nd sk bk => cases sk <;> cases bk <;> simp [kindCfg, CfgOk, hl, hp]
  · cases k with
    | fixed => simp [kindCfg, castFits]
    | hybrid => simp [kindCfg, castFits, accepts, init]; omega
    | dynamic => simp [kindCfg, castFits, accepts]
    | nd sk bk =>
      cases sk <;> cases bk <;> simp [kindCfg, castFits, accepts, init, zipWith_le_self, prod_replicate_one] <;> omega

/-- … hence `cast(a, kind)` preserves shape and values for all 18 kind tags (fixed / hybrid / dynamic and the 15
    ndarray kinds), whatever the source kind and layout -/
theorem cast_kind_preserves (k : KindTag) (cs : Cfg) (src : St) (hs : ObjInv cs src) (hne : src.shape ≠ [])
    (hp : 0 < prod src.shape) :
    ∃ r, castInto (kindCfg k src.shape) id src = some r ∧ r.shape = src.shape ∧ ObjInv (kindCfg k src.shape) r ∧
      ∀ idx, InShape idx src.shape → ∃ v, read? src idx = some v ∧ read? r idx = some v := by
  obtain ⟨h1, h2⟩ := cast_kind_fits k src.shape hne hp
  exact cast_preserves_shape_and_values cs _ src id hs h1 h2

/-- sequences with casts: from a sane start, through any sequence of resizes, writes, fills, casts to sane kinds and
    element-type casts, the run never gets stuck and the invariant of the CURRENT kind holds at the end -/
theorem reachable_inv_with_casts (c0 : Cfg) (h0 : CfgOk c0) (hd0 : DefaultOk c0) (ops : List XOp)
    (hops : ∀ cd, XOp.cast cd ∈ ops → CfgOk cd ∧ DefaultOk cd) :
    ∃ c st, xrun (c0, init c0) ops = some (c, st) ∧ CfgOk c ∧ DefaultOk c ∧ ObjInv c st := by
  have key : ∀ (ops : List XOp) (c : Cfg) (st : St), CfgOk c → DefaultOk c → ObjInv c st →
      (∀ cd, XOp.cast cd ∈ ops → CfgOk cd ∧ DefaultOk cd) →
      ∃ c' st', xrun (c, st) ops = some (c', st') ∧ CfgOk c' ∧ DefaultOk c' ∧ ObjInv c' st' := by
    intro ops
    induction ops with
    | nil => intro c st hc hd hi _; exact ⟨c, st, rfl, hc, hd, hi⟩
    | cons o os ih =>
      intro c st hc hd hi hall
      have hall' : ∀ cd, XOp.cast cd ∈ os → CfgOk cd ∧ DefaultOk cd := fun cd h => hall cd (List.mem_cons_of_mem _ h)
      cases o with
      | base b =>
        obtain ⟨c', st', h1, h2⟩ := ih c (step c st b).1 hc hd (step_inv c st b hi) hall'
        exact ⟨c', st', by simpa [xrun, xstep] using h1, h2⟩
      | cast cd =>
        obtain ⟨hcd, hdd⟩ := hall cd (by simp)
        obtain ⟨r, hr1, hr2⟩ := cast_inv c cd st id hi hcd hdd
        obtain ⟨c', st', h1, h2⟩ := ih cd r hcd hdd hr2 hall'
        exact ⟨c', st', by simpa [xrun, xstep, hr1] using h1, h2⟩
      | dcast t =>
        obtain ⟨r, hr1, hr2⟩ := cast_inv c c st (convTo t) hi hc hd
        obtain ⟨c', st', h1, h2⟩ := ih c r hc hd hr2 hall'
        exact ⟨c', st', by simpa [xrun, xstep, hr1] using h1, h2⟩
  exact key ops c0 (init c0) h0 hd0 (init_inv c0 h0 hd0) hops

/-- a cast into a kind that REFUSES the shape silently keeps the destination's default shape and copies by wrapped
    indices (known finding C20.cast-refused-resize): `cast<ndarray_t<array<int,6>,vector>>` of a (2,2) array has
    shape (6), of a (2,2,2) array the last two elements overwrite the first two -/
theorem cast_refused_counterexample :
    let cs : Cfg := ⟨.dyn, .dyn, false⟩
    let cd : Cfg := ⟨.dyn, .fixed 6, false⟩
    let a := fill (resize cs (init cs) [2,2]).1 10
    let b := fill (resize cs (init cs) [2,2,2]).1 10
    ObjInv cs a ∧ castFits cd a.shape = false ∧
    (castInto cd id a).map (fun r => (r.shape, r.data)) = some ([6], [10,11,12,13,0,0]) ∧
    (castInto cd id b).map (fun r => (r.shape, r.data)) = some ([6], [16,17,12,13,14,15]) := by
  refine ⟨?_, by decide, by decide, by decide⟩
  exact fill_inv _ _ _ (resize_inv _ _ _ (init_inv _ (by simp [CfgOk]) (by simp [DefaultOk])))

/-! non-vacuity (cast) -/
-- (2,3) row-major → column-major: buffer permuted, logical elements kept
example : (castInto ⟨.dyn, .dyn, true⟩ id (fill (resize ⟨.dyn, .dyn, false⟩ (init ⟨.dyn, .dyn, false⟩) [2,3]).1 300)).map
    (fun r => (r.shape, r.strides, r.data)) = some ([2,3], [1,2], [300,303,301,304,302,305]) := by decide
example : castFits ⟨.fixedDim 2, .bounded 8, false⟩ [2,3] = true ∧ castFits ⟨.dyn, .fixed 6, true⟩ [3,2] = true ∧
    castFits ⟨.const [2,3], .dyn, false⟩ [2,3] = true ∧ castFits ⟨.bounded 3, .bounded 8, false⟩ [2,2,2] = true := by decide
example : (castInto ⟨.dyn, .dyn, true⟩ (convTo .i8) (fill (resize ⟨.dyn, .dyn, true⟩ (init ⟨.dyn, .dyn, true⟩) [2,2]).1 126)).map
    (·.data) = some [126, 127, -128, -127] := by decide
example : kindCfg (.nd .l .f) [2,3] = ⟨.clipped [2,3], .fixed 6, false⟩ ∧ kindCfg .hybrid [2,3] = ⟨.fixedDim 2, .bounded 6, false⟩ := by decide
-- hypotheses of cast_kind_fits / cast_kind_preserves, castFits_self / cast_dtype_preserves, reachable_inv_with_casts
example : ([2,1,3] : List Nat) ≠ [] ∧ 0 < prod [2,1,3] := by decide
example : (castInto (kindCfg (.nd .h .h) [2,1,3]) id (fill (init ⟨.const [2,1,3], .fixed 6, true⟩) 10)).map (fun r => (r.shape, r.strides, r.data)) =
    some ([2,1,3], [3,3,1], [10,12,14,11,13,15]) := by decide
example : ∀ ms, (⟨.dyn, .fixed 6, true⟩ : Cfg).sk ≠ .clipped ms := by intro ms h; cases h
example : CfgOk ⟨.fixedDim 2, .bounded 8, true⟩ ∧ DefaultOk ⟨.fixedDim 2, .bounded 8, true⟩ ∧ ¬ DefaultOk ⟨.clipped [2,3], .fixed 6, true⟩ := by
  refine ⟨by simp [CfgOk], by simp [DefaultOk], by decide⟩
example : (xrun (⟨.dyn, .dyn, false⟩, init ⟨.dyn, .dyn, false⟩)
    [.base (.resize [2,2]), .base (.fill 1), .cast ⟨.fixedDim 2, .bounded 8, true⟩, .dcast .u8, .base (.write [1,0] 7)]).map
    (fun x => (x.2.shape, x.2.strides, x.2.data)) = some ([2,2], [1,2], [1,7,2,4]) := by decide

/-! ## writes through mutable views -/

/-- writing through a mutable indexing view (mutable_reshape / mutable_flatten / mutable_ref / mutable_slice)
    at destination index `d` changes exactly the source element `map d` and nothing else -/
theorem mutable_view_write_exact (c : Cfg) (st : St) (hi : ObjInv c st) (v : IxView) (hsrc : v.src = st.shape)
    (hb : v.InBounds) (d : Idx) (hd : InShape d v.dst) (i : Idx) (hm : v.map d = some i) (j : Idx) (hJ : InShape j st.shape) (x : Int) :
    read? (write st i x) j = if i = j then some x else read? st j :=
  write_read c st hi i j (hsrc ▸ hb d hd i hm) hJ x

/-- at buffer level: a write at an in-shape index changes exactly one cell of the source buffer, the one the layout
    designates; shape, strides and buffer length are untouched -/
theorem write_buffer_exact (c : Cfg) (st : St) (hi : ObjInv c st) (i : Idx) (hI : InShape i st.shape) : WriteExact st i :=
  writeExact_of_inShape c st hi hI

/-- **mutable_ref**: destination index = source index -/
theorem mutable_ref_write_exact (c : Cfg) (st : St) (hi : ObjInv c st) :
    WriteThroughExact st ⟨st.shape, st.shape, fun d => some d⟩ :=
  writeThrough_of_inBounds c st hi _ rfl (fun _ hd _ hm => by cases hm; exact hd) (fun d _ => ⟨d, rfl⟩)

/-- **mutable_reshape**: for every accepted target (with or without `-1`) every destination index writes exactly one
    source element / buffer cell -/
theorem mutable_reshape_write_exact (c : Cfg) (st : St) (hi : ObjInv c st) (hp : Pos st.shape) (dst : List Int) (v : IxView)
    (hv : reshapeView st.shape dst = some v) : v.src = st.shape ∧ WriteThroughExact st v := by
  simp only [reshapeView, Option.map_eq_some_iff] at hv
  obtain ⟨s, _, rfl⟩ := hv
  refine ⟨rfl, writeThrough_of_inBounds c st hi _ rfl ?_ (fun d _ => ⟨_, rfl⟩)⟩
  intro d _ i hm
  simp only [Option.some.injEq] at hm
  subst hm
  exact indices_inShape hp _

/-- **mutable_flatten**: the view exists for positive extents, has shape `[size]`, and element `k` writes exactly the
    source element of row-major rank `k` -/
theorem mutable_flatten_write_exact (c : Cfg) (st : St) (hi : ObjInv c st) (hp : Pos st.shape) :
    ∃ v, flattenView st.shape = some v ∧ v.dst = [prod st.shape] ∧ WriteThroughExact st v ∧
      ∀ k, k < prod st.shape → v.map [k] = some (ndindex st.shape k) := by
  have hpp : 0 < prod st.shape := prod_pos hp
  have hsr : shapeReshape st.shape [(prod st.shape : Int)] = some [prod st.shape] := by
    have h1 : ¬ ((prod st.shape : Int) = -1) := by omega
    have h2 : ¬ ((prod st.shape : Int) ≤ 0) := by omega
    simp [shapeReshape, countNegativeReshape, h1, h2]
    omega
  have hv : flattenView st.shape = some ⟨st.shape, [prod st.shape],
      fun d => some (computeIndices (computeOffset d (strides [prod st.shape])) st.shape (strides st.shape))⟩ := by
    simp [flattenView, reshapeView, hsr]
  refine ⟨_, hv, rfl, (mutable_reshape_write_exact c st hi hp _ _ hv).2, ?_⟩
  intro k _
  simp [ndindex, strides, computeOffset, prod]

/-- **mutable_slice**, packed and run-time encodings, EVERY valid basic index (the C05 domain `domEntries`: any rank,
    integers, one ellipsis, ranges with omitted / negative / out-of-range bounds and any non-zero step, negative
    included): the view exists and every destination index writes exactly one source element / buffer cell -/
theorem mutable_slice_write_exact (c : Cfg) (st : St) (hi : ObjInv c st) (es : List Slice.Entry)
    (hdom : Slice.domEntries st.shape es = true) :
    ∃ v, Slice.sliceView st.shape es = some v ∧ Slice.dynamicSliceView st.shape es = some ⟨v.src, v.dst, Slice.dynamicSlice st.shape es⟩ ∧
      v.src = st.shape ∧ WriteThroughExact st v ∧ WriteThroughExact st ⟨v.src, v.dst, Slice.dynamicSlice st.shape es⟩ := by
  obtain ⟨sels, _, h2, h3⟩ := Slice.slice_dom st.shape es hdom
  refine ⟨⟨st.shape, Slice.specShape sels, fun d => Slice.sliceIdx st.shape es d⟩, by simp [Slice.sliceView, h2], ?_, rfl, ?_, ?_⟩
  · simp [Slice.dynamicSliceView, Slice.shape_packed_eq_dynamic _ _ _ h2]
  · intro d hd
    obtain ⟨i, _, a2, a3⟩ := h3 d hd
    exact ⟨i, a2, writeExact_of_inShape c st hi a3⟩
  · intro d hd
    obtain ⟨i, _, a2, a3⟩ := h3 d hd
    exact ⟨i, Slice.idx_packed_eq_dynamic _ _ _ _ a2, writeExact_of_inShape c st hi a3⟩

/-! non-vacuity (mutable views) -/
-- a[::-1, 1:] on a column-major (2,3) array: destination (0,1) is source (1,2), buffer cell 1*1 + 2*2 = 5
example : Slice.domEntries [2,3] [.range none none (some (-1)), .range2 (some 1) none] = true := by decide
example : (Slice.sliceView [2,3] [.range none none (some (-1)), .range2 (some 1) none]).bind (fun v => v.map [0,1]) = some [1,2] := by decide
example : (write (fill (resize ⟨.dyn, .dyn, true⟩ (init ⟨.dyn, .dyn, true⟩) [2,3]).1 0) [1,2] (-7)).data = [0,1,2,3,4,-7] := by decide
example : (reshapeView [2,3] [3,-1]).bind (fun v => v.map [2,1]) = some [1,2] := by decide
example : Pos [2,3] ∧ (flattenView [2,3]).bind (fun v => v.map [4]) = some [1,1] := by decide

end NmVerif.Props.C20
