// C02 harness TU: the index functions whose result is a BOUNDED container, called directly with bounded operands
// (nmtools_static_vector<_,C>) whose capacity C is chosen per request — `bs=`/`ba=`/`bb=` — so that an operand can be filled
// up to its capacity.  The answer carries the capacity the result-type metafunction (meta::resolve_optype) picked:
//     cap fn=<f> shape=<dims> bs=<C> [axes=<list> ba=<C>] ...   ->   ok cap=<B|fixed:N|dyn> value=<entries>   | nothing
// Built with -DNMTOOLS_VERIF -DPROTO_VERIF_EVENTS: an ignored over-capacity resize/push_back appends ` events=1:<n>`.
//   fn=expand_dims  shape bs axes ba         fn=squeeze / remove_single_dims  shape bs
//   fn=sliding_window shape bs window bw axes(list | None | int with scalar=1)    (scalar=1: window and axis are numbers)
//   fn=take  shape bs nidx axis              fn=dslice shape bs sl=<s,e,t,...>
//   fn=moveaxis shape bs source ba destination bb     fn=normalize_axis axes ba ndim
//   fn=roll shape bs shift ba axes ba        fn=resize shape bs dst bd
//   fn=expand shape bs axes ba spacing ba    fn=diagonal shape bs offset axis1 axis2
//   fn=matmul shape bs shape2 bb             fn=pool2d shape bs kernel stride ceil
#include "nmtools/array/ndarray.hpp"
#include "nmtools/utility/at.hpp"
#include "nmtools/array/index/expand_dims.hpp"
#include "nmtools/array/index/squeeze.hpp"
#include "nmtools/array/index/remove_single_dims.hpp"
#include "nmtools/array/index/sliding_window.hpp"
#include "nmtools/array/index/take.hpp"
#include "nmtools/array/index/slice.hpp"
#include "nmtools/array/index/moveaxis.hpp"
#include "nmtools/array/index/normalize_axis.hpp"
#include "nmtools/array/index/roll.hpp"
#include "nmtools/array/index/resize.hpp"
#include "nmtools/array/index/pooling.hpp"
#include "nmtools/array/view/expand.hpp"
#include "nmtools/array/view/diagonal.hpp"
#include "nmtools/array/view/matmul.hpp"
#include "proto.hpp"
#include <array>

namespace nm = nmtools; namespace ix = nmtools::index; namespace meta = nmtools::meta;
using namespace proto;

namespace c02cap {

template <typename T, size_t C> inline nmtools_static_vector<T, C> sv(const ivec& v) {
    nmtools_static_vector<T, C> r; r.resize(v.size());
    for (size_t i = 0; i < v.size(); i++) nm::at(r, i) = (T)v[i];
    return r;
}

// k(static_vector<T,cap> holding v) for cap in 1..MAXC (cap < len(v) is a malformed request)
template <typename T, size_t MAXC, typename K> inline std::string with_sv(const ivec& v, size_t cap, K&& k) {
    if (cap < v.size() || cap < 1 || cap > MAXC) throw bad_args("cap");
    if constexpr (MAXC >= 1) if (cap == 1) return k(sv<T, 1>(v));
    if constexpr (MAXC >= 2) if (cap == 2) return k(sv<T, 2>(v));
    if constexpr (MAXC >= 3) if (cap == 3) return k(sv<T, 3>(v));
    if constexpr (MAXC >= 4) if (cap == 4) return k(sv<T, 4>(v));
    if constexpr (MAXC >= 5) if (cap == 5) return k(sv<T, 5>(v));
    throw bad_args("cap");
}

template <typename R> inline std::string cap_of() {
    constexpr auto b = meta::bounded_size_v<R>;
    if constexpr (!meta::is_fail_v<decltype(b)>) return std::to_string((size_t)b);
    else {
        constexpr auto n = meta::len_v<R>;
        if constexpr (n > 0) return "fixed:" + std::to_string((size_t)n);
        else return "dyn";
    }
}

template <typename R> inline std::string rep(const R& r) {
    if constexpr (meta::is_maybe_v<R>) { if (!nm::has_value(r)) return "nothing"; return rep(*r); }
    else if constexpr (nm::is_none_v<R>) return "ok cap=none value=None";
    else {
        ivec d; for (size_t i = 0; i < (size_t)nm::len(r); i++) d.push_back((long long)nm::at(r, i));
        return "ok cap=" + cap_of<R>() + " value=" + fmt(d);
    }
}

inline size_t capn(const Args& a, const char* k, size_t dflt) { return has(a, k) ? (size_t)integer(a, k) : dflt; }

} // namespace c02cap

std::string handle(const std::string& op, const Args& a) {
    using namespace c02cap;
    if (op != "cap") return "unknown-op";
    const std::string fn = get(a, "fn");
    ivec shape = has(a, "shape") ? ints(a, "shape") : ivec{};
    size_t bs = capn(a, "bs", shape.size());
    constexpr size_t S = 4, L = 3;      // largest operand capacities instantiated (shape / argument lists)

    if (fn == "expand_dims") {
        ivec axes = ints(a, "axes"); size_t ba = capn(a, "ba", axes.size());
        return with_sv<size_t, S>(shape, bs, [&](const auto& s) { return with_sv<int, L>(axes, ba, [&](const auto& ax) {
            return rep(ix::shape_expand_dims(s, ax)); }); });
    }
    if (fn == "expand_dims1") {          // a single integer axis: bound B+1
        int axis = (int)integer(a, "axis");
        return with_sv<size_t, S>(shape, bs, [&](const auto& s) { return rep(ix::shape_expand_dims(s, axis)); });
    }
    if (fn == "squeeze")
        return with_sv<size_t, S>(shape, bs, [&](const auto& s) { return rep(ix::shape_squeeze(s)); });
    if (fn == "remove_single_dims")
        return with_sv<size_t, S>(shape, bs, [&](const auto& s) { return rep(ix::remove_single_dims(s)); });
    if (fn == "sliding_window") {
        if (has(a, "scalar")) {
            size_t w = (size_t)integer(a, "window");
            if (is_none(a, "axes"))
                return with_sv<size_t, S>(shape, bs, [&](const auto& s) { return rep(ix::shape_sliding_window(s, w)); });
            int axis = (int)integer(a, "axes");
            return with_sv<size_t, S>(shape, bs, [&](const auto& s) { return rep(ix::shape_sliding_window(s, w, axis)); });
        }
        ivec w = ints(a, "window"); size_t bw = capn(a, "bw", w.size());
        if (is_none(a, "axes"))
            return with_sv<size_t, S>(shape, bs, [&](const auto& s) { return with_sv<size_t, L>(w, bw, [&](const auto& ws) {
                return rep(ix::shape_sliding_window(s, ws)); }); });
        ivec axes = ints(a, "axes");
        return with_sv<size_t, S>(shape, bs, [&](const auto& s) { return with_sv<size_t, L>(w, bw, [&](const auto& ws) {
            // the axis list travels in a container of the same capacity as the window list
            using ax_t = nmtools_static_vector<int, meta::bounded_size_v<meta::remove_cvref_t<decltype(ws)>>>;
            ax_t ax; ax.resize(axes.size()); for (size_t i = 0; i < axes.size(); i++) nm::at(ax, i) = (int)axes[i];
            return rep(ix::shape_sliding_window(s, ws, ax)); }); });
    }
    if (fn == "take") {
        std::vector<int> ind((size_t)integer(a, "nidx"), 0); int axis = (int)integer(a, "axis");
        return with_sv<size_t, S>(shape, bs, [&](const auto& s) { return rep(ix::shape_take(s, ind, axis)); });
    }
    if (fn == "dslice") {
        ivec f = ints(a, "sl"); if (f.size() % 3) throw bad_args("sl");
        std::vector<std::array<int, 3>> sl;
        for (size_t i = 0; i < f.size(); i += 3) sl.push_back({(int)f[i], (int)f[i + 1], (int)f[i + 2]});
        return with_sv<size_t, S>(shape, bs, [&](const auto& s) { return rep(ix::shape_dynamic_slice(s, sl)); });
    }
    if (fn == "moveaxis") {
        ivec src = ints(a, "source"), dst = ints(a, "destination");
        size_t ba = capn(a, "ba", src.size()), bb = capn(a, "bb", dst.size());
        return with_sv<size_t, S>(shape, bs, [&](const auto& s) { return with_sv<int, L>(src, ba, [&](const auto& sa) {
            return with_sv<int, L>(dst, bb, [&](const auto& da) { return rep(ix::moveaxis_to_transpose(s, sa, da)); }); }); });
    }
    if (fn == "normalize_axis") {
        ivec axes = ints(a, "axes"); size_t ba = capn(a, "ba", axes.size()); int ndim = (int)integer(a, "ndim");
        return with_sv<int, S>(axes, ba, [&](const auto& ax) { return rep(ix::normalize_axis(ax, ndim)); });
    }
    if (fn == "roll") {
        ivec sh = ints(a, "shift"), axes = ints(a, "axes"); size_t ba = capn(a, "ba", axes.size());
        if (sh.size() != axes.size()) throw bad_args("shift");
        return with_sv<size_t, S>(shape, bs, [&](const auto& s) { return with_sv<int, L>(axes, ba, [&](const auto& ax) {
            auto shv = ax; for (size_t i = 0; i < sh.size(); i++) nm::at(shv, i) = (int)sh[i];
            return rep(ix::shape_roll(s, shv, ax)); }); });
    }
    if (fn == "resize") {
        ivec dst = ints(a, "dst"); size_t bd = capn(a, "bd", dst.size());
        return with_sv<size_t, S>(shape, bs, [&](const auto& s) { return with_sv<size_t, S>(dst, bd, [&](const auto& d) {
            return rep(ix::shape_resize(s, d)); }); });
    }
    if (fn == "expand") {
        ivec axes = ints(a, "axes"), sp = ints(a, "spacing"); size_t ba = capn(a, "ba", axes.size());
        if (sp.size() != axes.size()) throw bad_args("spacing");
        return with_sv<size_t, S>(shape, bs, [&](const auto& s) { return with_sv<int, L>(axes, ba, [&](const auto& ax) {
            using sp_t = nmtools_static_vector<size_t, meta::bounded_size_v<meta::remove_cvref_t<decltype(ax)>>>;
            sp_t spv; spv.resize(sp.size()); for (size_t i = 0; i < sp.size(); i++) nm::at(spv, i) = (size_t)sp[i];
            return rep(ix::shape_expand(s, ax, spv)); }); });
    }
    if (fn == "diagonal") {
        int off = (int)integer(a, "offset"), a1 = (int)integer(a, "axis1"), a2 = (int)integer(a, "axis2");
        if (bs < 2) throw bad_args("bs");      // B_DIM-1 = 0: no such container
        auto k = [&](const auto& s) { return rep(ix::shape_diagonal(s, off, a1, a2)); };
        if (bs == 2) return k(sv<size_t, 2>(shape));
        if (bs == 3) return k(sv<size_t, 3>(shape));
        if (bs == 4) return k(sv<size_t, 4>(shape));
        throw bad_args("bs");
    }
    if (fn == "matmul") {
        ivec b = ints(a, "shape2"); size_t bb = capn(a, "bb", b.size());
        return with_sv<size_t, S>(shape, bs, [&](const auto& s) { return with_sv<size_t, S>(b, bb, [&](const auto& t) {
            return rep(ix::shape_matmul(s, t)); }); });
    }
    if (fn == "pool2d") {
        ivec k = ints(a, "kernel"), st = ints(a, "stride"); bool ceil = integer(a, "ceil") != 0;
        if (k.size() != 2 || st.size() != 2) throw bad_args("kernel");
        std::array<size_t, 2> ka{(size_t)k[0], (size_t)k[1]}, sa{(size_t)st[0], (size_t)st[1]};
        return with_sv<size_t, S>(shape, bs, [&](const auto& s) { return rep(ix::shape_pool2d(s, ka, sa, ceil)); });
    }
    return "bad-args";
}
