import NmVerif.Index.Broadcast
namespace NmVerif.Props.C06
open NmVerif
theorem broadcast_scalar (s : Shape) : broadcastShape2 [] s = some s := by
  simp [broadcastShape2, bcRev]
end NmVerif.Props.C06
