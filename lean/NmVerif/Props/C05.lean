import NmVerif.Index.Slice
namespace NmVerif.Props.C05
end NmVerif.Props.C05
