import NmVerif.Basic
/-
  NmVerif.Index.NormalizeAxis — MODEL of
    include/nmtools/array/index/normalize_axis.hpp   index::normalize_axis (run-time branch, signed axis type)
    include/nmtools/utility/at.hpp                   nmtools::at(container, signed run-time index)

  Stable names (reused by C02/C04/C08/C10/C15):
    normalizeAxis  ndim a      : Option Nat          `none` = the C++ returns Nothing
    normalizeAxes  ndim axes   : Option (List Nat)   element-wise; NO duplicate check (as the C++)
    atPos          len i       : Option Nat          position really accessed by `at(c, i)`; `none` = out of range (UB)

  Core Lean only.
-/
namespace NmVerif

/-- `index::normalize_axis(axis, ndim)`, one axis: Nothing unless `-ndim ≤ a < ndim`; negative ⇒ `ndim + a`. -/
def normalizeAxis (ndim : Nat) (a : Int) : Option Nat :=
  if -(ndim : Int) ≤ a ∧ a < (ndim : Int) then
    some (if a < 0 then ((ndim : Int) + a).toNat else a.toNat)
  else none

/-- `index::normalize_axis(axes, ndim)` on an index array: element-wise, Nothing if any entry is out of range;
    duplicates are NOT rejected. -/
def normalizeAxes (ndim : Nat) (axes : List Int) : Option (List Nat) := axes.mapM (normalizeAxis ndim)

/-- `nmtools::at(c, i)` for a signed run-time `i` (utility/at.hpp:194-211): `i < 0` ⇒ position `len(c) + i`.
    `none` = the position lies outside the container (the C++ reads/writes out of range: UB).
    On the in-range domain this is the same function as `normalizeAxis`. -/
def atPos (len : Nat) (i : Int) : Option Nat :=
  if 0 ≤ i then (if i.toNat < len then some i.toNat else none)
  else if -i ≤ (len : Int) then some (len - (-i).toNat) else none

end NmVerif
