// helpers shared by h_c04b.cpp / h_c04c.cpp / h_c04d.cpp (C04 tiers B and C)
//   sdump / sdump1 : c04::dump / c04::dump1 behind a size guard — a view whose shape has wrapped (an extent
//                    that went negative and was stored into a size_t) would otherwise make the dump loop run
//                    for 2^64 elements; such a view answers `ok shape=<dims> data=huge`.
//   fdump          : dump of a real-valued view, elements printed with %.17g
#pragma once
#include "c04_common.hpp"
#include <cstdio>
#include <cmath>

namespace c04 {
constexpr size_t HUGE_LIMIT = 1u << 20;

inline bool is_huge(const uvec& s) {
    size_t n = 1;
    for (auto e : s) { if (e > HUGE_LIMIT) return true; n *= e; if (n > HUGE_LIMIT) return true; }
    return false;
}
template <typename V> inline std::string huge_answer(const V& v) {
    uvec s = to_uvec(nm::shape(v));
    if (!is_huge(s)) return "";
    std::ostringstream o; o << "ok shape=";
    for (size_t i = 0; i < s.size(); i++) { if (i) o << ','; o << (long long)s[i]; }
    if (s.empty()) o << "[]";
    o << " data=huge"; return o.str();
}
template <typename V> inline std::string sdump(const V& v) {
    if constexpr (nm::meta::is_maybe_v<V>) { if (!nm::has_value(v)) return "nothing"; return sdump(*v); }
    else { auto h = huge_answer(v); if (!h.empty()) return h; return dump_view(v); }
}
template <typename V> inline std::string sdump1(const V& v) {
    if constexpr (nm::meta::is_maybe_v<V>) { if (!nm::has_value(v)) return "nothing"; return sdump1(*v); }
    else { auto h = huge_answer(v); if (!h.empty()) return h; return dump1_view(v); }
}
inline std::string fmt_real(double x) {
    char buf[64];
    if (std::isnan(x)) return "nan";
    if (std::isinf(x)) return x > 0 ? "inf" : "-inf";
    std::snprintf(buf, sizeof buf, "%.17g", x); return buf;
}
// rank-1 real view (arange / linspace): v(k)
template <typename V> inline std::string fdump1(const V& v) {
    auto h = huge_answer(v); if (!h.empty()) return h;
    uvec s = to_uvec(nm::shape(v));
    if (s.size() != 1) return "dim-mismatch";
    std::ostringstream o; o << "ok shape=" << fmt(s) << " data=";
    if (s[0] == 0) o << "[]";
    for (size_t k = 0; k < s[0]; k++) { if (k) o << ','; o << fmt_real((double)v(k)); }
    return o.str();
}
} // namespace c04
