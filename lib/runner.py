"""
Common machinery of ./check: Lean build + audit, harness build from $VERIF_REPO, request
streams through IMPL (C++ harness) / MODEL (Lean driver) / ORACLE (python spec), verdict,
replay and evidence files.  See DESIGN.md §2-§5.
"""
import os, sys, json, time, hashlib, subprocess, re, signal, shutil, random

ROOT = os.path.dirname(os.path.dirname(os.path.abspath(__file__)))
REPO = os.environ.get('VERIF_REPO', '/repo')
BUILD = os.path.join(ROOT, '.build')
LEAN = os.path.join(ROOT, 'lean')
JOBS = int(os.environ.get('VERIF_JOBS', '16'))
ALLOWED_AXIOMS = {'propext', 'Classical.choice', 'Quot.sound'}
FORBIDDEN = re.compile(r'\bsorry\b|\badmit\b|^\s*axiom\s|native_decide|bv_decide|implemented_by|\bunsafe\s|maxHeartbeats\s+0', re.M)

os.makedirs(BUILD, exist_ok=True)


class Case:
    """One request.
    req      request line (sent verbatim to harness; `mreq` to the Lean driver if different)
    harness  name of the harness binary that answers it
    dom      True: the request lies in the domain on which the Lean theorems say MODEL = SPEC
             (so MODEL's answer is what the property demands)
    oracle   python/NumPy computed expected answer, or None
    model    False: do not ask the Lean driver (no model for this request)
    nontrivial  counted for the evidence
    tags     free-form labels for the input-distribution histogram
    cmp      optional function(a, b) -> bool used instead of string equality
    """
    __slots__ = ('req', 'mreq', 'harness', 'dom', 'oracle', 'model', 'nontrivial', 'tags', 'cmp',
                 'impl', 'mans', 'expect_crash')

    def __init__(self, req, harness, dom=True, oracle=None, model=True, nontrivial=True, tags=(), mreq=None, cmp=None):
        self.req = req; self.mreq = mreq if mreq is not None else req
        self.harness = harness; self.dom = dom; self.oracle = oracle; self.model = model
        self.nontrivial = nontrivial; self.tags = tuple(tags); self.cmp = cmp
        self.impl = None; self.mans = None

    def eq(self, a, b):
        if self.cmp is not None:
            return self.cmp(a, b)
        return a == b


# ----------------------------------------------------------------------------------------------
# Lean side
# ----------------------------------------------------------------------------------------------

def sh(cmd, cwd=None, timeout=None, env=None):
    p = subprocess.run(cmd, cwd=cwd, stdout=subprocess.PIPE, stderr=subprocess.STDOUT, timeout=timeout, env=env)
    return p.returncode, p.stdout.decode('utf-8', 'replace')


def lean_build(targets):
    """lake build of the given targets; returns (ok, log)."""
    t0 = time.time()
    rc, out = sh(['lake', 'build'] + targets, cwd=LEAN)
    return rc == 0, out, time.time() - t0


def strip_lean_comments(src):
    # remove /- ... -/ (nested not handled beyond one level, good enough) and -- comments
    src = re.sub(r'/-.*?-/', '', src, flags=re.S)
    src = re.sub(r'--.*', '', src)
    return src


def lean_grep_forbidden():
    hits = []
    for d, _, fs in os.walk(LEAN):
        if '.lake' in d:
            continue
        for f in fs:
            if f.endswith('.lean'):
                p = os.path.join(d, f)
                src = strip_lean_comments(open(p).read())
                for m in FORBIDDEN.finditer(src):
                    hits.append('%s: %s' % (os.path.relpath(p, ROOT), m.group(0).strip()))
    return hits


def audit(pid):
    """returns dict(expected=[..], found={thm: axioms}, missing=[..], dirty={thm: bad axioms}, log=str)."""
    expected_file = os.path.join(LEAN, 'NmVerif', 'Props', pid + '.expected')
    expected = [l.strip() for l in open(expected_file) if l.strip() and not l.startswith('#')]
    src = os.path.join(BUILD, 'audit_%s.lean' % pid)
    with open(src, 'w') as f:
        f.write('import NmVerif.Audit\nimport NmVerif.Props.%s\n#audit NmVerif.Props.%s\n' % (pid, pid))
    rc, out = sh(['lake', 'env', 'lean', src], cwd=LEAN)
    found = {}
    for l in out.splitlines():
        if l.startswith('AUDIT '):
            j = json.loads(l[6:])
            found[j['theorem'].split('NmVerif.Props.%s.' % pid, 1)[-1]] = j['axioms']
    missing = [t for t in expected if t not in found]
    dirty = {t: [a for a in ax if a not in ALLOWED_AXIOMS] for t, ax in found.items()}
    dirty = {t: a for t, a in dirty.items() if a}
    return dict(expected=expected, found=found, missing=missing, dirty=dirty, log=out, rc=rc)


# ----------------------------------------------------------------------------------------------
# C++ side
# ----------------------------------------------------------------------------------------------

_tree_hash = None


def include_tree_hash():
    """content hash of $VERIF_REPO/include — a changed header gives a new build key."""
    global _tree_hash
    if _tree_hash is None:
        h = hashlib.sha256()
        inc = os.path.join(REPO, 'include')
        for d, ds, fs in os.walk(inc):
            ds.sort()
            for f in sorted(fs):
                p = os.path.join(d, f)
                h.update(os.path.relpath(p, inc).encode())
                with open(p, 'rb') as fh:
                    h.update(fh.read())
        _tree_hash = h.hexdigest()
    return _tree_hash


FLAVOURS = {
    # as the baseline builds: optimised, asserts compiled out
    'fast': ['-O1', '-DNDEBUG'],
    # asserts on
    'dbg': ['-O1'],
    # sanitizers; abort on first report
    'san': ['-O1', '-g', '-fsanitize=address,undefined', '-fno-sanitize-recover=all', '-DNDEBUG', '-D_GLIBCXX_ASSERTIONS'],
    'san-dbg': ['-O1', '-g', '-fsanitize=address,undefined', '-fno-sanitize-recover=all', '-D_GLIBCXX_ASSERTIONS'],
}
HOOK_DEFINE = '-DNMTOOLS_VERIF'


def harness_build(name, src, flavour='fast', extra=(), compiler='g++'):
    """compile harness/<src> against $VERIF_REPO/include; cached by content hash.
    returns (binary_path or None, log)."""
    srcp = os.path.join(ROOT, 'harness', src) if not os.path.isabs(src) else src
    flags = ['-std=c++17', '-I' + os.path.join(REPO, 'include'), '-I' + os.path.join(ROOT, 'harness'),
             HOOK_DEFINE, '-w', '-ffp-contract=off'] + FLAVOURS[flavour] + list(extra)
    h = hashlib.sha256()
    h.update(include_tree_hash().encode())
    for p in [srcp, os.path.join(ROOT, 'harness', 'proto.hpp')] + \
            [os.path.join(ROOT, 'harness', f) for f in sorted(os.listdir(os.path.join(ROOT, 'harness'))) if f.endswith('.hpp')]:
        with open(p, 'rb') as fh:
            h.update(fh.read())
    h.update(' '.join([compiler] + flags).encode())
    key = h.hexdigest()[:16]
    out = os.path.join(BUILD, '%s-%s-%s' % (name, flavour, key))
    if os.path.exists(out):
        return out, 'cached'
    # drop older generations of this name/flavour
    for f in os.listdir(BUILD):
        if f.startswith('%s-%s-' % (name, flavour)) and not f.endswith(key):
            try:
                os.remove(os.path.join(BUILD, f))
            except OSError:
                pass
    tmp = out + '.tmp%d' % os.getpid()
    rc, log = sh([compiler] + flags + [srcp, '-o', tmp])
    if rc != 0:
        return None, log
    os.replace(tmp, out)
    return out, log


def harness_build_many(specs):
    """specs: list of dict(name, src, flavour, extra, compiler); parallel build. returns {name: (bin, log)}"""
    from concurrent.futures import ThreadPoolExecutor
    res = {}
    include_tree_hash()
    with ThreadPoolExecutor(max_workers=JOBS) as ex:
        futs = {s['name']: ex.submit(harness_build, s['name'], s['src'], s.get('flavour', 'fast'),
                                     s.get('extra', ()), s.get('compiler', 'g++')) for s in specs}
        for n, f in futs.items():
            res[n] = f.result()
    return res


def _run_lines(binary, lines, env=None, timeout=None):
    p = subprocess.Popen([binary], stdin=subprocess.PIPE, stdout=subprocess.PIPE, stderr=subprocess.PIPE, env=env)
    try:
        out, err = p.communicate(('\n'.join(lines) + '\n').encode(), timeout=timeout)
    except subprocess.TimeoutExpired:
        p.kill()
        out, err = p.communicate()
        return out.decode('utf-8', 'replace').splitlines(), 'timeout', err.decode('utf-8', 'replace')
    return out.decode('utf-8', 'replace').splitlines(), p.returncode, err.decode('utf-8', 'replace')


def crash_kind(rc, err):
    if rc == 'timeout':
        return 'crash:timeout'
    if 'AddressSanitizer' in err:
        m = re.search(r'AddressSanitizer: ([a-zA-Z-]+)', err)
        return 'crash:asan:' + (m.group(1) if m else '?')
    if 'runtime error:' in err:
        m = re.search(r'runtime error: ([^\n]{0,60})', err)
        return 'crash:ubsan:' + re.sub(r'[^a-zA-Z0-9]+', '_', m.group(1)).strip('_')[:40]
    if 'Assertion' in err or 'assert' in err:
        return 'crash:assert'
    if isinstance(rc, int) and rc < 0:
        try:
            return 'crash:' + signal.Signals(-rc).name
        except Exception:
            return 'crash:signal%d' % -rc
    return 'crash:exit%s' % rc


def run_harness(binary, reqs, per_req_timeout=20.0):
    """answers for every request; a crash becomes the answer `crash:<kind>` and the run continues."""
    answers = []
    i = 0
    env = dict(os.environ, ASAN_OPTIONS='detect_leaks=0:abort_on_error=0:allocator_may_return_null=1', UBSAN_OPTIONS='print_stacktrace=0')
    crashes = 0
    while i < len(reqs):
        chunk = reqs[i:]
        out, rc, err = _run_lines(binary, chunk, env=env, timeout=max(60.0, per_req_timeout + 0.002 * len(chunk)))
        answers.extend(out[:len(chunk)])
        i += min(len(out), len(chunk))
        if i < len(reqs) and len(out) < len(chunk):
            answers.append(crash_kind(rc, err))
            crashes += 1
            i += 1
            if crashes > 20000:
                # give up restarting: mark the rest
                answers.extend(['crash:too-many'] * (len(reqs) - i))
                break
    return answers


_driver = None


def driver_path():
    return os.path.join(LEAN, '.lake', 'build', 'bin', 'driver')


def run_driver(reqs):
    if not reqs:
        return []
    out, rc, err = _run_lines(driver_path(), reqs, timeout=3600)
    if len(out) != len(reqs):
        raise RuntimeError('lean driver answered %d of %d requests (rc=%s) %s' % (len(out), len(reqs), rc, err[:500]))
    return out


# ----------------------------------------------------------------------------------------------
# known findings
# ----------------------------------------------------------------------------------------------

def load_known(pid):
    p = os.path.join(ROOT, 'known_findings.json')
    if not os.path.exists(p):
        return []
    return [e for e in json.load(open(p)) if e.get('property') == pid and e.get('status', 'open') == 'open' and 'fixed' not in e]


# ----------------------------------------------------------------------------------------------
# the check
# ----------------------------------------------------------------------------------------------

def write_replay(pid, payload):
    os.makedirs(os.path.join(ROOT, 'replays'), exist_ok=True)
    h = hashlib.sha256(json.dumps(payload, sort_keys=True).encode()).hexdigest()[:12]
    p = os.path.join(ROOT, 'replays', '%s-%s.json' % (pid, h))
    with open(p, 'w') as f:
        json.dump(payload, f, indent=1, sort_keys=True)
    return p


# C11: the result CONTAINER of these index functions is chosen from the static knowledge about the argument kinds (bounded
# dimension / size); a bound that is too small shows as a clipped or refused result under the kind that triggers it
EXTRA_SLICE_OPS = {'C11': ['shape_tile', 'shape_repeat', 'shape_repeat_l', 'shape_pad', 'shape_concatenate', 'broadcast_shape', 'broadcast_shape3',
                           'shape_broadcast_to', 'shape_reshape', 'shape_transpose', 'remove_dims', 'shape_slice', 'shape_matmul', 'v_tile', 'e_tile',
                           'v_repeat', 'v_pad', 'v_broadcast_to']}


def run_check(mod, tier, seed, replay=None):
    """mod: property module (lib/props/cXX.py). Returns exit code."""
    t0 = time.time()
    pid = mod.ID
    level = getattr(mod, 'LEVEL', 'proof')
    violations = []     # (kind, text, replay_payload, no_failing_input)
    known_lines = []
    notes = []

    # 1. Lean: build, audit, forbidden tokens --------------------------------------------------
    ok, log, tl = lean_build(['NmVerif.Props.' + pid, 'NmVerif.Audit', 'driver'])
    aud = None
    obligations = discharged = 0
    if not ok:
        violations.append(('lean-build', 'lake build failed', {'log': log[-4000:]}, True))
    else:
        aud = audit(pid)
        obligations = len(aud['expected'])
        discharged = len([t for t in aud['expected'] if t in aud['found'] and t not in aud['dirty']])
        extra_dirty = {t: a for t, a in aud['dirty'].items()}
        if aud['missing'] or extra_dirty:
            violations.append(('audit', 'theorems missing %s / with forbidden axioms %s' % (aud['missing'], extra_dirty),
                               {'missing': aud['missing'], 'dirty': extra_dirty, 'log': aud['log'][-2000:]}, True))
        hits = lean_grep_forbidden()
        if hits:
            violations.append(('forbidden-token', 'forbidden tokens in lean sources: %s' % hits[:5], {'hits': hits}, True))
        # thorough tier: the compiled module is replayed through the toolchain's independent re-checker
        if tier == 'thorough' and os.environ.get('VERIF_NO_LEANCHECKER') != '1':
            t0 = time.time()
            rc, out = sh(['lake', 'env', 'leanchecker', 'NmVerif.Props.' + pid], cwd=LEAN)
            notes.append('leanchecker NmVerif.Props.%s: rc=%d in %.0fs' % (pid, rc, time.time() - t0))
            if rc != 0:
                violations.append(('leanchecker', 'leanchecker rejects NmVerif.Props.%s' % pid, {'log': out[-4000:]}, True))

    # 2. harness builds ------------------------------------------------------------------------
    specs = list(mod.harness_specs(tier))
    # the slice of the C09 kind matrix for the operations this property owns (constant / clipped / fixed / bounded / dynamic
    # argument kinds, refused requests included): `if constexpr` branches selected by the KIND of an argument are not reached
    # by a harness that feeds dynamic containers only.  Classes of open C09 findings are left to C09.
    slice_cases = []
    if pid != 'C09' and os.environ.get('VERIF_NO_KIND_SLICE') != '1':
        try:
            import importlib
            c09 = importlib.import_module('props.c09')
            ops = c09.OPS_BY_PROPERTY.get(pid) or EXTRA_SLICE_OPS.get(pid)
            if ops:
                sp, cs = c09.slice_for(ops, tier, random.Random(seed), refused_only=(pid == 'C15'))
                specs += list(sp)
                for c in cs:
                    # a repeat count of 0 gives a zero extent: outside the positive-extent quantifier of the owning properties
                    # (with constant kinds such a request does not even instantiate); C09 proper keeps those requests
                    if re.search(r'\brepeats=([0-9]+,)*0(,|\s|$)', c.req):
                        continue
                    if c09.slice_known(c) is None:
                        c.tags = tuple(c.tags) + ('kind-slice',)
                        slice_cases.append(c)
        except Exception as e:
            violations.append(('kind-slice', 'the kind-matrix slice of this property could not be generated: %s' % e, {'error': repr(e)}, True))
    built = harness_build_many(specs)
    bins = {}
    for n, (b, lg) in built.items():
        if b is None:
            violations.append(('harness-build', 'harness %s does not compile against %s' % (n, REPO),
                               {'harness': n, 'compiler_output': lg[-6000:]}, True))
        else:
            bins[n] = b
    t_build = time.time() - t0

    # 3. requests ------------------------------------------------------------------------------
    rng = random.Random(seed)
    if replay:
        rp = json.load(open(replay))
        cases = [Case(c['req'], c['harness'], dom=c.get('dom', True), oracle=c.get('oracle'), model=c.get('model', True),
                      mreq=c.get('mreq')) for c in rp.get('cases', [])]
    else:
        cases = list(mod.gen(tier, rng)) + slice_cases
    # witnesses of known findings and the corpus run first
    def execute(cases):
        by_h = {}
        for c in cases:
            by_h.setdefault(c.harness, []).append(c)
        for hname, cs in by_h.items():
            if hname not in bins:
                for c in cs:
                    c.impl = 'no-harness'
                continue
            ans = run_harness(bins[hname], [c.req for c in cs])
            for c, a in zip(cs, ans):
                c.impl = a
        mcases = [c for c in cases if c.model]
        if ok and mcases:
            mans = run_driver([c.mreq for c in mcases])
            for c, a in zip(mcases, mans):
                c.mans = a

    try:
        execute(cases)
    except Exception as e:
        violations.append(('driver', str(e), {'error': str(e)}, True))

    # 4. compare -------------------------------------------------------------------------------
    known = load_known(pid)
    preds = getattr(mod, 'KNOWN_PREDICATES', {})

    def classify(cases):
        fails_spec, corr_breaks, drift, known_hit = [], [], [], {}
        n_m = n_o = 0
        for c in cases:
            if c.impl == 'no-harness':
                continue
            bad_oracle = bad_model = False
            if c.oracle is not None:
                n_o += 1
                bad_oracle = not c.eq(c.impl, c.oracle)
            if c.mans is not None:
                n_m += 1
                bad_model = not c.eq(c.impl, c.mans)
                if c.dom and c.oracle is not None and not c.eq(c.mans, c.oracle):
                    drift.append(c)
            if bad_oracle or (bad_model and c.dom and c.oracle is None):
                hit = None
                for e in known:
                    f = preds.get(e.get('predicate'))
                    if f is not None and f(c):
                        hit = e; break
                if hit is not None:
                    known_hit.setdefault(hit['id'], []).append(c)
                else:
                    fails_spec.append(c)
            elif bad_model:
                corr_breaks.append(c)
        return fails_spec, corr_breaks, drift, known_hit, n_m, n_o

    fails_spec, corr_breaks, drift, known_hit, n_cmp_model, n_cmp_oracle = classify(cases)

    # a proof obligation or the correspondence broke but no input on which the property fails was seen:
    # widen the search (thorough generator, other seeds) before reporting no-failing-input-found
    widened = 0
    broken = bool(violations) or bool(corr_breaks) or bool(drift)
    if broken and not fails_spec and not replay and bins and os.environ.get('VERIF_NO_WIDEN') != '1':
        t_w = time.time()
        for wseed, wtier in [(seed + 1, tier), (seed, 'thorough'), (seed + 2, 'thorough')]:
            if time.time() - t_w > 240:
                break
            try:
                extra = []
                for c in mod.gen(wtier, random.Random(wseed)):
                    extra.append(c)
                    if len(extra) >= 400000:
                        break
                execute(extra)
            except Exception:
                break
            widened += len(extra)
            f2, _, _, k2, _, _ = classify(extra)
            if f2:
                fails_spec = f2
                notes.append('failing input found by the widened search (tier=%s seed=%d)' % (wtier, wseed))
                break

    def cj(c):
        return {'req': c.req, 'mreq': c.mreq, 'harness': c.harness, 'dom': c.dom, 'oracle': c.oracle, 'model': c.model,
                'impl_answer': c.impl, 'model_answer': c.mans, 'tags': list(c.tags)}

    for kid, cs in known_hit.items():
        e = [e for e in known if e['id'] == kid][0]
        c = min(cs, key=lambda c: (len(c.req), c.req))
        known_lines.append('KNOWN-FINDING: property=%s id=%s site=%s class="%s" cases=%d e.g. "%s" impl="%s" expected="%s"' % (
            pid, kid, e.get('call_site', '?'), e.get('class', ''), len(cs), c.req, c.impl, c.oracle if c.oracle is not None else c.mans))
    if fails_spec:
        fails_spec.sort(key=lambda c: (c.impl == 'crash:too-many', len(c.req), c.req))
        violations.append(('property-fails', 'IMPL differs from what the property demands on %d inputs, e.g. %s -> impl=%s expected=%s' % (
            len(fails_spec), fails_spec[0].req, fails_spec[0].impl, fails_spec[0].oracle if fails_spec[0].oracle is not None else fails_spec[0].mans),
            {'cases': [cj(c) for c in fails_spec[:20]], 'count': len(fails_spec)}, False))
    if drift:
        drift.sort(key=lambda c: (len(c.req), c.req))
        violations.append(('model-vs-oracle', 'Lean MODEL and python ORACLE disagree inside the theorem domain (machinery drift) on %d inputs, e.g. %s model=%s oracle=%s' % (
            len(drift), drift[0].req, drift[0].mans, drift[0].oracle), {'cases': [cj(c) for c in drift[:20]], 'count': len(drift)}, True))
    if corr_breaks and not fails_spec:
        corr_breaks.sort(key=lambda c: (len(c.req), c.req))
        violations.append(('correspondence', 'IMPL and Lean MODEL disagree (outside the proved domain) on %d inputs, e.g. %s impl=%s model=%s; theorems are about a model that no longer mirrors the code' % (
            len(corr_breaks), corr_breaks[0].req, corr_breaks[0].impl, corr_breaks[0].mans),
            {'cases': [cj(c) for c in corr_breaks[:20]], 'count': len(corr_breaks), 'correspondence': getattr(mod, 'ANCHORS', {})}, True))

    # extra property-specific checks (hooks etc.)
    if hasattr(mod, 'post'):
        for v in mod.post(cases, tier) or []:
            violations.append(v)

    # 5. output --------------------------------------------------------------------------------
    for l in known_lines:
        print(l)
    rc = 0
    for kind, text, payload, nofail in violations:
        payload = dict(payload, property=pid, kind=kind, text=text, tier=tier, seed=seed, repo=REPO,
                       replay_cmd='./check %s --replay <this file>' % pid)
        if nofail:
            payload['no_failing_input_found'] = True
            if aud is not None:
                payload.setdefault('theorems', aud['expected'])
        p = write_replay(pid, payload)
        print('VIOLATION property=%s replay=%s%s' % (pid, p, ' no-failing-input-found' if nofail else ''))
        print('  ' + text[:600])
        rc = 1

    # 6. evidence ------------------------------------------------------------------------------
    tagh = {}
    for c in cases:
        for t in c.tags:
            tagh[t] = tagh.get(t, 0) + 1
    answers_h = {}
    for c in cases:
        k = (c.impl or '').split(' ')[0].split(':')[0]
        answers_h[k] = answers_h.get(k, 0) + 1
    distinct_nt = len({c.req for c in cases if c.nontrivial})
    samples = [{'req': c.req, 'impl': c.impl, 'model': c.mans, 'oracle': c.oracle} for c in (cases[:2] + cases[len(cases)//2:len(cases)//2+2] + cases[-2:])]
    cov = {
        'obligations': obligations, 'discharged': discharged,
        'checker_cmd': 'cd lean && lake build NmVerif.Props.%s && lake env lean ../.build/audit_%s.lean  (Lean.collectAxioms per theorem listed in NmVerif/Props/%s.expected)' % (pid, pid, pid),
        'trusted_base': ['Lean 4.33.0 kernel', 'axioms: ' + ', '.join(sorted(ALLOWED_AXIOMS)) + ' (no native_decide, no bv_decide, no sorry)',
                         'hand-written Lean model tied to $VERIF_REPO/include by the differential correspondence run of this check',
                         'python oracle in lib/props (NumPy %s) as independent statement of the reference semantics' % _numpy_version(),
                         'g++ 12 code generation, C++ harness and python orchestration'] + list(getattr(mod, 'TRUSTED', [])),
        'theorems': (aud['found'] if aud else {}),
        'evaluations': len(cases), 'distinct_nontrivial': distinct_nt,
        'rule': getattr(mod, 'RULE', ''),
        'samples': samples,
        'traces_validated_against_impl': n_cmp_model,
        'compared_impl_vs_model': n_cmp_model, 'compared_impl_vs_oracle': n_cmp_oracle,
        'input_distribution': tagh, 'impl_answer_kinds': answers_h,
        'known_findings_hit': {k: len(v) for k, v in known_hit.items()},
        'partial_statements': getattr(mod, 'PARTIAL', []),
        'exhaustive': bool(getattr(mod, 'EXHAUSTIVE', {}).get(tier, False)),
        'harness': {n: os.path.basename(b) for n, b in bins.items()},
        'build_s': round(t_build, 2), 'widened_search_cases': widened, 'notes': notes,
    }
    if hasattr(mod, 'coverage_extra'):
        cov.update(mod.coverage_extra(cases, tier) or {})
    ev = {'property_id': pid, 'tier': tier, 'seed': seed, 'level': level, 'coverage': cov,
          'assumptions': list(getattr(mod, 'ASSUMPTIONS', [])), 'wall_s': round(time.time() - t0, 2), 'violations': len(violations)}
    if not replay:
        # evidence/ describes /repo itself; a run against another tree (VERIF_REPO=<mutant>) must not overwrite it
        evdir = os.environ.get('VERIF_EVIDENCE_DIR') or (os.path.join(ROOT, 'evidence') if os.path.realpath(REPO) == '/repo'
                                                          else os.path.join(ROOT, '.build', 'evidence-other-tree'))
        os.makedirs(evdir, exist_ok=True)
        with open(os.path.join(evdir, pid + '.json'), 'w') as f:
            json.dump(ev, f, indent=1, sort_keys=True)
    print('%s tier=%s seed=%d cases=%d impl~model=%d impl~oracle=%d theorems=%d/%d known=%s violations=%d wall=%.1fs' % (
        pid, tier, seed, len(cases), n_cmp_model, n_cmp_oracle, discharged, obligations, {k: len(v) for k, v in known_hit.items()}, len(violations), time.time() - t0))
    return rc


def _numpy_version():
    try:
        import numpy
        return numpy.__version__
    except Exception:
        return 'absent'
