// C18: utils::apply_isequal / apply_isclose over SEQUENCES of arrays in every pairing of container kinds
// (std::vector = list, std::array = fixed length, tuple), both operand orders.
//   request: apply_eq fn=<isequal|isclose> lk=<vec|arr|tup> rk=<vec|arr|tup> n=<len left> m=<len right> diff=<entry index or -1> [pos=<0|1>]
//   entries: entry i = 1-d array {10*i+1, 10*i+2}; the right entry `diff` has +7 at position pos
#include "nmtools/utility/apply_isequal.hpp"
#include "nmtools/utility/apply_isclose.hpp"
#include "nmtools/array/ndarray.hpp"
#include "proto.hpp"
#include <array>
#include <vector>
#include <tuple>
using namespace proto; namespace nm = nmtools; namespace na = nmtools::array;
using ent_t = na::ndarray_t<std::vector<int>, std::vector<size_t>>;
static ent_t entry(int i, int bump, int pos) { ent_t e; e.resize(std::vector<size_t>{2}); e.data()[0] = 10*i+1; e.data()[1] = 10*i+2; if (bump) e.data()[pos] += bump; return e; }
static std::vector<ent_t> mkv(int n, int diff, int pos) { std::vector<ent_t> v; for (int i = 0; i < n; i++) v.push_back(entry(i, i == diff ? 7 : 0, pos)); return v; }
template <size_t N> static std::array<ent_t, N> mka(int diff, int pos) { std::array<ent_t, N> a; for (size_t i = 0; i < N; i++) a[i] = entry((int)i, (int)i == diff ? 7 : 0, pos); return a; }
template <size_t N> static auto mkt(int diff, int pos) {
    if constexpr (N == 1) return std::tuple{entry(0, 0 == diff ? 7 : 0, pos)};
    else if constexpr (N == 2) return std::tuple{entry(0, 0 == diff ? 7 : 0, pos), entry(1, 1 == diff ? 7 : 0, pos)};
    else return std::tuple{entry(0, 0 == diff ? 7 : 0, pos), entry(1, 1 == diff ? 7 : 0, pos), entry(2, 2 == diff ? 7 : 0, pos)};
}
template <typename L, typename R> static std::string cmp(const std::string& fn, const L& l, const R& r) {
    bool b = fn == "isclose" ? (bool)nm::utils::apply_isclose(l, r) : (bool)nm::utils::apply_isequal(l, r);
    return b ? "ok true" : "ok false";
}
// FIX = compile-time length of the left operand (0 for a list): two fixed-length containers of different lengths do not
// instantiate (static_assert "mismatched size for packed type"), so they are only paired at equal length
template <size_t FIX, typename L> static std::string with_right(const std::string& fn, const L& l, const std::string& rk, int m, int diff, int pos) {
    if (rk == "vec") return cmp(fn, l, mkv(m, diff, pos));
    if constexpr (FIX != 0) { if ((size_t)m != FIX) return "bad-args"; }
    if (rk == "arr") {
        if constexpr (FIX != 0) return cmp(fn, l, mka<FIX>(diff, pos));
        else return m == 1 ? cmp(fn, l, mka<1>(diff, pos)) : m == 2 ? cmp(fn, l, mka<2>(diff, pos)) : cmp(fn, l, mka<3>(diff, pos));
    }
    if (rk == "tup") {
        if constexpr (FIX != 0) return cmp(fn, l, mkt<FIX>(diff, pos));
        else return m == 1 ? cmp(fn, l, mkt<1>(diff, pos)) : m == 2 ? cmp(fn, l, mkt<2>(diff, pos)) : cmp(fn, l, mkt<3>(diff, pos));
    }
    throw bad_args("rk");
}
std::string handle(const std::string& op, const Args& a) {
    if (op != "apply_eq") return "unknown-op";
    std::string fn = get(a, "fn"), lk = get(a, "lk"), rk = get(a, "rk");
    int n = (int)integer(a, "n"), m = (int)integer(a, "m"), diff = (int)integer(a, "diff"), pos = has(a, "pos") ? (int)integer(a, "pos") : 0;
    if (n < 1 || n > 3 || m < 1 || m > 3) throw bad_args("n/m");
    // fixed-length containers of DIFFERENT compile-time lengths are only compared where the library accepts the pairing
    if (lk == "vec") return with_right<0>(fn, mkv(n, -1, 0), rk, m, diff, pos);
    if (lk == "arr") return n == 1 ? with_right<1>(fn, mka<1>(-1, 0), rk, m, diff, pos) : n == 2 ? with_right<2>(fn, mka<2>(-1, 0), rk, m, diff, pos) : with_right<3>(fn, mka<3>(-1, 0), rk, m, diff, pos);
    if (lk == "tup") return n == 1 ? with_right<1>(fn, mkt<1>(-1, 0), rk, m, diff, pos) : n == 2 ? with_right<2>(fn, mkt<2>(-1, 0), rk, m, diff, pos) : with_right<3>(fn, mkt<3>(-1, 0), rk, m, diff, pos);
    throw bad_args("lk");
}
