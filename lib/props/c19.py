"""C19 — the STL-free containers behave like their standard counterparts over any history.
IMPL: utl::vector / static_vector / array / tuple / tuplev2 / maybe / either, nmtools::small_vector (real headers,
counting allocator behind nmtools_malloc / nmtools_free).  ORACLE: plain Python list / None semantics = the std:: types."""
import itertools
from runner import Case

ID = 'C19'
LEVEL = 'proof'
NSLOTS = 2

# ----------------------------------------------------------------------------------------------
# reference semantics (independent of the C++: Python lists are std::vector)
# ----------------------------------------------------------------------------------------------

class RefSeq:
    """std::vector<T> (cap=None) or a capacity-bounded vector that refuses what does not fit (cap=int)."""

    def __init__(self, cap=None):
        self.cap = cap
        self.objs = [None] * NSLOTS

    def fits(self, n):
        return self.cap is None or n <= self.cap

    def apply(self, name, a):
        """returns (valid, note)"""
        o = self.objs
        s = a[0]
        if name == 'ctor':
            if o[s] is not None: return False, ''
            o[s] = []
        elif name == 'ctorN':
            if o[s] is not None: return False, ''
            o[s] = [0] * a[1] if self.fits(a[1]) else []
        elif name == 'ctorV':
            if o[s] is not None: return False, ''
            o[s] = list(a[1:]) if self.fits(len(a) - 1) else []
        elif name == 'copy':
            if o[s] is not None or o[a[1]] is None: return False, ''
            o[s] = list(o[a[1]])
        elif name == 'assign':
            if o[s] is None or o[a[1]] is None: return False, ''
            o[s] = list(o[a[1]])
        elif name == 'push':
            if o[s] is None: return False, ''
            if self.fits(len(o[s]) + 1): o[s].append(a[1])
        elif name == 'pushAt':
            if o[s] is None or a[1] >= len(o[s]): return False, ''
            if self.fits(len(o[s]) + 1): o[s].append(o[s][a[1]])
        elif name == 'resize':
            if o[s] is None: return False, ''
            n = a[1]
            if self.fits(n):
                if n <= len(o[s]): del o[s][n:]
                else: o[s].extend([0] * (n - len(o[s])))
        elif name == 'write':
            if o[s] is None or a[1] >= len(o[s]): return False, ''
            o[s][a[1]] = a[2]
        elif name == 'read':
            if o[s] is None or a[1] >= len(o[s]): return False, ''
            return True, ' r=%d' % o[s][a[1]]
        elif name == 'destroy':
            if o[s] is None: return False, ''
            o[s] = None
        else:
            raise ValueError(name)
        return True, ''

    def show(self):
        return '/'.join('-' if x is None else '%d:%s' % (len(x), ','.join(map(str, x))) for x in self.objs)


class RefArr(RefSeq):
    """std::array<T,N>: fixed length; `{}` zeros, `{v...}` padded with zeros; no push/resize (no-ops here)"""

    def __init__(self, n):
        RefSeq.__init__(self, None)
        self.n = n

    def apply(self, name, a):
        o = self.objs
        s = a[0]
        if name in ('ctor', 'ctorN'):
            if o[s] is not None: return False, ''
            o[s] = [0] * self.n
            return True, ''
        if name == 'ctorV':
            if o[s] is not None: return False, ''
            o[s] = (list(a[1:]) + [0] * self.n)[:self.n]
            return True, ''
        if name in ('push', 'resize'):
            return o[s] is not None, ''
        if name == 'pushAt':
            return (o[s] is not None and a[1] < len(o[s])), ''
        return RefSeq.apply(self, name, a)


class RefEither:
    """std::variant<L,R> (either) / std::optional<T> (maybe): a slot holds None, ('L', v) or ('R', v)"""

    def __init__(self, is_maybe):
        self.m = is_maybe
        self.objs = [None] * NSLOTS

    def apply(self, name, a):
        o = self.objs
        s = a[0]
        if name in ('mk', 'mkL', 'mkR'):
            if o[s] is not None: return False, ''
            o[s] = (('R', 0) if self.m else ('L', 0)) if name == 'mk' else (name[2], a[1])
        elif name == 'copy':
            if o[s] is not None or o[a[1]] is None: return False, ''
            o[s] = o[a[1]]
        elif name == 'assign':
            if o[s] is None or o[a[1]] is None: return False, ''
            o[s] = o[a[1]]
        elif name in ('setL', 'setR'):
            if o[s] is None: return False, ''
            o[s] = (name[3], a[1])
        elif name == 'writeL':
            if o[s] is None or o[s][0] != 'L': return False, ''
            o[s] = ('L', a[1])
        elif name == 'read':
            if o[s] is None: return False, ''
            return True, ' r=' + self.fmt(o[s])
        elif name == 'destroy':
            if o[s] is None: return False, ''
            o[s] = None
        else:
            raise ValueError(name)
        return True, ''

    def fmt(self, x):
        if x is None: return '-'
        if self.m: return 'J%d' % x[1] if x[0] == 'L' else 'N'
        return '%s%d' % x

    def show(self):
        return '/'.join(self.fmt(x) for x in self.objs)


def oracle_either(ops, kind):
    r = RefEither(kind == 'maybe')
    out = []
    for n, a in ops:
        valid, note = r.apply(n, a)
        out.append(r.show() + (note if valid else '!'))
    return 'ok ' + '|'.join(out) + ' #  # leak=0 live=0 bad=0'


def lifetime_classes(kind, ops):
    """classifies a history over maybe/either of a NON-TRIVIAL left type by what happens to the lifetime of the
    contained left object (std::optional / std::variant construct and destroy it; the union-based utl types do not):
      'over'    a left object is constructed over one that is still alive (either::operator= switching to LEFT)
      'assign'  a left value is assigned into an object in whose storage no left object was ever constructed
      'held'    a left object is constructed at some point (it is never destroyed)"""
    m = kind == 'maybe'
    ref = RefEither(m)
    made = [False] * NSLOTS      # a left object has been constructed in the slot's storage (and never destroyed)
    cls = set()
    for n, a in ops:
        o = ref.objs
        s = a[0]
        before = list(o)
        valid, _ = ref.apply(n, a)
        if not valid:
            continue
        if n == 'mk': made[s] = not m
        elif n == 'mkL': made[s] = True
        elif n == 'mkR': made[s] = False
        elif n == 'copy':
            src = before[a[1]]
            if src[0] == 'L':
                if m: made[s] = True
                else:
                    made[s] = False; cls.add('assign')
            else:
                made[s] = False
        elif n == 'assign':
            src, dst = before[a[1]], before[s]
            if src[0] == 'L':
                if not m and dst[0] != 'L':
                    if made[s]: cls.add('over')
                    made[s] = True
                if not made[s]: cls.add('assign')
        elif n in ('setL', 'writeL'):
            if not made[s]: cls.add('assign')
        elif n == 'destroy':
            made[s] = False
        if any(made): cls.add('held')
    return cls


SVEC_CAP = 4
ARR_N = 3


SMALL_DIM = 4


def make_ref(kind):
    if kind in ('vec', 'small'): return RefSeq(None)
    if kind == 'svec': return RefSeq(SVEC_CAP)
    if kind in ('arr', 'tuple', 'tuplev2'): return RefArr(ARR_N)
    if ':' in kind and kind.split(':')[0] in ('tuple', 'tuplev2'): return RefArr(int(kind.split(':')[1]))   # heterogeneous tuple of that arity
    raise ValueError(kind)


def parse_ops(s):
    ops = []
    if s in ('', '[]'):
        return ops
    for t in s.split(';'):
        f = t.split(':')
        ops.append((f[0], [int(x) for x in f[1:]]))
    return ops


def fmt_ops(ops):
    return ';'.join(':'.join([n] + [str(x) for x in a]) for n, a in ops) if ops else '[]'


def oracle_seq(ops, kind):
    r = make_ref(kind)
    out = []
    for n, a in ops:
        valid, note = r.apply(n, a)
        out.append(r.show() + (note if valid else '!'))
    return 'ok ' + '|'.join(out) + ' #  # leak=0 live=0 bad=0'


def cmp_answers(a, b):
    """spec part and final balance always; internal part (capacity, stale cells, allocator counters) when both have it.
    `ub:<event>` is the model saying that the history performs an out-of-bounds access (undefined behaviour: it predicts
    nothing about such a run; IMPL is still judged against the reference)"""
    if a.startswith('ub:') or b.startswith('ub:'):
        return True
    pa, pb = a.split(' # '), b.split(' # ')
    if len(pa) != 3 or len(pb) != 3:
        return a == b
    if pa[0] != pb[0] or pa[2] != pb[2]:
        return False
    return pa[1] == '' or pb[1] == '' or pa[1] == pb[1]


def cmp_contents(a, b):
    """client-visible part only: sizes, elements, has_value / active alternative after every step"""
    if a.startswith('ub:') or b.startswith('ub:'):
        return True
    pa, pb = a.split(' # '), b.split(' # ')
    if len(pa) != 3 or len(pb) != 3:
        return a == b
    return pa[0] == pb[0]


def cmp_ledger(a, b):
    """end-of-history balance only: blocks not freed, element objects not destroyed, lifetime / free errors"""
    if a.startswith('ub:') or b.startswith('ub:'):
        return True
    pa, pb = a.split(' # '), b.split(' # ')
    if len(pa) != 3 or len(pb) != 3:
        return a == b
    return pa[2] == pb[2]


# ----------------------------------------------------------------------------------------------
# history classes: theorem domain and known findings (decided from the request alone)
# ----------------------------------------------------------------------------------------------

def req_fields(req):
    f = dict(kv.split('=', 1) for kv in req.split()[1:])
    return f.get('kind'), f.get('elem', 'int'), parse_ops(f.get('ops', ''))


def sizes_along(ops, kind='vec'):
    """yields (name, args, spec state before the op) — the reference run, used to classify operations"""
    r = make_ref(kind)
    for n, a in ops:
        before = [None if x is None else list(x) for x in r.objs]
        yield n, a, before
        r.apply(n, a)


def has_alias_push(ops):
    return any(n == 'pushAt' for n, a in ops)


def small_trace(ops):
    """reference run of a small_vector history: yields (name, args, reference state before the op, heap-mode flags before
    the op, applicable).  An object is in heap mode when built with N >= DIM or more than DIM values, resized above DIM,
    pushed (push / pushAt) at size == DIM, or copied / assigned from such an object"""
    dyn = [False] * NSLOTS
    for n, a, st in sizes_along(ops, 'small'):
        s = a[0]
        o = st[s]
        before = list(dyn)
        ok = True
        if o is None:
            if n == 'ctorN': dyn[s] = a[1] >= SMALL_DIM
            elif n == 'ctorV': dyn[s] = len(a) - 1 > SMALL_DIM
            elif n == 'ctor': dyn[s] = False
            elif n == 'copy' and st[a[1]] is not None: dyn[s] = dyn[a[1]]
            else: ok = False
        else:
            if n == 'resize':
                if a[1] > SMALL_DIM: dyn[s] = True
            elif n == 'push':
                if len(o) == SMALL_DIM: dyn[s] = True
            elif n == 'pushAt':
                if a[1] >= len(o): ok = False
                elif len(o) == SMALL_DIM: dyn[s] = True
            elif n == 'assign':
                if st[a[1]] is not None: dyn[s] = dyn[a[1]]
                else: ok = False
            elif n == 'destroy': dyn[s] = False
            elif n in ('write', 'read'): ok = a[1] < len(o)
            else: ok = False
        yield n, a, st, before, list(dyn), ok


def small_ever_dynamic(ops):
    """some small_vector object is in heap mode at some point"""
    return any(any(after) for n, a, st, before, after, ok in small_trace(ops))


def small_alias_push_at_dim(ops):
    """`x.push_back(x[i])` is applied to a small_vector holding exactly DIM elements"""
    return any(ok and n == 'pushAt' and len(st[a[0]]) == SMALL_DIM for n, a, st, before, after, ok in small_trace(ops))


def small_mixed_mode(ops):
    """a copy construction / assignment between two small_vector objects one of which is in heap mode"""
    for n, a, st, before, after, ok in small_trace(ops):
        if ok and n == 'copy' and before[a[1]]: return True
        if ok and n == 'assign' and a[0] != a[1] and before[a[0]] != before[a[1]]: return True
    return False


def in_domain(kind, ops):
    """(contents, ledger): the history lies in the hypothesis domain of the Lean refinement theorem of its kind resp. of
    the ledger theorems.  After the fix: commits (vector, static_vector, either/maybe lifetime, small_vector aliasing push)
    no kind has an excluded operation: every history is inside both domains."""
    return (True, True)


def in_domain_e(kind, elem, ops):
    """(contents, ledger) for maybe/either: value refinement (maybe_refines_option / either_refines_sum) and the lifetime
    theorem (either_lifetime_ok / either_trivial_no_lifetime) hold for every history"""
    return (True, True)


def _aspect_ok(case, aspect):
    """a class explains a deviation of one aspect (client-visible contents / end-of-history ledger); sanitizer and
    poisoned-storage runs abort the whole request, there any class of the history applies"""
    return ('aspect=' + aspect) in case.tags or 'aspect=all' in case.tags


def _lpred(kind, c):
    def p(case):
        k, e, ops = req_fields(case.req)
        return k == kind and e == 'tracked' and _aspect_ok(case, 'ledger') and c in lifetime_classes(kind, ops)
    return p


def _pred(kind, f, aspect):
    def p(case):
        k, e, ops = req_fields(case.req)
        return k == kind and _aspect_ok(case, aspect) and f(ops)
    return p


def small_copy_from_dynamic(ops):
    """a small_vector is copy-constructed from an object that is in heap mode"""
    return any(ok and n == 'copy' and before[a[1]] for n, a, st, before, after, ok in small_trace(ops))


def _poison_pred(case):
    f = dict(kv.split('=', 1) for kv in case.req.split()[1:])
    return f.get('kind') == 'small' and f.get('fill') == 'poison' and small_copy_from_dynamic(parse_ops(f.get('ops', '')))


KNOWN_PREDICATES = {
    'small_ever_dynamic': _pred('small', small_ever_dynamic, 'ledger'),
    'small_copy_dynamic_raw_storage': _poison_pred,
    'small_alias_push_at_dim': _pred('small', small_alias_push_at_dim, 'contents'),
    'maybe_nt_assign_unconstructed': _lpred('maybe', 'assign'),
    'maybe_nt_never_destroyed': _lpred('maybe', 'held'),
    'either_nt_construct_over_live': _lpred('either', 'over'),
    'either_nt_assign_unconstructed': _lpred('either', 'assign'),
    'either_nt_never_destroyed': _lpred('either', 'held'),
}

# ----------------------------------------------------------------------------------------------
# generators
# ----------------------------------------------------------------------------------------------

def live_ops(s, size, other_live, t, resizes, two, pushat_last=False):
    """operations applicable to live slot s (reduced alphabet, values are t-derived so every write is recognisable)"""
    v = 10 * (t + 1) + s
    ops = [('push', [s, v]), ('destroy', [s]), ('assign', [s, s])]
    ops += [('resize', [s, n]) for n in resizes]
    if size > 0:
        ops += [('write', [s, 0, v]), ('pushAt', [s, size - 1 if pushat_last else 0])]
        if size > 1:
            ops += [('write', [s, size - 1, v])]
    if two and other_live:
        ops += [('assign', [s, 1 - s])]
    return ops


def dead_ops(s, other_live, t, sized, variadic):
    v = 10 * (t + 1) + s
    ops = [('ctor', [s])] + [('ctorN', [s, n]) for n in sized] + [('ctorV', [s] + [v + j for j in range(k)]) for k in variadic]
    if other_live:
        ops += [('copy', [s, 1 - s])]
    return ops


def enum_histories(L, two, kind='vec', resizes=(0, 1, 3, 6), sized=(0, 2, 5), variadic=(3,), nopush=False, nopushat=False,
                   prefix=(), pushat_last=False):
    """all histories of length exactly L over the reduced alphabet in which every operation is applicable
    (prefixes are observed too: the state is printed after every step); `prefix`: fixed operations run first
    (the L enumerated operations follow)"""
    L = L + len(prefix)

    def rec(ref, t, acc):
        if t == L:
            yield list(acc)
            return
        cands = []
        for s in ([0, 1] if two else [0]):
            o = ref.objs[s]
            other = ref.objs[1 - s] is not None
            if o is None:
                if s == 1 and not two:
                    continue
                cands += dead_ops(s, other and two, t, sized, variadic)
            else:
                cands += live_ops(s, len(o), other, t, resizes, two, pushat_last)
        if nopush:
            cands = [c for c in cands if c[0] not in ('push', 'pushAt', 'resize')]
        if nopushat:
            cands = [c for c in cands if c[0] != 'pushAt']
        for n, a in cands:
            r2 = make_ref(kind)
            r2.objs = [None if x is None else list(x) for x in ref.objs]
            r2.apply(n, a)
            acc.append((n, a))
            yield from rec(r2, t + 1, acc)
            acc.pop()
    ref0 = make_ref(kind)
    for n, a in prefix:
        ref0.apply(n, a)
    yield from rec(ref0, len(prefix), list(prefix))


def rand_history(rng, L, cap=None, maxn=9, vmax=5):
    ref = RefSeq(cap)
    ops = []
    for t in range(L):
        s = rng.randrange(2) if rng.random() < 0.6 else 0
        o = ref.objs[s]
        v = rng.randrange(1, 99)
        if o is None:
            c = rng.random()
            other = ref.objs[1 - s] is not None
            if c < 0.3: op = ('ctor', [s])
            elif c < 0.5: op = ('ctorN', [s, rng.randrange(0, maxn)])
            elif c < 0.7: op = ('ctorV', [s] + [rng.randrange(1, 99) for _ in range(rng.randrange(2, vmax + 1))])
            elif other: op = ('copy', [s, 1 - s])
            else: op = ('ctor', [s])
        else:
            c = rng.random()
            n = len(o)
            if c < 0.30: op = ('push', [s, v])
            elif c < 0.45: op = ('resize', [s, rng.choice([0, 1, max(0, n - 1), n, n + 1, n + 2, rng.randrange(0, maxn + 3)])])
            elif c < 0.60 and n: op = ('write', [s, rng.randrange(n), v])
            elif c < 0.68 and n: op = ('read', [s, rng.randrange(n)])
            elif c < 0.73 and n: op = ('pushAt', [s, rng.randrange(n)])
            elif c < 0.83: op = ('assign', [s, rng.choice([s, 1 - s])])
            elif c < 0.88: op = ('destroy', [s])
            elif c < 0.90: op = ('write', [s, n + rng.randrange(2), v])      # not applicable: must be skipped
            else: op = ('push', [s, v])
        ref.apply(*op)
        ops.append(op)
    return ops


def rand_domain_history(rng, L, cap=None, vmax=5, maxlen=None, pushat=False):
    """random history inside the theorem domain: no sized construction, no growing resize; aliasing pushes only with
    `pushat` (and then only below `maxlen`)"""
    ref = RefSeq(cap)
    ops = []
    for t in range(L):
        s = rng.randrange(2)
        o = ref.objs[s]
        v = rng.randrange(1, 99)
        if o is None:
            c = rng.random()
            other = ref.objs[1 - s] is not None
            if c < 0.4: op = ('ctor', [s])
            elif c < 0.7: op = ('ctorV', [s] + [rng.randrange(1, 99) for _ in range(rng.randrange(2, vmax + 1))])
            elif other: op = ('copy', [s, 1 - s])
            else: op = ('ctor', [s])
        else:
            c = rng.random()
            n = len(o)
            if c < 0.40 and (maxlen is None or n < maxlen): op = ('push', [s, v])
            elif c < 0.50: op = ('resize', [s, rng.randrange(0, n + 1)])
            elif c < 0.65 and n: op = ('write', [s, rng.randrange(n), v])
            elif c < 0.72 and n: op = ('read', [s, rng.randrange(n)])
            elif c < 0.87: op = ('assign', [s, rng.choice([s, 1 - s])])
            elif c < 0.91: op = ('destroy', [s])
            elif pushat and n and (maxlen is None or n < maxlen): op = ('pushAt', [s, rng.randrange(n)])
            elif maxlen is None or n < maxlen: op = ('push', [s, v])
            else: op = ('resize', [s, rng.randrange(0, n + 1)])
        ref.apply(*op)
        ops.append(op)
    return ops


HARNESS = 'h_c19'
TUPLE_ARITIES = (1, 2, 3, 4, 5, 6, 7, 8, 9, 10, 11, 12)


def rand_tuple_history(rng, L, N):
    """random history over {ctor, ctorV, copy, assign(other|self), write(i), read(i), destroy} on two N-tuples; every
    component index is used; a few inapplicable operations (must be skipped)"""
    ref = RefArr(N)
    ops = []
    for t in range(L):
        s = rng.randrange(2)
        o = ref.objs[s]
        other = ref.objs[1 - s] is not None
        c = rng.random()
        v = rng.randrange(1, 99)
        if o is None:
            if c < 0.3: op = ('ctor', [s])
            elif c < 0.7 or not other: op = ('ctorV', [s] + [rng.randrange(1, 99) for _ in range(N)])
            else: op = ('copy', [s, 1 - s])
        else:
            if c < 0.40: op = ('write', [s, rng.randrange(N), v])
            elif c < 0.60: op = ('read', [s, rng.randrange(N)])
            elif c < 0.85: op = ('assign', [s, rng.choice([s, 1 - s])])
            elif c < 0.93: op = ('destroy', [s])
            elif c < 0.96: op = ('write', [s, N + rng.randrange(2), v])    # no such component: skipped
            else: op = ('ctor', [s])                                        # already alive: skipped
        ref.apply(*op)
        ops.append(op)
    return ops


def fix_arr(ops):
    """element writes of the enumerator use the vector size; an array always has ARR_N elements"""
    return [(n, [a[0], min(a[1], ARR_N - 1)] + a[2:]) if n in ('write', 'read') else (n, a) for n, a in ops]


def _cases(verb, kind, elem, ops, tags, dc, dl, orc, extra='', harness=None):
    """inside both theorem domains: one request, IMPL vs ORACLE vs MODEL on everything.  Otherwise the client-visible
    contents and the end-of-history ledger are judged separately (a known class explains one aspect only) and a third
    request compares IMPL with the mirroring MODEL on everything including the internal state."""
    req = '%s kind=%s elem=%s %sops=%s' % (verb, kind, elem, extra, fmt_ops(ops))
    nt = len(ops) >= 3
    base = list(tags) + ['kind=' + kind, 'elem=' + elem, 'len=%d' % len(ops) if len(ops) <= 7 else 'len>7']
    if dc and dl:
        yield Case(req, harness or HARNESS, dom=True, oracle=orc, model=True, nontrivial=nt, tags=base + ['dom', 'aspect=contents', 'aspect=ledger'], cmp=cmp_answers)
        return
    yield Case(req, HARNESS, dom=dc, oracle=orc, model=dc, nontrivial=nt, tags=base + ['aspect=contents', 'dom' if dc else 'off-dom'], cmp=cmp_contents)
    yield Case(req, HARNESS, dom=dl, oracle=orc, model=dl, nontrivial=nt, tags=base + ['aspect=ledger', 'dom' if dl else 'off-dom'], cmp=cmp_ledger)
    yield Case(req, HARNESS, dom=False, oracle=None, model=True, nontrivial=nt, tags=['correspondence-only', 'kind=' + kind], cmp=cmp_answers)


TUPLE_HARNESS = 'h_c19_tuple'


def cases_for(kind, elem, ops, tags, fill=None):
    dc, dl = in_domain(kind, ops)
    if kind.startswith('tuple'):
        # 'tuple' / 'tuplev2': homogeneous tuple<E,E,E>;  'tuple:N' / 'tuplev2:N': heterogeneous, arity N, elem=mixed
        k, _, n = kind.partition(':')
        extra = ('arity=%s ' % n if n else '') + ('fill=%s ' % fill if fill else '')
        yield from _cases('hist', k, 'mixed' if n else elem, ops, list(tags) + (['arity=' + n] if n else []), dc, dl,
                          oracle_seq(ops, kind), extra=extra, harness=TUPLE_HARNESS)
        return
    yield from _cases('hist', kind, elem, ops, tags, dc, dl, oracle_seq(ops, kind))


def ecases_for(kind, elem, ops, tags):
    dc, dl = in_domain_e(kind, elem, ops)
    yield from _cases('ehist', kind, elem, ops, tags, dc, dl, oracle_either(ops, kind))


def san_case(kind, elem, ops, tags, extra=''):
    """the same history under ASan/UBSan against the reference only"""
    e = kind in ('maybe', 'either')
    harness = 'h_c19_san'
    k = kind
    if kind.startswith('tuple'):
        k, _, n = kind.partition(':')
        harness = 'h_c19_tuple_san'
        if n:
            elem, extra = 'mixed', 'arity=%s ' % n + extra
    req = '%s kind=%s elem=%s %sops=%s' % ('ehist' if e else 'hist', k, elem, extra, fmt_ops(ops))
    dc, dl = in_domain_e(kind, elem, ops) if e else in_domain(kind, ops)
    orc = oracle_either(ops, kind) if e else oracle_seq(ops, kind)
    return Case(req, harness, dom=dc and dl, oracle=orc, model=False, nontrivial=len(ops) >= 3,
                tags=list(tags) + ['san', 'kind=' + kind, 'aspect=all'], cmp=cmp_answers)


def poison_case(ops, tags):
    """small_vector history with the object storage filled with 0xA5 instead of zeros: a copy construction from a
    heap-mode object assigns into a never-constructed vector whose pointer / capacity are then garbage"""
    req = 'hist kind=small elem=int fill=poison ops=%s' % fmt_ops(ops)
    dc, dl = in_domain('small', ops)
    return Case(req, HARNESS, dom=False, oracle=oracle_seq(ops, 'small'), model=False, nontrivial=len(ops) >= 3,
                tags=list(tags) + ['poisoned-storage', 'kind=small', 'aspect=all'], cmp=cmp_contents)


def enum_ehistories(L, kind):
    m = kind == 'maybe'

    def rec(ref, t, acc):
        if t == L:
            yield list(acc)
            return
        cands = []
        for s in (0, 1):
            v = 10 * (t + 1) + s
            o = ref.objs[s]
            other = ref.objs[1 - s] is not None
            if o is None:
                cands += [('mk', [s]), ('mkL', [s, v]), ('mkR', [s, 0 if m else v])]
                if other: cands.append(('copy', [s, 1 - s]))
            else:
                cands += [('setL', [s, v]), ('setR', [s, 0 if m else v]), ('assign', [s, s]), ('destroy', [s])]
                if o[0] == 'L': cands.append(('writeL', [s, v]))
                if other: cands.append(('assign', [s, 1 - s]))
        for n, a in cands:
            r2 = RefEither(m)
            r2.objs = list(ref.objs)
            r2.apply(n, a)
            acc.append((n, a))
            yield from rec(r2, t + 1, acc)
            acc.pop()
    yield from rec(RefEither(m), 0, [])


def rand_ehistory(rng, L, kind):
    m = kind == 'maybe'
    ref = RefEither(m)
    ops = []
    for t in range(L):
        s = rng.randrange(2)
        o = ref.objs[s]
        v = rng.randrange(1, 99)
        other = ref.objs[1 - s] is not None
        c = rng.random()
        if o is None:
            if c < 0.3: op = ('mk', [s])
            elif c < 0.6: op = ('mkL', [s, v])
            elif c < 0.75: op = ('mkR', [s, 0 if m else v])
            elif other: op = ('copy', [s, 1 - s])
            else: op = ('mkL', [s, v])
        else:
            if c < 0.2: op = ('setL', [s, v])
            elif c < 0.35: op = ('setR', [s, 0 if m else v])
            elif c < 0.5: op = ('writeL', [s, v])          # skipped when RIGHT is active
            elif c < 0.75: op = ('assign', [s, rng.choice([s, 1 - s])])
            elif c < 0.85: op = ('read', [s])
            else: op = ('destroy', [s])
        ref.apply(*op)
        ops.append(op)
    return ops


def harness_specs(tier):
    return [dict(name='h_c19', src='h_c19.cpp', flavour='fast', extra=['-fno-lifetime-dse']),
            dict(name='h_c19_tuple', src='h_c19_tuple.cpp', flavour='fast', extra=['-fno-lifetime-dse']),
            dict(name='h_c19_tuple_san', src='h_c19_tuple.cpp', flavour='san', extra=['-DC19_SAN', '-fno-lifetime-dse']),
            # ASan + UBSan build: blocks go straight back to the sanitizer allocator (use-after-free, double free and
            # heap overflow abort the request -> `crash:asan:...`), accesses beyond fixed buffers are not guarded
            dict(name='h_c19_san', src='h_c19.cpp', flavour='san', extra=['-DC19_SAN', '-fno-lifetime-dse'])]


def gen(tier, rng):
    quick = tier == 'quick'
    yield from gen_san(tier, rng)
    # known-finding witnesses first
    for kind, elem, ops in WITNESSES:
        yield from cases_for(kind, elem, parse_ops(ops), ['witness'])
    for kind, elem, ops in EWITNESSES:
        yield from ecases_for(kind, elem, parse_ops(ops), ['witness'])
    for ops in POISON_WITNESSES:
        yield poison_case(parse_ops(ops), ['witness'])
    # utl::maybe / utl::either -------------------------------------------------------------------
    for kind in ('maybe', 'either'):
        n2 = 0
        for ops in enum_ehistories(4 if quick else 5, kind):
            n2 += 1
            yield from ecases_for(kind, ('int', 'tracked', 'double', 'tracked')[n2 % 4] if quick else 'tracked', ops, ['exhaustive-2obj'])
            if not quick:
                yield from ecases_for(kind, 'double' if n2 % 2 else 'int', ops, ['exhaustive-2obj'])
        for k in range(200 if quick else 3000):
            L = rng.choice([6, 7, 12, 30, 80, 200])
            yield from ecases_for(kind, rng.choice(['int', 'double', 'tracked', 'tracked']), rand_ehistory(rng, L, kind), ['random'])
    # utl::vector -------------------------------------------------------------------------------
    for L in ([5] if quick else [5, 6]):
        for ops in enum_histories(L, two=False):
            yield from cases_for('vec', 'int', ops, ['exhaustive-1obj'])
    n2 = 0
    for ops in enum_histories(4 if quick else 5, two=True, resizes=(0, 2, 6), sized=(0, 3), variadic=(3,)):
        n2 += 1
        if quick or n2 % 3 == 0:     # length 5 on two objects: every third history (3.1e5 otherwise)
            yield from cases_for('vec', 'double' if n2 % 2 else 'int', ops, ['exhaustive-2obj' if quick else 'sampled-2obj'])
    for k in range(300 if quick else 4000):
        L = rng.choice([6, 7, 12, 30, 80, 200])
        yield from cases_for('vec', rng.choice(['int', 'double']), rand_history(rng, L), ['random'])
        yield from cases_for('vec', rng.choice(['int', 'double']), rand_domain_history(rng, L), ['random-domain'])
    # utl::static_vector<T,4> ---------------------------------------------------------------------
    for L in ([5] if quick else [5, 6]):
        n1 = 0
        for ops in enum_histories(L, two=False, kind='svec', resizes=(0, 1, 3, 4, 6), sized=(0, 2, 4, 7), variadic=(2, 4)):
            n1 += 1
            if L == 5 or n1 % 3 == 0:
                yield from cases_for('svec', 'int', ops, ['exhaustive-1obj' if L == 5 else 'sampled-1obj'])
    n2 = 0
    for ops in enum_histories(4 if quick else 5, two=True, kind='svec', resizes=(0, 2, 5), sized=(3, 7), variadic=(3,)):
        n2 += 1
        if quick or n2 % 4 == 0:
            yield from cases_for('svec', 'double' if n2 % 2 else 'int', ops, ['exhaustive-2obj' if quick else 'sampled-2obj'])
    for k in range(300 if quick else 4000):
        L = rng.choice([6, 7, 12, 30, 80, 200])
        yield from cases_for('svec', rng.choice(['int', 'double']), rand_history(rng, L, cap=SVEC_CAP, maxn=7, vmax=4), ['random'])
        yield from cases_for('svec', rng.choice(['int', 'double']), rand_domain_history(rng, L, cap=SVEC_CAP, vmax=4), ['random-domain'])
    # nmtools::small_vector<T,4> over utl::either<utl::static_vector, utl::vector> ------------------
    for L in ([5] if quick else [5, 6]):
        n1 = 0
        for ops in enum_histories(L, two=False, kind='small', resizes=(0, 1, 3, 4, 6), sized=(0, 2, 4, 6), variadic=(3, 5), pushat_last=True):
            n1 += 1
            if L == 5 or n1 % 3 == 0:
                yield from cases_for('small', 'int', ops, ['exhaustive-1obj' if L == 5 else 'sampled-1obj'])
    n2 = 0
    for ops in enum_histories(4 if quick else 5, two=True, kind='small', resizes=(0, 2, 5), sized=(3, 5), variadic=(5,), pushat_last=True):
        n2 += 1
        if quick or n2 % 4 == 0:
            yield from cases_for('small', 'double' if n2 % 2 else 'int', ops, ['exhaustive-2obj' if quick else 'sampled-2obj'])
    for k in range(300 if quick else 4000):
        L = rng.choice([6, 7, 12, 30, 80, 200])
        yield from cases_for('small', rng.choice(['int', 'double']), rand_history(rng, L, maxn=7, vmax=6), ['random'])
        yield from cases_for('small', rng.choice(['int', 'double']), rand_domain_history(rng, L, vmax=4, maxlen=SMALL_DIM, pushat=True), ['random-domain'])
    # copy / assignment between a static-mode and a heap-mode small_vector (both directions), then every continuation
    for pre in MIXED_PREFIXES:
        n2 = 0
        for ops in enum_histories(3 if quick else 4, two=True, kind='small', resizes=(1, 5), sized=(2, 5), variadic=(), prefix=parse_ops(pre), pushat_last=True):
            n2 += 1
            if small_mixed_mode(ops):
                yield from cases_for('small', 'double' if n2 % 2 else 'int', ops, ['mixed-mode-2obj'])
    # utl::array<T,3> -----------------------------------------------------------------------------
    n2 = 0
    for ops in enum_histories(4 if quick else 5, two=True, kind='arr', resizes=(), sized=(), variadic=(2, 3), nopush=True):
        n2 += 1
        yield from cases_for('arr', 'double' if n2 % 2 else 'int', ops, ['exhaustive-2obj'])
    # utl::tuple<T,T,T> / utl::tuplev2<T,T,T> ------------------------------------------------------
    n2 = 0
    for ops in enum_histories(4 if quick else 5, two=True, kind='tuple', resizes=(), sized=(), variadic=(3,), nopush=True):
        n2 += 1
        yield from cases_for('tuple' if n2 % 2 else 'tuplev2', ('int', 'tracked', 'double')[n2 % 3], ops, ['exhaustive-2obj'])
    # heterogeneous tuples <int, double, counting type, int, ...> of every arity the implementation has (1 .. 12)
    for tk in ('tuple', 'tuplev2'):
        for N in TUPLE_ARITIES:
            kind = '%s:%d' % (tk, N)
            for ops in enum_histories(3 if quick else 4, two=True, kind=kind, resizes=(), sized=(), variadic=(N,), nopush=True):
                yield from cases_for(kind, 'mixed', ops, ['exhaustive-2obj'])
            # a fully written tuple and a default-constructed one, then every continuation
            pre = [('ctorV', [0] + [100 + j for j in range(N)]), ('ctor', [1])]
            for ops in enum_histories(2 if quick else 3, two=True, kind=kind, resizes=(), sized=(), variadic=(N,), nopush=True, prefix=pre):
                yield from cases_for(kind, 'mixed', ops, ['prefixed-2obj'])
            # default construction into storage filled with 0xA5: every component must be value-initialised
            yield from cases_for(kind, 'mixed', [('ctor', [0])] + [('read', [0, j]) for j in range(N)] + [('copy', [1, 0]), ('read', [1, N - 1])],
                                 ['poisoned-storage'], fill='poison')
            for k in range(25 if quick else 300):
                L = rng.choice([6, 12, 30, 80, 200])
                yield from cases_for(kind, 'mixed', rand_tuple_history(rng, L, N), ['random'])


# slot 0 static / slot 1 heap, and the reverse; sizes below, at and above DIM
MIXED_PREFIXES = [
    'ctorV:0:1:2:3;ctorN:1:5',
    'ctorN:0:6;ctorV:1:7:8',
    'ctorV:0:1:2:3:4;ctorV:1:5:6:7:8:9',
    'ctorN:0:4;ctor:1',
]

POISON_WITNESSES = [
    'ctorN:0:6;copy:1:0',
    'ctor:0;push:0:1;push:0:2;push:0:3;push:0:4;push:0:5;copy:1:0;write:1:0:9',
    'ctorN:0:2;copy:1:0;push:1:7',         # static source: no defect, must agree with the reference
]

EWITNESSES = [
    ('maybe', 'tracked', 'mkL:0:5;destroy:0'),
    ('maybe', 'tracked', 'mk:0;setL:0:5'),
    ('maybe', 'tracked', 'mkL:0:5;setR:0:0;destroy:0'),
    ('either', 'tracked', 'mkL:0:5;destroy:0'),
    ('either', 'tracked', 'mkR:0:3;setL:0:5'),
    ('either', 'tracked', 'mkL:0:5;copy:1:0'),
    ('either', 'tracked', 'mkL:0:5;setR:0:3;mkL:1:7;assign:0:1'),
]

def gen_san(tier, rng):
    quick = tier == 'quick'
    for kind, elem, ops in WITNESSES:
        yield san_case(kind, elem, parse_ops(ops), ['witness'])
    for kind, elem, ops in EWITNESSES:
        yield san_case(kind, elem, parse_ops(ops), ['witness'])
    for ops in enum_histories(4 if quick else 5, two=False):
        yield san_case('vec', 'int', ops, ['exhaustive-1obj'])
    for ops in enum_histories(4 if quick else 5, two=False, kind='small', resizes=(0, 3, 4, 6), sized=(2, 6), variadic=(3, 5), pushat_last=True):
        yield san_case('small', 'int', ops, ['exhaustive-1obj'])
    for pre in MIXED_PREFIXES:
        for ops in enum_histories(2 if quick else 3, two=True, kind='small', resizes=(1, 5), sized=(2, 5), variadic=(), prefix=parse_ops(pre), pushat_last=True):
            if small_mixed_mode(ops):
                yield san_case('small', 'int', ops, ['mixed-mode-2obj'])
    for ops in enum_histories(4, two=False, kind='svec', resizes=(0, 1, 4, 6), sized=(2, 7), variadic=(2, 4)):
        yield san_case('svec', 'int', ops, ['exhaustive-1obj'])
    for k in range(150 if quick else 2000):
        L = rng.choice([6, 12, 30, 80, 200])
        e = rng.choice(['int', 'double'])
        yield san_case('vec', e, rand_history(rng, L), ['random'])
        yield san_case('vec', e, rand_domain_history(rng, L), ['random-domain'])
        yield san_case('svec', e, rand_history(rng, L, cap=SVEC_CAP, maxn=7, vmax=4), ['random'])
        yield san_case('small', e, rand_history(rng, L, maxn=7, vmax=6), ['random'])
        yield san_case('small', e, rand_domain_history(rng, L, vmax=4, maxlen=SMALL_DIM), ['random-domain'])
        for kind in ('maybe', 'either'):
            yield san_case(kind, rng.choice(['int', 'double', 'tracked']), rand_ehistory(rng, L, kind), ['random'])
        yield san_case('arr', e, [o for o in rand_domain_history(rng, min(L, 30), vmax=3) if o[0] not in ('push', 'resize')], ['random'])
    for tk in ('tuple', 'tuplev2'):
        for N in TUPLE_ARITIES:
            for k in range(6 if quick else 60):
                yield san_case('%s:%d' % (tk, N), 'mixed', rand_tuple_history(rng, rng.choice([6, 30, 120]), N), ['random'])
        for k in range(20 if quick else 200):
            yield san_case(tk, 'tracked', rand_tuple_history(rng, rng.choice([6, 30, 120]), 3), ['random'])


WITNESSES = [
    ('vec', 'int', 'ctor:0;push:0:1;push:0:2;push:0:3;resize:0:1;resize:0:3'),
    ('vec', 'int', 'ctorN:0:3'),
    ('vec', 'int', 'ctorN:0:0;destroy:0'),
    ('vec', 'int', 'ctor:0;push:0:10;push:0:11;push:0:12;push:0:13;pushAt:0:0'),
    ('svec', 'int', 'ctorN:0:7'),
    ('small', 'int', 'ctorN:0:5'),
    ('small', 'int', 'ctor:0;push:0:1;push:0:2;push:0:3;push:0:4;push:0:5;destroy:0'),
    ('small', 'int', 'ctorV:0:10:11:12:13;pushAt:0:2'),
    ('small', 'int', 'ctorN:0:4;write:0:0:7;pushAt:0:0'),
    ('small', 'int', 'ctorN:0:6;resize:0:4;write:0:1:9;pushAt:0:1'),      # spare capacity: no defect
    ('small', 'int', 'ctorV:0:10:11:12;pushAt:0:1;push:0:5;pushAt:0:4'),   # never at size == DIM: no defect
    ('svec', 'int', 'ctor:0;push:0:1;push:0:2;push:0:3;resize:0:1;resize:0:3'),
]

RULE = ('operation histories on object slots 0/1, state printed after every step (so every prefix is observed). '
        'vector / static_vector<T,4> / small_vector<T,4>: alphabet {ctor, ctorN(n), ctorV(values), copy, assign(other|self), push, '
        'pushAt = push_back(x[i]), resize, write, read, destroy}; every history of length 5 over a reduced alphabet in which each '
        'operation is applicable on one object (length 6: vector all, others every 3rd; thorough), every such history of length 4 on '
        'two objects (quick; length 5 every 3rd/4th in thorough), random histories of length 6..200 including inapplicable operations '
        '(which must be skipped) and random histories restricted to the theorem domains; small_vector additionally: every continuation of length 3 (quick) / 4 of four static/heap two-object prefixes that performs a copy or assignment between a static-mode and a heap-mode object; element types int and double. '
        'array<T,3>, tuple<T,T,T>, tuplev2<T,T,T>: {ctor, ctorV, copy, assign, write, read, destroy}, all histories of length 4 (quick) / 5 '
        'on two objects, int / double / counting non-trivial type for tuples; heterogeneous tuples tuple<int,double,counting,int,...> and tuplev2<...> of EVERY arity 1..12 (the implementation limit of utl::tuple): all histories of length 3 (quick) / 4 on two objects, all continuations of length 2 / 3 of a fully written and a default-constructed tuple, random histories up to 200 using every component index, default construction into 0xA5-filled storage, a sample under ASan+UBSan. maybe<T>, either<T,R>: {mk, mkL, mkR, copy, assign, setL, setR, '
        'writeL, read, destroy}, all histories of length 4 (quick) / 5 on two objects, random up to 200, T in {int, double, counting '
        'non-trivial type}. A subset is replayed under ASan+UBSan. Inside the theorem domains one request is compared IMPL = ORACLE = MODEL; '
        'outside, contents and end-of-history ledger are judged separately against the ORACLE and IMPL = MODEL is checked on everything '
        'including capacity, cells beyond size() and allocator counters. non-trivial = history of length >= 3')
EXHAUSTIVE = {'quick': False, 'thorough': False}
ANCHORS = {'NmVerif.Containers.Vec.* (vecImpl)': 'utl::vector ctor/copy/operator=/resize/push_back/dtor (utl/vector.hpp:145-244)',
           'NmVerif.Containers.SVec.* (svecImpl)': 'utl::static_vector ctor/copy/operator=/resize/push_back (utl/static_vector.hpp:54-98)',
           'NmVerif.Containers.arrImpl': 'utl::array (utl/array.hpp:23-112), utl::tuple (utl/tuple.hpp:29-462, tuple1 .. tuple12, get<I>), utl::tuplev2 (utl/tuplev2.hpp:38-178) through utl::get<I>; harness/h_c19_tuple.cpp',
           'NmVerif.Containers.Small.* (smallImpl)': 'nmtools::small_vector<T,DIM,utl::either,utl::static_vector,utl::vector> (utility/small_vector.hpp:39-140) over utl::either copy/assign/dtor (utl/either.hpp:229-277)',
           'NmVerif.Containers.Eith.* (estep)': 'utl::either (utl/either.hpp:134-346), utl::maybe trivial and non-trivial specialisations (utl/maybe.hpp:25-200)',
           'NmVerif.Containers.Ledger': 'nmtools_malloc / nmtools_free (utl/vector.hpp:48-61) redirected to the counting allocator of harness/h_c19.cpp'}
ASSUMPTIONS = ['glibc malloc/free behave; the ledger is the counting allocator behind nmtools_malloc/nmtools_free (all heap traffic of the utl containers goes through these macros); LeakSanitizer is not used (the runner disables it), the counting allocator plays its role',
               'malloc(0) returns a non-null block (as glibc does; the counting allocator hands out a 1-byte block)',
               'indeterminate memory is made observable: fresh and freed blocks are filled with 0xA5 and printed as `u`; freed blocks are quarantined until the end of the history in the non-sanitizer build',
               'object storage handed to constructors is zero-filled (-fno-lifetime-dse keeps the fill); the model of raw union storage (small_vector, either copy) reflects that; `fill=poison` requests show the effect of non-zero storage',
               'element type parametric model (alpha = Int in the driver): int, double (multiples of 0.5) and the counting type carry integer payloads',
               'small_vector is checked with its STL-free parts (utl::either / utl::static_vector / utl::vector) passed explicitly as template arguments, DIM = 4, T = int/double (layouts where the union bytes of a value-initialised static_vector read as a null vector)',
               'utl::tuple / tuplev2: homogeneous 3-tuples and heterogeneous tuples <int, double, counting type, ...> of arity 1..12 accessed through utl::get<I>; they share the array model (payload-parametric: the component types differ only on the C++ side); converting construction tuple<Us...> -> tuple<Ts...> is not part of the alphabet']
PARTIAL = []
MANIFEST = dict(
    text='Proof: 26 Lean theorems over all operation histories (List Op, any number of object slots, induction done once in a generic simulation / invariant lemma): utl::vector refines std::vector on EVERY history (sized construction, growing resize, push_back(x[i]) included) and its allocation ledger shows no leak, no double free, no out-of-bounds access, self-assignment is a no-op; static_vector refines the capacity-bounded list with refusal on every history; array refines std::array and tuple / tuplev2 of every arity refine the fixed-length list with independent components (tuple_refines, tuple_set_component); small_vector refines std::vector on EVERY history across the static/dynamic switch (push_back(x[i]) included), never touches the heap while every object stays static, never leaks (allocs = frees once all objects are destroyed; the freed blocks are exactly the blocks handed out), never frees a block twice or shares one between live objects, never drops a block or records an out-of-bounds / use-after-free / lifetime event, and the static-to-heap switch costs exactly 5 (3) allocations all but one of which are freed; maybe/either refine Option/Sum for trivial and non-trivial T and manage the lifetime of a non-trivial T as std::optional / std::variant do on every history (either_lifetime_ok: no lifetime error, constructions = destructions at the end); copies are independent. Tied to the real headers on every run by replaying ~3.7e5 (quick) / ~2.1e6 (thorough) histories against the real containers with a counting allocator and a counting element type, three-way IMPL / MODEL / Python-list ORACLE, plus an ASan+UBSan flavour.',
    note='Lean kernel + propext/Classical.choice/Quot.sound; model hand-written and following the repaired code (fix: commits C19-vector-value-init, -zero-sized-free, -alias-push, C19-static-vector-oversize-ctor, -grow-init, C19-either-maybe-lifetime, C19-small-vector-alias-push); fidelity rests on the correspondence run (which also compares capacity, stale cells and malloc/free counters after every step); no open known finding; partial statements are listed in PARTIAL',
    technique='Lean 4 simulation and invariant proofs over List Op histories + differential history replay with allocator / lifetime ledgers')
