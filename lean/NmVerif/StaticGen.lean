import NmVerif.Static
import NmVerif.StaticMore
/-
  NmVerif.StaticGen — C11, third group of transfer functions (core Lean only: linked into the driver): the view kinds that
  generate / select / pool / resize / window / compress / take the outer product.

    transferEye        view/eye.hpp:139-152 (dst_shape is ALWAYS `nmtools_array{(nm_size_t)N,(nm_size_t)M}`, also for N_ct, M_ct),
                       indexing.hpp:418-477
    transferTri        view/tri.hpp:140-159 (tuple of constants for N_ct, M_ct; array<nm_size_t,2> otherwise)
    transferTril       view/tril.hpp:88-125 (resolve_optype shape_tril_t: a rank-1 operand becomes (n,n)), :182-183
                       (dst_size = product type); view/triu.hpp is the same text
    transferPool2d     index/pooling.hpp:179-228 (resolve_optype shape_pool2d_t), view/pooling.hpp:192-216 (fixed_size from a
                       constant shape only, bounded_size = fixed_size)
    transferResize     index/resize.hpp:95-154 (resolve_optype shape_resize_t, a maybe type unless everything is constant),
                       view/resize.hpp:17-19
    transferSlidingWindow  index/sliding_window.hpp:175-235 (resolve_optype shape_sliding_window_t), view/sliding_window.hpp:24-27
    transferCompress   index/compress.hpp:194-274 (resolve_optype shape_compress_t), view/compress.hpp:74-106 (fixed_size from a
                       constant shape only, bounded_size = the operand's OWN bounded size)
    transferOuter      index/outer.hpp:115-217 (shape_outer_t, size_outer_t), view/ufunc/outer.hpp:135-140, :240-254
                       (fixed_size: decorator default from the type of size(); bounded_size = product of the operands' OWN bounds)
-/
namespace NmVerif.Static
open NmVerif

/-! ### eye / tri (no array operand; the argument is the pair (N, M)) -/

/-- `view::eye(N, M)`: the shape is a run-time `array<nm_size_t,2>` whatever the kinds of N and M -/
def transferEye (nm : ArrK) : Option SInfo :=
  match nm.lenK with
  | .fixed 2 => some (indexingInfo (.fixedDim 2) (productK (.fixedDim 2)))
  | _ => none

/-- `view::tri(N, M)`: a tuple of constants when both are compile-time constants -/
def transferTri (nm : ArrK) : Option SInfo :=
  match nm with
  | .ct [n, m] => some (indexingInfo (.const [n, m]) (productK (.const [n, m])))
  | k => match k.lenK with
    | .fixed 2 => some (indexingInfo (.fixedDim 2) (productK (.fixedDim 2)))
    | _ => none

/-! ### tril / triu -/

/-- `np.tril(a).shape`: a 1-d operand of n elements gives (n, n) -/
def refTril : Shape → Shape
  | [n] => [n, n]
  | s => s

def trilLen (n : Nat) : Nat := if n = 1 then 2 else n

def trilShapeK : ShapeK → ShapeK
  | .const l => .const (refTril l)
  | sh => match sh.lenK with
    | .fixed n => .fixedDim (trilLen n)
    | .bounded b => .boundedDim (trilLen b)
    | .dyn => .dyn

def transferTril (i : SInfo) : Option SInfo :=
  let d := trilShapeK i.seen.shape
  some (indexingInfo d (productK d))

/-! ### pool2d (max_pool2d / avg_pool2d): kernel and stride are pairs, ceil_mode a compile-time constant -/

/-- number of windows along one axis (index/pooling.hpp:79-93); `none` = the kernel does not fit / zero stride -/
def poolDim (ceil : Bool) (h k s : Nat) : Option Nat :=
  if k = 0 ∨ s = 0 ∨ h < k then none
  else if ceil then
    let c := (h - k + s - 1) / s
    -- the last window must start inside the input
    some (if 1 ≤ c ∧ h ≤ c * s then c else c + 1)
  else some ((h - k) / s + 1)

/-- reference shape: batch axes unchanged, the last two axes pooled -/
def refPool (ceil : Bool) (kv sv : List Nat) (s : Shape) : Option Shape :=
  match s.reverse, kv, sv with
  | w :: h :: rest, [kh, kw], [sh, sw] =>
    (match poolDim ceil h kh sh, poolDim ceil w kw sw with
     | some ph, some pw => some (pw :: ph :: rest).reverse
     | _, _ => none)
  | _, _, _ => none

def poolShapeK (sh : ShapeK) (kk sk : ArrK) (ceil : Bool) : Option ShapeK :=
  match sh.cvalue, kk, sk with
  | some v, .ct kv, .ct sv => (refPool ceil kv sv v).map sh.like
  | _, _, _ => some sh.lenK.toShapeK

/-- `src` = the type of `nmtools::shape(array)` (pool2d_t reads the PLAIN shape, view/pooling.hpp:34, not `shape<true>`): for
    every view and for `ndarray_t` leaves that is the shape kind of the operand's knowledge; `na::fixed_ndarray` answers with a
    run-time `array<size_t,dim>` although its shape is a compile-time constant -/
def transferPool2dOn (src : ShapeK) (kk sk : ArrK) (ceil : Bool) : Option SInfo :=
  (poolShapeK src kk sk ceil).map takeInfo

def transferPool2d (kk sk : ArrK) (ceil : Bool) (i : SInfo) : Option SInfo :=
  transferPool2dOn i.shape kk sk ceil

/-! ### resize -/

def refResize (t : List Nat) (s : Shape) : Option Shape :=
  if t.length = s.length ∧ t.all (· > 0) then some t else none

/-- not (constant source shape, constant target): the result container follows the LENGTH kind of the target; a source of
    another fixed rank / of a smaller bound is a compile-time error -/
def resizeRt (src dst : LenK) : Option ShapeK :=
  match dst with
  | .fixed n =>
    (match src with
     | .fixed m => if n = m then some (.fixedDim n) else none
     | .bounded b => if b < n then none else some (.fixedDim n)
     | .dyn => some (.fixedDim n))
  | .bounded b => some (.boundedDim b)
  | .dyn => some .dyn

def resizeShapeK (sh : ShapeK) (k : ArrK) : Option ShapeK :=
  match sh, k with
  | .const l, .ct t => (refResize t l).map .const
  | _, _ => resizeRt sh.lenK k.lenK

def transferResize (k : ArrK) (i : SInfo) : Option SInfo :=
  (resizeShapeK i.seen.shape k).map (fun d => indexingInfo d (productK d))

/-! ### sliding_window -/

/-- the window argument: one integer (with an axis) or an index array (with axis None) -/
inductive WinK where
  | num (k : NumK)
  | arr (k : ArrK)
  deriving DecidableEq, Repr

/-- run-time value of the window argument -/
inductive WinV where
  | num (w : Nat)
  | arr (ws : List Nat)
  deriving DecidableEq, Repr

def WinK.γ : WinK → WinV → Prop
  | .num k, .num w => k.γ w
  | .arr k, .arr ws => k.γ ws
  | _, _ => False

/-- `s_i - (w_i - 1)` -/
def swSub : Shape → List Nat → Shape
  | x :: xs, w :: ws => (x - (w - 1)) :: swSub xs ws
  | _, _ => []

def fitsAll : Shape → List Nat → Bool
  | x :: xs, w :: ws => (1 ≤ w && w ≤ x) && fitsAll xs ws
  | [], [] => true
  | _, _ => false

/-- `np.lib.stride_tricks.sliding_window_view(a, w, axis).shape` for (integer window, one axis) and (window per axis, None) -/
def refSlidingWindow (w : WinV) (axis : Option Nat) (s : Shape) : Option Shape :=
  match w, axis with
  | .num w, some a =>
    (match s[a]? with
     | some n => if 1 ≤ w ∧ w ≤ n then some (s.set a (n - (w - 1)) ++ [w]) else none
     | none => none)
  | .arr ws, none => if fitsAll s ws then some (swSub s ws ++ ws) else none
  | _, _ => none

def WinK.static? : WinK → Option WinV
  | .num (.ct w) => some (.num w)
  | .arr (.ct ws) => some (.arr ws)
  | _ => none

def WinK.lenK : WinK → LenK
  | .num _ => .fixed 1
  | .arr k => k.lenK

/-- `len_v` / `bounded_size_v` arithmetic of two index arrays put side by side: fixed + fixed = fixed; a fixed length also
    is a bound; anything with `std::vector` is dynamic -/
def LenK.plus : LenK → LenK → LenK
  | .fixed n, .fixed m => .fixed (n + m)
  | .fixed n, .bounded m => .bounded (n + m)
  | .bounded n, .fixed m => .bounded (n + m)
  | .bounded n, .bounded m => .bounded (n + m)
  | _, _ => .dyn

/-- the modelled argument combinations: (integer window, one axis) and (window per axis, axis None) -/
def swArgsOk : WinK → AxisK → Bool
  | .num _, .cts _ => true
  | .num _, .rts => true
  | .arr _, .none => true
  | _, _ => false

def swInner (sh : ShapeK) (w : WinK) (ax : AxisK) : Option ShapeK :=
  match sh, w.static?, ax.staticAxis? with
  | .const l, some wv, some axis => (refSlidingWindow wv axis l).map .const
  | _, _, _ => some (sh.lenK.plus w.lenK).toShapeK

def swShapeK (sh : ShapeK) (w : WinK) (ax : AxisK) : Option ShapeK :=
  if swArgsOk w ax then swInner sh w ax else none

def transferSlidingWindow (w : WinK) (ax : AxisK) (i : SInfo) : Option SInfo :=
  (swShapeK i.seen.shape w ax).map (fun d => indexingInfo d (productK d))

/-! ### compress (condition: a 1-d array of 0 / non-0; axis None | compile-time | run-time) -/

def countNZ (c : List Nat) : Nat := c.countP (· ≠ 0)

/-- every non-zero entry of the condition selects an existing position `< n` -/
def condFits (c : List Nat) (n : Nat) : Bool := (c.drop n).all (· == 0)

/-- `np.compress(c, a, axis).shape` (a non-zero entry of the condition beyond the axis is an error) -/
def refCompress (c : List Nat) (axis : Option Nat) (s : Shape) : Option Shape :=
  match axis with
  | none => if condFits c (prod s) then some [countNZ c] else none
  | some a =>
    match s[a]? with
    | some n => if condFits c n then some (s.set a (countNZ c)) else none
    | none => none

def bump (r : List Nat) : List Nat := r.map (fun x => if x == 0 then 1 else x)

/-- `transform_bounded_array_t<shape_t>` after a constant shape has been turned into its value array: a clipped shape type
    is kept as it is -/
def ShapeK.keepClipped : ShapeK → ShapeK
  | .clipped b => .clipped b
  | s => s.lenK.toShapeK

/-- run-time branch: axis None -> `array<index_t,1>`, an axis -> the container of the source shape -/
def compressRt (sh : ShapeK) (ax : AxisK) : Option ShapeK :=
  match ax with
  | .none => some (.fixedDim 1)
  | .cts _ => some sh.keepClipped
  | .rts => some sh.keepClipped
  | _ => none

def compressShapeK (sh : ShapeK) (c : ArrK) (ax : AxisK) : Option ShapeK :=
  match c, sh.cvalue, ax.staticAxis? with
  | .ct cv, some v, some axis =>
    (refCompress cv axis v).map (fun r => if sh.isConst then .const r else .clipped (bump r))
  | _, _, _ => compressRt sh ax

/-- `own` = the operand's own size knowledge (bounded_size_v<array_t>) -/
def compressInfo (own : SizeK) (d : ShapeK) : SInfo :=
  ⟨d, match d with
      | .const l => .known (prod l)
      | _ => match own.bound? with | some n => .atMost n | none => .any⟩

def transferCompress (c : ArrK) (ax : AxisK) (i : SInfo) : Option SInfo :=
  (compressShapeK i.seen.shape c ax).map (compressInfo i.size)

/-! ### outer (ufunc.outer: the shapes side by side) -/

def refOuter (a b : Shape) : Shape := a ++ b

def outerShapeK (a b : ShapeK) : ShapeK :=
  match a.cvalue, b.cvalue with
  | some va, some vb => if a.isConst && b.isConst then .const (va ++ vb) else .clipped (va ++ vb)
  | _, _ => (a.lenK.plus b.lenK).toShapeK

/-- static value of a size type: (value, is a constant rather than a clipped maximum) -/
def SizeK.static? : SizeK → Option (Nat × Bool)
  | .known n => some (n, true)
  | .knownB n _ => some (n, true)
  | .atMost n => some (n, false)
  | .any => none

/-- `resolve_optype<size_outer_t>` (index/outer.hpp:183-217): `za`, `zb` = `size<true>` of the operands -/
def outerSizeK (d : ShapeK) (za zb : SizeK) : SizeK :=
  match d with
  | .const l => .known (prod l)
  | _ =>
    match za.static?, zb.static? with
    | some (x, ca), some (y, cb) => if ca && cb then .known (x * y) else .atMost (x * y)
    | _, _ => .any

def transferOuter (i j : SInfo) : Option SInfo :=
  let d := outerShapeK i.seen.shape j.seen.shape
  let fixed? : Option Nat := match outerSizeK d i.seen.size j.seen.size with | .known n => some n | _ => none
  let bound? : Option Nat := match i.size.bound?, j.size.bound? with | some x, some y => some (x * y) | _, _ => none
  match fixed?, bound? with
  | some n, some b => some ⟨d, if n = b then .known n else .knownB n b⟩
  | some _, none => none          -- a fixed size next to NO bounded size: not expressible (and not reachable from the leaves)
  | none, some b => some ⟨d, .atMost b⟩
  | none, none => some ⟨d, .any⟩

end NmVerif.Static
