// host-only stand-in for the HIP runtime API: enough to parse (clang++ -x hip --cuda-host-only -nogpuinc) and RUN the HOST side
// of include/nmtools/array/eval/hip/context.hpp (device memory = host memory; kernels are never launched)
#pragma once
#include <cstdlib>
#include <cstring>
#include <cstddef>
#include <string>
#include <cmath>
#ifndef __global__
#define __host__ __attribute__((host))
#define __device__ __attribute__((device))
#define __global__ __attribute__((global))
#endif
struct dim3 { unsigned x, y, z; dim3(unsigned x=1, unsigned y=1, unsigned z=1) : x(x), y(y), z(z) {} };
struct uint3 { unsigned x, y, z; };
extern const uint3 threadIdx, blockIdx; extern const dim3 blockDim, gridDim;
enum hipError_t { hipSuccess = 0, hipErrorUnknown = 1 };
enum hipMemcpyKind { hipMemcpyHostToDevice, hipMemcpyDeviceToHost };
typedef struct ihipStream_t* hipStream_t;
inline hipError_t hipMalloc(void** p, size_t n) { *p = std::malloc(n); return hipSuccess; }
inline hipError_t hipFree(void* p) { std::free(p); return hipSuccess; }
inline hipError_t hipMemcpy(void* d, const void* s, size_t n, hipMemcpyKind) { std::memcpy(d, s, n); return hipSuccess; }
inline const char* hipGetErrorString(hipError_t) { return "shim"; }
inline hipError_t hipDeviceSynchronize() { return hipSuccess; }
inline hipError_t hipGetLastError() { return hipSuccess; }
extern "C" inline hipError_t hipConfigureCall(dim3, dim3, size_t = 0, hipStream_t = 0) { return hipSuccess; }
extern "C" inline hipError_t hipSetupArgument(const void*, size_t, size_t) { return hipSuccess; }
extern "C" inline hipError_t hipLaunchByPtr(const void*) { return hipSuccess; }
extern "C" inline hipError_t __hipPushCallConfiguration(dim3, dim3, size_t = 0, hipStream_t = 0) { return hipSuccess; }
extern "C" inline hipError_t __hipPopCallConfiguration(dim3*, dim3*, size_t*, hipStream_t*) { return hipSuccess; }
extern "C" inline hipError_t hipLaunchKernel(const void*, dim3, dim3, void**, size_t, hipStream_t) { return hipSuccess; }
