import NmVerif.Driver.C01
import NmVerif.Driver.C02
import NmVerif.Driver.C03
import NmVerif.Driver.C04
import NmVerif.Driver.C05
import NmVerif.Driver.C06
import NmVerif.Driver.C07
import NmVerif.Driver.C08
import NmVerif.Driver.C09
import NmVerif.Driver.C10
import NmVerif.Driver.C11
import NmVerif.Driver.C12
import NmVerif.Driver.C13
import NmVerif.Driver.C14
import NmVerif.Driver.C15
import NmVerif.Driver.C16
import NmVerif.Driver.C17
import NmVerif.Driver.C18
import NmVerif.Driver.C19
import NmVerif.Driver.C20

open NmVerif NmVerif.Proto

def handlers : List Handler := [
  NmVerif.Driver.C01.handle,
  NmVerif.Driver.C02.handle,
  NmVerif.Driver.C03.handle,
  NmVerif.Driver.C04.handle,
  NmVerif.Driver.C05.handle,
  NmVerif.Driver.C06.handle,
  NmVerif.Driver.C07.handle,
  NmVerif.Driver.C08.handle,
  NmVerif.Driver.C09.handle,
  NmVerif.Driver.C10.handle,
  NmVerif.Driver.C11.handle,
  NmVerif.Driver.C12.handle,
  NmVerif.Driver.C13.handle,
  NmVerif.Driver.C14.handle,
  NmVerif.Driver.C15.handle,
  NmVerif.Driver.C16.handle,
  NmVerif.Driver.C17.handle,
  NmVerif.Driver.C18.handle,
  NmVerif.Driver.C19.handle,
  NmVerif.Driver.C20.handle
]

def answer (line : String) : String :=
  let (op, args) := parseLine line
  if op == "" then "empty" else
  match handlers.findSome? (fun h => h op args) with
  | some a => a
  | none => "unknown-op"

partial def loop (h : IO.FS.Stream) (out : IO.FS.Stream) : IO Unit := do
  let line ← h.getLine
  if line.isEmpty then return ()
  out.putStrLn (answer line)
  loop h out

def main : IO Unit := do
  let out ← IO.getStdout
  loop (← IO.getStdin) out
  out.flush
