import NmVerif.NN.NormLemmas
/-
  NN/AxisLemmas — reduction over a single axis without keepdims (which elements are folded for a result index), and the
  special case of the last axis used by vector_norm in pairwise_distance.
-/
namespace NmVerif.NN
open NmVerif.Reduce
variable {α : Type}

theorem insAt_zero (j : Idx) (k : Nat) : insAt j 0 k = k :: j := by simp [insAt]
theorem insAt_succ (j0 : Nat) (j : Idx) (m k : Nat) : insAt (j0 :: j) (m + 1) k = j0 :: insAt j m k := by simp [insAt]

theorem removeDimsLoop_none (p : Nat → Bool) (keep : Bool) : ∀ (s : Shape) (o : Nat),
    (∀ k, o ≤ k → k < o + s.length → p k = false) → removeDimsLoop p keep o s = s := by
  intro s
  induction s with
  | nil => intro o _; rfl
  | cons a t ih =>
    intro o h
    have h0 := h o (Nat.le_refl _) (by simp)
    simp [removeDimsLoop, h0, ih (o + 1) (fun k h1 h2 => h k (by omega) (by simp; omega))]

theorem projL_none (p : Nat → Bool) (keep : Bool) : ∀ (x : Idx) (o : Nat),
    (∀ k, o ≤ k → k < o + x.length → p k = false) → projL p keep o x = x := by
  intro x
  induction x with
  | nil => intro o _; rfl
  | cons a t ih =>
    intro o h
    have h0 := h o (Nat.le_refl _) (by simp)
    simp [projL, h0, ih (o + 1) (fun k h1 h2 => h k (by omega) (by simp; omega))]

/-- inserting a coordinate on the reduced axis and projecting it away again -/
theorem projL_insAt (p : Nat → Bool) : ∀ (ax : Nat) (j : Idx) (o k : Nat), (∀ q, p q = decide (q = o + ax)) → ax ≤ j.length →
    projL p false o (insAt j ax k) = j := by
  intro ax
  induction ax with
  | zero =>
    intro j o k hp _
    have h0 : p o = true := by rw [hp]; simp
    rw [insAt_zero]
    simp only [projL, h0, if_true, Bool.false_eq_true, if_false]
    exact projL_none p false j (o + 1) (by intro q h1 _; rw [hp]; simp; omega)
  | succ m ih =>
    intro j o k hp hl
    cases j with
    | nil => simp at hl
    | cons j0 j' =>
      have h0 : p o = false := by rw [hp]; simp
      rw [insAt_succ]
      simp only [projL, h0, Bool.false_eq_true, if_false]
      rw [ih j' (o + 1) k (by intro q; rw [hp]; congr 1; apply propext; omega) (by simpa using hl)]

theorem inShape_insAt (p : Nat → Bool) : ∀ (s : Shape) (ax : Nat) (j : Idx) (o k n : Nat), (∀ q, p q = decide (q = o + ax)) →
    s[ax]? = some n → k < n → InShape j (removeDimsLoop p false o s) → InShape (insAt j ax k) s := by
  intro s
  induction s with
  | nil => intro ax j o k n _ h; simp at h
  | cons a t ih =>
    intro ax j o k n hp hn hk hj
    cases ax with
    | zero =>
      have h0 : p o = true := by rw [hp]; simp
      simp only [removeDimsLoop, h0, Bool.not_false, Bool.and_true, if_true] at hj
      rw [removeDimsLoop_none p false t (o + 1) (by intro q h1 _; rw [hp]; simp; omega)] at hj
      simp at hn; subst hn
      rw [insAt_zero]
      exact ⟨hk, hj⟩
    | succ m =>
      have h0 : p o = false := by rw [hp]; simp
      simp only [removeDimsLoop, h0, Bool.false_and, Bool.false_eq_true, if_false] at hj
      cases j with
      | nil => simp [InShape] at hj
      | cons j0 j' =>
        simp only [InShape] at hj
        rw [insAt_succ]
        exact ⟨hj.1, ih m j' (o + 1) k n (by intro q; rw [hp]; congr 1; apply propext; omega) (by simpa using hn) hk hj.2⟩

theorem insAt_set (j : Idx) (ax k k' : Nat) (h : ax ≤ j.length) : (insAt j ax k).set ax k' = insAt j ax k' := by
  unfold insAt
  rw [List.set_append_right _ _ (by simp; omega)]
  simp [Nat.min_eq_left h]

theorem removeDimsLoop_false_length (p : Nat → Bool) : ∀ (s : Shape) (ax o : Nat), (∀ q, p q = decide (q = o + ax)) →
    ax < s.length → (removeDimsLoop p false o s).length + 1 = s.length := by
  intro s
  induction s with
  | nil => intro ax o _ h; simp at h
  | cons a t ih =>
    intro ax o hp hax
    cases ax with
    | zero =>
      have h0 : p o = true := by rw [hp]; simp
      simp [removeDimsLoop, h0, removeDimsLoop_none p false t (o + 1) (by intro q h1 _; rw [hp]; simp; omega)]
    | succ m =>
      have h0 : p o = false := by rw [hp]; simp
      simp only [removeDimsLoop, h0, Bool.false_and, Bool.false_eq_true, if_false, List.length_cons]
      have := ih m (o + 1) (by intro q; rw [hp]; congr 1; apply propext; omega) (by simpa using hax)
      omega

/-- the elements a reduction over the single axis `ax` WITHOUT keepdims folds for result index `j`:
    `j` with the coordinate `0 .. n−1` inserted at `ax` -/
theorem addressed_false_single (s : Shape) (hs : Pos s) (ax n : Nat) (hn : s[ax]? = some n) (j : Idx)
    (hj : InShape j (specShape s [ax] false)) :
    addressed s [ax] false j = (List.range n).map (fun k => insAt j ax k) := by
  have hax : ax < s.length := by
    rcases Nat.lt_or_ge ax s.length with h | h
    · exact h
    · rw [List.getElem?_eq_none h] at hn; cases hn
  have hp : ∀ q, (fun k => decide (k ∈ [ax])) q = decide (q = 0 + ax) := by intro q; simp
  have hn0 : 0 < n := hs n (List.mem_of_getElem? hn)
  rw [specShape_eq_loop (fun k => decide (k ∈ [ax])) [ax] false s (fun _ _ => rfl)] at hj
  have hjl : ax ≤ j.length := by
    have := removeDimsLoop_false_length _ s ax 0 hp hax
    rw [← hj.length_eq] at this; omega
  have hi : InShape (insAt j ax 0) s := inShape_insAt _ s ax j 0 0 n hp hn hn0 hj
  have hmem : insAt j ax 0 ∈ addressed s [ax] false j := by
    unfold addressed
    refine List.mem_filter.2 ⟨(NmVerif.Props.C01.mem_allIdx_iff s _).2 hi, ?_⟩
    rw [proj_eq_loop (fun k => decide (k ∈ [ax])) [ax] false _ s.length hi.length_eq (fun _ _ => rfl),
      projL_insAt _ ax j 0 0 hp hjl]
    simp
  rw [← addressed_true_proj s [ax] false j _ hmem]
  show grp s [ax] (insAt j ax 0) = _
  rw [grp_single_eq_lineOf hi hax]
  simp only [lineOf, hn]
  apply List.map_congr_left
  intro k _
  exact insAt_set j ax 0 k hjl

/-! ### the last axis -/

theorem insAt_length (p : Idx) (k : Nat) : insAt p p.length k = p ++ [k] := by simp [insAt]

theorem removeDimsLoop_last (p : Nat → Bool) (keep : Bool) : ∀ (lead : Shape) (D o : Nat),
    (∀ q, p q = decide (q = o + lead.length)) →
    removeDimsLoop p keep o (lead ++ [D]) = if keep then lead ++ [1] else lead := by
  intro lead
  induction lead with
  | nil =>
    intro D o hp
    have h0 : p o = true := by rw [hp]; simp
    cases keep <;> simp [removeDimsLoop, h0]
  | cons a t ih =>
    intro D o hp
    have h0 : p o = false := by rw [hp]; simp
    have := ih D (o + 1) (by intro q; rw [hp]; congr 1; apply propext; simp; omega)
    cases keep <;> simp_all [removeDimsLoop]

theorem specShape_last (lead : Shape) (D : Nat) (keep : Bool) :
    specShape (lead ++ [D]) [lead.length] keep = if keep then lead ++ [1] else lead := by
  rw [specShape_eq_loop (fun k => decide (k ∈ [lead.length])) [lead.length] keep _ (fun _ _ => rfl)]
  exact removeDimsLoop_last _ keep lead D 0 (by intro q; simp)

theorem axisSet_last (n : Nat) : axisSet (n + 1) (some [-1]) = [n] := by
  simp only [axisSet, List.map_cons, List.map_nil]
  rw [normAxis_neg (by unfold ValidAxis; omega) (by omega)]
  congr 1
  omega

theorem validAxes_last (n : Nat) : ValidAxes (n + 1) (some [-1]) :=
  validAxes_single (by unfold ValidAxis; omega)

/-- `reduce(op, a, axis = −1, keepdims)` of an array that denotes `g` on `lead ++ [D]`: result index `p` (resp.
    `p ++ [0]` with keepdims) folds `g (p ++ [k])`, `k = 0 .. D−1` in this order -/
theorem red_last (op : α → α → α) {a : OArr α} {lead : Shape} {D : Nat} {g : Idx → α} (h : Den a (lead ++ [D]) g)
    (hs : Pos (lead ++ [D])) (keep : Bool) :
    ∃ v, red op a (some [-1]) keep = some v ∧ v.shape = (if keep then lead ++ [1] else lead) ∧
      ∀ p, InShape p lead →
        v.get (if keep then p ++ [0] else p) = foldFirst op none ((List.range D).map fun k => g (p ++ [k])) := by
  obtain ⟨hsh, hg⟩ := h
  have hlen : a.shape.length = lead.length + 1 := by rw [hsh]; simp
  have hva : ValidAxes a.shape.length (some [-1]) := by rw [hlen]; exact validAxes_last _
  have hR : axisSet a.shape.length (some [-1]) = [lead.length] := by rw [hlen]; exact axisSet_last _
  obtain ⟨v, h1, h2, h3⟩ := red_spec op a (some [-1]) keep (by rw [hsh]; exact hs) hva
  rw [hR, hsh, specShape_last] at h2
  refine ⟨v, h1, h2, fun p hp => ?_⟩
  have hD : (lead ++ [D])[lead.length]? = some D := by simp
  have hfold : ∀ (L : List Idx), L = (List.range D).map (fun k => p ++ [k]) →
      (foldFirst (optOp op) none (L.map a.get)).join = foldFirst op none ((List.range D).map fun k => g (p ++ [k])) := by
    intro L hL
    have : L.map a.get = ((List.range D).map fun k => p ++ [k]).map (fun i => some (g i)) := by
      rw [hL]
      apply List.map_congr_left
      intro i hi
      simp only [List.mem_map, List.mem_range] at hi
      obtain ⟨k, hk, rfl⟩ := hi
      exact hg _ (inShape_append hp (by simp [InShape]; exact hk))
    rw [this, foldFirst_optOp_some, List.map_map]
    rfl
  cases keep with
  | false =>
    simp only [Bool.false_eq_true, if_false] at h2 ⊢
    rw [h3 p (by rw [h2]; exact hp), hR, hsh]
    apply hfold
    rw [addressed_false_single (lead ++ [D]) hs lead.length D hD p (by rw [specShape_last]; exact hp)]
    apply List.map_congr_left
    intro k _
    rw [← hp.length_eq, insAt_length]
  | true =>
    simp only [if_true] at h2 ⊢
    have hin1 : InShape (p ++ [0]) (lead ++ [1]) := inShape_append hp (by simp [InShape])
    have hD0 : 0 < D := hs D (by simp)
    have hin : InShape (p ++ [0]) (lead ++ [D]) := inShape_append hp (by simp [InShape]; exact hD0)
    rw [h3 _ (by rw [h2]; exact hin1), hR, hsh]
    apply hfold
    have hproj : proj [lead.length] true (p ++ [0]) = p ++ [0] := by
      rw [← sbi_keep (lead ++ [D]) [lead.length] _ hin, specShape_last]
      exact sbi_self _ _ hin1
    have hg2 : grp (lead ++ [D]) [lead.length] (p ++ [0]) = lineOf (lead ++ [D]) lead.length (p ++ [0]) :=
      grp_single_eq_lineOf hin (by simp)
    unfold grp at hg2
    rw [hproj] at hg2
    rw [hg2]
    simp only [lineOf, hD]
    apply List.map_congr_left
    intro k _
    rw [← hp.length_eq]
    simp

end NmVerif.NN
