// C15: index::normalize_axis (the one place every axis argument is validated) over the integer KINDS of the axis
// argument - signed / unsigned scalars, lists of signed / unsigned entries in vector / std::array / static_vector -
// and its users with unsigned axis lists.  request: normalize_axis kind=<k> axis=<list> ndim=<n>
//   answer: ok <normalised axes> | nothing
#include "nmtools/array/index/normalize_axis.hpp"
#include "nmtools/array/ndarray.hpp"
#include "nmtools/array/eval.hpp"
#include "nmtools/array/view/moveaxis.hpp"
#include "nmtools/array/view/roll.hpp"
#include "nmtools/array/view/expand_dims.hpp"
#include "nmtools/utl/static_vector.hpp"
#include "proto.hpp"
#include <array>
#include <vector>
using namespace proto; namespace nm = nmtools; namespace ix = nmtools::index; namespace na = nmtools::array; namespace view = nmtools::view;

template <typename R> static std::string show(const R& r) {
    if constexpr (nm::meta::is_maybe_v<R>) { if (!nm::has_value(r)) return "nothing"; return show(*r); }
    else if constexpr (nm::meta::is_index_v<R>) return "ok " + std::to_string((long long)r);
    else { std::string o = "ok "; auto n = (size_t)nm::len(r); if (!n) return "ok []"; for (size_t i=0;i<n;i++){ if(i) o += ","; o += std::to_string((long long)nm::at(r,i)); } return o; }
}
template <typename T, typename F> static std::string with_list(const std::string& c, const ivec& v, F f) {
    if (c=="vec") { std::vector<T> x(v.begin(), v.end()); return f(x); }
    if (c=="sv")  { nm::utl::static_vector<T,6> x; x.resize(v.size()); for (size_t i=0;i<v.size();i++) x[i]=(T)v[i]; return f(x); }
    if (c=="arr") {
        switch (v.size()) {
            case 1: { std::array<T,1> x{(T)v[0]}; return f(x); }
            case 2: { std::array<T,2> x{(T)v[0],(T)v[1]}; return f(x); }
            case 3: { std::array<T,3> x{(T)v[0],(T)v[1],(T)v[2]}; return f(x); }
            default: return std::string("bad-args");
        }
    }
    return std::string("bad-args");
}
template <typename view_t> static std::string show_view(const view_t& v) {
    if constexpr (nm::meta::is_maybe_v<view_t>) { if (!nm::has_value(v)) return "nothing"; return show_view(*v); }
    else {
        auto shp = nm::shape(v); std::string o = "ok shape=";
        auto d = (size_t)nm::len(shp); for (size_t i=0;i<d;i++){ if(i) o += ","; o += std::to_string((long long)nm::at(shp,i)); }
        auto e = na::eval(v); o += " data="; auto n = (size_t)nm::size(e);
        for (size_t i=0;i<n;i++){ if(i) o += ","; o += std::to_string((long long)e.data()[i]); }
        return o;
    }
}
std::string handle(const std::string& op, const Args& a) {
    std::string k = get(a,"kind");       // i | u | i:vec | u:vec | i:arr | u:arr | u32:arr | i:sv | u:sv
    if (op=="normalize_axis") {
        auto v = ints(a,"axis"); long long nd = integer(a,"ndim");
        auto call = [&](const auto& ax){ return show(ix::normalize_axis(ax, (size_t)nd)); };
        auto calli = [&](const auto& ax){ return show(ix::normalize_axis(ax, (int)nd)); };
        if (k=="i") return call((int)v.at(0));
        if (k=="ii") return calli((int)v.at(0));
        if (k=="u") return call((size_t)v.at(0));
        auto p = k.find(':'); if (p==std::string::npos) return "bad-args";
        std::string t = k.substr(0,p), c = k.substr(p+1);
        if (t=="i")   return with_list<int>(c, v, call);
        if (t=="l")   return with_list<long>(c, v, call);
        if (t=="u")   return with_list<size_t>(c, v, call);
        if (t=="u32") return with_list<unsigned>(c, v, call);
        return "bad-args";
    }
    // users of normalize_axis with an axis list of the given kind, on a dynamic array of the given shape (data[k] = k)
    auto shape = nats(a,"shape");
    na::ndarray_t<std::vector<int>, std::vector<size_t>> arr; arr.resize(shape);
    for (size_t i=0;i<(size_t)nm::size(arr);i++) arr.data()[i] = (int)i;
    auto p = k.find(':'); if (p==std::string::npos) return "bad-args";
    std::string t = k.substr(0,p), c = k.substr(p+1);
    if (op=="moveaxis") {
        auto s = ints(a,"src"), d = ints(a,"dst");
        auto go = [&](auto tag){ using T = decltype(tag);
            return with_list<T>(c, s, [&](const auto& sx){ return with_list<T>(c, d, [&](const auto& dx){ return show_view(view::moveaxis(arr, sx, dx)); }); }); };
        return t=="u" ? go(size_t{}) : t=="u32" ? go(unsigned{}) : go(int{});
    }
    if (op=="roll") {
        auto sh = ints(a,"shift"), ax = ints(a,"axis");
        auto go = [&](auto tag){ using T = decltype(tag);
            std::vector<int> shv(sh.begin(), sh.end());
            return with_list<T>(c, ax, [&](const auto& axx){ return show_view(view::roll(arr, shv, axx)); }); };
        return t=="u" ? go(size_t{}) : t=="u32" ? go(unsigned{}) : go(int{});
    }
    if (op=="expand_dims") {
        auto ax = ints(a,"axis");
        auto go = [&](auto tag){ using T = decltype(tag);
            return with_list<T>(c, ax, [&](const auto& axx){ return show_view(view::expand_dims(arr, axx)); }); };
        return t=="u" ? go(size_t{}) : t=="u32" ? go(unsigned{}) : go(int{});
    }
    return "unknown-op";
}
