/-
  NmVerif.Containers.Core — L3 state machines for the STL-free containers (property C19).

  * `Ledger`   the allocation ledger of the counting allocator (`nmtools_malloc` / `nmtools_free`,
               utl/vector.hpp:48-61): block ids are handed out in order, every `free` is logged, a block whose
               last pointer is dropped without `free` goes to the ghost list `lost`, UB-class events
               (out-of-bounds cell access, read of freed memory, assignment into unconstructed storage …) are logged.
  * `Op`       the operation alphabet of the property text on numbered object slots.
  * `Impl`     the per-object semantics of one container kind (each op threads the ledger).
  * `World`    any number of object slots (`none` = no live object) + the ledger; `step`, `run` over histories.
  * `Sim`      a simulation between two container semantics; `run_sim` lifts per-op preservation to all histories
               (the induction over `List Op` is done once, here).

  Core Lean only (linked into the driver).
-/
namespace NmVerif.Containers

/-- a memory cell of element type `α`; `none` = indeterminate (never initialised / freed memory) -/
abbrev Cell (α : Type) := Option α

inductive Event where
  | oob            -- buffer cell index outside the allocated block / fixed array
  | uaf            -- read through a pointer into a freed block
  | uninitAssign   -- `operator=` invoked on storage whose lifetime never began
  | overLive       -- placement-new over a live object (its destructor never ran)
  | destroyDead    -- destructor call on storage without a live object
  deriving DecidableEq, Repr

structure Ledger where
  allocs : Nat := 0
  freed : List Nat := []
  lost : List Nat := []
  events : List Event := []
  /-- element objects of the counting non-trivial type constructed / destroyed by the containers -/
  ctors : Nat := 0
  dtors : Nat := 0
  deriving Repr

namespace Ledger
def alloc (L : Ledger) : Nat × Ledger := (L.allocs, { L with allocs := L.allocs + 1 })
def free (L : Ledger) (b : Nat) : Ledger := { L with freed := b :: L.freed }
def lose (L : Ledger) (b : Nat) : Ledger := { L with lost := b :: L.lost }
def flag (L : Ledger) (e : Event) : Ledger := { L with events := e :: L.events }
def flagIf (L : Ledger) (c : Bool) (e : Event) : Ledger := if c then L.flag e else L
def ctor (L : Ledger) : Ledger := { L with ctors := L.ctors + 1 }
def dtor (L : Ledger) : Ledger := { L with dtors := L.dtors + 1 }
end Ledger

/-- the value-initialisation loop `for i in old … n-1: buffer[i] = T{}` on a block / fixed buffer `cells` -/
def initRange (zero : α) (cells : List (Cell α)) (old n : Nat) : List (Cell α) :=
  if old < n then cells.take old ++ List.replicate (n - old) (some zero) ++ cells.drop n else cells

/-- operation alphabet on numbered object slots -/
inductive Op (α : Type) where
  | ctor (s : Nat)
  | ctorN (s n : Nat)
  | ctorV (s : Nat) (vs : List α)
  | copy (d s : Nat)
  | assign (d s : Nat)
  | push (s : Nat) (v : α)
  | pushAt (s i : Nat)           -- `x.push_back(x[i])`: argument aliases the container
  | resize (s n : Nat)
  | write (s i : Nat) (v : α)
  | read (s i : Nat)
  | destroy (s : Nat)
  deriving Repr

/-- the slot an operation acts on -/
def Op.target : Op α → Nat
  | .ctor s | .ctorN s _ | .ctorV s _ | .copy s _ | .assign s _ | .push s _ | .pushAt s _
  | .resize s _ | .write s _ _ | .read s _ | .destroy s => s

/-- per-object semantics of one container kind -/
structure Impl (σ α : Type) where
  mkDefault : Ledger → σ × Ledger
  mkSized : Nat → Ledger → σ × Ledger
  mkVariadic : List α → Ledger → σ × Ledger
  mkCopy : σ → Ledger → σ × Ledger
  /-- `dst = src` for two distinct objects -/
  assign : σ → σ → Ledger → σ × Ledger
  /-- `x = x` -/
  assignSelf : σ → Ledger → σ × Ledger
  push : σ → α → Ledger → σ × Ledger
  pushAt : σ → Nat → Ledger → σ × Ledger
  resize : σ → Nat → Ledger → σ × Ledger
  write : σ → Nat → α → Ledger → σ × Ledger
  read : σ → Nat → Ledger → Cell α × Ledger
  destroy : σ → Ledger → Ledger
  size : σ → Nat
  /-- what the client sees: elements `0 … size-1` -/
  view : σ → List (Cell α)

structure World (σ : Type) where
  objs : Nat → Option σ
  led : Ledger

def World.empty : World σ := { objs := fun _ => none, led := {} }

def World.put (w : World σ) (k : Nat) (x : Option σ) (L : Ledger) : World σ :=
  { objs := fun j => if j = k then x else w.objs j, led := L }

/-- one operation; operations a client may not perform (constructing into a live slot, using a dead one,
    element index ≥ size()) are skipped -/
def step (I : Impl σ α) (w : World σ) (op : Op α) : World σ :=
  match op with
  | .ctor s =>
    match w.objs s with
    | none => let r := I.mkDefault w.led; w.put s (some r.1) r.2
    | some _ => w
  | .ctorN s n =>
    match w.objs s with
    | none => let r := I.mkSized n w.led; w.put s (some r.1) r.2
    | some _ => w
  | .ctorV s vs =>
    match w.objs s with
    | none => let r := I.mkVariadic vs w.led; w.put s (some r.1) r.2
    | some _ => w
  | .copy d s =>
    match w.objs d, w.objs s with
    | none, some x => let r := I.mkCopy x w.led; w.put d (some r.1) r.2
    | _, _ => w
  | .assign d s =>
    match w.objs d, w.objs s with
    | some x, some y =>
      let r := if d = s then I.assignSelf x w.led else I.assign x y w.led
      w.put d (some r.1) r.2
    | _, _ => w
  | .push s v =>
    match w.objs s with
    | some x => let r := I.push x v w.led; w.put s (some r.1) r.2
    | none => w
  | .pushAt s i =>
    match w.objs s with
    | some x => if i < I.size x then let r := I.pushAt x i w.led; w.put s (some r.1) r.2 else w
    | none => w
  | .resize s n =>
    match w.objs s with
    | some x => let r := I.resize x n w.led; w.put s (some r.1) r.2
    | none => w
  | .write s i v =>
    match w.objs s with
    | some x => if i < I.size x then let r := I.write x i v w.led; w.put s (some r.1) r.2 else w
    | none => w
  | .read s i =>
    match w.objs s with
    | some x => if i < I.size x then { w with led := (I.read x i w.led).2 } else w
    | none => w
  | .destroy s =>
    match w.objs s with
    | some x => w.put s none (I.destroy x w.led)
    | none => w

def run (I : Impl σ α) (w : World σ) : List (Op α) → World σ
  | [] => w
  | op :: h => run I (step I w op) h

theorem run_append (I : Impl σ α) (w : World σ) (h₁ h₂ : List (Op α)) :
    run I w (h₁ ++ h₂) = run I (run I w h₁) h₂ := by
  induction h₁ generalizing w with
  | nil => rfl
  | cons op h ih => simp [run, ih]

/-- relation between optional objects of two semantics -/
def ORel (R : σ → τ → Prop) : Option σ → Option τ → Prop
  | none, none => True
  | some x, some y => R x y
  | _, _ => False

def WRel (R : σ → τ → Prop) (w : World σ) (v : World τ) : Prop := ∀ k, ORel R (w.objs k) (v.objs k)

/-- a history all of whose operations satisfy `ok`, which may look at the reference-side state of the
    operation's target slot (before the operation) -/
def AllOk (J : Impl τ α) (ok : Option τ → Op α → Prop) : World τ → List (Op α) → Prop
  | _, [] => True
  | v, op :: h => ok (v.objs op.target) op ∧ AllOk J ok (step J v op) h

/-- per-operation simulation obligations between semantics `I` (implementation side) and `J` (reference side) -/
structure Sim (I : Impl σ α) (J : Impl τ α) (R : σ → τ → Prop) (ok : Option τ → Op α → Prop) : Prop where
  size_eq : ∀ x y, R x y → I.size x = J.size y
  mkDefault : ∀ s L M, ok none (.ctor s) → R (I.mkDefault L).1 (J.mkDefault M).1
  mkSized : ∀ s n L M, ok none (.ctorN s n) → R (I.mkSized n L).1 (J.mkSized n M).1
  mkVariadic : ∀ s vs L M, ok none (.ctorV s vs) → R (I.mkVariadic vs L).1 (J.mkVariadic vs M).1
  mkCopy : ∀ d s x y L M, ok none (.copy d s) → R x y → R (I.mkCopy x L).1 (J.mkCopy y M).1
  assign : ∀ d s x y x' y' L M, ok (some y) (.assign d s) → R x y → R x' y' →
    R (I.assign x x' L).1 (J.assign y y' M).1
  assignSelf : ∀ d x y L M, ok (some y) (.assign d d) → R x y → R (I.assignSelf x L).1 (J.assignSelf y M).1
  push : ∀ s a x y L M, ok (some y) (.push s a) → R x y → R (I.push x a L).1 (J.push y a M).1
  pushAt : ∀ s i x y L M, ok (some y) (.pushAt s i) → R x y → i < J.size y →
    R (I.pushAt x i L).1 (J.pushAt y i M).1
  resize : ∀ s n x y L M, ok (some y) (.resize s n) → R x y → R (I.resize x n L).1 (J.resize y n M).1
  write : ∀ s i a x y L M, ok (some y) (.write s i a) → R x y → i < J.size y →
    R (I.write x i a L).1 (J.write y i a M).1

theorem wrel_put {R : σ → τ → Prop} {w : World σ} {v : World τ} (h : WRel R w v) (k : Nat)
    {x : Option σ} {y : Option τ} (hxy : ORel R x y) (L M : Ledger) : WRel R (w.put k x L) (v.put k y M) := by
  intro j
  simp only [World.put]
  by_cases hj : j = k
  · simp [hj, hxy]
  · simp [hj, h j]

theorem wrel_put_some {R : σ → τ → Prop} {w : World σ} {v : World τ} (h : WRel R w v) (k : Nat)
    {x : σ} {y : τ} (hxy : R x y) (L M : Ledger) : WRel R (w.put k (some x) L) (v.put k (some y) M) :=
  wrel_put h k (x := some x) (y := some y) hxy L M

theorem step_sim {I : Impl σ α} {J : Impl τ α} {R : σ → τ → Prop} {ok : Option τ → Op α → Prop}
    (S : Sim I J R ok) {w : World σ} {v : World τ} (h : WRel R w v) (op : Op α)
    (hok : ok (v.objs op.target) op) : WRel R (step I w op) (step J v op) := by
  cases op with
  | ctor s =>
    have hs := h s
    simp only [step, Op.target] at hok ⊢
    cases hw : w.objs s <;> cases hv : v.objs s <;> simp only [hw, hv, ORel] at hs hok ⊢
    · exact wrel_put_some h s (S.mkDefault s _ _ hok) _ _
    · exact h
  | ctorN s n =>
    have hs := h s
    simp only [step, Op.target] at hok ⊢
    cases hw : w.objs s <;> cases hv : v.objs s <;> simp only [hw, hv, ORel] at hs hok ⊢
    · exact wrel_put_some h s (S.mkSized s n _ _ hok) _ _
    · exact h
  | ctorV s vs =>
    have hs := h s
    simp only [step, Op.target] at hok ⊢
    cases hw : w.objs s <;> cases hv : v.objs s <;> simp only [hw, hv, ORel] at hs hok ⊢
    · exact wrel_put_some h s (S.mkVariadic s vs _ _ hok) _ _
    · exact h
  | copy d s =>
    have hd := h d
    have hs := h s
    simp only [step, Op.target] at hok ⊢
    cases hwd : w.objs d <;> cases hvd : v.objs d <;> simp only [hwd, hvd, ORel] at hd hok ⊢
    · cases hws : w.objs s <;> cases hvs : v.objs s <;> simp only [hws, hvs, ORel] at hs ⊢
      · exact h
      · exact wrel_put_some h d (S.mkCopy d s _ _ _ _ hok hs) _ _
    · exact h
  | assign d s =>
    have hd := h d
    have hs := h s
    simp only [step, Op.target] at hok ⊢
    cases hwd : w.objs d <;> cases hvd : v.objs d <;> simp only [hwd, hvd, ORel] at hd hok ⊢
    · exact h
    · cases hws : w.objs s <;> cases hvs : v.objs s <;> simp only [hws, hvs, ORel] at hs ⊢
      · exact h
      · by_cases hds : d = s
        · subst hds
          simp only [if_true]
          exact wrel_put_some h d (S.assignSelf d _ _ _ _ hok hd) _ _
        · simp only [hds, if_false]
          exact wrel_put_some h d (S.assign d s _ _ _ _ _ _ hok hd hs) _ _
  | push s a =>
    have hs := h s
    simp only [step, Op.target] at hok ⊢
    cases hw : w.objs s <;> cases hv : v.objs s <;> simp only [hw, hv, ORel] at hs hok ⊢
    · exact h
    · exact wrel_put_some h s (S.push s a _ _ _ _ hok hs) _ _
  | pushAt s i =>
    have hs := h s
    simp only [step, Op.target] at hok ⊢
    cases hw : w.objs s <;> cases hv : v.objs s <;> simp only [hw, hv, ORel] at hs hok ⊢
    · exact h
    · rename_i x y
      rw [S.size_eq _ _ hs]
      by_cases hi : i < J.size y
      · simp only [hi, if_true]
        exact wrel_put_some h s (S.pushAt s i _ _ _ _ hok hs hi) _ _
      · simp only [hi, if_false]; exact h
  | resize s n =>
    have hs := h s
    simp only [step, Op.target] at hok ⊢
    cases hw : w.objs s <;> cases hv : v.objs s <;> simp only [hw, hv, ORel] at hs hok ⊢
    · exact h
    · exact wrel_put_some h s (S.resize s n _ _ _ _ hok hs) _ _
  | write s i a =>
    have hs := h s
    simp only [step, Op.target] at hok ⊢
    cases hw : w.objs s <;> cases hv : v.objs s <;> simp only [hw, hv, ORel] at hs hok ⊢
    · exact h
    · rename_i x y
      rw [S.size_eq _ _ hs]
      by_cases hi : i < J.size y
      · simp only [hi, if_true]
        exact wrel_put_some h s (S.write s i a _ _ _ _ hok hs hi) _ _
      · simp only [hi, if_false]; exact h
  | read s i =>
    have hs := h s
    simp only [step, Op.target] at hok ⊢
    cases hw : w.objs s <;> cases hv : v.objs s <;> simp only [hw, hv, ORel] at hs hok ⊢
    · exact h
    · rename_i x y
      rw [S.size_eq _ _ hs]
      by_cases hi : i < J.size y
      · simp only [hi, if_true]; exact h
      · simp only [hi, if_false]; exact h
  | destroy s =>
    have hs := h s
    simp only [step, Op.target] at hok ⊢
    cases hw : w.objs s <;> cases hv : v.objs s <;> simp only [hw, hv, ORel] at hs hok ⊢
    · exact h
    · exact wrel_put h s (by simp [ORel]) _ _

/-- a simulation of single operations extends to every history (induction over `List Op`) -/
theorem run_sim {I : Impl σ α} {J : Impl τ α} {R : σ → τ → Prop} {ok : Option τ → Op α → Prop}
    (S : Sim I J R ok) (h : List (Op α)) {w : World σ} {v : World τ} (hr : WRel R w v)
    (hok : AllOk J ok v h) : WRel R (run I w h) (run J v h) := by
  induction h generalizing w v with
  | nil => exact hr
  | cons op h ih =>
    simp only [run]
    exact ih (step_sim S hr op hok.1) hok.2

/-- a state-independent condition on every operation of the history gives `AllOk` -/
theorem allOk_of_forall (J : Impl τ α) (ok : Option τ → Op α → Prop) (h : List (Op α))
    (hh : ∀ op ∈ h, ∀ st, ok st op) (v : World τ) : AllOk J ok v h := by
  induction h generalizing v with
  | nil => trivial
  | cons op h ih =>
    exact ⟨hh op List.mem_cons_self _, ih (fun o ho => hh o (List.mem_cons_of_mem _ ho)) _⟩

theorem wrel_empty (R : σ → τ → Prop) : WRel R (World.empty : World σ) (World.empty : World τ) := by
  intro k; simp [World.empty, ORel]

/-- frame: an operation leaves every slot other than its target untouched -/
theorem step_frame (I : Impl σ α) (w : World σ) (op : Op α) (k : Nat) (hk : op.target ≠ k) :
    (step I w op).objs k = w.objs k := by
  have hk' : ¬ k = op.target := fun e => hk e.symm
  cases op <;> simp only [step, Op.target] at hk' ⊢ <;> (repeat' split) <;> simp [World.put, hk']

theorem run_frame (I : Impl σ α) (w : World σ) (h : List (Op α)) (k : Nat) (hk : ∀ op ∈ h, op.target ≠ k) :
    (run I w h).objs k = w.objs k := by
  induction h generalizing w with
  | nil => rfl
  | cons op h ih =>
    simp only [run]
    rw [ih _ (fun o ho => hk o (List.mem_cons_of_mem _ ho))]
    exact step_frame I w op k (hk op List.mem_cons_self)

end NmVerif.Containers

namespace NmVerif.Containers

/-- per-operation obligations for an object invariant `P` and a ledger invariant `Q` on histories whose
    operations satisfy `ok` -/
structure Pres (I : Impl σ α) (P : σ → Prop) (Q : Ledger → Prop) (ok : Op α → Prop) : Prop where
  mkDefault : ∀ s L, ok (.ctor s) → Q L → P (I.mkDefault L).1 ∧ Q (I.mkDefault L).2
  mkSized : ∀ s n L, ok (.ctorN s n) → Q L → P (I.mkSized n L).1 ∧ Q (I.mkSized n L).2
  mkVariadic : ∀ s vs L, ok (.ctorV s vs) → Q L → P (I.mkVariadic vs L).1 ∧ Q (I.mkVariadic vs L).2
  mkCopy : ∀ d s x L, ok (.copy d s) → P x → Q L → P (I.mkCopy x L).1 ∧ Q (I.mkCopy x L).2
  assign : ∀ d s x y L, ok (.assign d s) → P x → P y → Q L → P (I.assign x y L).1 ∧ Q (I.assign x y L).2
  assignSelf : ∀ d x L, ok (.assign d d) → P x → Q L → P (I.assignSelf x L).1 ∧ Q (I.assignSelf x L).2
  push : ∀ s a x L, ok (.push s a) → P x → Q L → P (I.push x a L).1 ∧ Q (I.push x a L).2
  pushAt : ∀ s i x L, ok (.pushAt s i) → P x → Q L → i < I.size x → P (I.pushAt x i L).1 ∧ Q (I.pushAt x i L).2
  resize : ∀ s n x L, ok (.resize s n) → P x → Q L → P (I.resize x n L).1 ∧ Q (I.resize x n L).2
  write : ∀ s i a x L, ok (.write s i a) → P x → Q L → i < I.size x → P (I.write x i a L).1 ∧ Q (I.write x i a L).2
  read : ∀ s i x L, ok (.read s i) → P x → Q L → i < I.size x → Q (I.read x i L).2
  destroy : ∀ s x L, ok (.destroy s) → P x → Q L → Q (I.destroy x L)

def WInv (P : σ → Prop) (Q : Ledger → Prop) (w : World σ) : Prop := (∀ k x, w.objs k = some x → P x) ∧ Q w.led

theorem winv_put {P : σ → Prop} {Q : Ledger → Prop} {w : World σ} (h : WInv P Q w) (k : Nat) (x : σ) (L : Ledger)
    (hx : P x ∧ Q L) : WInv P Q (w.put k (some x) L) := by
  refine ⟨?_, hx.2⟩
  intro j y hy
  simp only [World.put] at hy
  by_cases hj : j = k
  · simp [hj] at hy; subst hy; exact hx.1
  · simp [hj] at hy; exact h.1 j y hy

theorem step_pres {I : Impl σ α} {P : σ → Prop} {Q : Ledger → Prop} {ok : Op α → Prop} (S : Pres I P Q ok)
    {w : World σ} (h : WInv P Q w) (op : Op α) (hok : ok op) : WInv P Q (step I w op) := by
  cases op with
  | ctor s =>
    simp only [step]
    cases hx : w.objs s with
    | some x => exact h
    | none => exact winv_put h s _ _ (S.mkDefault s _ hok h.2)
  | ctorN s n =>
    simp only [step]
    cases hx : w.objs s with
    | some x => exact h
    | none => exact winv_put h s _ _ (S.mkSized s n _ hok h.2)
  | ctorV s vs =>
    simp only [step]
    cases hx : w.objs s with
    | some x => exact h
    | none => exact winv_put h s _ _ (S.mkVariadic s vs _ hok h.2)
  | copy d s =>
    simp only [step]
    cases hd : w.objs d with
    | some x => exact h
    | none =>
      cases hs : w.objs s with
      | none => exact h
      | some y => exact winv_put h d _ _ (S.mkCopy d s y _ hok (h.1 s y hs) h.2)
  | assign d s =>
    simp only [step]
    cases hd : w.objs d with
    | none => exact h
    | some x =>
      cases hs : w.objs s with
      | none => exact h
      | some y =>
        by_cases hds : d = s
        · subst hds
          simp only [if_true]
          exact winv_put h d _ _ (S.assignSelf d x _ hok (h.1 d x hd) h.2)
        · simp only [hds, if_false]
          exact winv_put h d _ _ (S.assign d s x y _ hok (h.1 d x hd) (h.1 s y hs) h.2)
  | push s a =>
    simp only [step]
    cases hx : w.objs s with
    | none => exact h
    | some x => exact winv_put h s _ _ (S.push s a x _ hok (h.1 s x hx) h.2)
  | pushAt s i =>
    simp only [step]
    cases hx : w.objs s with
    | none => exact h
    | some x =>
      by_cases hi : i < I.size x
      · simp only [hi, if_true]; exact winv_put h s _ _ (S.pushAt s i x _ hok (h.1 s x hx) h.2 hi)
      · simp only [hi, if_false]; exact h
  | resize s n =>
    simp only [step]
    cases hx : w.objs s with
    | none => exact h
    | some x => exact winv_put h s _ _ (S.resize s n x _ hok (h.1 s x hx) h.2)
  | write s i a =>
    simp only [step]
    cases hx : w.objs s with
    | none => exact h
    | some x =>
      by_cases hi : i < I.size x
      · simp only [hi, if_true]; exact winv_put h s _ _ (S.write s i a x _ hok (h.1 s x hx) h.2 hi)
      · simp only [hi, if_false]; exact h
  | read s i =>
    simp only [step]
    cases hx : w.objs s with
    | none => exact h
    | some x =>
      by_cases hi : i < I.size x
      · simp only [hi, if_true]; exact ⟨h.1, S.read s i x _ hok (h.1 s x hx) h.2 hi⟩
      · simp only [hi, if_false]; exact h
  | destroy s =>
    simp only [step]
    cases hx : w.objs s with
    | none => exact h
    | some x =>
      refine ⟨?_, S.destroy s x _ hok (h.1 s x hx) h.2⟩
      intro j y hy
      simp only [World.put] at hy
      by_cases hj : j = s
      · simp [hj] at hy
      · simp [hj] at hy; exact h.1 j y hy

theorem run_pres {I : Impl σ α} {P : σ → Prop} {Q : Ledger → Prop} {ok : Op α → Prop} (S : Pres I P Q ok)
    (h : List (Op α)) {w : World σ} (hw : WInv P Q w) (hok : ∀ op ∈ h, ok op) : WInv P Q (run I w h) := by
  induction h generalizing w with
  | nil => exact hw
  | cons op h ih =>
    simp only [run]
    exact ih (step_pres S hw op (hok op List.mem_cons_self)) (fun o ho => hok o (List.mem_cons_of_mem _ ho))

end NmVerif.Containers

namespace NmVerif.Containers
/-- the client-side validity test `step` applies (for the driver's trace: skipped operations are marked) -/
def Op.valid (I : Impl σ α) (w : World σ) : Op α → Bool
  | .ctor s | .ctorN s _ | .ctorV s _ => (w.objs s).isNone
  | .copy d s => (w.objs d).isNone && (w.objs s).isSome
  | .assign d s => (w.objs d).isSome && (w.objs s).isSome
  | .push s _ | .resize s _ | .destroy s => (w.objs s).isSome
  | .pushAt s i | .write s i _ | .read s i =>
    match w.objs s with
    | some x => decide (i < I.size x)
    | none => false
end NmVerif.Containers
