import NmVerif.Proto
import NmVerif.Kernel
namespace NmVerif.Driver.C13
open NmVerif NmVerif.Proto NmVerif.Kernel

/-- row-major array denotation of a flat list (the host result handed to the model) -/
def arrOfFlat (shape : Shape) (flat : List Int) : Arr Int :=
  ⟨shape, fun i => flat.getD (computeOffset i (strides shape)) 0⟩

def pairs (ll : List (List Nat)) : Option (List (Nat × Nat)) :=
  ll.mapM fun l => match l with | [t, b] => some (t, b) | _ => none

def handle : Handler := fun op a =>
  match op with
  | "c13_kern" => orBad do
      -- model of one launch: shape = output shape, res = flattened host result, init = sentinel in the output buffer
      let shape ← a.nats "shape"
      let res ← a.ints "res"
      let init ← a.int "init"
      let bsz ← a.nat "bsz"
      let sched ← (a.natLists "sched").bind pairs
      let out0 ← createMutableArray (List.replicate (prod shape) init) shape shape.length
      match runSchedule (arrOfFlat shape res) bsz out0 sched with
      | some o =>
        let eq := decide (o.data = res)
        pure s!"ok shape={fmtNats shape} out={fmtInts o.data} hosteq={if eq then 1 else 0}"
      | none => pure "ub"
  | "c13_mkarr" => orBad do
      -- create_array / create_mutable_array from a raw triple; elements listed in row-major index order
      let data ← a.ints "data"
      let sp ← a.nats "shapeptr"
      let dim ← a.nat "dim"
      let mode := (a.get? "mode").getD "ref"
      if mode == "ref" then
        match createArray data sp dim with
        | none => pure "ub"
        | some v =>
          match (allIdx v.shape).mapM v.get? with
          | some els => pure s!"ok shape={fmtNats v.shape} data={fmtInts els}"
          | none => pure "oob"
      else
        match createMutableArray data sp dim with
        | none => pure "ub"
        | some v =>
          match (allIdx v.shape).mapM v.get? with
          | some els => pure s!"ok shape={fmtNats v.shape} data={fmtInts els}"
          | none => pure "oob"
  | "c13_upload" => orBad do
      -- the operand a CUDA / HIP kernel receives for a host array whose element at row-major position k is k
      let shape ← a.nats "shape"
      let col := (a.get? "layout").getD "row" == "col"
      let host : NDA Int := NDA.ofFn col shape (fun i => (computeOffset i (strides shape) : Nat))
      match deviceOperand host with
      | none => pure "ub"
      | some d =>
        match (allIdx d.shape).mapM d.get? with
        | some els => pure s!"ok shape={fmtNats d.shape} data={fmtInts els} buffer={fmtInts d.data}"
        | none => pure "oob"
  | "c13_koff" => orBad do
      let t ← a.nat "tid"
      let b ← a.nat "bid"
      let bsz ← a.nat "bsz"
      pure s!"ok {threadOffset bsz (t, b)}"
  | _ => none

end NmVerif.Driver.C13
