import NmVerif.Proto
import NmVerif.Containers.Core
import NmVerif.Containers.Spec
import NmVerif.Containers.Vector
import NmVerif.Containers.StaticVector
/-
  Driver for C19: `hist kind=<vec|…> elem=<int|double> ops=<op>;<op>;…` runs the history on the MODEL and prints,
  after every operation, the client-visible state of slots 0 and 1 (spec part), the internal state
  (capacity, cells beyond size, ledger counters) and, at the end — after destroying what is still alive —
  the ledger balance.   `ok S1|S2|… # I1|I2|… # leak=n`
-/
namespace NmVerif.Driver.C19
open NmVerif NmVerif.Proto NmVerif.Containers

def parseOp (s : String) : Option (Op Int) :=
  match s.splitOn ":" with
  | ["ctor", a] => do pure (.ctor (← a.toNat?))
  | ["ctorN", a, n] => do pure (.ctorN (← a.toNat?) (← n.toNat?))
  | "ctorV" :: a :: vs => do pure (.ctorV (← a.toNat?) (← vs.mapM (·.toInt?)))
  | ["copy", d, a] => do pure (.copy (← d.toNat?) (← a.toNat?))
  | ["assign", d, a] => do pure (.assign (← d.toNat?) (← a.toNat?))
  | ["push", a, v] => do pure (.push (← a.toNat?) (← v.toInt?))
  | ["pushAt", a, i] => do pure (.pushAt (← a.toNat?) (← i.toNat?))
  | ["resize", a, n] => do pure (.resize (← a.toNat?) (← n.toNat?))
  | ["write", a, i, v] => do pure (.write (← a.toNat?) (← i.toNat?) (← v.toInt?))
  | ["read", a, i] => do pure (.read (← a.toNat?) (← i.toNat?))
  | ["destroy", a] => do pure (.destroy (← a.toNat?))
  | _ => none

def parseOps (s : String) : Option (List (Op Int)) :=
  if s == "[]" || s == "" then some [] else (s.splitOn ";").mapM parseOp

def fmtCell : Cell Int → String
  | some v => toString v
  | none => "u"

def fmtCells (l : List (Cell Int)) : String := ",".intercalate (l.map fmtCell)

def nSlots : Nat := 2

/-- spec part of one step -/
def fmtObjs (I : Impl σ Int) (w : World σ) : String :=
  "/".intercalate ((List.range nSlots).map fun k =>
    match w.objs k with
    | none => "-"
    | some x => s!"{I.size x}:{fmtCells (I.view x)}")

def fmtInternals (intern : σ → String) (w : World σ) : String :=
  "/".intercalate ((List.range nSlots).map fun k =>
    match w.objs k with
    | none => "-"
    | some x => intern x) ++ s!";a={w.led.allocs},f={w.led.freed.length}"

/-- value a `read` returns -/
def readNote (I : Impl σ Int) (w : World σ) : Op Int → String
  | .read s i =>
    match w.objs s with
    | some x => " r=" ++ fmtCell (I.read x i w.led).1
    | none => ""
  | _ => ""

def trace (I : Impl σ Int) (intern : σ → String) (ops : List (Op Int)) : String :=
  let rec go (w : World σ) (ops : List (Op Int)) (accS accI : List String) : World σ × List String × List String :=
    match ops with
    | [] => (w, accS.reverse, accI.reverse)
    | op :: rest =>
      let valid := Op.valid I w op
      let w' := step I w op
      let s := fmtObjs I w' ++ (if valid then readNote I w op else "!")
      go w' rest (s :: accS) (fmtInternals intern w' :: accI)
  let (w, ss, is) := go World.empty ops [] []
  -- end of history: destroy what is still alive
  let wEnd := run I w ((List.range nSlots).map Op.destroy)
  let L := wEnd.led
  let badFree := L.freed.length - L.freed.eraseDups.length + (L.freed.filter (fun b => decide (L.allocs ≤ b))).length
  let badLife := (L.events.filter (fun e => e == .uninitAssign || e == .overLive || e == .destroyDead)).length
  let fin := s!"leak={(L.allocs : Int) - L.freed.length} live={(L.ctors : Int) - L.dtors} bad={badFree + badLife}"
  s!"ok {"|".intercalate ss} # {"|".intercalate is} # {fin}"

def vecIntern (v : Vec Int) : String := s!"{v.cap}:{fmtCells (v.cells.drop v.size)}"

def svecIntern (c : Nat) (v : SVec Int) : String := s!"{c}:{fmtCells (v.cells.drop v.size)}"
def arrIntern (c : Nat) (_ : SVec Int) : String := s!"{c}:"

def handle : Handler := fun op a =>
  match op with
  | "hist" => orBad do
      let kind ← a.get? "kind"
      let ops ← (a.get? "ops").bind parseOps
      match kind with
      | "vec" => pure (trace (vecImpl Int) vecIntern ops)
      | "svec" => pure (trace (svecImpl 4 (0 : Int)) (svecIntern 4) ops)
      | "arr" => pure (trace (arrImpl 3 (0 : Int)) (arrIntern 3) ops)
      | _ => none
  | _ => none

end NmVerif.Driver.C19
