import NmVerif.Containers.Core
import NmVerif.Containers.Spec
import NmVerif.Containers.Vector
import NmVerif.Containers.VectorProofs
import NmVerif.Containers.VectorLedger
import NmVerif.Containers.StaticVector
import NmVerif.Containers.StaticVectorProofs
import NmVerif.Containers.SmallVector
import NmVerif.Containers.SmallVectorProofs
import NmVerif.Containers.Either
import NmVerif.Containers.EitherProofs
import NmVerif.Containers.EitherLifetime
import NmVerif.Containers.LedgerSim
import NmVerif.Containers.SmallVectorLedger
import NmVerif.Containers.SmallVectorFree
/-
  C19 — The STL-free containers behave like their standard counterparts over any history.
  Property statements only (+ non-vacuity examples, counterexample theorems for the defects of the unchanged tree).
  Histories are `List (Op α)` over any number of object slots, starting from the empty world.
-/
namespace NmVerif.Props.C19
open NmVerif NmVerif.Containers

/-! ### generic: copies are independent of their source -/

/-- after `copy d s`, whatever is done to the source or to any other object, the copy stays what the copy
    constructor built (for every container semantics) -/
theorem copy_independent (I : Impl σ α) (w : World σ) (d s : Nat) (x : σ) (hd : w.objs d = none)
    (hs : w.objs s = some x) (h : List (Op α)) (hh : ∀ op ∈ h, op.target ≠ d) :
    (run I (step I w (.copy d s)) h).objs d = some (I.mkCopy x w.led).1 := by
  rw [run_frame I _ h d hh]
  simp [step, hd, hs, World.put]

/-- … and mutating the copy never changes the source -/
theorem copy_source_untouched (I : Impl σ α) (w : World σ) (d s : Nat) (hds : d ≠ s)
    (h : List (Op α)) (hh : ∀ op ∈ h, op.target = d) :
    (run I (step I w (.copy d s)) h).objs s = w.objs s := by
  rw [run_frame I _ h s (fun op ho => by rw [hh op ho]; exact hds)]
  exact step_frame I w _ s (by simpa [Op.target] using hds)

/-! ### utl::vector (after the `fix:` commits: value-initialising resize / sized ctor, unconditional free,
       push_back copying its argument first) -/

/-- `utl::vector` holds exactly what `std::vector` holds — liveness of every slot, sizes, every element — after
    EVERY history over the whole alphabet (sized construction, growing resizes and `push_back(x[i])` included). -/
theorem vector_refines_list (zero : α) (h : List (Op α)) :
    WRel RVec (run (vecImpl zero) World.empty h) (run (stdSpec zero) World.empty h) :=
  run_sim (vec_sim zero) h (wrel_empty _) (allOk_of_forall _ _ h (fun _ _ _ => trivial) _)

/-- the same, read off slot by slot: client-visible elements `0 … size-1` equal the list -/
theorem vector_view_eq (zero : α) (h : List (Op α)) (k : Nat) :
    ((run (vecImpl zero) World.empty h).objs k).map Vec.view
      = ((run (stdSpec zero) World.empty h).objs k).map (fun l => l.map some) := by
  have := vector_refines_list zero h k
  cases h1 : (run (vecImpl zero) World.empty h).objs k <;> cases h2 : (run (stdSpec zero) World.empty h).objs k <;>
    simp only [h1, h2, ORel] at this ⊢
  · rfl
  · simp [this.2]

def viewOf (w : World (Vec Int)) (k : Nat) : Option (List (Cell Int)) := (w.objs k).map Vec.view
def specOf (w : World (List Int)) (k : Nat) : Option (List (Cell Int)) := (w.objs k).map (fun l => l.map some)

/-- regression instances of the repaired defects: shrink-then-grow, `vector(3)`, `x.push_back(x[0])` on a full vector -/
example :
    viewOf (run (vecImpl (0 : Int)) World.empty [.ctor 0, .push 0 1, .push 0 2, .push 0 3, .resize 0 1, .resize 0 3]) 0
      = some [some 1, some 0, some 0] ∧
    viewOf (run (vecImpl (0 : Int)) World.empty [.ctorN 0 3]) 0 = some [some 0, some 0, some 0] ∧
    viewOf (run (vecImpl (0 : Int)) World.empty [.ctor 0, .push 0 10, .push 0 11, .push 0 12, .push 0 13, .pushAt 0 0]) 0
      = some [some 10, some 11, some 12, some 13, some 10] := by decide

/-- `x = x` changes neither any object nor the ledger, in every reachable state -/
theorem self_assign_noop (zero : α) (h : List (Op α)) (s : Nat) :
    (∀ k, (step (vecImpl zero) (run (vecImpl zero) World.empty h) (.assign s s)).objs k
            = (run (vecImpl zero) World.empty h).objs k) ∧
    (step (vecImpl zero) (run (vecImpl zero) World.empty h) (.assign s s)).led = (run (vecImpl zero) World.empty h).led := by
  have hw := run_linv zero h LInv.empty
  generalize run (vecImpl zero) World.empty h = w at hw ⊢
  simp only [step]
  cases hx : w.objs s with
  | none => simp
  | some x =>
    simp only [if_true, vecImpl, Vec.assignSelf_eq zero x w.led (hw.objInv s x hx), World.put]
    refine ⟨?_, trivial⟩
    intro k
    by_cases hk : k = s
    · simp [hk, hx]
    · simp [hk]

/-- nothing is freed twice and only blocks that were handed out are freed — every history -/
theorem no_double_free (zero : α) (h : List (Op α)) :
    (run (vecImpl zero) World.empty h).led.freed.Nodup ∧
    ∀ b ∈ (run (vecImpl zero) World.empty h).led.freed, b < (run (vecImpl zero) World.empty h).led.allocs :=
  let hw := run_linv zero h LInv.empty
  ⟨hw.freedNodup, hw.freedLt⟩

/-- no buffer cell outside the allocated block is touched, no freed block is read — every history -/
theorem no_oob (zero : α) (h : List (Op α)) :
    (run (vecImpl zero) World.empty h).led.events = [] :=
  (run_linv zero h LInv.empty).noEvents

/-- live objects never share a block -/
theorem no_shared_block (zero : α) (h : List (Op α)) (k1 k2 : Nat) (x1 x2 : Vec α) (p : Nat)
    (hne : k1 ≠ k2) (h1 : (run (vecImpl zero) World.empty h).objs k1 = some x1)
    (h2 : (run (vecImpl zero) World.empty h).objs k2 = some x2) (hp : x1.blk = some p) : x2.blk ≠ some p :=
  (run_linv zero h LInv.empty).distinct k1 k2 x1 x2 p hne h1 h2 hp

/-- after destroying all objects every block handed out has been freed exactly once — every history
    (`vector(0)` included) -/
theorem no_leak (zero : α) (h : List (Op α))
    (hdead : ∀ k, (run (vecImpl zero) World.empty h).objs k = none) :
    (run (vecImpl zero) World.empty h).led.lost = [] ∧
    (∀ b, b < (run (vecImpl zero) World.empty h).led.allocs ↔ b ∈ (run (vecImpl zero) World.empty h).led.freed) ∧
    (run (vecImpl zero) World.empty h).led.freed.Nodup ∧
    (run (vecImpl zero) World.empty h).led.freed.length = (run (vecImpl zero) World.empty h).led.allocs := by
  have hw := run_linv zero h LInv.empty
  generalize run (vecImpl zero) World.empty h = w at hw hdead ⊢
  have hiff : ∀ b, b < w.led.allocs ↔ b ∈ w.led.freed := by
    intro b
    constructor
    · intro hb
      rcases hw.accounted b hb with h | ⟨k, x, hx, _⟩
      · exact h
      · rw [hdead k] at hx; cases hx
    · exact hw.freedLt b
  refine ⟨hw.lostNil, hiff, hw.freedNodup, ?_⟩
  have : w.led.freed.Perm (List.range w.led.allocs) :=
    (List.perm_ext_iff_of_nodup hw.freedNodup List.nodup_range).mpr (by intro a; simp [← hiff])
  simpa using this.length_eq

example : (run (vecImpl (0 : Int)) World.empty [.ctorN 0 0, .destroy 0]).led.freed = [0] := by decide

/-! ### utl::static_vector, utl::array -/

/-- `static_vector<T,c>` holds exactly what a vector bounded by capacity `c` holds (operations that do not fit are
    refused, contents unchanged) after EVERY history; the only guard is that a variadic construction has at most
    `c` arguments (more do not compile) (`svecOk`) -/
theorem staticVector_refines (c : Nat) (zero : α) (h : List (Op α))
    (hok : ∀ op ∈ h, ∀ s vs, op = .ctorV s vs → vs.length ≤ c) :
    WRel (RSVec c) (run (svecImpl c zero) World.empty h) (run (boundedSpec c zero) World.empty h) :=
  run_sim (svec_sim c zero) h (wrel_empty _) (allOk_of_forall _ _ h (by
    intro op hop st
    cases op <;> simp only [svecOk]
    exact hok _ hop _ _ rfl) _)

/-- regression instances: `static_vector<int,4>(7)` is refused, shrink-then-grow value-initialises -/
example :
    ((run (svecImpl 4 (0 : Int)) World.empty [.ctorN 0 7]).objs 0).map (fun x => (x.size, x.view)) = some (0, []) ∧
    ((run (svecImpl 4 (0 : Int)) World.empty [.ctor 0, .push 0 1, .push 0 2, .push 0 3, .resize 0 1, .resize 0 3]).objs 0).map
      (fun x => (x.size, x.view)) = some (3, [some 1, some 0, some 0]) := by decide

/-- no element access leaves the fixed buffer and the heap is never used — every history (variadic constructions
    with at most `c` arguments) -/
theorem staticVector_no_oob (c : Nat) (zero : α) (h : List (Op α)) (hok : ∀ op ∈ h, svecSafeOk c op) :
    (run (svecImpl c zero) World.empty h).led.Untouched ∧
    ∀ k x, (run (svecImpl c zero) World.empty h).objs k = some x → x.cells.length = c ∧ x.size ≤ c :=
  let hw := run_pres (svec_pres c zero) h (w := World.empty) ⟨by simp [World.empty], by simp [World.empty, Ledger.Untouched]⟩ hok
  ⟨hw.2, hw.1⟩

/-- `utl::array<T,n>` is `std::array<T,n>` after every history (no excluded operation) -/
theorem array_refines (n : Nat) (zero : α) (h : List (Op α)) :
    WRel (RArr n) (run (arrImpl n zero) World.empty h) (run (arraySpec n zero) World.empty h) :=
  run_sim (arr_sim n zero) h (wrel_empty _) (allOk_of_forall _ _ h (fun _ _ _ => trivial) _)

/-! ### utl::tuple / utl::tuplev2 — any arity (utl::tuple is implemented for 1 … 12 components, tuple.hpp:29-371) -/

/-- a tuple of `n` components (heterogeneous in C++; the model is parametric in the payload, every component carries
    its own) holds what `std::tuple` — a list of fixed length `n` — holds after EVERY history over
    {default / element-wise construction, copy, assign(other|self), `get<I>(t) = v`, `get<I>(t)`, destroy}, for
    every arity `n` -/
theorem tuple_refines (n : Nat) (zero : α) (h : List (Op α)) :
    WRel (RArr n) (run (arrImpl n zero) World.empty h) (run (arraySpec n zero) World.empty h) :=
  array_refines n zero h

/-- components are independent, in every reachable state: `get<i>(t) = a` replaces component `i` of that tuple,
    keeps its other components and leaves every other object alone -/
theorem tuple_set_component (n : Nat) (zero : α) (h : List (Op α)) (s i : Nat) (a : α) (x : SVec α)
    (hx : (run (arrImpl n zero) World.empty h).objs s = some x) (hi : i < n) :
    x.view.length = n ∧
    (∃ y, (step (arrImpl n zero) (run (arrImpl n zero) World.empty h) (.write s i a)).objs s = some y ∧
          y.view = x.view.set i (some a)) ∧
    ∀ k, k ≠ s → (step (arrImpl n zero) (run (arrImpl n zero) World.empty h) (.write s i a)).objs k
                  = (run (arrImpl n zero) World.empty h).objs k := by
  have hr := tuple_refines n zero h s
  rw [hx] at hr
  cases hy : (run (arraySpec n zero) World.empty h).objs s <;> simp only [hy, ORel] at hr
  rename_i l
  have hlen : x.cells.length = n := by rw [hr.cells]; simpa using hr.len
  have hsz : (arrImpl n zero).size x = n := hr.size
  refine ⟨by simp [SVec.view, List.length_take, hlen, hr.size], ?_, ?_⟩
  · refine ⟨(SVec.write x i a (run (arrImpl n zero) World.empty h).led).1, ?_, ?_⟩
    · have hi' : i < (arrImpl n zero).size x := by rw [hsz]; exact hi
      simp only [step, hx, hi', if_true, World.put]
      rfl
    · have hil : i < x.cells.length := by omega
      simp [SVec.write, SVec.store, hil, SVec.view, List.take_set]
  · intro k hk
    exact step_frame _ _ _ k (by simpa [Op.target] using fun e => hk e.symm)

/-- a 5-tuple: element-wise construction, copy, component writes on both, assignment back -/
example :
    let w := run (arrImpl 5 (0 : Int)) World.empty
      [.ctorV 0 [1, 2, 3, 4, 5], .copy 1 0, .write 0 2 77, .write 1 4 9, .assign 0 1]
    (w.objs 0).map SVec.view = some [some 1, some 2, some 3, some 4, some 9] ∧
    (w.objs 1).map SVec.view = some [some 1, some 2, some 3, some 4, some 9] := by decide

/-! ### nmtools::small_vector over utl::either<utl::static_vector, utl::vector> -/

/-- `small_vector<T,c>` holds exactly what `std::vector` holds — in static mode, in heap mode and across the switch at
    `c` — after EVERY history over the whole alphabet {ctor, ctorN, ctorV, copy, assign, push, pushAt = push_back(x[i]),
    resize, write, read, destroy} (after the `fix:` commits C19-either-maybe-lifetime and C19-small-vector-alias-push
    no operation is excluded) -/
theorem smallVector_refines (c : Nat) (zero : α) (h : List (Op α)) :
    WRel (RSmall c) (run (smallImpl c zero) World.empty h) (run (stdSpec zero) World.empty h) :=
  run_sim (small_sim c zero) h (wrel_empty _) (allOk_of_forall _ _ h (fun _ _ _ => trivial) _)

def smviewOf (w : World (Small Int)) (k : Nat) : Option (List (Cell Int)) := (w.objs k).map Small.view

example : smviewOf (run (smallImpl 4 (0 : Int)) World.empty [.ctorN 0 5, .resize 0 2, .resize 0 6]) 0
    = some [some 0, some 0, some 0, some 0, some 0, some 0] := by decide

/-! #### small_vector: allocation ledger -/

/-- static mode never touches the heap: on every history in which all objects stay in static mode (`smallStaticOk`,
    decided on the reference run: `small_vector(n)` with `n < DIM`, at most DIM values, `resize` up to DIM, `push_back` /
    `push_back(x[i])` only below DIM elements) the ledger stays exactly the initial one — no allocation, no free, no
    dropped block, no lifetime / bounds event —, every object is in static mode and holds what `std::vector` holds -/
theorem smallVector_static_no_heap (c : Nat) (zero : α) (h : List (Op α))
    (hok : AllOk (stdSpec zero) (smallStaticOk c) World.empty h) :
    (run (smallImpl c zero) World.empty h).led = {} ∧
    (∀ k x, (run (smallImpl c zero) World.empty h).objs k = some x → x.tagS = true) ∧
    WRel (RSmall c) (run (smallImpl c zero) World.empty h) (run (stdSpec zero) World.empty h) := by
  have hr := run_ledfix (small_static_sim c zero) (small_static_fix c zero) h (wrel_empty (RStat c)) hok
  refine ⟨hr.1, ?_, fun k => ?_⟩
  · intro k x hx
    have := hr.2 k
    rw [hx] at this
    cases hy : (run (stdSpec zero) World.empty h).objs k <;> simp only [hy, ORel] at this
    exact this.1
  · have := hr.2 k
    cases hx : (run (smallImpl c zero) World.empty h).objs k <;>
      cases hy : (run (stdSpec zero) World.empty h).objs k <;> simp only [hx, hy, ORel] at this ⊢
    exact this.rsmall

example : AllOk (stdSpec (0 : Int)) (smallStaticOk 4) World.empty
    [.ctorN 0 3, .push 0 7, .pushAt 0 9, .copy 1 0, .resize 1 2, .pushAt 1 0, .assign 0 1, .ctorV 2 [1, 2, 3, 4], .resize 2 4,
     .write 2 3 5, .destroy 0] := by decide

/-- the domain is sharp: `small_vector(DIM)` already takes the heap branch (`N < DIM`, small_vector.hpp:41) -/
example : (run (smallImpl 4 (0 : Int)) World.empty [.ctorN 0 4]).led.allocs = 2 ∧
    ¬ AllOk (stdSpec (0 : Int)) (smallStaticOk 4) World.empty [.ctorN 0 4] := by decide

/-- conservation of blocks, EVERY history over the whole alphabet: the blocks handed out are exactly those freed plus
    one per live object in heap mode (`N` bounds the slots the history addresses); no block is ever dropped and no
    out-of-bounds access, read of freed memory or lifetime error is ever recorded -/
theorem smallVector_ledger_account (c : Nat) (zero : α) (h : List (Op α)) (N : Nat) (hN : ∀ op ∈ h, op.target < N) :
    (run (smallImpl c zero) World.empty h).led.allocs
      = (run (smallImpl c zero) World.empty h).led.freed.length + ownSum Small.own (run (smallImpl c zero) World.empty h) N ∧
    (run (smallImpl c zero) World.empty h).led.lost = [] ∧ (run (smallImpl c zero) World.empty h).led.events = [] := by
  have hw : WBal (Small.Inv c) Small.own N 0 (World.empty : World (Small α)) :=
    ⟨fun k x hx => by simp [World.empty] at hx, by rw [ownSum_empty]; rfl⟩
  have hb := (run_bal (small_bal c zero) h hw hN).2
  have hq := (run_pres (small_quiet c zero) h (w := World.empty)
    ⟨fun k x hx => by simp [World.empty] at hx, rfl, rfl⟩ (fun _ _ => trivial)).2
  refine ⟨?_, hq.2, hq.1⟩
  simp only [Ledger.bal, hq.2, List.length_nil] at hb
  omega

example : ownSum Small.own (run (smallImpl 4 (0 : Int)) World.empty [.ctorN 0 5, .ctor 1, .copy 2 0, .push 1 3]) 3 = 2 := by
  decide

/-- no leak: after destroying all objects every block handed out has been freed (`allocs = frees`), whatever the
    history — growth across DIM, copies and assignments between static and heap mode, `push_back(x[i])` included -/
theorem smallVector_no_leak (c : Nat) (zero : α) (h : List (Op α))
    (hdead : ∀ k, (run (smallImpl c zero) World.empty h).objs k = none) :
    (run (smallImpl c zero) World.empty h).led.allocs = (run (smallImpl c zero) World.empty h).led.freed.length ∧
    (run (smallImpl c zero) World.empty h).led.lost = [] ∧ (run (smallImpl c zero) World.empty h).led.events = [] := by
  have hN : ∀ op ∈ h, op.target < (h.map Op.target).foldr max 0 + 1 := by
    intro op hop
    have : ∀ (l : List Nat) (a : Nat), a ∈ l → a ≤ l.foldr max 0 := by
      intro l a ha
      induction l with
      | nil => cases ha
      | cons b l ih =>
        simp only [List.foldr_cons]
        rcases List.mem_cons.mp ha with e | e
        · subst e; exact Nat.le_max_left _ _
        · exact Nat.le_trans (ih e) (Nat.le_max_right _ _)
    have := this (h.map Op.target) op.target (List.mem_map_of_mem hop)
    omega
  have := smallVector_ledger_account c zero h _ hN
  rw [ownSum_dead _ _ _ hdead] at this
  exact ⟨by omega, this.2⟩

example : ∀ k, (run (smallImpl 4 (0 : Int)) World.empty [.ctorN 0 5, .copy 1 0, .destroy 0, .destroy 1]).objs k = none := by
  intro k
  by_cases h0 : k = 0 <;> by_cases h1 : k = 1 <;> simp [run, step, World.put, World.empty, h0, h1]

/-- nothing is freed twice and only blocks that were handed out are freed; a live object never holds a freed block (no
    dangling heap part) and two live objects never share a block — EVERY history over the whole alphabet -/
theorem smallVector_no_double_free (c : Nat) (zero : α) (h : List (Op α)) :
    (run (smallImpl c zero) World.empty h).led.freed.Nodup ∧
    (∀ b ∈ (run (smallImpl c zero) World.empty h).led.freed, b < (run (smallImpl c zero) World.empty h).led.allocs) ∧
    (∀ k x p, (run (smallImpl c zero) World.empty h).objs k = some x → Small.blk x = some p →
      p < (run (smallImpl c zero) World.empty h).led.allocs ∧ p ∉ (run (smallImpl c zero) World.empty h).led.freed) ∧
    (∀ k1 k2 x1 x2 p, k1 ≠ k2 → (run (smallImpl c zero) World.empty h).objs k1 = some x1 →
      (run (smallImpl c zero) World.empty h).objs k2 = some x2 → Small.blk x1 = some p → Small.blk x2 ≠ some p) :=
  let hw := small_run_linvg c zero h (LInvG.empty Small.blk (Small.Inv c))
  ⟨hw.freedNodup, hw.freedLt, hw.owned, hw.distinct⟩

/-- … and once all objects are destroyed the freed blocks are exactly the blocks handed out, each freed once -/
theorem smallVector_no_leak_blocks (c : Nat) (zero : α) (h : List (Op α))
    (hdead : ∀ k, (run (smallImpl c zero) World.empty h).objs k = none) :
    (∀ b, b < (run (smallImpl c zero) World.empty h).led.allocs ↔ b ∈ (run (smallImpl c zero) World.empty h).led.freed) ∧
    (run (smallImpl c zero) World.empty h).led.freed.Nodup := by
  have hw := small_run_linvg c zero h (LInvG.empty Small.blk (Small.Inv c))
  refine ⟨fun b => ⟨fun hb => ?_, hw.freedLt b⟩, hw.freedNodup⟩
  rcases hw.accounted b hb with h' | ⟨k, x, hx, _⟩
  · exact h'
  · rw [hdead k] at hx; cases hx

example : (run (smallImpl 4 (0 : Int)) World.empty
    [.ctorN 0 6, .copy 1 0, .ctor 2, .assign 0 2, .push 2 1, .assign 2 1, .destroy 0, .destroy 1, .destroy 2]).led.freed
    = [6, 4, 5, 2, 3, 1, 0] := by decide

/-- regression instances of the repaired defects: growth past DIM and destruction (two blocks used to be dropped), copy
    of a heap-mode object, assignment of a static over a heap-mode object, `x.push_back(x[i])` at size DIM in static
    mode and in heap mode with exhausted capacity -/
example :
    (let w := run (smallImpl 4 (0 : Int)) World.empty [.ctor 0, .push 0 1, .push 0 2, .push 0 3, .push 0 4, .push 0 5, .destroy 0]
     w.led.allocs = 5 ∧ w.led.freed.length = 5 ∧ w.led.lost = [] ∧ w.led.events = []) ∧
    (let w := run (smallImpl 4 (0 : Int)) World.empty [.ctorN 0 6, .copy 1 0, .ctor 2, .assign 0 2, .destroy 0, .destroy 1, .destroy 2]
     w.led.allocs = w.led.freed.length ∧ w.led.lost = [] ∧ w.led.events = []) ∧
    smviewOf (run (smallImpl 4 (0 : Int)) World.empty [.ctorV 0 [10, 11, 12, 13], .pushAt 0 2]) 0
      = some [some 10, some 11, some 12, some 13, some 12] ∧
    smviewOf (run (smallImpl 4 (0 : Int)) World.empty [.ctorN 0 4, .write 0 0 7, .pushAt 0 0]) 0
      = some [some 7, some 0, some 0, some 0, some 7] := by decide

/-- exact allocator cost of the static → heap switch `resize(n)`, `n > DIM` (also taken by the `push_back` at size DIM):
    five allocations (three when `n ≤ 4`) — the temporary `small_vector(n)` (a default vector, its copy inside the
    union, the reallocation by `resize(n)` when `n > 4`), the copy construction of the vector inside `*this` (a block of
    4, reallocated when `n > 4`) — of which all but the final block are freed; nothing is dropped -/
theorem smallVector_switch_cost (c : Nat) (zero : α) (x : Small α) (n : Nat) (L : Ledger) (ht : x.tagS = true) (hn : c < n) :
    (Small.resize c zero x n L).2.fp =
      (if 4 < n then (L.allocs + 5, (L.allocs + 2) :: (L.allocs + 3) :: (L.allocs + 1) :: L.allocs :: L.freed, L.lost)
       else (L.allocs + 3, (L.allocs + 1) :: L.allocs :: L.freed, L.lost)) ∧
    (Small.resize c zero x n L).1.dy.blk = some (if 4 < n then L.allocs + 4 else L.allocs + 2) :=
  Small.resize_switch_cost c zero x n L ht hn

example : (Small.resize 4 (0 : Int) (Small.mkDefault 4 0 {}).1 6 {}).2.fp = (5, [2, 3, 1, 0], []) := by decide

/-! ### utl::maybe, utl::either -/

def maybeCfg (nt : Bool) (zero : α) : ECfg α Unit := { isMaybe := true, nt := nt, zeroL := zero, zeroR := () }
def eitherCfg (nt : Bool) (zeroL : α) (zeroR : β) : ECfg α β := { isMaybe := false, nt := nt, zeroL := zeroL, zeroR := zeroR }

/-- `maybe<T>`: after every history, for trivial and non-trivial `T`, `has_value()` and the value equal those of
    `std::optional<T>` (`Sum α Unit`, `inr ()` = nullopt) in every slot -/
theorem maybe_refines_option (nt : Bool) (zero : α) (h : List (EOp α Unit)) :
    EWRel (erun (maybeCfg nt zero) EWorld.empty h) (srun true zero () (fun _ => none) h) :=
  erun_rel (maybeCfg nt zero) (fun _ _ => rfl) h (fun _ => by simp [EWorld.empty, ORel])

/-- `either<L,R>`: after every history the active alternative and its value equal those of `std::variant<L,R>` -/
theorem either_refines_sum (nt : Bool) (zeroL : α) (zeroR : β) (h : List (EOp α β)) :
    EWRel (erun (eitherCfg nt zeroL zeroR) EWorld.empty h) (srun false zeroL zeroR (fun _ => none) h) :=
  erun_rel (eitherCfg nt zeroL zeroR) (fun hm => by simp [eitherCfg] at hm) h (fun _ => by simp [EWorld.empty, ORel])

/-- trivial element types: there is no lifetime to manage — the ledger is never touched -/
theorem either_trivial_no_lifetime (cfg : ECfg α β) (hnt : cfg.nt = false) (h : List (EOp α β)) :
    (erun cfg EWorld.empty h).led = {} := erun_trivial_led cfg hnt EWorld.empty h

/-- non-trivial left type: as long as no left value is ever stored (`neverLeft`), no constructor runs and no
    lifetime error happens -/
theorem either_nontrivial_lifetime_ok (cfg : ECfg α β) (h : List (EOp α β)) (hok : ∀ op ∈ h, neverLeft cfg op) :
    (erun cfg EWorld.empty h).led.ctors = 0 ∧ (erun cfg EWorld.empty h).led.events = [] :=
  (erun_neverLeft cfg h (w := EWorld.empty) ⟨by simp [EWorld.empty], rfl, rfl⟩ hok).2

example : ∀ op ∈ ([.mk 0, .mkR 1 (), .assign 0 1, .copy 2 0, .setR 2 (), .destroy 0] : List (EOp Int Unit)),
    neverLeft (maybeCfg true 0) op := by simp [neverLeft, maybeCfg]

/-- lifetimes of a non-trivial left type are managed as `std::optional` / `std::variant` manage them — EVERY history:
    no lifetime error is ever recorded (no assignment into unconstructed storage, no construction over a live object,
    no destruction of a dead one), in every reachable state a left object is alive exactly in the objects whose active
    alternative is LEFT, and after destroying all objects every constructed left object has been destroyed -/
theorem either_lifetime_ok (cfg : ECfg α β) (hnt : cfg.nt = true) (h : List (EOp α β)) :
    (erun cfg EWorld.empty h).led.events = [] ∧
    (∀ k x, (erun cfg EWorld.empty h).objs k = some x → x.left.live = x.tagL) ∧
    ((∀ k, (erun cfg EWorld.empty h).objs k = none) → (erun cfg EWorld.empty h).led.ctors = (erun cfg EWorld.empty h).led.dtors) := by
  have hN : ∀ op ∈ h, op.target < (h.map EOp.target).foldr max 0 + 1 := by
    intro op hop
    have : ∀ (l : List Nat) (a : Nat), a ∈ l → a ≤ l.foldr max 0 := by
      intro l a ha
      induction l with
      | nil => cases ha
      | cons b l ih =>
        simp only [List.foldr_cons]
        rcases List.mem_cons.mp ha with e | e
        · subst e; exact Nat.le_max_left _ _
        · exact Nat.le_trans (ih e) (Nat.le_max_right _ _)
    have := this (h.map EOp.target) op.target (List.mem_map_of_mem hop)
    omega
  have hl := erun_life cfg hnt h (elife_empty _) hN
  refine ⟨hl.2.1, hl.1, ?_⟩
  intro hdead
  have h0 : ((List.range ((h.map EOp.target).foldr max 0 + 1)).map
      (fun k => ownO Eith.leftCnt ((erun cfg EWorld.empty h).objs k))).sum = 0 := by
    rw [sum_range_congr (fun _ => 0) _ _ (by intro k _; rw [hdead k]; rfl)]
    exact sum_range_zero _
  have := hl.2.2
  rw [h0] at this
  omega

/-- regression instances of the repaired defects (each used to be a counterexample): a stored value is destroyed with
    its maybe; `m = nothing` destroys it; `m = v` / `m = other` on a Nothing constructs; either's copy constructs,
    switching alternatives destroys the old one -/
example :
    (let L := (erun (maybeCfg true (0 : Int)) EWorld.empty [.mkL 0 5, .destroy 0]).led
     L.ctors = 1 ∧ L.dtors = 1 ∧ L.events = []) ∧
    (let w := erun (maybeCfg true (0 : Int)) EWorld.empty [.mkL 0 5, .setR 0 ()]
     (w.objs 0).map Eith.get = some (some (.inr ())) ∧ (w.objs 0).map (·.left.live) = some false ∧ w.led.dtors = 1) ∧
    (erun (maybeCfg true (0 : Int)) EWorld.empty [.mk 0, .setL 0 5]).led.events = [] ∧
    (erun (maybeCfg true (0 : Int)) EWorld.empty [.mk 0, .mkL 1 5, .assign 0 1]).led.events = [] ∧
    (erun (eitherCfg true (0 : Int) (0 : Int)) EWorld.empty [.mkL 0 5, .copy 1 0]).led.events = [] ∧
    (let L := (erun (eitherCfg true (0 : Int) (0 : Int)) EWorld.empty [.mkL 0 5, .setR 0 3, .mkL 1 7, .assign 0 1, .destroy 0, .destroy 1]).led
     L.events = [] ∧ L.ctors = 3 ∧ L.dtors = 3) := by decide

end NmVerif.Props.C19
