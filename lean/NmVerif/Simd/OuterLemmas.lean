import NmVerif.Simd.Enum
import NmVerif.Simd.SeqLemmas
import NmVerif.Simd.EnumLemmas
import NmVerif.Lemmas.Addressing
/-
  `outer_simd_enumerator`: the output blocks of successive steps tile the output buffer contiguously, for operands
  of any rank.  Helper lemmas: row-major index arithmetic for a shape `pre ++ [c]`.
-/
namespace NmVerif.Simd
open NmVerif

theorem prod_snoc (pre : List Nat) (c : Nat) : prod (pre ++ [c]) = prod pre * c := by
  rw [prod_append]; simp [prod]

theorem strides_snoc (pre : List Nat) (c : Nat) : strides (pre ++ [c]) = (strides pre).map (· * c) ++ [1] := by
  induction pre with
  | nil => simp [strides, prod]
  | cons a t ih =>
    simp only [List.cons_append, strides, List.map_cons, ih, prod_snoc]

theorem computeIndices_length (off : Nat) (s : List Nat) : (computeIndices off s (strides s)).length = s.length := by
  induction s with
  | nil => rfl
  | cons a t ih => simp [computeIndices, strides, ih]

/-- row-major multi-index of `i` in `pre ++ [c]`: the multi-index of `i / c` in `pre`, then `i % c` -/
theorem ndindex_snoc (pre : List Nat) (c i : Nat) :
    ndindex (pre ++ [c]) i = ndindex pre (i / c) ++ [i % c] := by
  induction pre with
  | nil => simp [ndindex, computeIndices, strides, prod]
  | cons a t ih =>
    unfold ndindex at ih ⊢
    simp only [List.cons_append, strides, computeIndices, ih, List.cons.injEq, and_true]
    rw [prod_snoc, Nat.div_div_eq_div_mul, Nat.mul_comm c]

theorem computeOffset_map_mul (I st : List Nat) (n : Nat) :
    computeOffset I (st.map (· * n)) = computeOffset I st * n := by
  induction I generalizing st with
  | nil => simp [computeOffset]
  | cons x xs ih =>
    cases st with
    | nil => simp [computeOffset]
    | cons s ss =>
      simp only [List.map_cons, computeOffset, ih]
      rw [Nat.add_mul, Nat.mul_assoc, Nat.mul_assoc, Nat.mul_comm n x]

theorem computeOffset_append_left (I st more : List Nat) (h : I.length = st.length) :
    computeOffset I (st ++ more) = computeOffset I st := by
  induction I generalizing st with
  | nil => cases st <;> simp [computeOffset] at h ⊢
           all_goals (cases more <;> simp [computeOffset])
  | cons x xs ih =>
    cases st with
    | nil => simp at h
    | cons s ss => simp only [List.cons_append, computeOffset]; rw [ih ss (by simpa using h)]

/-- register count of one output row -/
def oCs (N n : Nat) : Nat := n / N + (if n % N ≠ 0 then 1 else 0)

theorem outerSimdShape_eq (N : Nat) (out lhs rhs pre : List Nat) (n : Nat)
    (hsh : lhs ++ rhs = pre ++ [n]) (hout : out = pre ++ [n]) :
    outerSimdShape N out lhs rhs = pre ++ [oCs N n] := by
  unfold outerSimdShape oCs
  simp only [hsh, hout]
  simp

/-- output part of step `q·Cs + sj` of the outer enumerator: row `q` of the `(prod pre, n)` view, register `sj` -/
theorem outerAt_out (N : Nat) (out lhs rhs pre : List Nat) (n q sj : Nat)
    (hsh : lhs ++ rhs = pre ++ [n]) (hout : out = pre ++ [n]) (hpos : Pos pre)
    (hq : q < prod pre) (hsj : sj < oCs N n) :
    (outerAt N out lhs rhs (q * oCs N n + sj)).1
      = ⟨if sj * N + N > n then Tag.PAD (N - (n - n / N * N)) else Tag.PACKED, q * n + sj * N⟩ := by
  unfold outerAt
  rw [outerSimdShape_eq N out lhs rhs pre n hsh hout]
  have hidx : computeIndices (q * oCs N n + sj) (pre ++ [oCs N n]) (strides (pre ++ [oCs N n]))
      = ndindex pre q ++ [sj] := by
    have := ndindex_snoc pre (oCs N n) (q * oCs N n + sj)
    rw [(div_mod_of_row q sj _ hsj).1, (div_mod_of_row q sj _ hsj).2] at this
    exact this
  simp only
  rw [hidx]
  unfold outerSimd
  have hl : (ndindex pre q).length = pre.length := computeIndices_length q pre
  have hlast : (ndindex pre q ++ [sj]).getLastD 0 = sj := by simp
  have hnl : out.getLastD 0 = n := by rw [hout]; simp
  simp only [hlast, hnl]
  have hpo : partialOffset (ndindex pre q ++ [sj]) (strides out) 0 ((ndindex pre q ++ [sj]).length - 1) = q * n := by
    unfold partialOffset
    rw [List.length_append, List.length_singleton, Nat.add_sub_cancel, List.drop_zero,
        List.take_left' rfl, hout, strides_snoc,
        computeOffset_append_left _ _ _ (by rw [List.length_map, strides_length, hl]),
        computeOffset_map_mul]
    have := offset_indices hpos hq
    unfold ndindex
    rw [this]
  rw [hpo]

/-- cells a step of `eval_outer` writes: a register when PACKED, `N − k` scalars for `PAD_k` -/
def outerLen (N : Nat) (t : TIdx) : Nat := if t.tag = Tag.PACKED then N else N - t.tag.toNat

theorem outer_row_contig (N : Nat) (out lhs rhs pre : List Nat) (n q : Nat) (hN : 0 < N)
    (hsh : lhs ++ rhs = pre ++ [n]) (hout : out = pre ++ [n]) (hpos : Pos pre) (hq : q < prod pre) :
    Contig (fun i => (outerAt N out lhs rhs i).1.off) (fun i => outerLen N (outerAt N out lhs rhs i).1)
      (q * n) (List.range' (q * oCs N n) (oCs N n)) (q * n + n) := by
  have hn : n = n / N * N + n % N := by
    have := Nat.div_add_mod n N; rw [Nat.mul_comm] at this; omega
  have hmod := Nat.mod_lt n hN
  have hsub : n - n / N * N = n % N := by omega
  -- whole registers
  have hfull : Contig (fun i => (outerAt N out lhs rhs i).1.off) (fun i => outerLen N (outerAt N out lhs rhs i).1)
      (q * n) (List.range' (q * oCs N n) (n / N)) (q * n + n / N * N) := by
    apply Contig.arith N
    intro k hk1 hk2
    obtain ⟨sj, rfl⟩ : ∃ sj, k = q * oCs N n + sj := ⟨k - q * oCs N n, by omega⟩
    have hsj : sj < n / N := by omega
    have hle : ¬ (sj * N + N > n) := by
      have : (sj + 1) * N ≤ n / N * N := Nat.mul_le_mul_right N hsj
      rw [Nat.succ_mul] at this; omega
    rw [outerAt_out N out lhs rhs pre n q sj hsh hout hpos hq (by unfold oCs; omega), Nat.add_sub_cancel_left]
    simp only [hle, if_false]
    exact ⟨trivial, by simp [outerLen]⟩
  by_cases h0 : n % N = 0
  · have hc : oCs N n = n / N := by unfold oCs; simp [h0]
    rw [hc] at hfull ⊢
    have e : q * n + n = q * n + n / N * N := by omega
    rw [e]; exact hfull
  · have hc : oCs N n = n / N + 1 := by unfold oCs; simp [h0]
    rw [hc, ← List.range'_append (step := 1)]
    simp only [Nat.one_mul]
    rw [← hc]
    refine Contig.append hfull ?_
    rw [List.range'_succ, List.range'_zero]
    have hgt : (n / N) * N + N > n := by omega
    have hstep := outerAt_out N out lhs rhs pre n q (n / N) hsh hout hpos hq (by rw [hc]; omega)
    simp only [hgt, if_true, hsub] at hstep
    have hk0 : ¬ (Tag.PAD (N - n % N) = Tag.PACKED) := by simp only [Tag.PAD, Tag.PACKED]; omega
    have hlen : outerLen N (outerAt N out lhs rhs (q * oCs N n + n / N)).1 = n % N := by
      rw [hstep]
      unfold outerLen
      rw [if_neg hk0]
      simp only [Tag.PAD, Int.toNat_natCast]; omega
    refine Contig.cons (by rw [hstep]) ?_
    rw [hlen]
    have e : q * n + n / N * N + n % N = q * n + n := by omega
    rw [e]; exact Contig.nil _

/-- the whole outer enumerator tiles `[0, prod pre · n)`: every output cell exactly once, in order -/
theorem outer_contig (N : Nat) (out lhs rhs pre : List Nat) (n : Nat) (hN : 0 < N)
    (hsh : lhs ++ rhs = pre ++ [n]) (hout : out = pre ++ [n]) (hpos : Pos pre) :
    ∀ Q, Q ≤ prod pre →
      Contig (fun i => (outerAt N out lhs rhs i).1.off) (fun i => outerLen N (outerAt N out lhs rhs i).1)
        0 (List.range (Q * oCs N n)) (Q * n) := by
  intro Q
  induction Q with
  | zero => intro _; simpa using Contig.nil 0
  | succ Q ih =>
    intro hQ
    rw [Nat.succ_mul, List.range_eq_range', ← List.range'_append (step := 1), ← List.range_eq_range']
    simp only [Nat.one_mul, Nat.zero_add]
    rw [Nat.succ_mul]
    exact Contig.append (ih (by omega)) (outer_row_contig N out lhs rhs pre n Q hN hsh hout hpos (by omega))

/-! ### matmul: the inner steps of one output element tile a row of lhs and a column of rhs -/

/-- registers then one zero-padded partial register tile `[base, base + K)`; `off s` / `tag s` describe step `s` -/
theorem padded_row_contig (N K base : Nat) (hN : 0 < N) (idx : Nat → TIdx)
    (h : ∀ s, s < oCs N K → idx s = ⟨if s * N + N ≤ K then Tag.PACKED else Tag.PAD (N - (K - K / N * N)), base + s * N⟩) :
    Contig (fun s => (idx s).off) (fun s => outerLen N (idx s)) base (List.range (oCs N K)) (base + K) := by
  have hn : K = K / N * N + K % N := by
    have := Nat.div_add_mod K N; rw [Nat.mul_comm] at this; omega
  have hmod := Nat.mod_lt K hN
  have hsub : K - K / N * N = K % N := by omega
  have hfull : Contig (fun s => (idx s).off) (fun s => outerLen N (idx s)) base (List.range' 0 (K / N)) (base + K / N * N) := by
    apply Contig.arith N
    intro k _ hk2
    have hsj : k < K / N := by omega
    have hle : k * N + N ≤ K := by
      have : (k + 1) * N ≤ K / N * N := Nat.mul_le_mul_right N hsj
      rw [Nat.succ_mul] at this; omega
    rw [h k (by unfold oCs; omega)]
    simp only [hle, if_true, Nat.sub_zero]
    exact ⟨trivial, by simp [outerLen]⟩
  rw [List.range_eq_range']
  by_cases h0 : K % N = 0
  · have hc : oCs N K = K / N := by unfold oCs; simp [h0]
    rw [hc]
    have e : base + K = base + K / N * N := by omega
    rw [e]; exact hfull
  · have hc : oCs N K = K / N + 1 := by unfold oCs; simp [h0]
    rw [hc, ← List.range'_append (step := 1)]
    simp only [Nat.one_mul, Nat.zero_add]
    refine Contig.append hfull ?_
    rw [List.range'_succ, List.range'_zero]
    have hgt : ¬ ((K / N) * N + N ≤ K) := by omega
    have hstep := h (K / N) (by rw [hc]; omega)
    simp only [hgt, if_false, hsub] at hstep
    have hk0 : ¬ (Tag.PAD (N - K % N) = Tag.PACKED) := by simp only [Tag.PAD, Tag.PACKED]; omega
    have hlen : outerLen N (idx (K / N)) = K % N := by
      rw [hstep]
      unfold outerLen
      rw [if_neg hk0]
      simp only [Tag.PAD, Int.toNat_natCast]; omega
    refine Contig.cons (by rw [hstep]) ?_
    rw [hlen]
    have e : base + K / N * N + K % N = base + K := by omega
    rw [e]; exact Contig.nil _

end NmVerif.Simd
