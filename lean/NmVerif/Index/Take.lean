import NmVerif.Index.SelCommon
/-
  NmVerif.Index.Take — MODEL of include/nmtools/array/index/take.hpp (+ view/take.hpp).

  Stable names:
    `Index.shapeTake shape nIdx axis : Shape`          index::shape_take, integer axis
    `Index.shapeTakeNone nIdx : Shape`                 index::shape_take, axis None
    `Index.indexTake d shape indices axis : Idx`       index::take, integer axis
    `Index.indexTakeNone d shape indices : Idx`        index::take, axis None
    `Index.takeView src indices axis : Option IxView`  view::take(a, indices, axis)  (`axis : Option Int`; never Nothing)

  Facts mirrored (take.hpp; view/take.hpp passes `axis` through):
    * both functions normalise the axis first (`a < 0 ? a + len(shape) : a`, repaired: "take.negative-axis"), then
      `res[i] = (i == axis) ? … : …`;
    * `normalize_take_index(indices[d[axis]], shape[axis])`: a negative entry counts from the end of the axis
      (repaired: "take.negative-index"); entries outside `[-extent, extent)` are not checked;
    * axis None: `compute_indices(normalize_take_index(indices[d[0]], product(shape)), shape)`.
  A destination entry that addresses no element of `indices` (UB; impossible inside the view's shape) is answered 2^64-1.
  Core Lean only.
-/
namespace NmVerif.Index

def shapeTake (shape : Shape) (nIdx : Nat) (axis : Int) : Shape := mapAt (fun _ => nIdx) (normAxis axis shape.length) 0 shape

def shapeTakeNone (nIdx : Nat) : Shape := [nIdx]

/-- `normalize_take_index(indices[k], extent)`: a negative entry counts from the end (`v + extent`), then the value
    is stored into a `size_t` -/
def takeEntry (indices : List Int) (extent : Nat) (k : Nat) : Nat :=
  match indices[k]? with
  | some v => i2u (if v < 0 then v + (extent : Int) else v)
  | none => u64 (-1)

/-- extent of the (normalised) axis; 0 when the axis addresses nothing (then no coordinate matches either) -/
def axisExtent (shape : Shape) (axis : Int) : Nat := (shape[(normAxis axis shape.length).toNat]?).getD 0

def indexTake (d : Idx) (shape : Shape) (indices : List Int) (axis : Int) : Idx :=
  mapAt (takeEntry indices (axisExtent shape axis)) (normAxis axis shape.length) 0 d

def indexTakeNone (d : Idx) (shape : Shape) (indices : List Int) : Idx :=
  match d with
  | i :: _ => computeIndices (takeEntry indices (prod shape) i) shape (strides shape)
  | [] => []

/-- `view::take(a, indices, axis)`.  NOTE `take_t::index` loops `for i < dim(src)` over `d` (same rank). -/
def takeView (src : Shape) (indices : List Int) (axis : Option Int) : Option IxView :=
  match axis with
  | none => some ⟨src, shapeTakeNone indices.length, fun d => some (indexTakeNone d src indices)⟩
  | some ax => some ⟨src, shapeTake src indices.length ax, fun d => some (indexTake d src indices ax)⟩

end NmVerif.Index
