"""C06 — broadcasting follows NumPy's rules and is symmetric, associative, idempotent.
IMPL: index::broadcast_shape (2-ary and variadic), index::shape_broadcast_to / origin_axes / free_axes,
index::broadcast_to, view::broadcast_to, view::broadcast_arrays, view::add.  ORACLE: numpy.broadcast_shapes /
broadcast_to / broadcast_arrays (independent of the C++).

Two harness families: harness/h_c06.cpp (run-time containers, exhaustive small scope over shapes) and the GENERATED
mixed-kind matrix (harness/gen_kinds_c06.py + harness/c06_kinds.hpp): every pair / triple of shape container kinds
(compile-time constant, clipped, std::array, vector, static_vector, fixed-size / hybrid ndarray, None) over a fixed
table of shape pairs / triples plus a VERIF_SEED part, each case evaluating the clauses of the property (every order
and grouping, with itself, with the result) with the NMTOOLS_VERIF hook events switched on."""
import itertools, os, sys, random
import numpy as np
import runner
from runner import Case
from shapes import shapes, prod, fmt, fmt_lists

sys.path.insert(0, os.path.join(runner.ROOT, 'harness'))
import gen_kinds_c06 as G

ID = 'C06'
LEVEL = 'proof'
H = 'h_c06'
RULE = ('exhaustive: all ordered pairs and all ordered triples (thorough: triples sampled) of shapes of rank 0..R with extents 1..E '
        'through index::broadcast_shape, compatible and not; every ordered (src,dst) pair through shape_broadcast_to/origin_axes, '
        'index::broadcast_to and view::broadcast_to with every element of the result read; all pairs + sampled triples through '
        'view::broadcast_arrays with every element of every result read (provenance data: operand k holds 1000k + flat id); '
        'mixed shape container kinds std::vector / std::array / nmtools_static_vector; random compatible and perturbed '
        'families up to rank 8; 4- and 5-operand folds; zero-extent shapes (ranks <= 2, extents 0..2, a few triples and '
        'broadcast_arrays) off-domain against the model AND NumPy. '
        'KIND MATRIX (generated TUs, hooks on): kinds {constant tuple, clipped tuple (bounds with slack), std::array, vector, '
        'static_vector, 1-d fixed_ndarray, 1-d hybrid_ndarray, None} for shapes and {ndarray_t with constant / clipped / '
        'std::array / vector / static_vector shape, raw / nested std::array / fixed_ndarray, hybrid_ndarray, int} for arrays; '
        'a fixed table of 19 shape pairs, 11 triples, 11 (source,target) pairs, 10 array pairs, 4 array triples (stretching 1s in '
        'every position, rank extension on either side, equal shapes, scalars, incompatible ones); broadcast_shape(a,b): EVERY '
        'ordered kind pair x every table pair, clauses ab ba aa bb a(ab) (ab)b (ba)a (ab)(ba); broadcast_shape of three: every '
        'ordered kind triple (343) x table triples (quick: a rotating sixth, thorough: all), clauses = the variadic call in all 6 '
        'operand orders + both groupings of all 6 orders; shape_broadcast_to / view::broadcast_to: every (source kind, target '
        'kind) x table (quick: half); broadcast_arrays and add: every ordered array-kind pair x table (quick: a fifth), both '
        'operand orders, add(x,x); broadcast_arrays of three arrays over mixed kind triples; + per VERIF_SEED 24 / 10 / 8+8 / '
        '6 / 6 / 2 random cases (x5 thorough) with random kinds. A hook event (clipped clamp, static_vector overflow) while '
        'an ACCEPTED clause is computed is part of the answer and therefore a difference. '
        'non-trivial = operands differ in rank, in some aligned extent, or in kind')
EXHAUSTIVE = {'quick': True, 'thorough': True}
ANCHORS = {
    'NmVerif.bcRev/broadcastShape2': 'index::impl::broadcast_shape (broadcast_shape.hpp:37-180)',
    'NmVerif.broadcastShape/broadcastFold': 'variadic index::broadcast_shape (broadcast_shape.hpp:230-245)',
    'NmVerif.sbtRev/shapeBroadcastTo': 'index::impl::shape_broadcast_to (broadcast_to.hpp:90-209)',
    'NmVerif.originAxes/nonzero/logicalNot': 'index::origin_axes, index::nonzero, index::logical_not',
    'NmVerif.freeAxes': 'index::free_axes',
    'NmVerif.gather/broadcastToIndex': 'index::gather, index::broadcast_to (broadcast_to.hpp:307-330)',
    'NmVerif.broadcastToView': 'view::broadcast_to / view::broadcast_to_t::indices',
    'NmVerif.broadcastArraysViews': 'view::broadcast_arrays',
    'NmVerif.BExpr.eval (driver op kexpr)': 'nests of index::broadcast_shape calls incl. the is_maybe overloads (broadcast_shape.hpp:186-245) and '
                                            'meta::resolve_optype<broadcast_shape_t> (broadcast_shape.hpp:307-510) under every operand kind',
    'NmVerif.sbtNoneClipped (driver op ksbt)': 'index::impl::shape_broadcast_to(none_t, bshape) (broadcast_to.hpp:36-75) with a clipped target',
    'driver ops kbto / kbarr / kadd': 'view::broadcast_to, view::broadcast_arrays (index::broadcast_size), view::add (index::shape_ufunc) over the array kinds of utility/cast.hpp',
}
MANIFEST = dict(
    text='Proof: Lean theorems over all shapes of any rank with positive extents: broadcast_shape (2-ary loop and variadic fold) succeeds iff the shapes are NumPy-compatible and then is the per-axis maximum; commutativity, associativity (Option/bind), idempotence, absorption, scalar identity; n-ary fold invariant under any permutation and any split/grouping of the operand list; shape_broadcast_to succeeds iff NumPy allows it; the offset-over-origin-axes index map of broadcast_to equals the NumPy element rule and stays in bounds; broadcast_arrays never fails after a successful broadcast_shape; any nest of broadcast_shape calls (2-ary and variadic, maybe results passed on) depends only on WHICH operands occur in it, not on their order, grouping or multiplicity (bexpr_eval_congr); with zero extents allowed the implementation is NumPy unless an axis pairs 0 with 1 (known finding); for operands of ANY container kinds (constant, clipped with any slack, fixed, bounded, dynamic, None) the container meta::resolve_optype picks for the result of broadcast_shape is never too small — no clipped integer clamps, no bounded vector overflows — and a nest of calls has the kind-blind value, a call that does not compile being a refusal (keval_kind_independent, broadcast_container_fits). Tied to the C++ by an exhaustive small-scope differential run (all pairs/triples of shapes, every element) and by a generated kind matrix (every pair / triple of shape container kinds incl. compile-time constant, clipped, fixed, bounded, dynamic, None; all operand orders and groupings; broadcast_to, broadcast_arrays, add; hook events on), both cross-checked against NumPy on every run.',
    note='Lean kernel + propext/Classical.choice/Quot.sound; model hand-written (reversed-list recursion for the right-aligned loops), fidelity rests on the correspondence run; the value theorems are kind-blind (List Nat for every container); that the container kind does not matter is a theorem for broadcast_shape and nests of it (keval_kind_independent over resolveBroadcast, the hand-written mirror of meta::resolve_optype<broadcast_shape_t>, compared with the real result containers by the value@container answers of the kind matrix) and is established by the kind matrix alone for the view-level metafunctions; two operands that are both compile-time constants and incompatible do not compile (refusal at compile time; such clauses are printed as nothing without being run); positive extents as in the property (zero extents: bounded scope against NumPy; 0 with 1 gives 0 since fix f45d8fe).',
    technique='Lean 4 induction proofs over List Nat shapes + differential correspondence (exhaustive small scope) + NumPy oracle')
ASSUMPTIONS = ['extents are positive (the property\'s quantifier); with a zero extent the implementation\'s max differs from NumPy and is outside the claim',
               'size_t arithmetic does not wrap (products of the explored shapes are far below 2^32)',
               'kind matrix: a clause whose two operands are BOTH compile-time-constant shapes and incompatible is refused by the compiler (BROADCAST_SHAPE_ERROR); it is printed as `nothing` by the generator and not executed',
               'kind matrix: one STL build with g++ (-O0); the NMTOOLS_DISABLE_STL / clang builds of the kind machinery are C09',
               'the None shape (shape of a number) is the empty shape; the free-axes entry None of shape_broadcast_to(None, .) means every axis is free']
PARTIAL = ['independence of the container kind is PROVED for index::broadcast_shape and nests of it (keval_kind_independent, about NmVerif.resolveBroadcast, a model of meta::resolve_optype<broadcast_shape_t> that the kind matrix compares with the real result containers on every run); for the result containers of shape_broadcast_to, broadcast_size and shape_ufunc (view::broadcast_to / broadcast_arrays / add) there is no Lean model of the metafunctions: there the independence is validated by the kind matrix only (finite in kinds, sampled in shapes, hook events on)']

# Both defects below are REPAIRED in /repo (fix commits f45d8fe, 28ac131): the switches are off, the classes are judged by NumPy
# (and by the kind-blind model); setting a switch to 1 reproduces the unrepaired tree.  History: the model MIRRORED the two then-open known findings (known/C06.json) so that the defect class itself is under the
# correspondence run.  When the repair is applied to /repo, set the switch to False (the class is then judged by NumPy
# and, for the None source, by the kind-blind model) and close the known finding:
#   fixes/C06-sbt-none-clipped-target.diff -> MIRROR_NONE_CLIPPED = False
#   fixes/C06-broadcast-zero-extent.diff   -> MIRROR_ZERO_WITH_ONE = False  (bc1 = max stays the model of positive extents)
# (the environment variables let the repaired tree be tried before the switch is committed)
MIRROR_NONE_CLIPPED = os.environ.get('C06_MIRROR_NONE_CLIPPED', '0') == '1'     # repaired in /repo: fix 28ac131
MIRROR_ZERO_WITH_ONE = os.environ.get('C06_MIRROR_ZERO_WITH_ONE', '0') == '1'    # repaired in /repo: fix f45d8fe


def k_parse(req):
    """fields of a generated mixed-kind request `k6 id=… op=… shapes=… kinds=a/b salt=n` (None for other requests)"""
    p = req.split(' ')
    if p[0] != 'k6':
        return None
    d = dict(x.split('=', 1) for x in p[1:] if '=' in x)
    shapes_ = [[] if t == '[]' else [int(v) for v in t.split(',')] for t in d['shapes'].split(';')]
    return G.KCase(d['op'], shapes_, d['kinds'].split('/'), salt=int(d['salt']))


def kf_none_source_clipped_target(case):
    """index::shape_broadcast_to(None, target) where `target` is a tuple of clipped integers and some extent is larger
    than the bound of the LAST element: the result array takes the last element's clipped type for every position
    (meta::tuple_to_array / common_type), so that extent is clamped.  Reached directly (op sbt, kinds none/cl), through
    view::broadcast_to(number, clipped target) and through broadcast_arrays / add of a number with arrays whose
    common shape is a clipped tuple (all other operands of constant / clipped shape, at least one clipped)."""
    c = k_parse(case.req)
    if c is None:
        return False
    if c.op in ('sbt', 'bto'):
        if c.kinds[0] not in ('none', 'num') or c.kinds[1] != 'cl':
            return False
        b = k_bounds(c, 1)
        return any(v > b[-1] for v in c.shapes[1])
    if c.op in ('barr', 'barr3', 'add'):
        others = [k for k in c.kinds if k != 'num']
        if len(others) == len(c.kinds) or not set(others) <= {'cs', 'ls', 'fx'} or 'ls' not in others:
            return False
        r = np_bshape(c.shapes)
        return r is not None and any(v > r[-1] for v in r)
    return False


def kf_zero_extent_with_one(case):
    """broadcast_shape / broadcast_arrays of run-time shapes in which, on some axis (aligned at the trailing axis), one
    operand has extent 0 and another has extent 1: the implementation takes the maximum (1), NumPy the extent that is
    not 1 (0)"""
    p = case.req.split(' ')
    if p[0] not in ('bshape', 'barrays'):
        return False
    d = dict(x.split('=', 1) for x in p[1:] if '=' in x)
    ss = [[] if t == '[]' else [int(v) for v in t.split(',')] for t in d['shapes'].split(';')]
    for k in range(1, max(len(x) for x in ss) + 1):
        col = [x[-k] for x in ss if k <= len(x)]
        if 0 in col and 1 in col:
            return True
    return False


KNOWN_PREDICATES = {'none_source_clipped_target': kf_none_source_clipped_target, 'zero_extent_with_one': kf_zero_extent_with_one}


def harness_specs(tier):
    specs = [dict(name=H, src='h_c06.cpp', flavour='fast')]
    for name, cases in kplan(tier)[1].items():
        # the NMTOOLS_VERIF hooks are ON in every generated TU: a clamp (2) / capacity (1) event while an ACCEPTED clause is
        # computed is printed into the answer (harness/c06_kinds.hpp) and therefore differs from the reference
        # (-O0: the kind matrix is bound by the compile time of the template instantiations, not by its run time)
        specs.append(dict(name=name, src=G.write_tu(name, cases), flavour='fast', extra=('-DPROTO_VERIF_EVENTS', '-O0')))
    return specs


# ---------------------------------------------------------------------------------------------- oracle (NumPy)

def o_bshape(ss):
    try:
        return 'ok ' + fmt(np.broadcast_shapes(*[tuple(s) for s in ss]))
    except ValueError:
        return 'nothing'


def can_bto(src, dst):
    try:
        np.broadcast_to(np.empty(tuple(src), dtype=np.int8), tuple(dst))
        return True
    except ValueError:
        return False


def o_sbt(src, dst):
    if not can_bto(src, dst):
        return 'nothing'
    pad = len(dst) - len(src)
    # an axis is "free" when the destination index along it does not select anything in the source:
    # prepended, or stretched from extent 1 to something else
    free = [1 if (k < pad or src[k - pad] != dst[k]) else 0 for k in range(len(dst))]
    origin = [k for k in range(len(dst)) if not free[k]]
    return 'ok shape=%s free=%s origin=%s' % (fmt(dst), fmt(free), fmt(origin))


def o_bto_view(src, dst):
    if not can_bto(src, dst):
        return 'nothing'
    v = np.broadcast_to(np.arange(prod(src)).reshape(tuple(src)), tuple(dst))
    return 'ok shape=%s data=%s' % (fmt(v.shape), fmt(v.ravel()))


def o_bto_ix(src, dst):
    if not can_bto(src, dst):
        return 'nothing'
    n = prod(dst)
    if len(src) == 0:
        return 'ok src=' + fmt_lists([[] for _ in range(n)])
    comps = [np.broadcast_to(c, tuple(dst)).ravel() for c in np.indices(tuple(src))]
    return 'ok src=' + fmt_lists([[int(c[k]) for c in comps] for k in range(n)])


def o_barrays(ss):
    arrs = [np.arange(prod(s)).reshape(tuple(s)) + 1000 * k for k, s in enumerate(ss)]
    try:
        out = np.broadcast_arrays(*arrs)
    except ValueError:
        return 'nothing'
    return 'ok shape=%s data=%s' % (fmt(out[0].shape), '|'.join('%s:%s' % (fmt(o.shape), fmt(o.ravel())) for o in out))


def o_free_axes(a, b):
    # documented meaning: axis of the broadcast result `a` along which operand `b` is absent or has extent 1
    pad = len(a) - len(b)
    return 'ok ' + fmt([1 if (k < pad or b[k - pad] == 1) else 0 for k in range(len(a))])


# ---------------------------------------------------------------------------------------------- mixed-kind matrix
# Generated TUs (harness/gen_kinds_c06.py): every pair / triple of shape container kinds over a fixed table of shape
# pairs / triples (seed-independent: the TUs stay cached) + a part drawn from VERIF_SEED (own TUs, named by the seed).

# stretching 1s in every position, rank extension on either side, equal shapes, scalars, incompatible pairs
K_PAIRS = [
    ([3, 1], [3, 5]), ([1, 4], [6, 4]), ([2, 1, 3], [4, 1]), ([1], [5]), ([5], [1, 1]), ([2, 3], [2, 3]), ([1, 1], [1, 1]),
    ([3], [2, 3]), ([2, 1], [1, 3]), ([1, 2, 1], [3, 1, 4]), ([2, 1, 1, 3], [5, 1]),
    ([], [2, 3]), ([], [1]), ([], []),
    ([2, 3], [3, 2]), ([3], [4]), ([2, 1, 3], [4, 2]), ([2, 3], [2, 1, 4]), ([1, 3], [2]),
]
K_TRIPLES = [
    ([1, 4], [6, 4], [1]), ([2, 1, 3], [4, 1], [1]), ([3, 1], [1, 5], [2, 1, 1]), ([2, 3], [2, 3], [2, 3]),
    ([1], [3, 1], [2, 1, 1]), ([4, 1], [4, 1], [1, 5]), ([], [3, 1], [1, 2]), ([2, 1], [1, 3], [4, 1, 1]),
    ([2, 3], [3, 2], [1]), ([2, 1], [1, 3], [2, 4]), ([3, 1], [1], [4, 5]),
]
# arrays: rank >= 1 (a rank-0 operand is the int scalar)
K_APAIRS = [
    ([3, 1], [3, 5]), ([1, 4], [6, 4]), ([2, 1, 3], [4, 1]), ([3], [2, 3]), ([2, 3], [2, 3]), ([2, 1], [1, 3]),
    ([1, 2, 1], [3, 1, 2]), ([], [2, 3]), ([2, 3], [3, 2]), ([2, 1, 3], [4, 2]),
]
K_ATRIPLES = [([1, 4], [3, 4], [1]), ([2, 1], [1, 3], [2, 1, 1]), ([], [3, 1], [1, 2]), ([2, 3], [3, 2], [1])]
# (source, target) of broadcast_to
K_BTO = [
    ([3, 1], [3, 5]), ([1, 4], [6, 4]), ([3], [2, 3]), ([4, 1], [2, 4, 3]), ([2, 3], [2, 3]), ([1], [2, 2]), ([], [2, 3]),
    ([2, 3], [3]), ([2, 3], [2, 4]), ([3, 1], [1, 5]), ([], [3, 2]),
]
# witnesses of the known findings (known/C06.json) are always part of the fixed table
K_WITNESSES = [('sbt', ([], [3, 2]), ('none', 'cl'), 0), ('bto', ([], [3, 2]), ('num', 'cl'), 1),
               ('barr3', ([], [3, 1], [1, 2]), ('num', 'cs', 'ls'), 2)]
K_TU_SECONDS = 20.0          # compile budget of one generated TU (KCase.weight ~ seconds of g++ -O1)
K_STRIDE = {'quick': dict(bs2=1, bs3=6, sbt=2, bto=2, barr=5, add=5, barr3=1),   # strides coprime with the 7 kinds
            'thorough': dict(bs2=1, bs3=1, sbt=1, bto=1, barr=1, add=1, barr3=1)}


def _ikinds(s):
    return G.INDEX_KINDS if len(s) else G.INDEX_KINDS0


def _akinds(s):
    return G.ARRAY_KINDS if len(s) else G.ARRAY_KINDS0


def _k_fixed(tier):
    """the seed-independent cases: every kind pair / triple over the tables (quick: a rotating 1/stride of the products
    that are expensive to compile, so that every kind combination still meets several table entries)"""
    stride = K_STRIDE[tier]
    out = [G.KCase(op, shapes_, kinds, salt=salt) for op, shapes_, kinds, salt in K_WITNESSES]

    def take(op, items):
        st = stride[op]
        for n, (shapes_, kinds) in enumerate(items):
            if n % st == (len(op) % st):
                out.append(G.KCase(op, shapes_, kinds, salt=n % 3))

    take('bs2', [((a, b), ks) for a, b in K_PAIRS for ks in itertools.product(_ikinds(a), _ikinds(b))])
    take('bs3', [(t, ks) for t in K_TRIPLES for ks in itertools.product(*[_ikinds(x) for x in t])])
    take('sbt', [((a, b), (ka, kb)) for a, b in K_BTO for ka in _ikinds(a) for kb in G.INDEX_KINDS])
    take('bto', [((a, b), (ka, kb)) for a, b in K_BTO for ka in _akinds(a) for kb in G.DST_KINDS])
    take('barr', [((a, b), ks) for a, b in K_APAIRS for ks in itertools.product(_akinds(a), _akinds(b))])
    take('add', [((a, b), ks) for a, b in K_APAIRS for ks in itertools.product(_akinds(a), _akinds(b))])
    # three arrays: the kind triples that mix a constant, a fixed-rank and a dynamic / bounded shape in every order
    mix = [ks for ks in itertools.product(['cs', 'fs', 'ds', 'hs', 'ls', 'fx', 'hy'], repeat=3) if len(set(ks)) == 3]
    rr = random.Random(606)
    rr.shuffle(mix)
    n3 = 4 if tier == 'quick' else 30
    items = []
    for j, t in enumerate(K_ATRIPLES):
        for ks in mix[j * n3:(j + 1) * n3]:
            items.append((t, tuple(k if len(x) else 'num' for k, x in zip(ks, t))))
    take('barr3', items)
    return out


def _rand_family(rng, n, rmax=4):
    r = rng.randint(1, rmax)
    full = [rng.choice([1, 2, 2, 3, 4, 5]) for _ in range(r)]
    while prod(full) > 60:
        full[rng.randrange(len(full))] = 1
    ops = []
    for _ in range(n):
        s = derive_operand(rng, full)
        ops.append(s)
    if rng.random() < 0.3:
        k = rng.randrange(n)
        if ops[k]:
            j = rng.randrange(len(ops[k]))
            ops[k][j] += rng.choice([1, 2])
    rng.shuffle(ops)
    return ops


def _k_seeded(tier, seed):
    rng = random.Random(seed * 7919 + 606)
    mul = 1 if tier == 'quick' else 5
    out = []
    for _ in range(24 * mul):
        a, b = _rand_family(rng, 2)
        out.append(G.KCase('bs2', (a, b), (rng.choice(_ikinds(a)), rng.choice(_ikinds(b))), salt=rng.randrange(3), seeded=True))
    for _ in range(10 * mul):
        t = _rand_family(rng, 3)
        out.append(G.KCase('bs3', t, [rng.choice(_ikinds(x)) for x in t], salt=rng.randrange(3), seeded=True))

    def arr_family(n):
        while True:
            t = _rand_family(rng, n, rmax=3)
            if sum(1 for x in t if not x) <= 1 and (n > 2 or any(t)) and any(len(x) for x in t):
                return t
    for _ in range(8 * mul):
        a, b = arr_family(2)
        if rng.random() < 0.7 and np_bshape([a, b]) is not None:
            b = np_bshape([a, b])
        if not b:
            b = [2]
        out.append(G.KCase('bto', (a, b), (rng.choice(_akinds(a)), rng.choice(G.DST_KINDS)), salt=rng.randrange(3), seeded=True))
        out.append(G.KCase('sbt', (a, b), (rng.choice(_ikinds(a)), rng.choice(G.INDEX_KINDS)), salt=rng.randrange(3), seeded=True))
    for op, cnt in (('barr', 6), ('add', 6)):
        for _ in range(cnt * mul):
            a, b = arr_family(2)
            out.append(G.KCase(op, (a, b), (rng.choice(_akinds(a)), rng.choice(_akinds(b))), salt=rng.randrange(3), seeded=True))
    for _ in range(2 * mul):
        t = arr_family(3)
        out.append(G.KCase('barr3', t, [rng.choice(_akinds(x)) for x in t], salt=rng.randrange(3), seeded=True))
    return out


_kplan_cache = {}


def kplan(tier):
    """([KCase], {TU name: [KCase]}) for this tier and VERIF_SEED"""
    seed = int(os.environ.get('VERIF_SEED', '0'))
    if (tier, seed) in _kplan_cache:
        return _kplan_cache[(tier, seed)]
    tus = {}

    def chunk(cases, prefix):
        # index-level and array-level cases in separate TUs (different headers); greedy by compile weight
        for lvl, sel in (('i', [c for c in cases if c.op in ('bs2', 'bs3', 'sbt')]), ('v', [c for c in cases if c.op not in ('bs2', 'bs3', 'sbt')])):
            cur, w, n = [], 0.0, 0
            for c in sel + [None]:
                if c is None or (cur and w + c.weight() > K_TU_SECONDS):
                    if cur:
                        tus['%s%s%02d' % (prefix, lvl, n)] = cur
                        n += 1
                    cur, w = [], 0.0
                if c is not None:
                    cur.append(c); w += c.weight()
    fixed = _k_fixed(tier)
    seeded = _k_seeded(tier, seed)
    seen = set(); uniq = []
    for c in fixed + seeded:
        if c.key not in seen:
            seen.add(c.key); uniq.append(c)
    chunk([c for c in uniq if not c.seeded], 'k6_%s_' % tier[0])
    chunk([c for c in uniq if c.seeded], 'k6_%s_seed%d_' % (tier[0], seed))
    _kplan_cache[(tier, seed)] = (uniq, tus)
    return _kplan_cache[(tier, seed)]


def np_bshape(ss):
    try:
        return list(np.broadcast_shapes(*[tuple(s) for s in ss]))
    except ValueError:
        return None


def _k_eval(e, shapes_):
    """NumPy value of a clause expression (None = refused)"""
    if isinstance(e, int):
        return list(shapes_[e])
    xs = [_k_eval(x, shapes_) for x in e[1:]]
    if any(x is None for x in xs):
        return None
    return np_bshape(xs)


def _k_arr(a):
    return 'shape=%s;data=%s' % (fmt(a.shape), fmt(a.ravel()))


def _k_operand(s, j):
    return np.arange(prod(s)).reshape(tuple(s)) + 1000 * j


def k_oracle(c):
    parts = []
    for n, what, payload in c.clauses():
        if what == 'shape':
            v = _k_eval(payload, c.shapes)
            t = 'nothing' if v is None else fmt(v)
        elif what == 'sbt':
            src, dst = c.shapes
            pad = len(dst) - len(src)
            t = '%s/%s' % (fmt(dst), fmt([1 if (k < pad or src[k - pad] != dst[k]) else 0 for k in range(len(dst))])) if can_bto(src, dst) else 'nothing'
        elif what == 'bto':
            src, dst = c.shapes
            t = _k_arr(np.broadcast_to(_k_operand(src, 0), tuple(dst))) if can_bto(src, dst) else 'nothing'
        else:
            ops = [_k_operand(c.shapes[j], j) for j in payload]
            try:
                outs = np.broadcast_arrays(*ops)
                t = '|'.join(_k_arr(o) for o in outs) if what == 'barr' else _k_arr(sum(outs[1:], outs[0]))
            except ValueError:
                t = 'nothing'
        parts.append(' %s=%s' % (n, t))
    return 'ok' + ''.join(parts)


def k_bounds(c, j):
    """bounds of the clipped tuple that operand j (an index-level shape or the target of bto) was declared with"""
    salt = c.salt + (2 * j if c.op in ('bs2', 'bs3', 'sbt') else 1)
    return [G.cl_bound(v, salt, i) for i, v in enumerate(c.shapes[j])]


def k_mreq(c):
    """the request the (kind-blind) Lean model answers"""
    cl = c.clauses()
    if c.op in ('bs2', 'bs3'):
        return 'kexpr shapes=%s terms=%s' % (fmt_lists(c.shapes), ','.join('%s:%s' % (n, G.prefix(e)) for n, _, e in cl))
    if c.op == 'sbt':
        # the model mirrors the clamping of the None overload for a clipped target (known finding): it is told the kinds
        if not MIRROR_NONE_CLIPPED:
            return 'ksbt src=%s dst=%s' % (fmt(c.shapes[0]), fmt(c.shapes[1]))
        return 'ksbt src=%s dst=%s ksrc=%s kdst=%s bounds=%s' % (fmt(c.shapes[0]), fmt(c.shapes[1]), c.kinds[0], c.kinds[1],
                                                                fmt(k_bounds(c, 1)) if c.kinds[1] == 'cl' else 'None')
    if c.op == 'bto':
        return 'kbto src=%s dst=%s' % (fmt(c.shapes[0]), fmt(c.shapes[1]))
    return '%s shapes=%s orders=%s names=%s' % ('kadd' if c.op == 'add' else 'kbarr', fmt_lists(c.shapes),
                                               ';'.join(fmt(p) for _, _, p in cl), ','.join(n for n, _, _ in cl))


def k_mreq_kinded(c):
    cl = c.clauses()
    bounds = ';'.join(fmt(k_bounds(c, j)) if k == 'cl' else '[]' for j, k in enumerate(c.kinds))
    return 'kexprk shapes=%s terms=%s kinds=%s bounds=%s' % (fmt_lists(c.shapes), ','.join('%s:%s' % (n, G.prefix(e)) for n, _, e in cl),
                                                            ','.join(c.kinds), bounds)


def kgen(tier):
    cases, tus = kplan(tier)
    for name, cs in tus.items():
        for c in cs:
            o = k_oracle(c)
            ranks = '/'.join(str(len(s)) for s in c.shapes)
            tags = ['kinds', 'k:' + c.op, 'k:' + ('seeded' if c.seeded else 'table')] + ['kind=' + k for k in sorted(set(c.kinds))] + \
                   ['k:ranks=' + ranks, 'k:refused' if '=nothing' in o else 'k:accepted']
            case = Case('k6 id=%s %s' % (c.key, c.text()), name, oracle=o, mreq=k_mreq(c), nontrivial=nontriv([s for s in c.shapes]) or len(set(c.kinds)) > 1,
                        tags=tags)
            if MIRROR_NONE_CLIPPED and c.op == 'sbt' and kf_none_source_clipped_target(case):
                case.dom = False       # known-defect region: the model (ksbt) mirrors the clamp, NumPy is the judge
            yield case
            if c.op in ('bs2', 'bs3'):
                # the same clauses as `value@container`: IMPL against the Lean model of meta::resolve_optype<broadcast_shape_t>
                # (NmVerif.resolveBroadcast / BExpr.keval).  No NumPy verdict here (the values are judged by the request above):
                # a difference means the resolver model no longer mirrors the code.
                yield Case('k6t id=%s %s' % (c.key, c.text()), name, dom=False, oracle=None, mreq=k_mreq_kinded(c), nontrivial=False,
                           tags=['kinds', 'k:containers'])


# ---------------------------------------------------------------------------------------------- generator

def nontriv(ss):
    r = max(len(s) for s in ss)
    padded = [[1] * (r - len(s)) + list(s) for s in ss]
    return any(len(set(col)) > 1 for col in zip(*padded)) or len({len(s) for s in ss}) > 1


def tagsof(ss, ans):
    return ['n=%d' % len(ss), 'ranks=' + '/'.join(str(len(s)) for s in ss),
            'incompatible' if ans == 'nothing' else 'compatible']


def derive_operand(rng, full):
    """an operand broadcastable to `full`: drop leading axes, set some axes to 1"""
    k = rng.randint(0, len(full))
    s = list(full[k:])
    for i in range(len(s)):
        if rng.random() < 0.4:
            s[i] = 1
    return s


def gen(tier, rng):
    quick = tier == 'quick'
    R, E = (3, 3) if quick else (4, 4)
    S = list(shapes(R, E))
    kinds = ['vec', 'arr', 'sv']

    # -- mixed container kinds incl. compile-time constant / clipped / fixed-size / hybrid (generated TUs)
    yield from kgen(tier)

    # -- pairs: broadcast_shape both orders (comes for free: ordered pairs), shape_broadcast_to, elements
    for a in S:
        for b in S:
            o = o_bshape([a, b])
            nt = nontriv([a, b])
            yield Case('bshape shapes=%s' % fmt_lists([a, b]), H, oracle=o, nontrivial=nt, tags=['bshape'] + tagsof([a, b], o))
            ob = o_sbt(a, b)
            yield Case('sbt src=%s dst=%s' % (fmt(a), fmt(b)), H, oracle=ob, nontrivial=nt,
                       tags=['sbt', 'incompatible' if ob == 'nothing' else 'compatible'])
            small = quick or prod(b) <= 64
            if small:
                yield Case('bto_view src=%s dst=%s' % (fmt(a), fmt(b)), H, oracle=o_bto_view(a, b), nontrivial=nt,
                           tags=['bto_view', 'incompatible' if ob == 'nothing' else 'compatible'])
                if ob != 'nothing' or quick:
                    yield Case('bto_ix src=%s dst=%s' % (fmt(a), fmt(b)), H, oracle=o_bto_ix(a, b), nontrivial=nt, tags=['bto_ix'])
            if o != 'nothing' or (len(a) + len(b)) % 2 == 0:
                if quick or prod(a) * prod(b) <= 256:
                    yield Case('barrays shapes=%s' % fmt_lists([a, b]), H, oracle=o_barrays([a, b]), nontrivial=nt,
                               tags=['barrays'] + tagsof([a, b], o))
            if o != 'nothing':
                r = list(np.broadcast_shapes(tuple(a), tuple(b)))
                yield Case('free_axes a=%s b=%s' % (fmt(r), fmt(b)), H, oracle=o_free_axes(r, b), nontrivial=nt, tags=['free_axes'])

    # -- mixed container kinds (std::array needs rank 1..4, static_vector any)
    Sk = [s for s in S if 1 <= len(s) <= 4]
    step = 1 if quick else 5
    cnt = 0
    for a in Sk:
        for b in Sk:
            cnt += 1
            if cnt % step:
                continue
            ka, kb = kinds[(cnt // step) % 3], kinds[(cnt // step // 3) % 3]
            if ka == 'vec' and kb == 'vec':
                ka = 'arr'
            o = o_bshape([a, b])
            yield Case('bshape shapes=%s kinds=%s,%s' % (fmt_lists([a, b]), ka, kb), H, oracle=o, mreq='bshape shapes=%s' % fmt_lists([a, b]),
                       nontrivial=nontriv([a, b]), tags=['bshape', 'kinds=%s,%s' % (ka, kb)] + tagsof([a, b], o))
            ob = o_sbt(a, b)
            yield Case('sbt src=%s dst=%s ksrc=%s kdst=%s' % (fmt(a), fmt(b), kb, ka), H, oracle=ob, mreq='sbt src=%s dst=%s' % (fmt(a), fmt(b)),
                       nontrivial=nontriv([a, b]), tags=['sbt', 'kinds=%s,%s' % (kb, ka)])
            if ob != 'nothing' and ka != 'vec':
                yield Case('bto_view src=%s dst=%s kdst=%s' % (fmt(a), fmt(b), ka), H, oracle=o_bto_view(a, b),
                           mreq='bto_view src=%s dst=%s' % (fmt(a), fmt(b)), nontrivial=nontriv([a, b]), tags=['bto_view', 'kdst=' + ka])

    # -- triples through the variadic fold
    if quick:
        triples = itertools.product(S, S, S)
    else:
        def sample():
            S3 = list(shapes(3, 4))
            for t in itertools.product(S3, S3, S3):   # rank 0..3 / extents 1..4 exhaustively in the thorough tier
                yield t
            for _ in range(150000):                   # rank 4 included: sampled
                yield (rng.choice(S), rng.choice(S), rng.choice(S))
        triples = sample()
    nb = 0
    for a, b, c in triples:
        o = o_bshape([a, b, c])
        nt = nontriv([a, b, c])
        yield Case('bshape shapes=%s' % fmt_lists([a, b, c]), H, oracle=o, nontrivial=nt, tags=['bshape'] + tagsof([a, b, c], o))
        if o != 'nothing':
            nb += 1
            if nb % (23 if quick else 97) == 0:
                yield Case('barrays shapes=%s' % fmt_lists([a, b, c]), H, oracle=o_barrays([a, b, c]), nontrivial=nt,
                           tags=['barrays'] + tagsof([a, b, c], o))
                ka, kc = kinds[nb % 3], kinds[(nb // 3) % 3]
                if min(len(a), len(c)) >= 1 and max(len(a), len(c)) <= 4:
                    yield Case('bshape shapes=%s kinds=%s,vec,%s' % (fmt_lists([a, b, c]), ka, kc), H, oracle=o,
                               mreq='bshape shapes=%s' % fmt_lists([a, b, c]), nontrivial=nt, tags=['bshape', 'kinds3'])

    # -- random families up to rank 8: compatible by construction, then perturbed
    nrand = 1500 if quick else 20000
    for t in range(nrand):
        r = rng.randint(0, 8)
        full = [rng.choice([1, 2, 2, 3, 4, 5]) for _ in range(r)]
        while prod(full) > 1500:
            full[rng.randrange(len(full))] = 1
        n = rng.randint(2, 5)
        ops = [derive_operand(rng, full) for _ in range(n)]
        if rng.random() < 0.35 and any(ops):
            k = rng.randrange(n)
            if ops[k]:
                j = rng.randrange(len(ops[k]))
                ops[k][j] = ops[k][j] + rng.choice([1, 2])
        rng.shuffle(ops)
        o = o_bshape(ops)
        tg = ['random', 'maxrank=%d' % max(len(s) for s in ops)]
        yield Case('bshape shapes=%s' % fmt_lists(ops), H, oracle=o, nontrivial=nontriv(ops), tags=['bshape'] + tg + tagsof(ops, o))
        if n <= 3:
            yield Case('barrays shapes=%s' % fmt_lists(ops), H, oracle=o_barrays(ops), nontrivial=nontriv(ops), tags=['barrays'] + tg)
        if o != 'nothing':
            res = list(np.broadcast_shapes(*[tuple(s) for s in ops]))
            src = ops[0]
            yield Case('bto_view src=%s dst=%s' % (fmt(src), fmt(res)), H, oracle=o_bto_view(src, res), nontrivial=True, tags=['bto_view'] + tg)
            yield Case('sbt src=%s dst=%s' % (fmt(src), fmt(res)), H, oracle=o_sbt(src, res), nontrivial=True, tags=['sbt'] + tg)
            if prod(res) <= 200:
                yield Case('bto_ix src=%s dst=%s' % (fmt(src), fmt(res)), H, oracle=o_bto_ix(src, res), nontrivial=True, tags=['bto_ix'] + tg)

    # -- off-domain: zero extents (the property quantifies over positive extents; NumPy is still the judge: a zero extent
    #    paired with an extent 1 gives 1 instead of NumPy's 0 — known finding C06.broadcast-zero-extent-with-one — and
    #    broadcast_arrays then unwraps Nothing).  Bounded: ranks <= 2, extents 0..2; the model mirrors the code.
    def zcase(req, oracle, tags):
        c = Case(req, H, dom=False, oracle=oracle, nontrivial=False, tags=tags + ['zero-extent'])
        if not MIRROR_ZERO_WITH_ONE and kf_zero_extent_with_one(c):
            c.model = False
        return c
    Z = [s for s in shapes(2, 2, min_extent=0) if 0 in s]
    P = list(shapes(2, 2))
    for a in Z:
        for b in P + Z:
            for x, y in ((a, b), (b, a)):
                yield zcase('bshape shapes=%s' % fmt_lists([x, y]), o_bshape([x, y]), ['bshape'])
                yield zcase('sbt src=%s dst=%s' % (fmt(x), fmt(y)), o_sbt(x, y), ['sbt'])
    for t in ([[0], [1], [0]], [[1], [0], [1]], [[0], [1], [2]], [[2, 0], [1], [2, 1]], [[0, 1], [1, 0], [1, 1]], [[0], [], [0]]):
        yield zcase('bshape shapes=%s' % fmt_lists(t), o_bshape(t), ['bshape'])
    # broadcast_arrays over empty arrays (fine), and over the known class (the common shape keeps the 1, broadcast_to of the
    # empty operand to it is Nothing and is unwrapped: assert / crash)
    for t in ([[0], [0]], [[2, 0], [0]], [[1, 3], [0, 3]], [[0], [1]], [[1, 0], [0, 0]], [[2, 0], [2, 1]]):
        yield zcase('barrays shapes=%s' % fmt_lists(t), o_barrays(t), ['barrays'])
