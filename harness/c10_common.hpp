// C10 harness, shared part (h_c10*.cpp): a small interpreter for *compositions* of nmtools views.
//
// A composition is a chain of operations applied to the leaf `a` (data[k] = k, provenance data); binary operations
// take the second leaf `b` (data[k] = 1000 + k) or the condition leaf `c` (c[k] = (k % 3 == 0)).  The C++ type of a
// view depends on the types of everything below it, so the chain is interpreted in continuation-passing style:
// `run<D>(x, prog, pos, k)` dispatches on the run-time op name and calls itself with the (differently typed) result;
// every op sequence up to the compiled depth over the compiled op set is therefore instantiated, and the run-time
// request selects one.  Which ops are compiled at which depth is fixed per TU by the masks C10_MASK0/1/2.
//
// Step `i` of the chain is taken lazily (`view::fn(x, args)`, the nested view is held by value) or eagerly
// (`array::fn(x, args)`: the operand so far is evaluated to a concrete ndarray first) according to bit i of `mat`.
#pragma once
#include "nmtools/array/ndarray.hpp"
#include "nmtools/array/index/ndindex.hpp"
#include "nmtools/utility/at.hpp"
#include "nmtools/array/eval.hpp"
#include "proto.hpp"
#include <array>
#include <cstring>
#include <cmath>
#include <iomanip>
#include <type_traits>

namespace nm = nmtools; namespace ix = nmtools::index; namespace na = nmtools::array; namespace view = nmtools::view;
namespace meta = nmtools::meta;
using namespace proto;

namespace c10 {

#ifndef C10_ELEM
#define C10_ELEM int
#endif
using elem_t = C10_ELEM;
using arr_t  = na::ndarray_t<std::vector<elem_t>, std::vector<size_t>>;
using carr_t = na::column_major_ndarray_t<std::vector<elem_t>, std::vector<size_t>>;

// operand storage kinds besides the dynamic ones (shape (2,3) where the type fixes it, any 2-d shape of <= 12 elements else)
using nested_t  = std::array<std::array<elem_t,3>,2>;                                    // fixed
using fixed_t   = na::fixed_ndarray<elem_t,2,3>;                                         // fixed
using cshape_t  = na::ndarray_t<nmtools_array<elem_t,6>, nmtools_tuple<meta::ct<2ul>,meta::ct<3ul>>>;   // fixed (constant shape)
using hybrid_t  = na::hybrid_ndarray<elem_t,12,2>;                                       // bounded
using bounded_t = na::ndarray_t<na::static_vector<elem_t,12>, nmtools_array<size_t,2>>;  // bounded buffer, fixed dim
using cbounded_t = na::column_major_ndarray_t<na::static_vector<elem_t,12>, nmtools_array<size_t,2>>;
using dynfd_t   = na::ndarray_t<std::vector<elem_t>, nmtools_array<size_t,2>>;           // dynamic buffer, fixed dim

template <typename A> inline bool shape_to(A& a, const uvec& s) {
    if constexpr (std::is_same_v<A,nested_t> || std::is_same_v<A,fixed_t> || std::is_same_v<A,cshape_t>) return s == uvec{2,3};
    else if constexpr (std::is_same_v<A,hybrid_t>) { if (s.size() != 2 || s[0]*s[1] > 12) return false; return a.resize(s[0], s[1]); }
    else if constexpr (std::is_same_v<A,bounded_t> || std::is_same_v<A,cbounded_t> || std::is_same_v<A,dynfd_t>) {
        if (s.size() != 2 || (!std::is_same_v<A,dynfd_t> && s[0]*s[1] > 12)) return false;
        a.resize(nmtools_array<size_t,2>{s[0], s[1]}); return true;
    } else { a.resize(s); return true; }
}

template <typename A = arr_t> inline A mk(const uvec& s, int base = 0) {
    A a{}; if (!shape_to(a, s)) throw bad_args("shape for this storage kind");
    // logical element at multi-index i = base + row-major flat id of i (also for a column-major buffer)
    auto shp = nm::shape(a);                       // ndindex keeps a reference to the shape it is given
    auto nd = ix::ndindex(shp); size_t n = nd.size();   // index kind of the array's own shape kind
    for (size_t k = 0; k < n; k++) nm::apply_at(a, nd[k]) = (elem_t)((int)k + base);
    return a;
}
inline arr_t mk_cond(const uvec& s) {
    arr_t a; a.resize(s); size_t n = nm::size(a);
    for (size_t k = 0; k < n; k++) a.data()[k] = (elem_t)((k % 3 == 0) ? 1 : 0);
    return a;
}

template <typename T> inline void put(std::ostringstream& o, T v) {
    if constexpr (std::is_same_v<T,float>) { uint32_t u; std::memcpy(&u, &v, 4); o << "f" << std::hex << u << std::dec; }
    else if constexpr (std::is_same_v<T,double>) { uint64_t u; std::memcpy(&u, &v, 8); o << "d" << std::hex << u << std::dec; }
    else if constexpr (std::is_same_v<T,bool>) o << (v ? 1 : 0);
    else if constexpr (std::is_unsigned_v<T>) o << (unsigned long long)v;
    else o << (long long)v;
}
template <typename S> inline uvec to_uvec(const S& shp) {
    uvec s;
    if constexpr (meta::is_constant_index_array_v<S>) {   // tuple of integral constants (fixed-shape results)
        constexpr auto v = meta::to_value_v<S>;
        for (size_t i = 0; i < (size_t)nm::len(v); i++) s.push_back((size_t)nm::at(v, i));
    } else for (size_t i = 0; i < (size_t)nm::len(shp); i++) s.push_back((size_t)nm::at(shp, i));
    return s;
}

template <typename T> struct is_std_array : std::false_type {};
template <typename T, size_t N> struct is_std_array<std::array<T,N>> : std::true_type {};
// what is observable of an array or a view: shape + every element in C order of its own shape (through apply_at)
struct Obs { std::string err; uvec shape; std::string data; };
template <typename V> inline Obs observe(const V& v) {
    Obs r;
    if constexpr (meta::is_num_v<V>) {      // a reduction whose result has no axis left is a number (NumPy: 0-d array)
        using T = meta::remove_cvref_t<meta::get_element_type_t<V>>;
        std::ostringstream o; put<T>(o, static_cast<T>(v)); r.data = o.str(); return r;
    } else {
    r.shape = to_uvec(nm::shape(v));
    if ((size_t)nm::dim(v) != r.shape.size()) { r.err = "dim-mismatch"; return r; }
    size_t n = 1; for (auto e : r.shape) n *= e;
    // (nmtools::size of a *nested std::array* is its outer length, not its element count: not checked for that kind)
    if constexpr (!is_std_array<V>::value) if ((size_t)nm::size(v) != n) { r.err = "size-mismatch"; return r; }
    using T = meta::remove_cvref_t<meta::get_element_type_t<V>>;
    std::ostringstream o; if (n == 0) o << "[]";
    auto shp = nm::shape(v);
    auto nd = ix::ndindex(shp);               // as the evaluator does: indices of the view's own shape kind
    if ((size_t)nd.size() != n) { r.err = "ndindex-size-mismatch"; return r; }
    try { for (size_t k = 0; k < n; k++) { if (k) o << ','; put<T>(o, (T)nm::apply_at(v, nd[k])); } }
    catch (const std::out_of_range&) { r.err = "oob"; return r; }
    r.data = o.str(); return r;
    }
}
inline bool same(const Obs& x, const Obs& y) { return x.err.empty() && y.err.empty() && x.shape == y.shape && x.data == y.data; }
inline std::string show(const Obs& x) { return x.err.empty() ? "shape=" + fmt(x.shape) + " data=" + x.data : x.err; }
// raw buffer of a concrete ndarray, in storage order
template <typename A> inline std::string buffer_of(const A& a) {
    using T = meta::remove_cvref_t<meta::get_element_type_t<A>>;
    size_t n = (size_t)nm::size(a); std::ostringstream o; if (n == 0) o << "[]";
    const auto* p = a.data();
    for (size_t k = 0; k < n; k++) { if (k) o << ','; put<T>(o, (T)p[k]); }
    return o.str();
}

// ---- programs -----------------------------------------------------------------------------------------------------
struct Op {
    std::string name; std::vector<std::string> args;
    bool none(size_t k) const { return k >= args.size() || args[k] == "None"; }
    std::vector<int> iv(size_t k) const { if (k >= args.size()) throw bad_args("arg"); std::vector<int> r; for (auto v : parse_ints(args[k])) r.push_back((int)v); return r; }
    uvec uv(size_t k) const { uvec r; for (auto v : iv(k)) r.push_back((size_t)v); return r; }
    int i(size_t k) const { auto v = iv(k); if (v.size() != 1) throw bad_args("int"); return v[0]; }
};
// b = right operand of the binary operations (the leaf `b` or a chain over it: binary trees), c = condition leaf of where
template <typename B> struct Prog {
    const std::vector<Op>& ops; unsigned mat; const B& b; const arr_t& c;
    bool eager(size_t pos) const { return (mat >> pos) & 1u; }
};
inline std::vector<Op> parse_ops(const std::string& s) {
    std::vector<Op> r; if (s == "[]" || s.empty()) return r;
    for (auto& t : split(s, ';')) { auto f = split(t, ':'); Op o; o.name = f[0]; o.args.assign(f.begin() + 1, f.end()); r.push_back(o); }
    return r;
}

// op codes (bit positions of the C10_MASKn masks)
enum : unsigned {
    TRANSPOSE = 0, RESHAPE, FLATTEN, EXPAND_DIMS, SQUEEZE, FLIP, MOVEAXIS, TILE, REPEAT, ROLL, PAD, TAKE, SLICE,
    BROADCAST_TO, ADDB, MULB, WHERE, SUM, PROD, AMAX, CUMSUM, MATMUL, CONCATENATE, STACK, SOFTMAX, SUMRT,
    // compile-time arguments (so that a fixed-shape operand gives a fixed-shape view) and self-binary operations
    TRANSPOSE_N, RESHAPE_CT, SUM_CT, TILE_CT, ADDSELF, CONCATSELF, NOPS
};
inline const char* op_names[] = {"transpose", "reshape", "flatten", "expand_dims", "squeeze", "flip", "moveaxis", "tile",
    "repeat", "roll", "pad", "take", "slice", "broadcast_to", "addb", "mulb", "where", "sum", "prod", "amax", "cumsum",
    "matmul", "concatenate", "stack", "softmax", "sumrt", "transpose_n", "reshape_ct", "sum_ct", "tile_ct", "addself", "concatself"};
inline int op_code(const std::string& n) { for (unsigned k = 0; k < NOPS; k++) if (n == op_names[k]) return (int)k; return -1; }

#ifndef C10_MASK0
#define C10_MASK0 0u
#endif
#ifndef C10_MASK1
#define C10_MASK1 0u
#endif
#ifndef C10_MASK2
#define C10_MASK2 0u
#endif
#ifndef C10_BMASK0
#define C10_BMASK0 0u
#endif
#ifndef C10_BMASK1
#define C10_BMASK1 0u
#endif
// W = 0: the main chain (over leaf a), W = 1: the chain that builds the right operand (over leaf b)
template <int W, int D> constexpr unsigned mask_at() {
    if constexpr (W == 0) { if constexpr (D == 0) return C10_MASK0; else if constexpr (D == 1) return C10_MASK1; else if constexpr (D == 2) return C10_MASK2; else return 0u; }
    else { if constexpr (D == 0) return C10_BMASK0; else if constexpr (D == 1) return C10_BMASK1; else return 0u; }
}
template <int W, int D, unsigned OP> constexpr bool on() { return (mask_at<W,D>() >> OP) & 1u; }

} // namespace c10
