/-
  NmVerif.Containers.Kinds — the container layer under the index functions (property C09).

  The index functions of the model take `List Nat`: there is ONE semantic function per operation.
  What differs between the C++ kinds is the container the arguments arrive in and the container the
  metafunction `meta::resolve_optype` picks for the result:

    * `BVec cap`        bounded vector, mirror of `utl::static_vector<T,cap>` (utl/static_vector.hpp):
                        a buffer of `cap` cells + a size; `resize` / `push_back` above the capacity are
                        silently refused; cells are never cleared
    * `Clipped lo hi`   mirror of `clipped_integer_t<T,lo,hi>` (def.hpp:55-132): construction and
                        assignment clamp into `[lo,hi]`
    * fixed arrays      `nmtools_array<T,N>`: a list whose length is known to be `N`

  Core Lean only.
-/
namespace NmVerif.Kinds

/-! ### bounded vector -/

/-- `utl::static_vector<Nat,cap>`: `buffer` (always `cap` cells, value-initialised to 0) and `size_`. -/
structure BVec (cap : Nat) where
  buf : List Nat
  size : Nat
  deriving Repr, DecidableEq

namespace BVec

/-- default constructor: `buffer = {}`, `size_ = 0` -/
def empty (cap : Nat) : BVec cap := ⟨List.replicate cap 0, 0⟩

/-- `resize(n)`: `if (n <= Capacity) size_ = n;` — a request above the capacity is ignored. -/
def resize {cap} (b : BVec cap) (n : Nat) : BVec cap :=
  if n ≤ cap then { b with size := n } else b

/-- `operator[](i) = v` (no bounds check in the C++; the model writes only inside the buffer) -/
def set {cap} (b : BVec cap) (i v : Nat) : BVec cap := { b with buf := b.buf.set i v }

/-- `push_back(v)`: refused when `size_+1 > Capacity` -/
def push {cap} (b : BVec cap) (v : Nat) : BVec cap :=
  if b.size + 1 ≤ cap then ⟨b.buf.set b.size v, b.size + 1⟩ else b

/-- what `len` / `at` observe: the first `size_` cells -/
def toList {cap} (b : BVec cap) : List Nat := b.buf.take b.size

end BVec

/-- the operations index functions apply to a result container -/
inductive VOp where
  | resize (n : Nat)
  | set (i v : Nat)
  | push (v : Nat)
  deriving Repr, DecidableEq

/-- `std::vector` semantics (the dynamic kind): `resize` zero-fills, `set` inside the size, `push_back` appends -/
def stepList (l : List Nat) : VOp → List Nat
  | .resize n => l.take n ++ List.replicate (n - l.length) 0
  | .set i v => l.set i v
  | .push v => l ++ [v]

def stepBVec {cap} (b : BVec cap) : VOp → BVec cap
  | .resize n => b.resize n
  | .set i v => b.set i v
  | .push v => b.push v

def runList (ops : List VOp) (l : List Nat) : List Nat := ops.foldl stepList l
def runBVec {cap} (ops : List VOp) (b : BVec cap) : BVec cap := ops.foldl stepBVec b

/-- the operation sequence never exceeds the capacity and never shrinks (the pattern of every index
    function: `result.resize(n)` once, then element assignment / `push_back`); `len` = current length -/
def Fits (cap : Nat) : List VOp → Nat → Prop
  | [], _ => True
  | .resize n :: ops, len => len ≤ n ∧ n ≤ cap ∧ Fits cap ops n
  | .set i _ :: ops, len => i < len ∧ Fits cap ops len
  | .push _ :: ops, len => len + 1 ≤ cap ∧ Fits cap ops (len + 1)

instance decFits (cap : Nat) : (ops : List VOp) → (len : Nat) → Decidable (Fits cap ops len)
  | [], _ => isTrue trivial
  | .resize n :: ops, len => by
      unfold Fits
      have := decFits cap ops n
      exact inferInstance
  | .set i _ :: ops, len => by
      unfold Fits
      have := decFits cap ops len
      exact inferInstance
  | .push _ :: ops, len => by
      unfold Fits
      have := decFits cap ops (len + 1)
      exact inferInstance

/-- `result_t{}` then `resize(len l)` then `at(result,i) = l[i]` for every `i`: how the index
    functions fill a bounded result with the values the list-level function computes -/
def fillOps (l : List Nat) : List VOp :=
  .resize l.length :: (List.range l.length).map (fun i => .set i (l.getD i 0))

def BVec.ofList (cap : Nat) (l : List Nat) : BVec cap := runBVec (fillOps l) (BVec.empty cap)

/-! ### clipped integer -/

/-- `clipped_integer_t<T,lo,hi>` -/
structure Clipped (lo hi : Int) where
  val : Int
  deriving Repr, DecidableEq

namespace Clipped

/-- constructor from a value: `value(other > Max ? Max : (other < Min ? Min : other))` -/
def mk' (lo hi : Int) (v : Int) : Clipped lo hi := ⟨if v > hi then hi else if v < lo then lo else v⟩

/-- default constructor: `value = Min` -/
def default (lo hi : Int) : Clipped lo hi := ⟨lo⟩

/-- `operator=(T)`: `*this = clipped_integer_t{other}` -/
def assign {lo hi} (_ : Clipped lo hi) (v : Int) : Clipped lo hi := mk' lo hi v

end Clipped

/-- a clipped index tuple: the bounds come from the type (a list of maxima, minimum 0) -/
def clipList (maxs vals : List Nat) : List Nat :=
  List.zipWith (fun (m v : Nat) => ((Clipped.mk' 0 (m : Int) (v : Int)).val).toNat) maxs vals

/-- pointwise `≤` of two lists of the same length -/
def LeList : List Nat → List Nat → Prop
  | [], [] => True
  | a :: as, b :: bs => a ≤ b ∧ LeList as bs
  | _, _ => False

instance decLeList : (a b : List Nat) → Decidable (LeList a b)
  | [], [] => isTrue trivial
  | a :: as, b :: bs => by
      unfold LeList
      have := decLeList as bs
      exact inferInstance
  | [], _ :: _ => isFalse (fun h => h)
  | _ :: _, [] => isFalse (fun h => h)

end NmVerif.Kinds
