import NmVerif.Proto
namespace NmVerif.Driver.C02
open NmVerif NmVerif.Proto

def handle : Handler := fun op _args =>
  match op with
  | _ => none

end NmVerif.Driver.C02
