// C16 harness (1/3): index::shape_matmul, view::matmul (slicing implementation), view::matmulv2 (pipeline)
#include "nmtools/array/view/matmul.hpp"
#include "c16_common.hpp"
using namespace c16;
namespace view = nmtools::view; namespace ix = nmtools::index;

std::string handle(const std::string& op, const Args& a) {
    if (op == "shape_matmul") {
        auto r = ix::shape_matmul(nats(a, "a"), nats(a, "b"));
        if (!nm::has_value(r)) return "nothing";
        return "ok " + fmt(to_uvec(*r));
    }
    if (op == "matmul") {
        std::string mode = has(a, "data") ? get(a, "data") : "mix";
        auto A = make(nats(a, "a"), mode, 0); auto B = make(nats(a, "b"), mode, 1);
        std::string impl = get(a, "impl");
        try {
            if (impl == "v1") return show(view::matmul(A, B));
            if (impl == "v2") return show(view::matmulv2(A, B));
        } catch (const std::out_of_range&) { return "crash:out_of_range"; }
        throw bad_args("impl");
    }
    if (op == "matmul_helpers") {   // the four shape helpers of the matmulv2 pipeline
        auto ls = nats(a, "a"), rs = nats(a, "b");
        auto reps = ix::matmul_lhs_tile(ls, rs);
        auto axes = ix::matmul_rhs_transpose(rs.size());
        auto lre = ix::matmul_lhs_reshape(ls, rs);
        return "ok tile=" + fmt(to_uvec(reps)) + " axes=" + fmt(to_uvec(axes)) + " lhs_reshape=" + fmt(to_uvec(lre));
    }
    return "unknown-op";
}
