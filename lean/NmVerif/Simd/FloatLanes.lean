/-
  NmVerif.Simd.FloatLanes — precision of a unary lane operation (floating-point element types).

  include/nmtools/array/eval/simd/vector_extension.hpp builds `simd_op_t<vector_t<n>,T>::sqrt / floor / ceil` with

      #define NMTOOLS_SIMD_VECTOR_BUILTIN(function,res,x)  packed_t res = {};
              for (auto i=0ul; i<n_elements; i++) { res[i] = nmtools_builtin_##function(x[i]); }

      if constexpr (meta::is_same_v<data_t,float>) { NMTOOLS_SIMD_VECTOR_BUILTIN(ceilf,result,x); return result; }
      else                                         { NMTOOLS_SIMD_VECTOR_BUILTIN(ceil ,result,x); return result; }

  i.e. a loop over the lanes that applies ONE scalar builtin, chosen at compile time from the element type.  The scalar
  functor of the tail loop / default evaluator (`view::fun::ceil` -> `math::ceil`) is the builtin of the element
  type's OWN precision.  Calling the single-precision builtin on a double lane converts the argument to `float`
  (rounding) and the result back to `double`; calling the double builtin on a float lane converts exactly, computes in
  double and rounds the result to `float`.

  MODEL.  `F` = the float values, `D` = the double values, `Builtin F D` = the pair of builtins with the two implicit
  conversions; `Builtin.laneD useF` / `Builtin.laneF useF` = one iteration of the loop for a double / float register
  when the `if constexpr` picked the single-precision builtin (`useF = true`) or the double one; `packLanes` = the loop.
  The x86 / SIMDe wrappers call one instruction per element type (`_mm256_ceil_ps` / `_mm256_ceil_pd`, …): their lane
  is ASSUMED to be the builtin of that precision (`useF = (T is float)`), which the correspondence run measures on the
  precision-sensitive values of lib/props/c12.py.

  Core Lean only: linked into the driver (which instantiates `F = Float32`, `D = Float` with the C library's
  ceilf / ceil, floorf / floor, sqrtf / sqrt and the hardware conversions).
-/
namespace NmVerif.Simd

variable {α β F D : Type}

/-- `NMTOOLS_SIMD_VECTOR_BUILTIN(function,res,x)`: `res[i] = function(x[i])` for every lane of the register -/
def packLanes (g : α → β) (x : List α) : List β := x.map g

/-- a math builtin in its two precisions, with the implicit conversions of a call at the other precision -/
structure Builtin (F D : Type) where
  /-- `nmtools_builtin_ceilf / floorf / sqrtf : float → float` -/
  fnF : F → F
  /-- `nmtools_builtin_ceil / floor / sqrt : double → double` -/
  fnD : D → D
  /-- implicit conversion `double → float` of an argument / a result: rounds to single precision -/
  narrow : D → F
  /-- implicit conversion `float → double`: exact -/
  widen : F → D

/-- one lane of a register of DOUBLES: `res[i] = builtin(x[i])`; `useF` = the `if constexpr` chose the `…f` builtin -/
def Builtin.laneD (b : Builtin F D) (useF : Bool) (x : D) : D :=
  if useF then b.widen (b.fnF (b.narrow x)) else b.fnD x

/-- one lane of a register of FLOATS -/
def Builtin.laneF (b : Builtin F D) (useF : Bool) (x : F) : F :=
  if useF then b.fnF x else b.narrow (b.fnD (b.widen x))

/-- `simd_op_t<vector_t<n>,double>::ceil / floor / sqrt` on a register -/
def vecExtUnaryD (b : Builtin F D) (useF : Bool) : List D → List D := packLanes (b.laneD useF)

/-- `simd_op_t<vector_t<n>,float>::ceil / floor / sqrt` on a register -/
def vecExtUnaryF (b : Builtin F D) (useF : Bool) : List F → List F := packLanes (b.laneF useF)

/-- outcome of `meta::is_same_v<data_t,float>` (the unchanged tree): the single-precision builtin for `float` only -/
def selectsF32 (elemIsF32 : Bool) : Bool := elemIsF32

/-! ### a small exact instance (sensitivity witness): binary fixed point

  `D` = multiples of 1/4 (`n : Int` stands for n/4), `F` = multiples of 1/2 (`n` stands for n/2): `F` has one bit of
  precision less, as `float` has 29 bits less than `double`. -/

/-- round to nearest, ties to even: n/4 ↦ the nearest multiple of 1/2 (in units of 1/2) -/
def fxNarrow (n : Int) : Int :=
  let q := n / 2            -- floor
  if n % 2 = 0 then q else if q % 2 = 0 then q else q + 1

/-- `ceil` on units of 1/4 and of 1/2 -/
def fxCeil : Builtin Int Int where
  fnF := fun n => 2 * ((n + 1) / 2)
  fnD := fun n => 4 * ((n + 3) / 4)
  narrow := fxNarrow
  widen := fun n => 2 * n

end NmVerif.Simd
