// C15 harness: invalid (and valid) arguments to checked operations; outcome = value | nothing | crash(kind, by the runner)
#include "nmtools/array/ndarray.hpp"
#include "nmtools/array/view/reshape.hpp"
#include "nmtools/array/view/transpose.hpp"
#include "nmtools/array/view/moveaxis.hpp"
#include "nmtools/array/view/swapaxes.hpp"
#include "nmtools/array/view/expand_dims.hpp"
#include "nmtools/array/view/squeeze.hpp"
#include "nmtools/array/view/broadcast_to.hpp"
#include "nmtools/array/view/broadcast_arrays.hpp"
#include "nmtools/array/view/concatenate.hpp"
#include "nmtools/array/view/matmul.hpp"
#include "nmtools/array/view/pad.hpp"
#include "nmtools/array/view/tile.hpp"
#include "nmtools/array/view/repeat.hpp"
#include "nmtools/array/view/roll.hpp"
#include "nmtools/array/view/sum.hpp"
#include "nmtools/array/view/ufuncs/add.hpp"
#include "nmtools/array/view/atleast_nd.hpp"
#include "nmtools/array/view/where.hpp"
#include "nmtools/array/view/flatten.hpp"
#include "nmtools/array/eval.hpp"
#include "nmtools/utility/has_value.hpp"
#include "nmtools/utility/unwrap.hpp"
#include "proto.hpp"
#include <vector>

namespace nm = nmtools; namespace na = nmtools::array; namespace view = nmtools::view; namespace meta = nmtools::meta;
using namespace proto;
using nd_t = na::ndarray_t<std::vector<int>, std::vector<size_t>>;

static nd_t iota(const uvec& s, int base=0) {
    nd_t a; a.resize(s); size_t n = nm::size(a); for (size_t k=0;k<n;k++) a.data()[k] = base + (int)k; return a;
}
template <typename V> static std::string fmtn(const V& v) {
    return fmt_with(v, [](const auto& x){ return (size_t)nm::len(x); }, [](const auto& x, size_t i){ return nm::at(x,i); });
}
// read every element of an (unwrapped) array/view
template <typename V> static std::string dump(const V& v) {
    auto shape = nm::shape(v);
    uvec s; for (size_t i=0;i<(size_t)nm::len(shape);i++) s.push_back((size_t)nm::at(shape,i));
    size_t n = 1; for (auto e : s) n *= e;
    std::vector<long long> d;
    auto nd = nm::index::ndindex(s);
    for (size_t k=0;k<n;k++) d.push_back((long long)nm::apply_at(v, nd[k]));
    return "ok shape=" + fmt(s) + " data=" + fmt(d);
}
template <typename V> static std::string outcome(const V& v) {
    if constexpr (meta::is_maybe_v<V>) { if (!nm::has_value(v)) return "nothing"; return dump(*v); }
    else return dump(v);
}
// evaluate too: eval of an empty optional must stay empty
template <typename V> static std::string outcome_eval(const V& v) {
    auto r = na::eval(v);
    std::string a = outcome(v), b = outcome(r);
    return a==b ? a : ("view/eval-differ view=" + a + " eval=" + b);
}

std::string handle(const std::string& op, const Args& a) {
    auto shape = nats(a,"shape");
    nd_t x = iota(shape);
    if (op=="reshape")      { auto t = intsi(a,"to"); return outcome_eval(view::reshape(x, t)); }
    if (op=="transpose")    { auto ax = intsi(a,"axes"); return outcome_eval(view::transpose(x, ax)); }
    if (op=="moveaxis")     { auto s = intsi(a,"src"); auto d = intsi(a,"dst"); return outcome_eval(view::moveaxis(x, s, d)); }
    if (op=="swapaxes")     { int p = (int)integer(a,"a1"), q = (int)integer(a,"a2"); return outcome_eval(view::swapaxes(x, p, q)); }
    if (op=="expand_dims")  { auto ax = intsi(a,"axes"); return outcome_eval(view::expand_dims(x, ax)); }
    if (op=="squeeze")      { return outcome_eval(view::squeeze(x)); }
    if (op=="broadcast_to") { auto t = nats(a,"to"); return outcome_eval(view::broadcast_to(x, t)); }
    if (op=="add")          { nd_t y = iota(nats(a,"shape2"), 1000); return outcome_eval(view::add(x, y)); }
    if (op=="concatenate")  { nd_t y = iota(nats(a,"shape2"), 1000); int ax = (int)integer(a,"axis"); return outcome_eval(view::concatenate(x, y, ax)); }
    if (op=="matmul")       { nd_t y = iota(nats(a,"shape2"), 1); return outcome_eval(view::matmul(x, y)); }
    if (op=="pad")          { auto w = intsi(a,"width"); return outcome_eval(view::pad(x, w, -1)); }
    if (op=="tile")         { auto r = intsi(a,"reps"); return outcome_eval(view::tile(x, r)); }
    if (op=="repeat")       { int r = (int)integer(a,"repeats"); int ax = (int)integer(a,"axis"); return outcome_eval(view::repeat(x, r, ax)); }
    if (op=="roll")         { int sh = (int)integer(a,"shift"); int ax = (int)integer(a,"axis"); return outcome_eval(view::roll(x, sh, ax)); }
    if (op=="sum")          { int ax = (int)integer(a,"axis"); return outcome_eval(view::sum(x, ax)); }
    if (op=="where3")       { nd_t y = iota(nats(a,"shape2"), 1000); nd_t z = iota(nats(a,"shape3"), 2000);
                              nd_t c = iota(shape); for (size_t k=0;k<(size_t)nm::size(c);k++) c.data()[k] = (int)(k%2);
                              return outcome_eval(view::where(c, y, z)); }
    // pipelines: a failing first stage must propagate (never be dereferenced)
    if (op=="pipe_reshape_transpose") { auto t = intsi(a,"to"); return outcome_eval(view::transpose(view::reshape(x, t))); }
    if (op=="pipe_reshape_sum")       { auto t = intsi(a,"to"); int ax = (int)integer(a,"axis"); return outcome_eval(view::sum(view::reshape(x, t), ax)); }
    if (op=="pipe_bcast_add_flatten") { auto t = nats(a,"to"); nd_t y = iota(nats(a,"shape2"), 1000); return outcome_eval(view::flatten(view::add(view::broadcast_to(x, t), y))); }
    if (op=="pipe_add_reshape")       { nd_t y = iota(nats(a,"shape2"), 1000); auto t = intsi(a,"to"); return outcome_eval(view::reshape(view::add(x, y), t)); }
    return "unknown-op";
}
