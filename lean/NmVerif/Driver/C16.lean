import NmVerif.Proto
import NmVerif.Basic
import NmVerif.Arr
import NmVerif.Linalg
namespace NmVerif.Driver.C16
open NmVerif.MB
open NmVerif NmVerif.Proto NmVerif.Linalg

/-- operand data of the harness (`c16::val`): `lin` a[k]=k+1, b[k]=2k+3; `mix` a small pseudo-random positive integer -/
def val (mode : String) (operand k : Nat) : Int :=
  if mode == "lin" then (if operand == 0 then (k : Int) + 1 else 2 * (k : Int) + 3)
  else ((1 + ((k + 1 + 17 * operand) * 2654435761 % 4294967296) % 9973 : Nat) : Int)

def leaf (mode : String) (operand : Nat) (s : Shape) : Idx → Int :=
  fun i => val mode operand (computeOffset i (strides s))

def fmtData (l : List String) : String := if l.isEmpty then "[]" else ",".intercalate l

/-- answer for a result whose elements are sums over term lists -/
def showSum (mode : String) (sa sb : Shape) (r : Option (Arr (List Term))) : String :=
  match r with
  | none => "nothing"
  | some a =>
    let A := leaf mode 0 sa
    let B := leaf mode 1 sb
    s!"ok shape={fmtNats a.shape} data={fmtData ((allIdx a.shape).map (fun d => toString (valueAt A B (a.get d))))} eval=same"

/-- answer for a result whose elements are single products -/
def showProd (mode : String) (sa sb : Shape) (r : Option (Arr Term)) : String :=
  showSum mode sa sb (r.map (fun a => ⟨a.shape, fun d => [a.get d]⟩))

/-- `view::matmul`: an element whose slicing is out of range prints `X`, and then `eval` dies too -/
def showV1 (mode : String) (sa sb : Shape) (r : Option (Arr (Option (List Term)))) : String :=
  match r with
  | none => "nothing"
  | some a =>
    let A := leaf mode 0 sa
    let B := leaf mode 1 sb
    let es := (allIdx a.shape).map (fun d => a.get d)
    let ev := if es.all Option.isSome then "same" else "crash"
    s!"ok shape={fmtNats a.shape} data={fmtData (es.map (fun e => match e with | some ts => toString (valueAt A B ts) | none => "X"))} eval={ev}"

def showTrace (mode : String) (s : Shape) (r : Option (Arr (List (Option Nat)))) : String :=
  match r with
  | none => "nothing"
  | some a =>
    let elems := (allIdx a.shape).map (fun d =>
      let ts := a.get d
      if ts.all Option.isSome then some ((ts.filterMap id).foldl (fun acc p => acc + val mode 0 p) (0 : Int)) else none)
    let ev := if elems.all Option.isSome then "same" else "crash"
    s!"ok shape={fmtNats a.shape} data={fmtData (elems.map (fun e => match e with | some v => toString v | none => "X"))} eval={ev}"

/-- ops are prefixed `c16.` on the model side (`Case.mreq`): other properties' drivers also serve ops called `outer`, `dot`, … -/
def handle : Handler := fun op a =>
  let mode := (a.get? "data").getD "mix"
  match op with
  | "c16.shape_matmul" => orBad do
      let sa ← a.nats "a"
      let sb ← a.nats "b"
      match shapeMatmul sa sb with
      | some s => pure s!"ok {fmtNats s}"
      | none => pure "nothing"
  | "c16.matmul" => orBad do
      let sa ← a.nats "a"
      let sb ← a.nats "b"
      match a.get? "impl" with
      | some "v1" => pure (showV1 mode sa sb (matmulV1 sa sb))
      | some "v2" => pure (showSum mode sa sb (matmulV2C sa sb))
      | _ => none
  | "c16.matmul_helpers" => orBad do
      let sa ← a.nats "a"
      let sb ← a.nats "b"
      pure s!"ok tile={fmtNats (matmulLhsTile sa sb)} axes={fmtNats (matmulRhsTranspose sb.length)} lhs_reshape={fmtNats (matmulLhsReshape sa sb)}"
  | "c16.dot" => orBad do
      pure (showSum mode (← a.nats "a") (← a.nats "b") (dot (← a.nats "a") (← a.nats "b")))
  | "c16.inner" => orBad do
      pure (showSum mode (← a.nats "a") (← a.nats "b") (innerC (← a.nats "a") (← a.nats "b")))
  | "c16.outer" => orBad do
      pure (showProd mode (← a.nats "a") (← a.nats "b") (outer (← a.nats "a") (← a.nats "b")))
  | "c16.vecdot" => orBad do
      pure (showSum mode (← a.nats "a") (← a.nats "b") (vecdotC (← a.nats "a") (← a.nats "b")))
  | "c16.kron" => orBad do
      pure (showProd mode (← a.nats "a") (← a.nats "b") (kron (← a.nats "a") (← a.nats "b")))
  | "c16.tensordot" => orBad do
      let sa ← a.nats "a"
      let sb ← a.nats "b"
      match a.get? "axes" with
      | some _ => pure (showSum mode sa sb (tensordotIntC sa sb (← a.nat "axes")))
      | none => pure (showSum mode sa sb (tensordotAxesC sa sb (← a.ints "la") (← a.ints "ra")))
  | "c16.trace" => orBad do
      let s ← a.nats "a"
      pure (showTrace mode s (trace s (← a.int "offset") (← a.int "axis1") (← a.int "axis2")))
  | "c16.dot_helpers" => orBad do
      let sa ← a.nats "a"
      let sb ← a.nats "b"
      match dotLhsReshape sa sb with
      | some r => pure s!"ok tile={fmtNats (dotLhsTile sa sb)} axes={fmtNats (dotRhsTranspose sb)} lhs_reshape={fmtNats r}"
      | none => pure "crash:out_of_range"
  | "c16.inner_helpers" => orBad do
      match innerLhsReshape (← a.nats "a") (← a.nats "b") with
      | some r => pure s!"ok lhs_reshape={fmtNats r}"
      | none => pure "crash:out_of_range"
  | "c16.kron_helpers" => orBad do
      let sa ← a.nats "a"
      let sb ← a.nats "b"
      pure s!"ok axes={fmtNats (kronDstTranspose (sa.length + sb.length + 1) sa.length sb.length)} lhs_reshape={fmtNats (sa ++ List.replicate sb.length 1)} dst={fmtNats (kronDstReshape sa sb)}"
  | "c16.tensordot_helpers" => orBad do
      let sa ← a.nats "a"
      let sb ← a.nats "b"
      match a.get? "axes" with
      | some _ =>
        let n ← a.nat "axes"
        pure s!"ok lt={fmtNats (List.range sa.length)} rt={fmtNats (moveToEnd sb.length (List.range n))}"
      | none =>
        let la ← (← a.ints "la").mapM (normAxis · sa.length)
        let ra ← (← a.ints "ra").mapM (normAxis · sb.length)
        pure s!"ok lt={fmtNats (moveToEnd sa.length la)} rt={fmtNats (moveToEnd sb.length ra)}"
  | _ => none

end NmVerif.Driver.C16
