import NmVerif.Basic
/-
  NmVerif.Index.Checked — argument validation exactly as the (repaired) code performs it, for ALL inputs
  including invalid ones (C15).  Mirrors include/nmtools/array/index/reshape.hpp (count_negative_reshape,
  shape_reshape after "fix: shape_reshape rejects zero and negative extents"), index/normalize_axis.hpp,
  and the Option plumbing (`nmtools_maybe`) of view constructors / eval.
-/
namespace NmVerif.Checked
open NmVerif

/-- `count_negative_reshape`: number of `-1` entries and the product of the other entries
    (`dst_numel` starts at 0 and becomes 1 when the loop body first runs: an empty target gives 0). -/
def countMinusOne : List Int → Nat
  | [] => 0
  | d :: ds => (if d = -1 then 1 else 0) + countMinusOne ds

def prodOthers : List Int → Int
  | [] => 1
  | d :: ds => if d = -1 then prodOthers ds else d * prodOthers ds

/-- `index::shape_reshape(src_shape, dst_shape)`, run-time branch, in the order the code checks:
    more than one -1 → Nothing; a zero or negative (≠ -1) extent → Nothing; element counts must match
    (no -1) resp. divide (one -1); the -1 entry becomes `src_numel / dst_numel`. -/
def dstNumel (dst : List Int) : Nat := if dst.isEmpty then 0 else (prodOthers dst).toNat

def shapeReshape (src : Shape) (dst : List Int) : Option Shape :=
  if countMinusOne dst > 1 then none
  else if dst.any (fun d => d ≠ -1 ∧ d ≤ 0) = true then none
  else if countMinusOne dst = 0 ∧ prod src ≠ dstNumel dst then none
  else if dstNumel dst = 0 then none          -- only reachable for an empty target with src numel = 0 (excluded: extents ≥ 1)
  else if prod src % dstNumel dst ≠ 0 then none
  else some (dst.map (fun d => if d = -1 then prod src / dstNumel dst else d.toNat))

/-- when NumPy accepts `a.reshape(dst)` for a non-empty `a` and a non-empty target — with the property's reading that
    zero and negative extents other than a single -1 are invalid -/
def ValidReshape (src : Shape) (dst : List Int) : Prop :=
  countMinusOne dst ≤ 1 ∧ (∀ d ∈ dst, d = -1 ∨ 0 < d) ∧
  (countMinusOne dst = 0 → (prod src : Int) = prodOthers dst) ∧
  (countMinusOne dst = 1 → (prodOthers dst) ∣ (prod src : Int))

instance (src : Shape) (dst : List Int) : Decidable (ValidReshape src dst) := by
  unfold ValidReshape; exact inferInstance

/-- `index::normalize_axis(axis, ndim)` for one axis -/
def normalizeAxis (ndim : Nat) (a : Int) : Option Nat :=
  if -(ndim : Int) ≤ a ∧ a < ndim then some (if a < 0 then (a + ndim).toNat else a.toNat) else none

/-! ### Option plumbing of pipelines: a shape-level view AST -/

/-- a pipeline of checked operations over leaf shapes; each stage may refuse (`none` = Nothing) -/
inductive Pipe where
  | leaf (s : Shape)
  | nothing                                             -- an operand that already is an empty optional
  | unary (f : Shape → Option Shape) (x : Pipe)
  | binary (f : Shape → Shape → Option Shape) (x y : Pipe)

/-- what the view constructors compute: every constructor first checks `has_value` of its operands -/
def Pipe.denote : Pipe → Option Shape
  | .leaf s => some s
  | .nothing => none
  | .unary f x => x.denote.bind f
  | .binary f x y => x.denote.bind (fun a => y.denote.bind (fun b => f a b))

/-- `p` has a sub-pipeline that evaluates to Nothing -/
def Pipe.hasFailedStage : Pipe → Prop
  | .leaf _ => False
  | .nothing => True
  | .unary f x => x.hasFailedStage ∨ (∃ s, x.denote = some s ∧ f s = none)
  | .binary f x y => x.hasFailedStage ∨ y.hasFailedStage ∨ (∃ a b, x.denote = some a ∧ y.denote = some b ∧ f a b = none)

end NmVerif.Checked
