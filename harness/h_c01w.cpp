// C01, machine width: compute_strides / compute_offset / compute_indices at the index-math level (nothing is
// allocated) with 32-bit signed / unsigned and 64-bit signed / unsigned ELEMENT TYPES in every run-time container kind
// (dynamic list std::vector, fixed std::array, bounded utl::static_vector, run-time tuple), on extents / offsets up to 2^64-1.
//   w_strides ty=<i32|u32|i64|u64> kind=<vec|arr|sv|tup> shape=<s>                   -> ok <strides>
//   w_offset  tyi=<T> tys=<T> ki=<kind> ks=<kind> idx=<i> strides=<st>               -> ok <offset>
//   w_indices ty=<T> kind=<kind> off=<o> shape=<s> [offty=sz|same]                   -> ok <indices>   (2-argument form)
//   w_indices3 ty=<T> kind=<kind> off=<o> shape=<s> strides=<st>                     -> ok <indices>   (3-argument form)
// Values are parsed / printed as unsigned 64-bit decimals (signed element types are printed as signed).
// The mirror is NmVerif.Index.MachineAddr (mStrides / mOffset / mIndices / mNdindex).
#include "nmtools/array/index/compute_strides.hpp"
#include "nmtools/array/index/compute_offset.hpp"
#include "nmtools/array/index/compute_indices.hpp"
#include "nmtools/utl/static_vector.hpp"
#include "nmtools/utility/at.hpp"
#include "proto.hpp"
#include <array>
#include <vector>
#include <cstdint>
#include <type_traits>

namespace nm = nmtools; namespace ix = nmtools::index; namespace utl = nmtools::utl;
using namespace proto;
using u64v = std::vector<unsigned long long>;

static u64v u64s(const Args& a, const std::string& k) {
    u64v r; const auto& s = get(a,k); if (s=="[]" || s.empty()) return r;
    for (auto& t : split(s,',')) { if (t.empty() || t[0]=='-') throw bad_args("negative"); r.push_back(std::stoull(t)); }
    return r;
}
template <typename V> static std::string fmtw(const V& v) {
    std::string o; size_t n = (size_t)nm::len(v); if (n==0) return "[]";
    for (size_t i=0;i<n;i++) {
        if (i) o += ",";
        auto x = nm::at(v,i);
        using x_t = std::decay_t<decltype(x)>;
        if constexpr (std::is_signed_v<x_t>) o += std::to_string((long long)x); else o += std::to_string((unsigned long long)x);
    }
    return o;
}
// every value must be representable in T (it is stored in a container of T)
template <typename T> static bool fits(const u64v& v) {
    for (auto x : v) if (x > (unsigned long long)std::numeric_limits<T>::max()) return false;
    return true;
}
constexpr size_t SV_CAP = 8;
// run f with the values in a container of element type T of the requested kind
template <typename T, typename F> static std::string with_kind(const std::string& kind, const u64v& s, F f) {
    if (!fits<T>(s)) return "bad-args";
    if (kind=="vec") { std::vector<T> v(s.size()); for (size_t i=0;i<s.size();i++) v[i]=(T)s[i]; return f(v); }
    if (kind=="sv") { if (s.size()>SV_CAP) return "bad-args"; utl::static_vector<T,SV_CAP> v; v.resize(s.size()); for (size_t i=0;i<s.size();i++) v[i]=(T)s[i]; return f(v); }
    if (kind=="tup") {   // run-time tuple (fixed length, elements of T): the kind a(i,j,k) packs indices into
        switch (s.size()) {
            case 1: return f(nmtools_tuple<T>{(T)s[0]});
            case 2: return f(nmtools_tuple<T,T>{(T)s[0],(T)s[1]});
            case 3: return f(nmtools_tuple<T,T,T>{(T)s[0],(T)s[1],(T)s[2]});
            default: return "bad-args";
        }
    }
    if (kind=="arr") {
        switch (s.size()) {
#define CASE(N) case N: { std::array<T,N> v{}; for (size_t i=0;i<N;i++) v[i]=(T)s[i]; return f(v); }
            CASE(1) CASE(2) CASE(3) CASE(4) CASE(5) CASE(6)
#undef CASE
            default: return "bad-args";
        }
    }
    return "bad-args";
}
template <typename F> static std::string with_ty(const std::string& ty, F f) {
    if (ty=="i32") return f(std::int32_t{});
    if (ty=="u32") return f(std::uint32_t{});
    if (ty=="i64") return f((long){});
    if (ty=="u64") return f(size_t{});
    return "bad-args";
}

template <typename TI, typename TS> static std::string offset_tt(const Args& a) {
    auto idx = u64s(a,"idx"); auto st = u64s(a,"strides");
    if (idx.size()!=st.size()) return "bad-args";
    return with_kind<TI>(get(a,"ki"), idx, [&](const auto& i){
        return with_kind<TS>(get(a,"ks"), st, [&](const auto& s){
            // two fixed-length containers of different lengths do not compile (and cannot occur: sizes were checked)
            constexpr auto NI = nm::meta::len_v<std::decay_t<decltype(i)>>; constexpr auto NS = nm::meta::len_v<std::decay_t<decltype(s)>>;
            if constexpr (NI > 0 && NS > 0 && NI != NS) return std::string("bad-args");
            else return "ok " + std::to_string((unsigned long long)ix::compute_offset(i, s));
        });
    });
}

std::string handle(const std::string& op, const Args& a) {
    if (op=="w_strides") {
        auto s = u64s(a,"shape");
        return with_ty(get(a,"ty"), [&](auto t){ using T = decltype(t);
            return with_kind<T>(get(a,"kind"), s, [](const auto& sh){ return "ok " + fmtw(ix::compute_strides(sh)); }); });
    }
    if (op=="w_offset") {
        const auto& ti = get(a,"tyi"); const auto& ts = get(a,"tys");
        if (ti==ts) return with_ty(ti, [&](auto t){ using T = decltype(t); return offset_tt<T,T>(a); });
        if (ti=="i32" && ts=="u64") return offset_tt<std::int32_t,size_t>(a);
        if (ti=="u64" && ts=="i32") return offset_tt<size_t,std::int32_t>(a);
        if (ti=="i32" && ts=="u32") return offset_tt<std::int32_t,std::uint32_t>(a);
        return "bad-args";
    }
    if (op=="w_indices") {
        auto s = u64s(a,"shape"); unsigned long long off = std::stoull(get(a,"off"));
        bool same = has(a,"offty") && get(a,"offty")=="same";
        return with_ty(get(a,"ty"), [&](auto t){ using T = decltype(t);
            if (same && !fits<T>(u64v{off})) return std::string("bad-args");
            return with_kind<T>(get(a,"kind"), s, [&](const auto& sh){
                if (same) return "ok " + fmtw(ix::compute_indices((T)off, sh));
                return "ok " + fmtw(ix::compute_indices((size_t)off, sh)); }); });
    }
    if (op=="w_indices3") {
        auto s = u64s(a,"shape"); auto st = u64s(a,"strides"); unsigned long long off = std::stoull(get(a,"off"));
        if (s.size()!=st.size()) return "bad-args";
        return with_ty(get(a,"ty"), [&](auto t){ using T = decltype(t);
            return with_kind<T>(get(a,"kind"), s, [&](const auto& sh){
                // strides in the container kind compute_strides gives for this shape kind
                auto str = ix::compute_strides(sh);
                if (!fits<T>(st)) return std::string("bad-args");
                for (size_t i=0;i<st.size();i++) nm::at(str,i) = (T)st[i];
                return "ok " + fmtw(ix::compute_indices((size_t)off, sh, str)); }); });
    }
    return "unknown-op";
}
