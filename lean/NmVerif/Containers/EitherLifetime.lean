import NmVerif.Containers.EitherProofs
import NmVerif.Containers.LedgerSim
/-
  Lifetime discipline of the repaired `utl::either` / `utl::maybe` mirror for a non-trivial left type: in every
  reachable state a left object is alive exactly in the objects whose tag is LEFT, no lifetime error is ever
  recorded, and constructor runs − destructor runs = number of live LEFT-tagged objects.
-/
namespace NmVerif.Containers
variable {α β : Type}

namespace Eith

/-- left objects alive in the either -/
def leftCnt (x : Eith α β) : Nat := if x.tagL then 1 else 0

/-- summary of an operation on one object (`ob` = left objects alive in it before): the live flag follows the tag,
    no event, constructor / destructor counts follow the number of live left objects -/
structure EGood (ob : Nat) (L : Ledger) (r : Eith α β × Ledger) : Prop where
  live : r.1.left.live = r.1.tagL
  events : r.2.events = L.events
  count : (r.2.ctors : Int) - r.2.dtors = (L.ctors : Int) - L.dtors + leftCnt r.1 - ob

theorem ctorLeft_good (cfg : ECfg α β) (hnt : cfg.nt = true) (x : Eith α β) (c : Cell α) (L : Ledger)
    (hx : x.left.live = false) (ht : x.tagL = false) :
    EGood 0 L (({ (ctorLeft cfg x c L).1 with tagL := true } : Eith α β), (ctorLeft cfg x c L).2) := by
  refine ⟨by simp [ctorLeft], by simp [ctorLeft, hnt, hx, Ledger.ctor], ?_⟩
  simp [ctorLeft, hnt, hx, Ledger.ctor, leftCnt]; omega

theorem mkDflt_good (cfg : ECfg α β) (hnt : cfg.nt = true) (L : Ledger) : EGood 0 L (mkDflt cfg L) := by
  unfold mkDflt
  split
  · exact ⟨by simp [raw], rfl, by simp [leftCnt, raw]⟩
  · exact ctorLeft_good cfg hnt raw _ L rfl rfl

theorem mkL_good (cfg : ECfg α β) (hnt : cfg.nt = true) (v : α) (L : Ledger) : EGood 0 L (mkL cfg v L) :=
  ctorLeft_good cfg hnt raw _ L rfl rfl

theorem mkR_good (cfg : ECfg α β) (v : β) (L : Ledger) : EGood 0 L (mkR cfg v L) :=
  ⟨by simp [mkR, raw], rfl, by simp [mkR, leftCnt, raw]⟩

theorem mkCopy_good (cfg : ECfg α β) (hnt : cfg.nt = true) (o : Eith α β) (L : Ledger) : EGood 0 L (mkCopy cfg o L) := by
  unfold mkCopy
  simp only [hnt, Bool.not_true, Bool.false_eq_true, if_false]
  split
  · split
    · exact ctorLeft_good cfg hnt _ _ L rfl rfl
    · exact ⟨by simp [raw], rfl, by simp [leftCnt, raw]⟩
  · split
    · exact ctorLeft_good cfg hnt raw _ L rfl rfl
    · exact ⟨by simp [raw], rfl, by simp [leftCnt, raw]⟩

theorem assignValueL_good (cfg : ECfg α β) (hnt : cfg.nt = true) (x : Eith α β) (c : Cell α) (L : Ledger)
    (hx : x.left.live = x.tagL) : EGood (leftCnt x) L (assignValueL cfg x c L) := by
  cases ht : x.tagL with
  | true =>
    rw [ht] at hx
    refine ⟨by simp [assignValueL, ht, assignLeft, hx], by simp [assignValueL, ht, assignLeft, hx], ?_⟩
    simp [assignValueL, ht, assignLeft, hx, leftCnt]
  | false =>
    rw [ht] at hx
    have g := ctorLeft_good cfg hnt x c L hx ht
    simp only [assignValueL, ht, Bool.false_eq_true, if_false]
    exact ⟨g.live, g.events, by have := g.count; simp only [leftCnt, ht] at this ⊢; simpa using this⟩

theorem destroyActive_led (cfg : ECfg α β) (hnt : cfg.nt = true) (x : Eith α β) (L : Ledger) (hx : x.left.live = x.tagL) :
    (destroyActive cfg x L).2.events = L.events ∧
    ((destroyActive cfg x L).2.ctors : Int) - (destroyActive cfg x L).2.dtors = (L.ctors : Int) - L.dtors - leftCnt x := by
  cases ht : x.tagL with
  | true =>
    rw [ht] at hx
    simp [destroyActive, ht, hnt, hx, Ledger.dtor, leftCnt]; omega
  | false => simp [destroyActive, ht, leftCnt]

theorem assignValueR_good (cfg : ECfg α β) (hnt : cfg.nt = true) (x : Eith α β) (v : Cell β) (L : Ledger)
    (hx : x.left.live = x.tagL) : EGood (leftCnt x) L (assignValueR cfg x v L) := by
  have hd := destroyActive_led cfg hnt x L hx
  cases ht : x.tagL with
  | true =>
    simp only [assignValueR, ht, if_true]
    refine ⟨by simp [destroyActive, ht], hd.1, ?_⟩
    have := hd.2
    simp only [leftCnt, ht, if_true] at this ⊢
    simp only [Bool.false_eq_true, if_false]
    omega
  | false =>
    rw [ht] at hx
    simp only [assignValueR, ht, Bool.false_eq_true, if_false]
    exact ⟨by simpa [ht] using hx, rfl, by simp [leftCnt, ht]⟩

theorem assign_good (cfg : ECfg α β) (hnt : cfg.nt = true) (x o : Eith α β) (L : Ledger) (hx : x.left.live = x.tagL) :
    EGood (leftCnt x) L (assign cfg x o L) := by
  unfold assign
  split
  · exact assignValueL_good cfg hnt x _ L hx
  · exact assignValueR_good cfg hnt x _ L hx

theorem writeL_good (cfg : ECfg α β) (x : Eith α β) (c : Cell α) (L : Ledger) (hx : x.left.live = x.tagL)
    (ht : x.tagL = true) : EGood (leftCnt x) L (assignLeft cfg x c L) := by
  rw [ht] at hx
  exact ⟨by simp [assignLeft, hx, ht], by simp [assignLeft, hx], by simp [assignLeft, hx, leftCnt, ht]⟩

end Eith

/-- world invariant: lifetimes follow the tags, no event, `ctors − dtors` = live LEFT-tagged objects in slots `< N` -/
def ELife (N : Nat) (w : EWorld α β) : Prop :=
  (∀ k x, w.objs k = some x → x.left.live = x.tagL) ∧ w.led.events = [] ∧
  (w.led.ctors : Int) - w.led.dtors = ((List.range N).map (fun k => ownO Eith.leftCnt (w.objs k))).sum

theorem elife_put {N : Nat} {w : EWorld α β} (h : ELife N w) (k : Nat) (hk : k < N) (x : Option (Eith α β)) (L : Ledger)
    (hx : ∀ y, x = some y → y.left.live = y.tagL) (he : L.events = w.led.events)
    (hc : (L.ctors : Int) - L.dtors = (w.led.ctors : Int) - w.led.dtors + ownO Eith.leftCnt x - ownO Eith.leftCnt (w.objs k)) :
    ELife N (w.put k x L) := by
  refine ⟨?_, by show L.events = []; rw [he]; exact h.2.1, ?_⟩
  · intro j y hy
    simp only [EWorld.put] at hy
    by_cases hj : j = k
    · simp [hj] at hy; exact hx y hy
    · simp [hj] at hy; exact h.1 j y hy
  · have hs := sum_range_update (fun j => ownO Eith.leftCnt (w.objs j)) (fun j => ownO Eith.leftCnt ((w.put k x L).objs j)) k N hk
      (by intro j hj; simp [EWorld.put, hj])
    have hk' : ownO Eith.leftCnt ((w.put k x L).objs k) = ownO Eith.leftCnt x := by simp [EWorld.put]
    rw [hk'] at hs
    show (L.ctors : Int) - L.dtors = _
    rw [hc, h.2.2]
    omega

theorem estep_life (cfg : ECfg α β) (hnt : cfg.nt = true) {N : Nat} {w : EWorld α β} (h : ELife N w) (op : EOp α β)
    (hN : op.target < N) : ELife N (estep cfg w op) := by
  cases op with
  | mk s =>
    simp only [estep]
    cases hw : w.objs s with
    | some x => exact h
    | none =>
      have g := Eith.mkDflt_good cfg hnt w.led
      exact elife_put h s hN _ _ (by intro y hy; cases hy; exact g.live) g.events (by simpa [ownO, hw] using g.count)
  | mkL s a =>
    simp only [estep]
    cases hw : w.objs s with
    | some x => exact h
    | none =>
      have g := Eith.mkL_good cfg hnt a w.led
      exact elife_put h s hN _ _ (by intro y hy; cases hy; exact g.live) g.events (by simpa [ownO, hw] using g.count)
  | mkR s b =>
    simp only [estep]
    cases hw : w.objs s with
    | some x => exact h
    | none =>
      have g := Eith.mkR_good cfg b w.led
      exact elife_put h s hN _ _ (by intro y hy; cases hy; exact g.live) g.events (by simpa [ownO, hw] using g.count)
  | copy d s =>
    simp only [estep]
    cases hd : w.objs d with
    | some x => exact h
    | none =>
      cases hs : w.objs s with
      | none => exact h
      | some o =>
        have g := Eith.mkCopy_good cfg hnt o w.led
        exact elife_put h d hN _ _ (by intro y hy; cases hy; exact g.live) g.events (by simpa [ownO, hd] using g.count)
  | assign d s =>
    simp only [estep]
    cases hd : w.objs d with
    | none => exact h
    | some x =>
      cases hs : w.objs s with
      | none => exact h
      | some o =>
        by_cases hds : d = s
        · simp only [hds, if_true]; exact h
        · simp only [hds, if_false]
          have g := Eith.assign_good cfg hnt x o w.led (h.1 d x hd)
          exact elife_put h d hN _ _ (by intro y hy; cases hy; exact g.live) g.events (by simpa [ownO, hd] using g.count)
  | setL s a =>
    simp only [estep]
    cases hw : w.objs s with
    | none => exact h
    | some x =>
      have g : Eith.EGood (Eith.leftCnt x) w.led (Eith.setL cfg x a w.led) := Eith.assignValueL_good cfg hnt x (some a) w.led (h.1 s x hw)
      exact elife_put h s hN _ _ (by intro y hy; cases hy; exact g.live) g.events (by simpa [ownO, hw] using g.count)
  | setR s b =>
    simp only [estep]
    cases hw : w.objs s with
    | none => exact h
    | some x =>
      have g : Eith.EGood (Eith.leftCnt x) w.led (Eith.setR cfg x b w.led) := Eith.assignValueR_good cfg hnt x (some b) w.led (h.1 s x hw)
      exact elife_put h s hN _ _ (by intro y hy; cases hy; exact g.live) g.events (by simpa [ownO, hw] using g.count)
  | writeL s a =>
    simp only [estep]
    cases hw : w.objs s with
    | none => exact h
    | some x =>
      by_cases ht : x.tagL = true
      · simp only [ht, if_true]
        have g := Eith.writeL_good cfg x (some a) w.led (h.1 s x hw) ht
        exact elife_put h s hN _ _ (by intro y hy; cases hy; exact g.live) g.events (by simpa [ownO, hw] using g.count)
      · simp only [ht, if_false]; exact h
  | read s => exact h
  | destroy s =>
    simp only [estep]
    cases hw : w.objs s with
    | none => exact h
    | some x =>
      have g := Eith.destroyActive_led cfg hnt x w.led (h.1 s x hw)
      exact elife_put h s hN _ _ (by intro y hy; cases hy) g.1 (by simpa [ownO, hw, Eith.destroy] using g.2)

theorem erun_life (cfg : ECfg α β) (hnt : cfg.nt = true) {N : Nat} (h : List (EOp α β)) {w : EWorld α β} (hw : ELife N w)
    (hN : ∀ op ∈ h, op.target < N) : ELife N (erun cfg w h) := by
  induction h generalizing w with
  | nil => exact hw
  | cons op h ih =>
    simp only [erun]
    exact ih (estep_life cfg hnt hw op (hN op List.mem_cons_self)) (fun o ho => hN o (List.mem_cons_of_mem _ ho))

theorem elife_empty (N : Nat) : ELife N (EWorld.empty : EWorld α β) := by
  refine ⟨fun k x hx => by simp [EWorld.empty] at hx, rfl, ?_⟩
  have := sum_range_congr (fun _ => 0) (fun k => ownO Eith.leftCnt ((EWorld.empty : EWorld α β).objs k)) N (by intro k _; rfl)
  rw [this, sum_range_zero]; rfl

end NmVerif.Containers
