import NmVerif.Arr
/-
  NmVerif.Index.SelCommon — small pieces shared by the C04 models (Repeat, Roll, Pad, Take, Concatenate, …).

    `u64 x`            value of a signed C++ integer after conversion to `size_t` (two's complement, 64 bit)
    `i2u v`            the same for an `int` value: identity on non-negative values
    `atPy l i`         `nmtools::at(l, i)` for a *signed run-time* index `i` (utility/at.hpp:196-212):
                       `i < 0 ⇒ l[len(l) + i]` (one Python-style wrap), else `l[i]`; `none` = access outside the container
                       (std::vector::at throws / UB) — never happens on accepted arguments.
    `setPy l i v`      `at(l, i) = v` with the same index rule
    `mapAt f axis i d` the loop `ret[i] = (i == axis) ? f(d[i]) : d[i]`
    `normalizeAxis1`   index::normalize_axis for one axis;  `normAxis` the unchecked `a < 0 ? a + dim : a`
    `reshapeIdx`       index map of `view::reshape` (`compute_indices(compute_offset(d, dst_strides), src_shape)`)
  Core Lean only.
-/
namespace NmVerif.Index

/-- a signed integer converted to `size_t` -/
def u64 (x : Int) : Nat := (x % (2 ^ 64 : Int)).toNat

/-- a C++ `int` stored into a `size_t`: non-negative values unchanged, negative ones wrap -/
def i2u (v : Int) : Nat := if v < 0 then u64 v else v.toNat

/-- position addressed by `nmtools::at(l, i)` for a signed run-time `i` in a container of length `n`;
    `i < -n` gives the unsigned value `2^64 + n + i`, which is outside every container: `none` -/
def posPy (n : Nat) (i : Int) : Option Nat :=
  if i < 0 then (if 0 ≤ (n : Int) + i then some ((n : Int) + i).toNat else none) else some i.toNat

/-- `nmtools::at(l, i)`, signed run-time index -/
def atPy {α : Type} (l : List α) (i : Int) : Option α := (posPy l.length i).bind (l[·]?)

/-- `at(l, i) = v` (no effect when outside: UB in the C++, never on accepted arguments) -/
def setPy {α : Type} (l : List α) (i : Int) (v : α) : List α :=
  match posPy l.length i with
  | some p => l.set p v
  | none => l

/-- `index::normalize_axis(axis, ndim)` for one axis: `none` unless `-ndim ≤ axis < ndim`; negative ⇒ `ndim + axis` -/
def normalizeAxis1 (axis : Int) (dim : Nat) : Option Nat :=
  if axis < -(dim : Int) ∨ (dim : Int) ≤ axis then none
  else if axis < 0 then some ((dim : Int) + axis).toNat else some axis.toNat

/-- the local `axis` lambda of the repaired index functions (take, repeat, concatenate, compress):
    `a = (nm_index_t) axis; a < 0 ? a + len(shape) : a` — a negative axis counts from the last axis; no range check -/
def normAxis (axis : Int) (dim : Nat) : Int := if axis < 0 then axis + (dim : Int) else axis

/-- the recurring loop `for i < len(d): ret[i] = ((common_t) i == (common_t) axis) ? f(d[i]) : d[i]`.
    `axis` is the (already normalised) signed axis; the comparison is made in the promoted index type, which for a loop
    counter and a small signed value means: equal iff the same number — i.e. `(i : Int) = axis`.
    `i` is the position of the head of the list. -/
def mapAt (f : Nat → Nat) (axis : Int) : Nat → List Nat → List Nat
  | _, [] => []
  | i, x :: xs => (if (i : Int) = axis then f x else x) :: mapAt f axis (i + 1) xs

/-- index map of `view::reshape(a, dst)`: `compute_indices(compute_offset(d, strides dst), src)` -/
def reshapeIdx (src dst : Shape) (d : Idx) : Idx :=
  computeIndices (computeOffset d (strides dst)) src (strides src)

/-- `view::reshape` as an indexing view (shape compatibility is the caller's business here) -/
def reshapeViewRaw (src dst : Shape) : IxView := ⟨src, dst, fun d => some (reshapeIdx src dst d)⟩

end NmVerif.Index
