import NmVerif.Basic
/-
  NmVerif.Index.Capacity — MODEL of the result-type metafunctions (`meta::resolve_optype<…>`) of the index functions
  whose result is a bounded container (`nmtools_static_vector<_, B>`) when the operands are bounded
  (`static_vector<_, C>` / hybrid shapes): WHICH bound `B` the metafunction picks from the operands' bounds.

  One function per metafunction, arguments = the operands' capacities (`bounded_size_v`), value = the capacity of the
  result container.  Read off the `resolve_optype` specialisations (branch "all operands bounded, nothing fixed"):

    capExpandDims   bS bA   = bS + bA     index/expand_dims.hpp   `nmtools_static_vector<index_t,B_N+B_M>`; integer axis: `B_SIZE+1`
    capSame         bS      = bS          shape_squeeze (`N = bounded_size_v<shape_t>`), remove_single_dims (`shape_t` itself),
                                          shape_take (`shape_t`), shape_dynamic_slice (`b_size`), moveaxis_to_transpose (`B_DIM`),
                                          normalize_axis (`B_DIM` of the AXES container), shape_roll (`B_DIM`),
                                          shape_resize (`DST_B_DIM`, the bound of the TARGET shape), shape_expand (`B_DIM`),
                                          shape_pool2d (`transform_bounded_array_t<shape_t>`)
    capSlidingWindow bS bW  = bS + bW     index/sliding_window.hpp `src_b_dim+b_window_dim`; a scalar window counts `bW = 1`
    capDiagonal     bS      = bS - 1      view/diagonal.hpp `B_DIM-1`
    capMatmul       bA bB   = max bA bB   view/matmul.hpp  `MAX_DIM = LHS_B_DIM > RHS_B_DIM ? LHS_B_DIM : RHS_B_DIM`

  The correspondence run compares these with `meta::bounded_size_v` of the real result types (harness/h_c02cap.cpp prints
  `cap=<B>`); the theorems `Props.C02.*_len_le_cap` say that the number of entries the function writes never exceeds them.

  Also here: `removeSingleDims` (index/remove_single_dims.hpp: `filter(a > 1)`), which no other property models.
  Core Lean only.
-/
namespace NmVerif.Cap

def capExpandDims (bS bA : Nat) : Nat := bS + bA
def capSame (bS : Nat) : Nat := bS
def capSlidingWindow (bS bW : Nat) : Nat := bS + bW
def capDiagonal (bS : Nat) : Nat := bS - 1
def capMatmul (bA bB : Nat) : Nat := max bA bB

/-- `index::remove_single_dims(shape)`: the extents `> 1`, in order (`filter([](auto a){ return a > 1; }, shape)`) -/
def removeSingleDims (shape : List Nat) : List Nat := shape.filter (fun e => decide (1 < e))

end NmVerif.Cap
