import NmVerif.Proto
import NmVerif.Arr
import NmVerif.Index.Checked
import NmVerif.Index.Transpose
namespace NmVerif.Driver.C15
open NmVerif NmVerif.Proto

def fmtView (v : IxView) : String := s!"ok shape={fmtNats v.dst} data={fmtInts v.provenance}"

/-- reshape with full argument checking (Checked.shapeReshape), element map as view::reshape -/
def reshapeChecked (src : Shape) (dst : List Int) : Option IxView :=
  (Checked.shapeReshape src dst).map (fun t =>
    ⟨src, t, fun d => some (computeIndices (computeOffset d (strides t)) src (strides src))⟩)

def handle : Handler := fun op a =>
  match op with
  | "v_reshape" => orBad do
      let s ← a.nats "shape"; let t ← a.ints "to"
      pure (match reshapeChecked s t with | some v => fmtView v | none => "nothing")
  | "v_pipe_reshape_transpose" => orBad do
      let s ← a.nats "shape"; let t ← a.ints "to"
      pure (match reshapeChecked s t with
        | none => "nothing"
        | some v => match transposeView v.dst none with
          | some w => fmtView (w.comp v)
          | none => "nothing")
  | _ => none

end NmVerif.Driver.C15
