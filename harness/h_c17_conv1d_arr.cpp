// C17 harness: conv1d with stride / padding / dilation passed as ONE-ELEMENT INDEX ARRAYS (std::array<int,1>) — the
// index-array branches of index::conv_slices, conv_pad and conv_expand_spacing at n_planes = 1, which h_c17_conv1d.cpp
// (None | int) never takes.  Each argument is None, an integer or an array; `forms=` says which, one letter per argument
// in the order stride, padding, dilation: n (None), i (int), a (array).  Served combinations (to bound the compile time):
// all three arrays (aaa), and the mixed ones a i a / i a i / n a n / a n a.
//   conv1d dt=f xs=N,C,L x=.. ws=O,C/g,K w=.. b=None|.. stride=None|v padding=None|v dilation=None|v groups=int forms=aia
#include "nmtools/array/array/conv1d.hpp"
#include "c17_util.hpp"

using namespace c17;

template <char F> static auto arg(const Args& a, const char* key) {
    if constexpr (F == 'n') { if (!proto::is_none(a, key)) throw proto::bad_args(key); return nm::None; }
    else if constexpr (F == 'i') return (int)proto::integer(a, key);
    else return std::array<int,1>{(int)proto::integer(a, key)};
}

template <char S, char P, char D> static std::string conv1d(const Args& a) {
    auto x = mk<float>(a, "x"); auto w = mk<float>(a, "w");
    int groups = (int)proto::integer(a, "groups");
    auto stride = arg<S>(a, "stride"); auto padding = arg<P>(a, "padding"); auto dilation = arg<D>(a, "dilation");
    if (proto::is_none(a, "b")) return fmt_result(na::conv1d(x, w, nm::None, stride, padding, dilation, groups));
    auto b = mk<float>(a, "b");
    return fmt_result(na::conv1d(x, w, b, stride, padding, dilation, groups));
}

std::string handle(const std::string& op, const Args& a) {
    if (op == "conv1d") {
        auto f = proto::get(a, "forms");
        if (f == "aaa") return conv1d<'a','a','a'>(a);
        if (f == "aia") return conv1d<'a','i','a'>(a);
        if (f == "iai") return conv1d<'i','a','i'>(a);
        if (f == "nan") return conv1d<'n','a','n'>(a);
        if (f == "ana") return conv1d<'a','n','a'>(a);
        return "unsupported-form";
    }
    return "unknown-op";
}
