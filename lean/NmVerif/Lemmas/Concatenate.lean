import NmVerif.Index.Concatenate
import NmVerif.Lemmas.Repeat
/-
  SPEC of np.concatenate((a, b), axis) and proofs that the MODEL meets it on the domain "axis ≥ 0 or None".
  NumPy: ranks equal, extents equal off the axis; result extent `a[k] + b[k]` on the axis;
         `out[d] = a[d]` when `d[k] < a[k]`, else `b[d with d[k] - a[k]]`; axis None concatenates the flattened operands.
-/
namespace NmVerif.Index

/-- the operands may be joined along axis `k` -/
def ConcatCompatible (a b : Shape) (k : Nat) : Prop :=
  a.length = b.length ∧ k < a.length ∧ ∀ j, j ≠ k → a[j]? = b[j]?

theorem shapeConcatLoop_noaxis (ax : Int) (i : Nat) (as : Shape) (h : ∀ j, i ≤ j → (j : Int) ≠ ax) :
    shapeConcatLoop ax i as as = (true, as) := by
  induction as generalizing i with
  | nil => simp [shapeConcatLoop]
  | cons a as ih =>
    have h0 : ((i : Nat) : Int) ≠ ax := h i (Nat.le_refl _)
    simp only [shapeConcatLoop, h0, if_false, if_true]
    rw [ih (i + 1) (fun j hj => h j (by omega))]

theorem shapeConcatLoop_axis (i m : Nat) (as bs : Shape) (hl : as.length = bs.length)
    (hm : m < as.length) (hc : ∀ j, j ≠ m → as[j]? = bs[j]?) :
    ∃ x y, as[m]? = some x ∧ bs[m]? = some y ∧
      shapeConcatLoop ((i + m : Nat) : Int) i as bs = (true, as.set m (x + y)) := by
  induction as generalizing i m bs with
  | nil => simp at hm
  | cons a as ih =>
    cases bs with
    | nil => simp at hl
    | cons b bs =>
      cases m with
      | zero =>
        refine ⟨a, b, by simp, by simp, ?_⟩
        have hEq : as = bs := by
          apply List.ext_getElem?
          intro j
          have := hc (j + 1) (by omega)
          simpa using this
        subst hEq
        simp only [shapeConcatLoop, Nat.add_zero, if_true, List.set_cons_zero]
        rw [shapeConcatLoop_noaxis _ _ _ (fun j hj => by omega)]
      | succ m =>
        have hab : a = b := by simpa using hc 0 (by omega)
        subst hab
        obtain ⟨x, y, hx, hy, hloop⟩ := ih (i + 1) m bs (by simpa using hl) (by simpa using hm)
          (fun j hj => by simpa using hc (j + 1) (by omega))
        refine ⟨x, y, by simpa using hx, by simpa using hy, ?_⟩
        have hne : ((i : Nat) : Int) ≠ ((i + (m + 1) : Nat) : Int) := by omega
        have e : i + 1 + m = i + (m + 1) := by omega
        rw [e] at hloop
        simp only [shapeConcatLoop, hne, if_false, if_true, hloop, List.set_cons_succ]

theorem shapeConcatenate_eq_spec (a b : Shape) (k : Nat) (h : ConcatCompatible a b k) :
    ∃ x y, a[k]? = some x ∧ b[k]? = some y ∧ shapeConcatenate a b (k : Int) = (true, replaceExtent a k (x + y)) := by
  obtain ⟨hl, hk, hc⟩ := h
  obtain ⟨x, y, hx, hy, hloop⟩ := shapeConcatLoop_axis 0 k a b hl hk hc
  refine ⟨x, y, hx, hy, ?_⟩
  simp only [Nat.zero_add] at hloop
  simp [shapeConcatenate, normAxis_nat, hl, hloop, replaceExtent_eq_set a k _ hk]

theorem indexConcatenate_eq (a b : Shape) (d : Idx) (k x aa ba : Nat) (hda : d.length = a.length) (hdb : d.length = b.length)
    (ha : a[k]? = some aa) (hb : b[k]? = some ba) (hx : d[k]? = some x) :
    indexConcatenate a b d (k : Int) =
      if x < aa then some (false, d) else if x < ba + aa then some (true, d.set k (x - aa)) else none := by
  simp only [indexConcatenate, normAxis_nat, atPy_nat, ha, hb, hx]
  rw [← hda, List.take_length, ← hdb, List.take_length, mapAt_nat, hx]

/-- an accepted (possibly negative) axis behaves exactly like its normalised position -/
theorem concatenateView_axis_normalize (a b : Shape) (axis : Int) (k : Nat)
    (hk : normalizeAxis1 axis a.length = some k) :
    concatenateView a b (some axis) = concatenateView a b (some (k : Int)) := by
  simp [concatenateView, shapeConcatenate, indexConcatenate, normAxis_of_normalizeAxis1 axis _ k hk, normAxis_nat]

end NmVerif.Index
