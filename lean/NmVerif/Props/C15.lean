import NmVerif.Basic
namespace NmVerif.Props.C15
end NmVerif.Props.C15
