import NmVerif.Arr
import NmVerif.Index.Transpose
import NmVerif.Index.Reshape
import NmVerif.Index.Flip
import NmVerif.Lemmas.Rearrange
import NmVerif.Lemmas.RearrangePerm
/-
  C03 — Rearranging views (reshape, transpose, moveaxis, ...) equal NumPy's result.
  Only property statements (+ non-vacuity examples, counterexamples of known findings) live here;
  MODEL: NmVerif/Index/{Transpose,Reshape,Flip,NormalizeAxis}.lean, helper lemmas: NmVerif/Lemmas/Rearrange{,Perm}.lean.

  How the statements are phrased.  A view is an `IxView` (source shape, result shape, destination index ↦ source index).
  "Equals NumPy" is stated by NumPy's own defining equations, never through totalised accessors:
    transpose family   shape[k] = src[p[k]]  and the element at `d` is read from `i` with  i[p[k]] = d[k]
    reshape family     result shape as NumPy computes it, and `flat (view a) = flat a` (element k ↦ element k, C order)
    flip               i[k] = n_k - 1 - d[k] on the listed axes, i[k] = d[k] elsewhere
  Axis arguments are `Int`s; `normalizeAxis(es) … = some p` in a hypothesis is NumPy's `normalize_axis_index/tuple`
  (see `normalizeAxis_spec`).  Hypotheses are the property's guards: positive extents, valid (duplicate-free,
  in-range) axes, equal element count.  Results of rank 0 (NumPy's shape `()`) and negative flip axes are covered:
  the two defects found there in the original tree (fixes/C03-*.diff) are repaired and the model follows the repaired code.
-/
namespace NmVerif.Props.C03
open NmVerif

/-- **transpose = NumPy** for every rank and every permutation (axes possibly written with negative indices):
    `p` is NumPy's normalised axes tuple; the result has `shape[k] = src[p[k]]` and reads, at destination index `d`,
    the source index `i` with `i[p[k]] = d[k]` (the defining equations of `np.transpose`). -/
theorem transpose_eq_spec (src : Shape) (ax : List Int) (p : List Nat)
    (hn : normalizeAxes src.length ax = some p) (hperm : p.Perm (List.range src.length)) :
    ∃ v, transposeView src (some ax) = some v ∧ v.src = src ∧ v.dst.length = src.length ∧
      (∀ (k a : Nat), p[k]? = some a → v.dst[k]? = src[a]?) ∧
      (∀ d : Idx, d.length = src.length → ∃ i, v.map d = some i ∧ i.length = src.length ∧
          ∀ (k a : Nat), p[k]? = some a → i[a]? = d[k]?) := by
  obtain ⟨hlen, hnd, hlt, _⟩ := perm_range_facts p _ hperm
  obtain ⟨dst, hdst, hv⟩ := transposeView_some src ax p hn hlen
  refine ⟨_, hv, rfl, ?_, ?_, ?_⟩
  · simp [mapM_some_length _ _ _ hdst, hlen]
  · intro k a hk
    exact ((mapM_some_get _ _ _ hdst k a hk).1).symm
  · intro d hd
    refine ⟨scatter d p, rfl, by simp [scatter_length, hd], ?_⟩
    intro k a hk
    exact scatter_get d p hnd (by simpa [hd] using hlt) (by omega) k a hk

/-- default transpose (`axes = None`) = NumPy's `.T`: axes reversed -/
theorem transpose_default_eq_spec (src : Shape) :
    ∃ v, transposeView src none = some v ∧ v.src = src ∧ v.dst.length = src.length ∧
      (∀ k : Nat, k < src.length → v.dst[k]? = src[src.length - 1 - k]?) ∧
      (∀ d : Idx, d.length = src.length → ∃ i, v.map d = some i ∧ i.length = src.length ∧
          ∀ k : Nat, k < src.length → i[src.length - 1 - k]? = d[k]?) := by
  refine ⟨_, rfl, rfl, by simp, ?_, ?_⟩
  · intro k hk
    simp [List.getElem?_reverse hk]
  · intro d hd
    refine ⟨d.reverse, rfl, by simp [hd], ?_⟩
    intro k hk
    rw [List.getElem?_reverse (by omega), hd]
    congr 1; omega

theorem transpose_inBounds (src : Shape) (ax : List Int) (p : List Nat) (v : IxView)
    (hn : normalizeAxes src.length ax = some p) (hperm : p.Perm (List.range src.length))
    (hv : transposeView src (some ax) = some v) : v.InBounds := by
  obtain ⟨hlen, hnd, hlt, _⟩ := perm_range_facts p _ hperm
  obtain ⟨dst, hdst, hv'⟩ := transposeView_some src ax p hn hlen
  rw [hv] at hv'; cases hv'
  intro d hd i hi
  simp only [Option.some.injEq] at hi
  subst hi
  have hdl : dst.length = src.length := by simp [mapM_some_length _ _ _ hdst, hlen]
  have hdlen : d.length = src.length := by rw [← hdl]; exact hd.length_eq
  refine transposed_inShape src dst d _ p hperm hdl (by simp [scatter_length, hdlen]) ?_ ?_ hd
  · intro k a hk; exact ((mapM_some_get _ _ _ hdst k a hk).1).symm
  · intro k a hk
    exact scatter_get d p hnd (by simpa [hdlen] using hlt) (by omega) k a hk

theorem transpose_default_inBounds (src : Shape) (v : IxView) (hv : transposeView src none = some v) :
    v.InBounds := by
  simp only [transposeView, Option.some.injEq] at hv
  subst hv
  intro d hd i hi
  simp only [Option.some.injEq] at hi
  subst hi
  simpa using InShape_reverse hd

/-- transposing with a permutation `p` and then with its inverse `q` restores the array:
    the composed view has the source's shape and reads element `d` at `d`. -/
theorem transpose_transpose_inv (src : Shape) (ax aq : List Int) (p q : List Nat)
    (hn : normalizeAxes src.length ax = some p) (hq : normalizeAxes src.length aq = some q)
    (hp : p.Perm (List.range src.length)) (hqp : q.Perm (List.range src.length))
    (hinv : ∀ (k a : Nat), p[k]? = some a → q[a]? = some k) :
    ∃ v w, transposeView src (some ax) = some v ∧ transposeView v.dst (some aq) = some w ∧
      (w.comp v).src = src ∧ (w.comp v).dst = src ∧ ∀ d, InShape d src → (w.comp v).map d = some d := by
  obtain ⟨hlen, hnd, hlt, hsurj⟩ := perm_range_facts p _ hp
  obtain ⟨hqlen, hqnd, hqlt, hqsurj⟩ := perm_range_facts q _ hqp
  obtain ⟨dst, hdst, hv⟩ := transposeView_some src ax p hn hlen
  have hdl : dst.length = src.length := by simp [mapM_some_length _ _ _ hdst, hlen]
  obtain ⟨dst2, hdst2, hw⟩ := transposeView_some dst aq q (by rw [hdl]; exact hq) (by omega)
  refine ⟨_, _, hv, hw, rfl, ?_, ?_⟩
  · -- shape restored
    show dst2 = src
    have hdl2 : dst2.length = src.length := by simp [mapM_some_length _ _ _ hdst2, hqlen]
    apply List.ext_getElem?
    intro k
    by_cases hk : k < src.length
    · obtain ⟨k0, hk0⟩ := hsurj k hk
      have hqk : q[k]? = some k0 := hinv k0 k hk0
      rw [← (mapM_some_get _ _ _ hdst2 k k0 hqk).1, ← (mapM_some_get _ _ _ hdst k0 k hk0).1]
    · rw [List.getElem?_eq_none (by omega), List.getElem?_eq_none (by omega)]
  · intro d hd
    show (some (scatter d q)).bind (fun e => some (scatter e p)) = some d
    simp only [Option.bind_some, Option.some.injEq]
    exact scatter_scatter_inv d p q src.length hd.length_eq hp hqp hinv

/-- … as a statement about arrays: `transpose(transpose(a, p), p⁻¹) ≈ a` (same shape, same elements) -/
theorem transpose_transpose_inv_arr {α : Type} (a : Arr α) (fill : α) (ax aq : List Int) (p q : List Nat)
    (hn : normalizeAxes a.shape.length ax = some p) (hq : normalizeAxes a.shape.length aq = some q)
    (hp : p.Perm (List.range a.shape.length)) (hqp : q.Perm (List.range a.shape.length))
    (hinv : ∀ (k a : Nat), p[k]? = some a → q[a]? = some k) :
    ∃ v w, transposeView a.shape (some ax) = some v ∧ transposeView v.dst (some aq) = some w ∧
      (w.apply (v.apply a fill) fill).Equiv a := by
  obtain ⟨v, w, hv, hw, _, hdst, hmap⟩ := transpose_transpose_inv a.shape ax aq p q hn hq hp hqp hinv
  refine ⟨v, w, hv, hw, hdst, ?_⟩
  intro d hd
  have hd' : InShape d a.shape := by
    have : (w.apply (v.apply a fill) fill).shape = a.shape := hdst
    rw [this] at hd; exact hd
  have := hmap d hd'
  simp only [IxView.comp] at this
  simp only [IxView.apply]
  cases hwd : w.map d with
  | none => simp [hwd] at this
  | some e =>
    simp only [hwd, Option.bind_some] at this
    simp [this]

/-! non-vacuity (transpose): a rank-3 permutation written with a negative index, and its inverse -/
example : normalizeAxes [2,3,4].length [-1,0,1] = some [2,0,1] ∧ [2,0,1].Perm (List.range 3) := by decide
example : (transposeView [2,3,4] (some [-1,0,1])).map (fun v => (v.dst, v.map [3,1,2])) = some ([4,2,3], some [1,2,3]) := by decide
example : ∀ (k a : Nat), [2,0,1][k]? = some a → [1,2,0][a]? = some k := by
  intro k a; match k with
  | 0 => simp; intro h; subst h; rfl
  | 1 => simp; intro h; subst h; rfl
  | 2 => simp; intro h; subst h; rfl
  | k+3 => simp

/-- **reshape shape = NumPy** (no `-1`): a target of positive extents (of any rank, rank 0 included) with the same
    element count is accepted and is the result shape -/
theorem reshape_shape (src t : Shape) (ht : Pos t) (hp : prod t = prod src) :
    shapeReshape src (t.map Int.ofNat) = some t := by
  simp only [shapeReshape, countNegativeReshape_eq, cntNeg_ofNat, prodNonNeg_ofNat, hp, any_bad_ofNat t ht]
  simp [map_infer_ofNat]

/-- **one inferred `-1`** at any position: with `m` = product of the other (positive) target extents and `m ∣ size`,
    the result shape is the target with `-1` replaced by `size / m` (NumPy's rule). -/
theorem reshape_infer (src pre post : Shape) (hpre : Pos pre) (hpost : Pos post)
    (hdiv : prod pre * prod post ∣ prod src) :
    shapeReshape src (pre.map Int.ofNat ++ [-1] ++ post.map Int.ofNat)
      = some (pre ++ [prod src / (prod pre * prod post)] ++ post) := by
  have hc : cntNeg (pre.map Int.ofNat ++ [-1] ++ post.map Int.ofNat) = 1 := by
    have h1 : cntNeg [(-1 : Int)] = 1 := by decide
    simp only [cntNeg_append, cntNeg_ofNat, h1]
  have hpn : prodNonNeg (pre.map Int.ofNat ++ [-1] ++ post.map Int.ofNat) = prod pre * prod post := by
    simp only [prodNonNeg_append, prodNonNeg_ofNat]
    simp [prodNonNeg, prod]
  have hbad : (pre.map Int.ofNat ++ [-1] ++ post.map Int.ofNat).any (fun d => d != -1 && d ≤ 0) = false := by
    simp only [List.any_append, any_bad_ofNat pre hpre, any_bad_ofNat post hpost]
    decide
  simp only [shapeReshape, countNegativeReshape_eq, hc, hpn, hbad]
  have hmod : prod src % (prod pre * prod post) = 0 := Nat.mod_eq_zero_of_dvd hdiv
  simp [hmod, map_infer_ofNat]

/-- the inferred extent makes the element counts agree -/
theorem reshape_infer_count (src pre post : Shape) (hdiv : prod pre * prod post ∣ prod src) :
    prod (pre ++ [prod src / (prod pre * prod post)] ++ post) = prod src := by
  simp only [prod_append, prod, Nat.mul_one]
  rw [Nat.mul_right_comm, Nat.mul_comm _ (prod src / _)]
  exact Nat.div_mul_cancel hdiv

/-- **reshape keeps C order**: every accepted reshape (with or without `-1`) of an array with positive extents
    has the same flattening as the source — element `k` of the result is element `k` of the source (`np.reshape`). -/
theorem reshape_elem {α : Type} (a : Arr α) (fill : α) (dst : List Int) (v : IxView) (ha : Pos a.shape)
    (hv : reshapeView a.shape dst = some v) :
    prod v.dst = prod a.shape ∧ (v.apply a fill).flat = a.flat := by
  simp only [reshapeView, Option.map_eq_some_iff] at hv
  obtain ⟨s, hs, rfl⟩ := hv
  have hp := shapeReshape_prod a.shape dst s hs
  refine ⟨hp, ?_⟩
  have hpos : Pos s := pos_of_prod_pos s (by rw [hp]; exact prod_pos ha)
  simp only [Arr.flat, IxView.apply]
  exact reshape_map_flat a s hpos ha hp

/-- every access of an accepted reshape stays inside the source -/
theorem reshape_inBounds (src : Shape) (dst : List Int) (v : IxView) (hs : Pos src)
    (hv : reshapeView src dst = some v) : v.InBounds := by
  simp only [reshapeView, Option.map_eq_some_iff] at hv
  obtain ⟨s, _, rfl⟩ := hv
  intro d _ i hi
  simp only [Option.some.injEq] at hi
  subst hi
  exact indices_inShape hs _

/-- **flatten** is accepted for positive extents, has shape `[size]` -/
theorem flatten_shape (src : Shape) (hs : Pos src) :
    ∃ v, flattenView src = some v ∧ v.src = src ∧ v.dst = [prod src] := by
  have h := reshape_shape src [prod src] (by intro x hx; simp at hx; subst hx; exact prod_pos hs) (by simp [prod])
  simp only [List.map_cons, List.map_nil] at h
  simp only [flattenView, reshapeView]
  rw [show ((prod src : Nat) : Int) = Int.ofNat (prod src) from rfl, h]
  exact ⟨_, rfl, rfl, rfl⟩

/-- **squeeze = NumPy** (a rank-0 result included): all extents `1` are removed, the others keep their order,
    C order of the elements is kept -/
theorem squeeze_eq_spec {α : Type} (a : Arr α) (fill : α) (ha : Pos a.shape) :
    ∃ v, squeezeView a.shape = some v ∧ v.src = a.shape ∧ v.dst = a.shape.filter (fun e => e != 1) ∧
      (v.apply a fill).flat = a.flat ∧ v.InBounds :=
  reshapeView_nat a fill (shapeSqueeze a.shape) (prod_filter_ne_one _) ha

/-- **atleast_nd / atleast_1d / atleast_2d = NumPy** (`ndmin`): ones are prepended up to rank `nd`, C order kept -/
theorem atleastNd_eq_spec {α : Type} (a : Arr α) (fill : α) (nd : Nat) (ha : Pos a.shape) :
    ∃ v, atleastNdView a.shape nd = some v ∧ v.src = a.shape ∧
      v.dst = List.replicate (nd - a.shape.length) 1 ++ a.shape ∧
      (v.apply a fill).flat = a.flat ∧ v.InBounds := by
  have hsh : shapeAtleastNd a.shape nd = List.replicate (nd - a.shape.length) 1 ++ a.shape := by
    simp only [shapeAtleastNd]; congr 2; omega
  have hp : prod (shapeAtleastNd a.shape nd) = prod a.shape := by
    simp [shapeAtleastNd, prod_append, prod_replicate_one]
  obtain ⟨v, h1, h2, h3, h4⟩ := reshapeView_nat a fill _ hp ha
  exact ⟨v, h1, h2, by rw [h3, hsh], h4⟩

/-- **flip = NumPy** for every valid axis list (negative entries allowed): `nax` is NumPy's normalised axis tuple;
    same shape; element `d` is read from `i` with `i[k] = n_k - 1 - d[k]` on the listed axes and `i[k] = d[k]` elsewhere -/
theorem flip_eq_spec (src : Shape) (ax : List Int) (nax : List Nat)
    (hn : normalizeAxes src.length ax = some nax) :
    ∃ v, flipView src (some ax) = some v ∧ v.src = src ∧ v.dst = src ∧
      ∀ d, InShape d src → ∃ i, v.map d = some i ∧ i.length = src.length ∧
        ∀ (k n x : Nat), src[k]? = some n → d[k]? = some x →
          i[k]? = some (if k ∈ nax then n - 1 - x else x) := by
  refine ⟨_, rfl, rfl, rfl, ?_⟩
  intro d hd
  refine ⟨flipIdx src (some ax) d, rfl, flipGo_length _ _ _ _ _ hd.length_eq, ?_⟩
  intro k n x hn' hx
  simp only [flipIdx]
  rw [flipGo_get (some ax) src.length 0 src d k n x hn' hx]
  congr 1
  simp only [Nat.zero_add]
  by_cases h : k ∈ nax
  · simp [h, (flipInAxis_some ax nax src.length k hn).2 h]
  · have : flipInAxis (some ax) src.length k = false := by
      cases hf : flipInAxis (some ax) src.length k with
      | false => rfl
      | true => exact absurd ((flipInAxis_some ax nax src.length k hn).1 hf) h
    simp [h, this]

/-- `flip(a, None)` reverses every axis -/
theorem flip_all_eq_spec (src : Shape) :
    ∃ v, flipView src none = some v ∧ v.src = src ∧ v.dst = src ∧
      ∀ d, InShape d src → ∃ i, v.map d = some i ∧ i.length = src.length ∧
        ∀ (k n x : Nat), src[k]? = some n → d[k]? = some x → i[k]? = some (n - 1 - x) := by
  refine ⟨_, rfl, rfl, rfl, ?_⟩
  intro d hd
  refine ⟨flipIdx src none d, rfl, flipGo_length _ _ _ _ _ hd.length_eq, ?_⟩
  intro k n x hn hx
  simp only [flipIdx]
  rw [flipGo_get none src.length 0 src d k n x hn hx]
  simp [flipInAxis]

theorem flip_inBounds (src : Shape) (axes : Option (List Int)) (v : IxView)
    (hv : flipView src axes = some v) : v.InBounds := by
  simp only [flipView, Option.some.injEq] at hv
  subst hv
  intro d hd i hi
  simp only [Option.some.injEq] at hi
  subst hi
  exact flipGo_inShape axes src.length 0 src d hd

/-- **flipping twice restores the array** (any axes argument) -/
theorem flip_flip (src : Shape) (axes : Option (List Int)) :
    ∃ v w, flipView src axes = some v ∧ flipView v.dst axes = some w ∧
      (w.comp v).src = src ∧ (w.comp v).dst = src ∧ ∀ d, InShape d src → (w.comp v).map d = some d := by
  refine ⟨_, _, rfl, rfl, rfl, rfl, ?_⟩
  intro d hd
  show (some (flipIdx src axes d)).bind (fun e => some (flipIdx src axes e)) = some d
  simp only [Option.bind_some, Option.some.injEq, flipIdx]
  exact flipGo_flipGo axes src.length 0 src d hd

example : normalizeAxes ([2,3,4] : Shape).length [0,-1] = some [0,2] := by decide
example : (flipView [2,3,4] (some [0,-1])).bind (fun v => v.map [0,1,1]) = some [1,1,2] := by decide
example : InShape [0,1,1] [2,3,4] := by decide

/-- **expand_dims = NumPy** (int or tuple axis, negative entries allowed): `nax` is NumPy's
    `normalize_axis_tuple(axis, ndim + len(axis))` (duplicate-free); the result has rank `ndim + len(axis)`, extent 1
    at every listed position, the source shape once those positions are deleted, and the same C-order elements. -/
theorem expandDims_eq_spec {α : Type} (a : Arr α) (fill : α) (ax : List Int) (nax : List Nat)
    (hn : normalizeAxes (a.shape.length + ax.length) ax = some nax) (hnd : nax.Nodup) (ha : Pos a.shape) :
    ∃ v, expandDimsView a.shape ax = some v ∧ v.src = a.shape ∧
      v.dst.length = a.shape.length + ax.length ∧
      (∀ k ∈ nax, v.dst[k]? = some 1) ∧
      dropAxes (fun j => nax.contains j) 0 v.dst = a.shape ∧
      (v.apply a fill).flat = a.flat ∧ v.InBounds := by
  have hlen : nax.length = ax.length := mapM_some_length _ _ _ hn
  have hlt : ∀ k ∈ nax, k < a.shape.length + ax.length := by
    intro k hk
    obtain ⟨j, hj, rfl⟩ := List.mem_iff_getElem.1 hk
    have hj' : j < ax.length := by omega
    have := (mapM_some_get _ _ _ hn j ax[j] (by simp [hj'])).1
    rw [List.getElem?_eq_getElem hj] at this
    exact normalizeAxis_lt _ _ _ this
  have hcnt := count_free (List.range' 0 (a.shape.length + ax.length)) nax (List.nodup_range')
    hnd (fun k hk => by simp [List.mem_range']; exact hlt k hk)
  simp only [List.length_range'] at hcnt
  obtain ⟨out, h1, h2, h3, h4, h5⟩ := expandGo_spec nax (a.shape.length + ax.length) 0 a.shape (by omega)
  obtain ⟨v, hv1, hv2, hv3, hv4, hv5⟩ := reshapeView_nat a fill out h5 ha
  refine ⟨v, ?_, hv2, by rw [hv3, h2], ?_, by rw [hv3]; exact h3, hv4, hv5⟩
  · simp only [expandDimsView, shapeExpandDims, hn, Option.bind_some, h1, hv1]
  · intro k hk
    rw [hv3]
    have hk' : k < out.length := by rw [h2]; exact hlt k hk
    have hx := h4 k out[k] (by simp [hk']) (by simp; exact hk)
    simp [hk', hx]

example : normalizeAxes (([2,3] : Shape).length + ([0,-1] : List Int).length) [0,-1] = some [0,3] ∧ [0,3].Nodup := by decide
example : (expandDimsView [2,3] [0,-1]).map (·.dst) = some [1,2,3,1] ∧
    dropAxes (fun j => [0,3].contains j) 0 [1,2,3,1] = [2,3] := by decide

/-- **transpose is a permutation of the source elements** (every permutation, positive extents) -/
theorem transpose_is_permutation {α : Type} (a : Arr α) (fill : α) (ax : List Int) (p : List Nat)
    (hn : normalizeAxes a.shape.length ax = some p) (hperm : p.Perm (List.range a.shape.length))
    (ha : Pos a.shape) :
    ∃ v, transposeView a.shape (some ax) = some v ∧ (v.apply a fill).flat.Perm a.flat := by
  obtain ⟨hlen, hnd, hlt, _⟩ := perm_range_facts p _ hperm
  obtain ⟨dst, hdst, hv⟩ := transposeView_some a.shape ax p hn hlen
  refine ⟨_, hv, ?_⟩
  have hdl : dst.length = a.shape.length := by simp [mapM_some_length _ _ _ hdst, hlen]
  simp only [Arr.flat, IxView.apply]
  refine flat_perm_of_bij a dst (fun d => scatter d p) (fun i => gatherIdx i p)
    (pos_of_mapM_getElem? _ _ _ ha hdst) ha ?_ ?_
  · intro d hd
    have hdlen : d.length = a.shape.length := by rw [← hdl]; exact hd.length_eq
    refine ⟨?_, gather_scatter d p _ hperm hdlen⟩
    refine transposed_inShape a.shape dst d _ p hperm hdl (by simp [scatter_length, hdlen]) ?_ ?_ hd
    · intro k b hk; exact ((mapM_some_get _ _ _ hdst k b hk).1).symm
    · intro k b hk
      exact scatter_get d p hnd (by simpa [hdlen] using hlt) (by omega) k b hk
  · intro i hi
    exact ⟨gather_inShape a.shape dst i p hperm hdst hi, scatter_gather i p _ hperm hi.length_eq⟩

theorem transpose_default_is_permutation {α : Type} (a : Arr α) (fill : α) (ha : Pos a.shape) :
    ∃ v, transposeView a.shape none = some v ∧ (v.apply a fill).flat.Perm a.flat := by
  refine ⟨_, rfl, ?_⟩
  simp only [Arr.flat, IxView.apply]
  have hpr : Pos a.shape.reverse := fun x hx => ha x (by simpa using hx)
  refine flat_perm_of_bij a a.shape.reverse List.reverse List.reverse hpr ha ?_ ?_
  · intro d hd
    exact ⟨by simpa using InShape_reverse hd, by simp⟩
  · intro i hi
    exact ⟨InShape_reverse hi, by simp⟩

/-- **flip is a permutation of the source elements** (any axes argument) -/
theorem flip_is_permutation {α : Type} (a : Arr α) (fill : α) (axes : Option (List Int)) (ha : Pos a.shape) :
    ∃ v, flipView a.shape axes = some v ∧ (v.apply a fill).flat.Perm a.flat := by
  refine ⟨_, rfl, ?_⟩
  simp only [Arr.flat, IxView.apply]
  refine flat_perm_of_bij a a.shape (flipIdx a.shape axes) (flipIdx a.shape axes) ha ha ?_ ?_
  · intro d hd
    exact ⟨flipGo_inShape axes _ 0 _ d hd, flipGo_flipGo axes _ 0 _ d hd⟩
  · intro d hd
    exact ⟨flipGo_inShape axes _ 0 _ d hd, flipGo_flipGo axes _ 0 _ d hd⟩

/-- **reshape, flatten, expand_dims, squeeze, atleast_nd keep C order** — whenever one of them yields a view of an
    array with positive extents, the view's elements in C order are exactly the source's (the identity permutation) -/
theorem reshape_family_keeps_order {α : Type} (a : Arr α) (fill : α) (v : IxView) (ha : Pos a.shape)
    (dst : List Int) (ax : List Int) (nd : Nat)
    (hv : reshapeView a.shape dst = some v ∨ flattenView a.shape = some v ∨ expandDimsView a.shape ax = some v ∨
          squeezeView a.shape = some v ∨ atleastNdView a.shape nd = some v) :
    (v.apply a fill).flat = a.flat := by
  rcases hv with h | h | h | h | h
  · exact (reshape_elem a fill dst v ha h).2
  · exact (reshape_elem a fill _ v ha h).2
  · simp only [expandDimsView, Option.bind_eq_some_iff] at h
    obtain ⟨s, _, hs⟩ := h
    exact (reshape_elem a fill _ v ha hs).2
  · exact (reshape_elem a fill _ v ha h).2
  · exact (reshape_elem a fill _ v ha h).2

theorem reshape_family_is_permutation {α : Type} (a : Arr α) (fill : α) (v : IxView) (ha : Pos a.shape)
    (dst : List Int) (ax : List Int) (nd : Nat)
    (hv : reshapeView a.shape dst = some v ∨ flattenView a.shape = some v ∨ expandDimsView a.shape ax = some v ∨
          squeezeView a.shape = some v ∨ atleastNdView a.shape nd = some v) :
    (v.apply a fill).flat.Perm a.flat :=
  List.Perm.of_eq (reshape_family_keeps_order a fill v ha dst ax nd hv)

/-- **swapaxes = NumPy** (axes possibly negative): with `m1, m2` the normalised axes and `σ` the exchange of `m1` and `m2`,
    `shape[k] = src[σ k]` and element `d` is read from `i` with `i[σ k] = d[k]`; it is a permutation of the source
    and stays in bounds. -/
theorem swapaxes_eq_spec {α : Type} (a : Arr α) (fill : α) (a1 a2 : Int) (m1 m2 : Nat)
    (h1 : normalizeAxis a.shape.length a1 = some m1) (h2 : normalizeAxis a.shape.length a2 = some m2)
    (ha : Pos a.shape) :
    ∃ v, swapaxesView a.shape a1 a2 = some v ∧ v.src = a.shape ∧ v.dst.length = a.shape.length ∧
      (∀ k : Nat, k < a.shape.length → v.dst[k]? = a.shape[swapPos m1 m2 k]?) ∧
      (∀ d : Idx, d.length = a.shape.length → ∃ i, v.map d = some i ∧ i.length = a.shape.length ∧
          ∀ k : Nat, k < a.shape.length → i[swapPos m1 m2 k]? = d[k]?) ∧
      v.InBounds ∧ (v.apply a fill).flat.Perm a.flat := by
  have hm1 := normalizeAxis_lt _ _ _ h1
  have hm2 := normalizeAxis_lt _ _ _ h2
  have hperm := swap_order_perm a.shape.length m1 m2 hm1 hm2
  have hn := normalizeAxes_ofNat a.shape.length ((List.range a.shape.length).map (swapPos m1 m2)) (fun x hx => by
    simp only [List.mem_map, List.mem_range] at hx
    obtain ⟨k, hk, rfl⟩ := hx
    exact swapPos_lt m1 m2 k _ hm1 hm2 hk)
  obtain ⟨v, hv, hs, hl, hsh, hmap⟩ := transpose_eq_spec a.shape _ _ hn hperm
  have hpk : ∀ k : Nat, k < a.shape.length →
      ((List.range a.shape.length).map (swapPos m1 m2))[k]? = some (swapPos m1 m2 k) := by
    intro k hk; simp [List.getElem?_range hk]
  have hview : swapaxesView a.shape a1 a2 = some v := by
    simp only [swapaxesView, swapaxesToTranspose, h1, h2, Option.bind_some, swap_order_eq _ _ _ hm1 hm2]
    exact hv
  refine ⟨v, hview, hs, hl, fun k hk => hsh k _ (hpk k hk), ?_, transpose_inBounds a.shape _ _ v hn hperm hv, ?_⟩
  · intro d hd
    obtain ⟨i, hi1, hi2, hi3⟩ := hmap d hd
    exact ⟨i, hi1, hi2, fun k hk => hi3 k _ (hpk k hk)⟩
  · obtain ⟨v', hv', hp⟩ := transpose_is_permutation a fill _ _ hn hperm ha
    rw [hv] at hv'; cases hv'; exact hp

example : normalizeAxis ([2,3,4] : Shape).length (-1) = some 2 ∧ normalizeAxis ([2,3,4] : Shape).length 0 = some 0 := by decide
example : (swapaxesView [2,3,4] 0 (-1)).map (fun v => (v.dst, v.map [3,1,0])) = some ([4,3,2], some [0,1,3]) := by decide

/-- **moveaxis = NumPy** (int or list arguments, negative entries allowed): `nsrc`, `ndst` are NumPy's normalised
    source / destination tuples (duplicate-free, equally long).  The view is `np.transpose(a, o)` for an order `o`
    that is a permutation of the axes, carries every source axis at its destination and keeps the remaining axes in
    their original order (which determines `o` uniquely — it is the order `np.moveaxis` builds); consequently
    `shape[k] = src[o[k]]`, element `d` is read from `i` with `i[o[k]] = d[k]`, in bounds, a permutation of the source. -/
theorem moveaxis_eq_spec {α : Type} (a : Arr α) (fill : α) (source destination : List Int) (nsrc ndst : List Nat)
    (hs : normalizeAxes a.shape.length source = some nsrc)
    (hd : normalizeAxes a.shape.length destination = some ndst)
    (hlen : nsrc.length = ndst.length) (hns : nsrc.Nodup) (hnd : ndst.Nodup) (ha : Pos a.shape) :
    ∃ (o : List Nat) (v : IxView), moveaxisView a.shape source destination = some v ∧
      o.Perm (List.range a.shape.length) ∧
      (∀ (j s d : Nat), nsrc[j]? = some s → ndst[j]? = some d → o[d]? = some s) ∧
      o.filter (fun i => !nsrc.contains i) = (List.range a.shape.length).filter (fun i => !nsrc.contains i) ∧
      v.src = a.shape ∧ v.dst.length = a.shape.length ∧
      (∀ (k b : Nat), o[k]? = some b → v.dst[k]? = a.shape[b]?) ∧
      (∀ d : Idx, d.length = a.shape.length → ∃ i, v.map d = some i ∧ i.length = a.shape.length ∧
          ∀ (k b : Nat), o[k]? = some b → i[b]? = d[k]?) ∧
      v.InBounds ∧ (v.apply a fill).flat.Perm a.flat := by
  obtain ⟨o, ho, hperm, hplace, hrest⟩ :=
    moveaxisToTranspose_spec a.shape.length source destination nsrc ndst hs hd hlen hns hnd
  have hn := normalizeAxes_ofNat a.shape.length o (perm_range_facts o _ hperm).2.2.1
  obtain ⟨v, hv, hsrc, hl, hsh, hmap⟩ := transpose_eq_spec a.shape _ o hn hperm
  have hview : moveaxisView a.shape source destination = some v := by
    simp only [moveaxisView, ho, Option.bind_some]; exact hv
  refine ⟨o, v, hview, hperm, hplace, hrest, hsrc, hl, hsh, hmap,
    transpose_inBounds a.shape _ o v hn hperm hv, ?_⟩
  obtain ⟨v', hv', hp⟩ := transpose_is_permutation a fill _ o hn hperm ha
  rw [hv] at hv'; cases hv'; exact hp

example : normalizeAxes ([2,3,4,5] : Shape).length [0,-1] = some [0,3] ∧
    normalizeAxes ([2,3,4,5] : Shape).length [-2,0] = some [2,0] ∧ [0,3].Nodup ∧ [2,0].Nodup := by decide
example : moveaxisToTranspose 4 [0,-1] [-2,0] = some [3,1,0,2] ∧
    (moveaxisView [2,3,4,5] [0,-1] [-2,0]).map (·.dst) = some [5,3,2,4] := by decide

/-- `normalize_axis` = NumPy's `normalize_axis_index`: accepted iff `-ndim ≤ a < ndim`, and then `a mod ndim` -/
theorem normalizeAxis_spec (ndim : Nat) (a : Int) (k : Nat) :
    normalizeAxis ndim a = some k ↔ (-(ndim : Int) ≤ a ∧ a < (ndim : Int) ∧ (k : Int) = a % (ndim : Int)) := by
  unfold normalizeAxis
  by_cases h : -(ndim : Int) ≤ a ∧ a < (ndim : Int)
  · simp only [h, and_self, if_true, Option.some.injEq, true_and]
    by_cases h0 : a < 0
    · simp only [h0, if_true]
      have : a % (ndim : Int) = a + ndim := by
        rw [Int.emod_eq_add_self_emod, Int.emod_eq_of_lt (by omega) (by omega)]
      rw [this]; omega
    · simp only [h0, if_false]
      have : a % (ndim : Int) = a := Int.emod_eq_of_lt (by omega) (by omega)
      rw [this]; omega
  · simp only [h, if_false]
    constructor
    · intro h'; cases h'
    · rintro ⟨h1, h2, _⟩; exact absurd ⟨h1, h2⟩ h

/-! non-vacuity (reshape family) -/
example : shapeReshape [2,3,4] [4,-1,2] = some [4,3,2] ∧ (4 * 2 ∣ prod [2,3,4]) := by decide
example : (reshapeView [2,3] [3,-1]).map (fun v => (v.dst, v.provenance)) = some ([3,2], [0,1,2,3,4,5]) := by decide
example : Pos [1,3,1,2] ∧ (∃ e ∈ [1,3,1,2], e ≠ 1) ∧ (squeezeView [1,3,1,2]).map (·.dst) = some [3,2] := by decide
example : (atleastNdView [3] 3).map (·.dst) = some [1,1,3] ∧ (atleastNdView [] 1).map (·.dst) = some [1] := by decide
/-! rank-0 results (NumPy's shape `()`) -/
example : (squeezeView [1,1]).map (fun v => (v.dst, v.provenance)) = some ([], [0]) ∧
    (reshapeView [1] []).map (·.dst) = some [] ∧ (atleastNdView [] 0).map (·.dst) = some [] ∧
    (expandDimsView [] []).map (·.dst) = some [] ∧ reshapeView [2] [] = none := by decide
example : (flattenView [2,3]).map (·.dst) = some [6] := by decide

end NmVerif.Props.C03
