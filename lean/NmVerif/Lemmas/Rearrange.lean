import NmVerif.Arr
import NmVerif.Index.Transpose
import NmVerif.Index.Reshape
import NmVerif.Index.Flip
import NmVerif.Lemmas.Addressing
/-
  Helper lemmas for C03 (rearranging views).  Property statements live in NmVerif/Props/C03.lean.
-/
namespace NmVerif

/-! ### InShape as a pointwise statement -/

theorem inShape_iff_getElem? (i s : List Nat) :
    InShape i s ↔ i.length = s.length ∧ ∀ (k x e : Nat), i[k]? = some x → s[k]? = some e → x < e := by
  induction s generalizing i with
  | nil => cases i <;> simp [InShape]
  | cons a t ih =>
    cases i with
    | nil => simp [InShape]
    | cons x xs =>
      simp only [InShape, ih, List.length_cons, Nat.add_right_cancel_iff]
      constructor
      · rintro ⟨h1, h2, h3⟩
        refine ⟨h2, ?_⟩
        intro k y e hy he
        cases k with
        | zero => simp at hy he; omega
        | succ k => simp at hy he; exact h3 k y e hy he
      · rintro ⟨h1, h2⟩
        refine ⟨h2 0 x a (by simp) (by simp), h1, ?_⟩
        intro k y e hy he
        exact h2 (k+1) y e (by simpa using hy) (by simpa using he)

/-! ### scatter -/

theorem scatterFold_length (zs : List (Nat × Nat)) (init : List Nat) :
    (zs.foldl (fun ret p => ret.set p.2 p.1) init).length = init.length := by
  induction zs generalizing init with
  | nil => rfl
  | cons z zs ih => simp [List.foldl_cons, ih]

theorem scatter_length (d p : List Nat) : (scatter d p).length = d.length := by
  simp [scatter, scatterFold_length]

theorem scatterFold_not_mem (d p : List Nat) (init : List Nat) (a : Nat) (ha : a ∉ p) :
    ((d.zip p).foldl (fun ret q => ret.set q.2 q.1) init)[a]? = init[a]? := by
  induction d generalizing p init with
  | nil => simp
  | cons x d ih =>
    cases p with
    | nil => simp
    | cons b p =>
      simp only [List.zip_cons_cons, List.foldl_cons]
      simp only [List.mem_cons, not_or] at ha
      rw [ih p _ ha.2, List.getElem?_set_ne (Ne.symm ha.1)]

theorem scatterFold_get (d p : List Nat) (init : List Nat) (hnd : p.Nodup)
    (hlt : ∀ a ∈ p, a < init.length) (hl : d.length = p.length) (k a : Nat) (hk : p[k]? = some a) :
    ((d.zip p).foldl (fun ret q => ret.set q.2 q.1) init)[a]? = d[k]? := by
  induction d generalizing p init k with
  | nil => cases p <;> simp_all
  | cons x d ih =>
    cases p with
    | nil => simp at hl
    | cons b p =>
      simp only [List.zip_cons_cons, List.foldl_cons]
      have hnd' := List.nodup_cons.1 hnd
      cases k with
      | zero =>
        simp only [List.getElem?_cons_zero, Option.some.injEq] at hk
        subst hk
        rw [scatterFold_not_mem d p _ b hnd'.1]
        simp [List.getElem?_set_self (hlt b (by simp))]
      | succ k =>
        simp only [List.getElem?_cons_succ] at hk ⊢
        exact ih p _ hnd'.2 (fun c hc => by simp; exact hlt c (by simp [hc])) (by simpa using hl) k hk

/-- NumPy's defining equation of a transposed index: `(scatter d p)[p[k]] = d[k]` -/
theorem scatter_get (d p : List Nat) (hnd : p.Nodup) (hlt : ∀ a ∈ p, a < d.length) (hl : d.length = p.length)
    (k a : Nat) (hk : p[k]? = some a) : (scatter d p)[a]? = d[k]? :=
  scatterFold_get d p _ hnd (by simpa using hlt) hl k a hk

/-! ### Option-mapM, axis normalisation -/

theorem mapM_cons_opt {α β} (f : α → Option β) (a : α) (l : List α) :
    (a :: l).mapM f = (f a).bind (fun b => (l.mapM f).map (b :: ·)) := by
  rw [List.mapM_cons]
  cases f a <;> simp
  cases l.mapM f <;> simp

theorem mapM_some_length {α β} (f : α → Option β) (l : List α) (r : List β) (h : l.mapM f = some r) :
    r.length = l.length := by
  induction l generalizing r with
  | nil => simp at h; simp [h]
  | cons a l ih =>
    rw [mapM_cons_opt] at h
    cases hfa : f a with
    | none => simp [hfa] at h
    | some b =>
      cases hl : l.mapM f with
      | none => simp [hfa, hl] at h
      | some r' =>
        simp [hfa, hl] at h
        subst h
        simp [ih r' hl]

theorem mapM_some_get {α β} (f : α → Option β) (l : List α) (r : List β) (h : l.mapM f = some r)
    (k : Nat) (a : α) (hk : l[k]? = some a) : f a = r[k]? ∧ ∃ b, r[k]? = some b := by
  induction l generalizing r k with
  | nil => simp at hk
  | cons x l ih =>
    rw [mapM_cons_opt] at h
    cases hfa : f x with
    | none => simp [hfa] at h
    | some b =>
      cases hl : l.mapM f with
      | none => simp [hfa, hl] at h
      | some r' =>
        simp [hfa, hl] at h
        subst h
        cases k with
        | zero => simp at hk; subst hk; simp [hfa]
        | succ k => simp at hk; simpa using ih r' hl k hk

theorem mapM_congr_opt {α β} (f g : α → Option β) (l : List α) (h : ∀ a ∈ l, f a = g a) :
    l.mapM f = l.mapM g := by
  induction l with
  | nil => simp
  | cons a l ih =>
    rw [mapM_cons_opt, mapM_cons_opt, h a (by simp), ih (fun b hb => h b (by simp [hb]))]

theorem mapM_bind_opt {α β γ} (f : α → Option β) (g : β → Option γ) (l : List α) (r : List β)
    (h : l.mapM f = some r) : l.mapM (fun a => (f a).bind g) = r.mapM g := by
  induction l generalizing r with
  | nil => simp at h; subst h; simp
  | cons a l ih =>
    rw [mapM_cons_opt] at h
    cases hfa : f a with
    | none => simp [hfa] at h
    | some b =>
      cases hl : l.mapM f with
      | none => simp [hfa, hl] at h
      | some r' =>
        simp [hfa, hl] at h
        subst h
        rw [mapM_cons_opt, mapM_cons_opt, ih r' hl]
        simp [hfa]

theorem mapM_getElem?_some (s : List Nat) (p : List Nat) (h : ∀ a ∈ p, a < s.length) :
    ∃ r, p.mapM (fun k => s[k]?) = some r := by
  induction p with
  | nil => exact ⟨[], by simp⟩
  | cons a p ih =>
    obtain ⟨r, hr⟩ := ih (fun b hb => h b (by simp [hb]))
    have ha := h a (by simp)
    refine ⟨s[a] :: r, ?_⟩
    rw [mapM_cons_opt, hr]
    simp [List.getElem?_eq_getElem ha]

theorem atPos_eq_normalizeAxis (n : Nat) (a : Int) : atPos n a = normalizeAxis n a := by
  unfold atPos normalizeAxis
  by_cases h0 : 0 ≤ a
  · by_cases h1 : a.toNat < n
    · have : -(n:Int) ≤ a ∧ a < n := by omega
      have h2 : ¬ a < 0 := by omega
      simp [h0, h1, this, h2]
    · have : ¬ (-(n:Int) ≤ a ∧ a < n) := by omega
      simp [h0, h1, this]
  · by_cases h1 : -a ≤ (n:Int)
    · have : -(n:Int) ≤ a ∧ a < n := by omega
      have h2 : a < 0 := by omega
      simp only [h0, h1, this, h2, if_true, if_false, and_self]
      congr 1; omega
    · have : ¬ (-(n:Int) ≤ a ∧ a < n) := by omega
      simp [h0, h1, this]

theorem normalizeAxis_lt (n : Nat) (a : Int) (k : Nat) (h : normalizeAxis n a = some k) : k < n := by
  unfold normalizeAxis at h
  split at h
  · simp at h; subst h; split <;> omega
  · simp at h

/-! ### transpose -/
theorem perm_range_facts (p : List Nat) (n : Nat) (h : p.Perm (List.range n)) :
    p.length = n ∧ p.Nodup ∧ (∀ a ∈ p, a < n) ∧ (∀ a, a < n → ∃ k : Nat, p[k]? = some a) := by
  refine ⟨by simpa using h.length_eq, h.nodup_iff.2 List.nodup_range, ?_, ?_⟩
  · intro a ha; simpa using (h.mem_iff.1 ha)
  · intro a ha
    have : a ∈ p := h.mem_iff.2 (by simpa using ha)
    obtain ⟨k, hk, rfl⟩ := List.mem_iff_getElem.1 this
    exact ⟨k, by simp [hk]⟩

/-- the view that `transposeView` builds for valid axes -/
theorem transposeView_some (src : Shape) (ax : List Int) (p : List Nat)
    (hn : normalizeAxes src.length ax = some p) (hlen : p.length = src.length) :
    ∃ dst, p.mapM (fun k => src[k]?) = some dst ∧
      transposeView src (some ax) = some ⟨src, dst, fun d => some (scatter d p)⟩ := by
  have hat : ax.mapM (atPos src.length) = some p := by
    rw [← hn]; unfold normalizeAxes
    exact mapM_congr_opt _ _ _ (fun a _ => atPos_eq_normalizeAxis _ a)
  have hlt : ∀ a ∈ p, a < src.length := by
    intro a ha
    obtain ⟨k, hk, rfl⟩ := List.mem_iff_getElem.1 ha
    have hl := mapM_some_length _ _ _ hn
    have hk' : k < ax.length := by omega
    have := (mapM_some_get _ _ _ hn k ax[k] (by simp [hk'])).1
    rw [List.getElem?_eq_getElem hk] at this
    exact normalizeAxis_lt _ _ _ this
  obtain ⟨dst, hdst⟩ := mapM_getElem?_some src p hlt
  refine ⟨dst, hdst, ?_⟩
  have hal : ax.length = src.length := by rw [← hlen]; exact (mapM_some_length _ _ _ hn).symm
  have hsh : shapeTranspose src (some ax) = some dst := by
    simp only [shapeTranspose, hal, if_true]
    rw [mapM_bind_opt _ _ _ _ hat, hdst]
  simp only [transposeView, hsh, hat]

/-- an index satisfying NumPy's transposition equations w.r.t. an in-shape destination index is in the source shape -/
theorem transposed_inShape (src dst d i p : List Nat) (hperm : p.Perm (List.range src.length))
    (hdl : dst.length = src.length) (hil : i.length = src.length)
    (hdst : ∀ (k a : Nat), p[k]? = some a → dst[k]? = src[a]?)
    (hi : ∀ (k a : Nat), p[k]? = some a → i[a]? = d[k]?)
    (hd : InShape d dst) : InShape i src := by
  obtain ⟨hlen, hnd, hlt, hsurj⟩ := perm_range_facts p _ hperm
  rw [inShape_iff_getElem?] at hd ⊢
  refine ⟨hil, ?_⟩
  intro a x e hx he
  have ha : a < src.length := by
    have := (List.getElem?_eq_some_iff.1 he).1; exact this
  obtain ⟨k, hk⟩ := hsurj a ha
  rw [hi k a hk] at hx
  rw [← hdst k a hk] at he
  exact hd.2 k x e hx he

theorem scatter_scatter_inv (d p q : List Nat) (n : Nat) (hd : d.length = n)
    (hp : p.Perm (List.range n)) (hq : q.Perm (List.range n))
    (hinv : ∀ (k a : Nat), p[k]? = some a → q[a]? = some k) :
    scatter (scatter d q) p = d := by
  obtain ⟨hlen, hnd, hlt, hsurj⟩ := perm_range_facts p _ hp
  obtain ⟨hqlen, hqnd, hqlt, _⟩ := perm_range_facts q _ hq
  apply List.ext_getElem?
  intro a
  by_cases ha : a < n
  · obtain ⟨k, hk⟩ := hsurj a ha
    rw [scatter_get (scatter d q) p hnd (by simpa [scatter_length, hd] using hlt)
          (by simp [scatter_length, hd, hlen]) k a hk]
    exact scatter_get d q hqnd (by simpa [hd] using hqlt) (by omega) a k (hinv k a hk)
  · have h1 : (scatter (scatter d q) p).length ≤ a := by simp [scatter_length, hd]; omega
    have h2 : d.length ≤ a := by omega
    rw [List.getElem?_eq_none h1, List.getElem?_eq_none h2]

/-! ### reshape -/
/-- number of `-1` entries / product of the other entries (as the C++ casts them) -/
def cntNeg (dst : List Int) : Nat := (dst.filter (fun d => d = -1)).length
def prodNonNeg (dst : List Int) : Nat := prod ((dst.filter (fun d => d ≠ -1)).map Int.toNat)

theorem cnrFold_eq (dst : List Int) (c m : Nat) :
    dst.foldl (fun (acc : Nat × Nat) d => if d = -1 then (acc.1 + 1, acc.2) else (acc.1, acc.2 * d.toNat)) (c, m)
      = (c + cntNeg dst, m * prodNonNeg dst) := by
  induction dst generalizing c m with
  | nil => simp [cntNeg, prodNonNeg, prod]
  | cons d dst ih =>
    simp only [List.foldl_cons]
    by_cases hd : d = -1
    · subst hd
      simp only [if_true]
      rw [ih]
      simp [cntNeg, prodNonNeg]; omega
    · simp only [hd, if_false]
      rw [ih]
      simp [cntNeg, prodNonNeg, hd, prod, Nat.mul_assoc]

theorem countNegativeReshape_eq (dst : List Int) :
    countNegativeReshape dst = (cntNeg dst, prodNonNeg dst) := by
  simp only [countNegativeReshape]
  rw [cnrFold_eq]; simp

/-- no zero and no negative extent other than `-1` (the check added to `shape_reshape`) -/
theorem any_bad_ofNat (t : List Nat) (ht : Pos t) :
    (t.map Int.ofNat).any (fun d => d != -1 && d ≤ 0) = false := by
  rw [List.any_eq_false]
  intro d hd
  simp only [List.mem_map] at hd
  obtain ⟨x, hx, rfl⟩ := hd
  have := ht x hx
  have h1 : ¬ (Int.ofNat x ≤ 0) := by simp only [Int.ofNat_eq_natCast]; omega
  simp [h1]
  omega

theorem prod_map_infer (dst : List Int) (q : Nat) :
    prod (dst.map (fun d => if d = -1 then q else d.toNat)) = prodNonNeg dst * q ^ cntNeg dst := by
  induction dst with
  | nil => simp [prod, prodNonNeg, cntNeg]
  | cons d dst ih =>
    simp only [List.map_cons, prod, ih]
    by_cases hd : d = -1
    · subst hd
      simp [cntNeg, prodNonNeg, Nat.pow_succ]
      rw [Nat.mul_comm q, Nat.mul_assoc]
    · simp [hd, cntNeg, prodNonNeg, prod, Nat.mul_assoc]

theorem pos_of_prod_pos (s : List Nat) (h : 0 < prod s) : Pos s := by
  induction s with
  | nil => intro x hx; simp at hx
  | cons a t ih =>
    simp only [prod] at h
    have ha : 0 < a := Nat.pos_of_mul_pos_right h
    have ht : 0 < prod t := Nat.pos_of_mul_pos_left h
    intro x hx
    simp at hx
    rcases hx with rfl | hx
    · exact ha
    · exact ih ht x hx

/-- an accepted reshape keeps the element count -/
theorem shapeReshape_prod (src : Shape) (dst : List Int) (s : Shape)
    (h : shapeReshape src dst = some s) : prod s = prod src := by
  simp only [shapeReshape, countNegativeReshape_eq dst] at h
  split at h
  · simp at h
  · split at h
    · simp at h
    · split at h
      · simp at h
      · split at h
        · simp at h
        · simp only [Option.some.injEq] at h
          subst h
          rw [prod_map_infer]
          rename_i h1 _ h2 h3
          have hc : cntNeg dst = 0 ∨ cntNeg dst = 1 := by omega
          rcases hc with hc | hc
          · simp only [hc, Nat.pow_zero, Nat.mul_one]
            simp only [hc, true_and] at h2
            omega
          · simp only [hc, Nat.pow_one]
            have : prod src % prodNonNeg dst = 0 := by omega
            exact Nat.mul_div_cancel' (Nat.dvd_of_mod_eq_zero this)

theorem cntNeg_ofNat (t : List Nat) : cntNeg (t.map Int.ofNat) = 0 := by
  induction t with
  | nil => rfl
  | cons a t ih =>
    have : ¬ ((a : Int) = -1) := by omega
    simp [cntNeg] at ih ⊢

theorem prodNonNeg_ofNat (t : List Nat) : prodNonNeg (t.map Int.ofNat) = prod t := by
  induction t with
  | nil => rfl
  | cons a t ih =>
    have h : ¬ ((a : Int) = -1) := by omega
    simp only [prodNonNeg, List.map_cons] at ih ⊢
    rw [List.filter_cons_of_pos (by simp [h])]
    simp only [List.map_cons, prod, ih]
    simp

theorem cntNeg_append (a b : List Int) : cntNeg (a ++ b) = cntNeg a + cntNeg b := by
  simp [cntNeg]
theorem prodNonNeg_append (a b : List Int) : prodNonNeg (a ++ b) = prodNonNeg a * prodNonNeg b := by
  simp [prodNonNeg, prod_append]

/-- reading through a view whose index map is "same flat position" gives the same flattening -/
theorem reshape_map_flat {α : Type} (a : Arr α) (s : Shape) (hs : Pos s) (ha : Pos a.shape)
    (hp : prod s = prod a.shape) :
    (allIdx s).map (fun d => a.get (computeIndices (computeOffset d (strides s)) a.shape (strides a.shape)))
      = a.flat := by
  rw [← map_ndindex_range s hs, List.map_map]
  unfold Arr.flat
  rw [← map_ndindex_range a.shape ha, List.map_map, hp]
  apply List.map_congr_left
  intro k hk
  simp only [Function.comp, ndindex]
  rw [offset_indices hs (by rw [hp]; simpa using hk)]

theorem map_infer_ofNat (t : List Nat) (q : Nat) :
    t.map ((fun d : Int => if d = -1 then q else d.toNat) ∘ Int.ofNat) = t := by
  induction t with
  | nil => rfl
  | cons a t ih =>
    have : ¬ ((a : Int) = -1) := by omega
    simp only [List.map_cons, ih, Function.comp]
    simp [this]

theorem prod_filter_ne_one (s : List Nat) : prod (s.filter (fun e => e != 1)) = prod s := by
  induction s with
  | nil => rfl
  | cons a t ih =>
    by_cases h : a = 1
    · subst h; simp [prod, ih]
    · simp [h, prod, ih]

theorem prod_replicate_one (k : Nat) : prod (List.replicate k 1) = 1 := by
  induction k with
  | zero => rfl
  | succ k ih => simp [List.replicate_succ, prod, ih]

/-- a view that is `reshapeView` to a Nat shape with the same count: accepted, that shape, C order kept -/
theorem reshapeView_nat {α : Type} (a : Arr α) (fill : α) (t : Shape) (hp : prod t = prod a.shape)
    (ha : Pos a.shape) :
    ∃ v, reshapeView a.shape (t.map Int.ofNat) = some v ∧ v.src = a.shape ∧ v.dst = t ∧
      (v.apply a fill).flat = a.flat ∧ v.InBounds := by
  have hpos : Pos t := pos_of_prod_pos t (by rw [hp]; exact prod_pos ha)
  have hs : shapeReshape a.shape (t.map Int.ofNat) = some t := by
    simp only [shapeReshape, countNegativeReshape_eq, cntNeg_ofNat, prodNonNeg_ofNat, hp, any_bad_ofNat t hpos]
    simp [map_infer_ofNat]
  refine ⟨_, by simp only [reshapeView, hs]; rfl, rfl, rfl, ?_, ?_⟩
  · simp only [Arr.flat, IxView.apply]
    exact reshape_map_flat a t hpos ha hp
  · intro d _ i hi
    simp only [Option.some.injEq] at hi
    subst hi
    exact indices_inShape ha _

/-! ### flip -/
theorem flipGo_length (axes : Option (List Int)) (dim k0 : Nat) (src d : List Nat) (h : d.length = src.length) :
    (flipGo axes dim k0 src d).length = src.length := by
  induction src generalizing k0 d with
  | nil => cases d <;> simp [flipGo]
  | cons n ns ih =>
    cases d with
    | nil => simp at h
    | cons x xs => simp [flipGo, ih (k0+1) xs (by simpa using h)]

theorem flipGo_get (axes : Option (List Int)) (dim k0 : Nat) (src d : List Nat) (j n x : Nat)
    (hn : src[j]? = some n) (hx : d[j]? = some x) :
    (flipGo axes dim k0 src d)[j]? = some (if flipInAxis axes dim (k0 + j) then n - 1 - x else x) := by
  induction src generalizing k0 d j with
  | nil => simp at hn
  | cons m ns ih =>
    cases d with
    | nil => simp at hx
    | cons y ys =>
      cases j with
      | zero => simp at hn hx; subst hn hx; simp [flipGo]
      | succ j =>
        simp only [List.getElem?_cons_succ] at hn hx
        simp only [flipGo, List.getElem?_cons_succ]
        rw [ih (k0+1) ys j hn hx]
        have : k0 + 1 + j = k0 + (j + 1) := by omega
        rw [this]

theorem flipGo_inShape (axes : Option (List Int)) (dim k0 : Nat) (src d : List Nat) (h : InShape d src) :
    InShape (flipGo axes dim k0 src d) src := by
  induction src generalizing k0 d with
  | nil => cases d <;> simp_all [InShape, flipGo]
  | cons n ns ih =>
    cases d with
    | nil => simp [InShape] at h
    | cons x xs =>
      simp only [InShape] at h
      simp only [flipGo, InShape]
      refine ⟨?_, ih (k0+1) xs h.2⟩
      split <;> omega

theorem flipGo_flipGo (axes : Option (List Int)) (dim k0 : Nat) (src d : List Nat) (h : InShape d src) :
    flipGo axes dim k0 src (flipGo axes dim k0 src d) = d := by
  induction src generalizing k0 d with
  | nil => cases d <;> simp_all [InShape, flipGo]
  | cons n ns ih =>
    cases d with
    | nil => simp [InShape] at h
    | cons x xs =>
      simp only [InShape] at h
      simp only [flipGo, ih (k0+1) xs h.2]
      congr 1
      split <;> omega

/-- the normalised comparison of `flip_slices` decides membership in NumPy's normalised axis tuple -/
theorem flipInAxis_some (ax : List Int) (nax : List Nat) (dim k : Nat) (hn : normalizeAxes dim ax = some nax) :
    flipInAxis (some ax) dim k = true ↔ k ∈ nax := by
  induction ax generalizing nax with
  | nil =>
    simp [normalizeAxes] at hn
    subst hn
    simp [flipInAxis]
  | cons a ax ih =>
    unfold normalizeAxes at hn ih
    rw [mapM_cons_opt] at hn
    cases hfa : normalizeAxis dim a with
    | none => simp [hfa] at hn
    | some m =>
      cases hl : ax.mapM (normalizeAxis dim) with
      | none => simp [hfa, hl] at hn
      | some r =>
        simp [hfa, hl] at hn
        subst hn
        have ih' := ih r hl
        have hm : ((if a < 0 then a + (dim : Int) else a) = (k : Int)) ↔ k = m := by
          unfold normalizeAxis at hfa
          split at hfa
          · simp only [Option.some.injEq] at hfa
            subst hfa
            split <;> omega
          · simp at hfa
        simp only [flipInAxis, List.any_cons, Bool.or_eq_true, beq_iff_eq, List.mem_cons] at ih' ⊢
        rw [hm, ih']

/-! ### expand_dims -/
/-- SPEC side of expand_dims: delete the positions `i, i+1, …` of `out` that are listed in the axes -/
def dropAxes (inAx : Nat → Bool) : Nat → List Nat → List Nat
  | _, [] => []
  | i, x :: xs => if inAx i then dropAxes inAx (i+1) xs else x :: dropAxes inAx (i+1) xs

theorem expandGo_spec (nax : List Nat) (k i : Nat) (rest : List Nat)
    (h : rest.length = ((List.range' i k).filter (fun j => !nax.contains j)).length) :
    ∃ out, expandGo nax k i rest = some out ∧ out.length = k ∧ dropAxes (fun j => nax.contains j) i out = rest ∧
      (∀ (j x : Nat), out[j]? = some x → nax.contains (i + j) = true → x = 1) ∧ prod out = prod rest := by
  induction k generalizing i rest with
  | zero =>
    have : rest = [] := by simpa using h
    subst this
    exact ⟨[], rfl, rfl, rfl, by simp, rfl⟩
  | succ k ih =>
    rw [List.range'_succ] at h
    cases hc : nax.contains i with
    | true =>
      rw [List.filter_cons_of_neg (by simp only [hc]; decide)] at h
      obtain ⟨out, h1, h2, h3, h4, h5⟩ := ih (i+1) rest h
      refine ⟨1 :: out, ?_, by simp only [List.length_cons, h2], ?_, ?_, ?_⟩
      · simp only [expandGo, hc, if_true, h1, Option.map_some]
      · simp only [dropAxes, hc, if_true, h3]
      · intro j x hj hin
        cases j with
        | zero => simp only [List.getElem?_cons_zero, Option.some.injEq] at hj; exact hj.symm
        | succ j =>
          simp only [List.getElem?_cons_succ] at hj
          have e : i + 1 + j = i + (j + 1) := by omega
          exact h4 j x hj (by rw [e]; exact hin)
      · simp only [prod, h5, Nat.one_mul]
    | false =>
      rw [List.filter_cons_of_pos (by simp only [hc]; decide)] at h
      cases rest with
      | nil => simp at h
      | cons s rest' =>
        simp only [List.length_cons, Nat.add_right_cancel_iff] at h
        obtain ⟨out, h1, h2, h3, h4, h5⟩ := ih (i+1) rest' h
        refine ⟨s :: out, ?_, by simp only [List.length_cons, h2], ?_, ?_, ?_⟩
        · simp only [expandGo, hc, h1, Option.map_some]; rfl
        · simp only [dropAxes, hc, h3]; rfl
        · intro j x hj hin
          cases j with
          | zero => rw [Nat.add_zero, hc] at hin; exact absurd hin (by decide)
          | succ j =>
            simp only [List.getElem?_cons_succ] at hj
            have e : i + 1 + j = i + (j + 1) := by omega
            exact h4 j x hj (by rw [e]; exact hin)
        · simp only [prod, h5]

theorem count_free (l nax : List Nat) (hl : l.Nodup) (hnd : nax.Nodup) (hsub : ∀ a ∈ nax, a ∈ l) :
    (l.filter (fun j => !nax.contains j)).length + nax.length = l.length := by
  induction nax generalizing l with
  | nil => simp
  | cons a nax ih =>
    have hnd' := List.nodup_cons.1 hnd
    have hal : a ∈ l := hsub a (by simp)
    have hsub' : ∀ b ∈ nax, b ∈ l.erase a := by
      intro b hb
      have hne : b ≠ a := by rintro rfl; exact hnd'.1 hb
      exact (List.mem_erase_of_ne hne).2 (hsub b (by simp [hb]))
    have h1 := ih (l.erase a) (hl.erase a) hnd'.2 hsub'
    rw [List.length_erase_of_mem hal, hl.erase_eq_filter a, List.filter_filter] at h1
    have hf : (l.filter (fun j => !(a :: nax).contains j)) = l.filter (fun j => (!nax.contains j) && (j != a)) := by
      apply List.filter_congr
      intro x _
      by_cases hxa : x = a
      · subst hxa; simp
      · have h1 : (x != a) = true := by simp [hxa]
        have h2 : (x == a) = false := by simp [hxa]
        simp only [List.contains_cons, h1, h2, Bool.and_true, Bool.false_or]
    rw [hf]
    have : 0 < l.length := List.length_pos_of_mem hal
    simp only [List.length_cons]
    omega

/-! ### moveaxis -/

theorem insertIdx_eq (L : List Nat) (d s : Nat) (hd : d ≤ L.length) :
    L.insertIdx d s = L.take d ++ s :: L.drop d := by
  induction d generalizing L with
  | zero => simp
  | succ d ih =>
    cases L with
    | nil => simp at hd
    | cons x xs =>
      rw [List.insertIdx_succ_cons, ih xs (by simpa using hd)]
      simp

/-- one `insert(pos, val, array)` on the zero-padded fixed-length array = list insertion on the filled prefix -/
theorem insertShift_padded (L : List Nat) (z d s : Nat) (hd : d ≤ L.length) :
    insertShift d s (L ++ List.replicate (z+1) 0) = L.insertIdx d s ++ List.replicate z 0 := by
  unfold insertShift
  rw [List.take_append_of_le_length hd, List.drop_append_of_le_length hd, insertIdx_eq L d s hd]
  have : L.take d ++ s :: (L.drop d ++ List.replicate (z+1) 0)
      = ((L.take d ++ s :: L.drop d) ++ List.replicate z 0) ++ [0] := by
    simp [List.replicate_succ', List.append_assoc]
  rw [this]
  have hl2 : (L ++ List.replicate (z+1) 0).length = ((L.take d ++ s :: L.drop d) ++ List.replicate z 0).length := by
    simp [List.length_take, List.length_drop]; omega
  rw [hl2, List.take_left']
  rfl

theorem filter_insertIdx_of_neg (L : List Nat) (d s : Nat) (P : Nat → Bool) (hs : P s = false) :
    (L.insertIdx d s).filter P = L.filter P := by
  by_cases hd : d ≤ L.length
  · rw [insertIdx_eq L d s hd, List.filter_append, List.filter_cons_of_neg (by simp [hs]), ← List.filter_append,
      List.take_append_drop]
  · rw [List.insertIdx_of_length_lt (by omega)]

/-- a strictly increasing list of `z` numbers below `B` starts at most at `B - z` -/
theorem head_le_of_strictMono (l : List Nat) (B : Nat) (hs : l.Pairwise (· < ·)) (hB : ∀ x ∈ l, x < B) :
    ∀ x, l.head? = some x → x + l.length ≤ B := by
  induction l with
  | nil => simp
  | cons a t ih =>
    intro x hx
    simp at hx; subst hx
    cases t with
    | nil => simp; exact hB a (by simp)
    | cons b t' =>
      have hs' := List.pairwise_cons.1 hs
      have := ih hs'.2 (fun y hy => hB y (by simp [hy])) b rfl
      have hab : a < b := hs'.1 b (by simp)
      simp only [List.length_cons] at this ⊢
      omega

end NmVerif
