import NmVerif.Lemmas.LinalgTensordot
/-
  Lemmas for kron of C16: closed form of `kron_dst_transpose`, the interleaving transpose and the pair-merging reshape.
-/
namespace NmVerif
open NmVerif.MB
open Linalg

/-- closed form of `kron_dst_transpose`: position `t` of the transposition axes -/
def kronAxis (l r t : Nat) : Nat :=
  if l ≤ r then
    let e := r - l
    if t < e then l + t else
      let u := t - e
      if u % 2 = 0 then u / 2 else r + u / 2
  else
    let e := l - r
    if t < e then t else
      let u := t - e
      if u % 2 = 0 then e + u / 2 else l + u / 2

/-- a loop `for i < n: acc[g i] = f i` with distinct targets, pointwise -/
theorem foldl_set_getElem?_hit (n : Nat) (g f : Nat → Nat) (init : List Nat)
    (hinj : ∀ i i', i < n → i' < n → g i = g i' → i = i') (i : Nat) (hi : i < n) (hlt : g i < init.length) :
    ((List.range n).foldl (fun acc i => acc.set (g i) (f i)) init)[g i]? = some (f i) := by
  have e : (List.range n).foldl (fun acc i => acc.set (g i) (f i)) init =
      scatterFold init ((List.range n).map (fun i => (f i, g i))) := by
    simp [scatterFold, List.foldl_map]
  rw [e]
  apply scatterFold_getElem?_mem
  · simp only [List.map_map]
    rw [List.nodup_iff_pairwise_ne, List.pairwise_map]
    refine List.Pairwise.imp_of_mem ?_ (List.nodup_range (n := n))
    intro a b ha hb hne hab
    exact hne (hinj a b (List.mem_range.1 ha) (List.mem_range.1 hb) hab)
  · exact List.mem_map.2 ⟨i, List.mem_range.2 hi, rfl⟩
  · exact hlt

theorem foldl_set_getElem?_miss (n : Nat) (g f : Nat → Nat) (init : List Nat) (j : Nat)
    (hmiss : ∀ i, i < n → g i ≠ j) :
    ((List.range n).foldl (fun acc i => acc.set (g i) (f i)) init)[j]? = init[j]? := by
  have e : (List.range n).foldl (fun acc i => acc.set (g i) (f i)) init =
      scatterFold init ((List.range n).map (fun i => (f i, g i))) := by
    simp [scatterFold, List.foldl_map]
  rw [e]
  apply scatterFold_getElem?_of_not_mem
  intro p hp
  obtain ⟨i, hi, rfl⟩ := List.mem_map.1 hp
  exact hmiss i (List.mem_range.1 hi)

theorem foldl_set_length (n : Nat) (g f : Nat → Nat) (init : List Nat) :
    ((List.range n).foldl (fun acc i => acc.set (g i) (f i)) init).length = init.length := by
  have e : (List.range n).foldl (fun acc i => acc.set (g i) (f i)) init =
      scatterFold init ((List.range n).map (fun i => (f i, g i))) := by
    simp [scatterFold, List.foldl_map]
  rw [e, la_scatterFold_length]

/-- `tmp = at(r, p); at(r, p) = at(r, p-1); at(r, p-1) = tmp` -/
def swapAt (acc : List Nat) (p : Nat) : List Nat := (acc.set p (acc.getD (p - 1) 0)).set (p - 1) (acc.getD p 0)

theorem swapAt_length (acc : List Nat) (p : Nat) : (swapAt acc p).length = acc.length := by simp [swapAt]

theorem swapAt_getElem? (acc : List Nat) (p j : Nat) (h1 : 1 ≤ p) (h2 : p < acc.length) :
    (swapAt acc p)[j]? = if j = p - 1 then acc[p]? else if j = p then acc[p - 1]? else acc[j]? := by
  unfold swapAt
  by_cases hj1 : j = p - 1
  · subst hj1
    simp only [if_true]
    rw [List.getElem?_set_self (by simp; omega)]
    simp [List.getD_eq_getElem?_getD, List.getElem?_eq_getElem h2]
  · simp only [if_neg hj1]
    rw [List.getElem?_set_ne (by omega)]
    by_cases hj2 : j = p
    · subst hj2
      simp only [if_true]
      rw [List.getElem?_set_self h2]
      simp [List.getD_eq_getElem?_getD, List.getElem?_eq_getElem (show j - 1 < acc.length by omega)]
    · simp only [if_neg hj2]
      rw [List.getElem?_set_ne (by omega)]

/-- a loop of swaps `(P i, P i - 1)`, `i < m`, on pairwise disjoint position pairs -/
theorem foldl_swap (P : Nat → Nat) (acc : List Nat) : ∀ (m : Nat),
    (∀ i, i < m → 1 ≤ P i ∧ P i < acc.length) →
    (∀ i i', i < m → i' < m → i ≠ i' → P i + 2 ≤ P i' ∨ P i' + 2 ≤ P i) →
    ((List.range m).foldl (fun a i => swapAt a (P i)) acc).length = acc.length ∧
    (∀ i, i < m → ((List.range m).foldl (fun a i => swapAt a (P i)) acc)[P i]? = acc[P i - 1]?) ∧
    (∀ i, i < m → ((List.range m).foldl (fun a i => swapAt a (P i)) acc)[P i - 1]? = acc[P i]?) ∧
    (∀ j, (∀ i, i < m → j ≠ P i ∧ j ≠ P i - 1) → ((List.range m).foldl (fun a i => swapAt a (P i)) acc)[j]? = acc[j]?) := by
  intro m
  induction m with
  | zero => intro _ _; simp
  | succ m ih =>
    intro hP hdis
    obtain ⟨ihl, iha, ihb, ihc⟩ := ih (fun i hi => hP i (by omega)) (fun i i' hi hi' => hdis i i' (by omega) (by omega))
    rw [List.range_succ, List.foldl_append]
    simp only [List.foldl_cons, List.foldl_nil]
    have hPm := hP m (by omega)
    have hlen : ((List.range m).foldl (fun a i => swapAt a (P i)) acc).length = acc.length := ihl
    refine ⟨by rw [swapAt_length, hlen], ?_, ?_, ?_⟩
    · intro i hi
      rw [swapAt_getElem? _ _ _ hPm.1 (by rw [hlen]; exact hPm.2)]
      by_cases him : i = m
      · subst him
        have : P i ≠ P i - 1 := by omega
        rw [if_neg this, if_pos rfl]
        exact ihc (P i - 1) (fun i' hi' => by have := hdis i i' (by omega) (by omega) (by omega); omega)
      · have := hdis i m (by omega) (by omega) him
        rw [if_neg (by omega), if_neg (by omega)]
        exact iha i (by omega)
    · intro i hi
      rw [swapAt_getElem? _ _ _ hPm.1 (by rw [hlen]; exact hPm.2)]
      by_cases him : i = m
      · subst him
        rw [if_pos rfl]
        exact ihc (P i) (fun i' hi' => by have := hdis i i' (by omega) (by omega) (by omega); omega)
      · have := hdis i m (by omega) (by omega) him
        have h1 := (hP i (by omega)).1
        rw [if_neg (by omega), if_neg (by omega)]
        exact ihb i (by omega)
    · intro j hj
      rw [swapAt_getElem? _ _ _ hPm.1 (by rw [hlen]; exact hPm.2)]
      have := hj m (by omega)
      rw [if_neg this.2, if_neg this.1]
      exact ihc j (fun i hi => hj i (by omega))

theorem kronAxis_A1 (l r i : Nat) (hlr : l < r) (hi : i < l) :
    kronAxis l r (l + r - 2 * (i + 1)) = kronAxis l (r - 1) (l + r - 2 * (i + 1) - 1) := by
  simp only [kronAxis]
  repeat' split
  all_goals omega

theorem kronAxis_A2 (l r i : Nat) (hlr : l < r) (hi : i < l) :
    kronAxis l r (l + r - 2 * (i + 1) - 1) = kronAxis l (r - 1) (l + r - 2 * (i + 1)) := by
  simp only [kronAxis]
  repeat' split
  all_goals omega

theorem kronAxis_A3 (l r j : Nat) (hlr : l < r) (hj : j + 2 * l + 1 < l + r) :
    kronAxis l r j = kronAxis l (r - 1) j := by
  simp only [kronAxis]
  repeat' split
  all_goals omega

theorem kronAxis_A4 (l r : Nat) (hlr : l < r) : kronAxis l r (l + r - 1) = l + r - 1 := by
  simp only [kronAxis]
  repeat' split
  all_goals omega

theorem kronAxis_B1 (l r i : Nat) (hlr : r < l) (hi : i < r) :
    kronAxis l r (l + r - (2 * i + 1)) = kronAxis l (r + 1) (l + r - (2 * i + 1) - 1) := by
  simp only [kronAxis]
  repeat' split
  all_goals omega

theorem kronAxis_B2 (l r i : Nat) (hlr : r < l) (hi : i < r) :
    kronAxis l r (l + r - (2 * i + 1) - 1) = kronAxis l (r + 1) (l + r - (2 * i + 1)) := by
  simp only [kronAxis]
  repeat' split
  all_goals omega

theorem kronAxis_B3 (l r j : Nat) (hlr : r < l) (hj : j + 2 * r < l + r) :
    kronAxis l r j = kronAxis l (r + 1) j := by
  simp only [kronAxis]
  repeat' split
  all_goals omega

theorem kronAxis_E (l j : Nat) (hj : j < 2 * l) :
    kronAxis l l j = if j % 2 = 0 then j / 2 else j / 2 + l := by
  simp only [kronAxis]
  repeat' split
  all_goals omega

theorem kronDstTranspose_succ (fuel l r : Nat) :
    kronDstTranspose (fuel + 1) l r =
      if l = r then
        (List.range ((l + r) / 2)).foldl (fun acc i => acc.set (i * 2 + 1) (i + (l + r) / 2))
          ((List.range ((l + r) / 2)).foldl (fun acc i => acc.set (i * 2) i) (List.range (l + r)))
      else if l < r then
        (List.range l).foldl (fun a i => swapAt a (l + r - 2 * (i + 1)))
          ((List.range (l + r - 1)).foldl (fun acc i => acc.set i ((kronDstTranspose fuel l (r - 1)).getD i 0)) (List.range (l + r)))
      else
        (List.range r).foldl (fun a i => swapAt a (l + r - (2 * i + 1)))
          ((List.range (l + r)).foldl (fun acc i => acc.set i ((kronDstTranspose fuel l (r + 1)).getD i 0)) (List.range (l + r))) := by
  rfl

theorem kronDstTranspose_eq : ∀ (fuel l r : Nat), (if l ≤ r then r - l else l - r) < fuel →
    kronDstTranspose fuel l r = (List.range (l + r)).map (kronAxis l r) := by
  intro fuel
  induction fuel with
  | zero => intro l r h; omega
  | succ fuel ih =>
    intro l r hf
    rw [kronDstTranspose_succ]
    by_cases hlr : l = r
    · subst hlr
      rw [if_pos rfl]
      have hd : (l + l) / 2 = l := by omega
      rw [hd]
      apply List.ext_getElem?
      intro j
      by_cases hj : j < l + l
      · rw [List.getElem?_map, List.getElem?_range hj, Option.map_some, kronAxis_E l j (by omega)]
        by_cases hpar : j % 2 = 0
        · rw [if_pos hpar]
          rw [foldl_set_getElem?_miss l (fun i => i * 2 + 1) (fun i => i + l) _ j (fun i _ => by omega)]
          have hj2 : j = (j / 2) * 2 := by omega
          have := foldl_set_getElem?_hit l (fun i => i * 2) (fun i => i) (List.range (l + l))
            (fun a b _ _ h => by omega) (j / 2) (by omega) (by simp; omega)
          rw [← hj2] at this
          exact this
        · rw [if_neg hpar]
          have hj2 : j = (j / 2) * 2 + 1 := by omega
          have := foldl_set_getElem?_hit l (fun i => i * 2 + 1) (fun i => i + l)
            ((List.range l).foldl (fun acc i => acc.set (i * 2) i) (List.range (l + l)))
            (fun a b _ _ h => by omega) (j / 2) (by omega) (by rw [foldl_set_length]; simp; omega)
          rw [← hj2] at this
          exact this
      · rw [List.getElem?_eq_none (by rw [foldl_set_length, foldl_set_length]; simp; omega),
            List.getElem?_eq_none (by simp; omega)]
    · rw [if_neg hlr]
      by_cases hlt : l < r
      · rw [if_pos hlt]
        have hia := ih l (r - 1) (by split at hf <;> split <;> omega)
        rw [hia]
        have hlen1 : ((List.range (l + r - 1)).foldl (fun acc i => acc.set i
            (((List.range (l + (r - 1))).map (kronAxis l (r - 1))).getD i 0)) (List.range (l + r))).length = l + r := by
          rw [foldl_set_length]; simp
        -- the list after the copy loop, pointwise
        have hr1 : ∀ j, j < l + r → ((List.range (l + r - 1)).foldl (fun acc i => acc.set i
            (((List.range (l + (r - 1))).map (kronAxis l (r - 1))).getD i 0)) (List.range (l + r)))[j]? =
            some (if j < l + r - 1 then kronAxis l (r - 1) j else j) := by
          intro j hj
          by_cases hj1 : j < l + r - 1
          · rw [if_pos hj1]
            have := foldl_set_getElem?_hit (l + r - 1) (fun i => i)
              (fun i => ((List.range (l + (r - 1))).map (kronAxis l (r - 1))).getD i 0) (List.range (l + r))
              (fun a b _ _ h => h) j hj1 (by simp; omega)
            rw [this]
            simp [List.getD_eq_getElem?_getD, List.getElem?_range (show j < l + (r - 1) by omega)]
          · rw [if_neg hj1]
            rw [foldl_set_getElem?_miss (l + r - 1) (fun i => i) _ _ j (fun i hi => by omega)]
            simp [hj]
        obtain ⟨hsl, hsa, hsb, hsc⟩ := foldl_swap (fun i => l + r - 2 * (i + 1))
          ((List.range (l + r - 1)).foldl (fun acc i => acc.set i
            (((List.range (l + (r - 1))).map (kronAxis l (r - 1))).getD i 0)) (List.range (l + r))) l
          (fun i hi => by rw [hlen1]; omega) (fun i i' hi hi' hne => by omega)
        apply List.ext_getElem?
        intro j
        by_cases hj : j < l + r
        · rw [List.getElem?_map, List.getElem?_range hj, Option.map_some]
          by_cases hlast : j = l + r - 1
          · rw [hsc j (fun i hi => by omega), hr1 j hj, if_neg (by omega), hlast, kronAxis_A4 l r hlt]
          · by_cases hlead : j + 2 * l + 1 < l + r
            · rw [hsc j (fun i hi => by omega), hr1 j hj, if_pos (by omega), kronAxis_A3 l r j hlt hlead]
            · -- j is one of the swapped positions
              by_cases hpar : (l + r - 1 - j) % 2 = 1
              · -- j = P i with i = (l + r - 1 - j) / 2
                have hji : j = l + r - 2 * ((l + r - 1 - j) / 2 + 1) := by omega
                have hi : (l + r - 1 - j) / 2 < l := by omega
                have h1 := hsa ((l + r - 1 - j) / 2) hi
                rw [← hji] at h1
                rw [h1, hr1 (j - 1) (by omega), if_pos (by omega)]
                have := kronAxis_A1 l r ((l + r - 1 - j) / 2) hlt hi
                rw [← hji] at this
                rw [this]
              · have hji : j = l + r - 2 * ((l + r - 1 - j) / 2 - 1 + 1) - 1 := by omega
                have hi : (l + r - 1 - j) / 2 - 1 < l := by omega
                have h1 := hsb ((l + r - 1 - j) / 2 - 1) hi
                rw [← hji] at h1
                have hj1 : l + r - 2 * ((l + r - 1 - j) / 2 - 1 + 1) = j + 1 := by omega
                rw [hj1] at h1
                rw [h1, hr1 (j + 1) (by omega), if_pos (by omega)]
                have := kronAxis_A2 l r ((l + r - 1 - j) / 2 - 1) hlt hi
                rw [← hji, hj1] at this
                rw [this]
        · rw [List.getElem?_eq_none (by rw [hsl, hlen1]; omega), List.getElem?_eq_none (by simp; omega)]
      · rw [if_neg hlt]
        have hgt : r < l := by omega
        have hia := ih l (r + 1) (by split at hf <;> split <;> omega)
        rw [hia]
        have hlen1 : ((List.range (l + r)).foldl (fun acc i => acc.set i
            (((List.range (l + (r + 1))).map (kronAxis l (r + 1))).getD i 0)) (List.range (l + r))).length = l + r := by
          rw [foldl_set_length]; simp
        have hr1 : ∀ j, j < l + r → ((List.range (l + r)).foldl (fun acc i => acc.set i
            (((List.range (l + (r + 1))).map (kronAxis l (r + 1))).getD i 0)) (List.range (l + r)))[j]? =
            some (kronAxis l (r + 1) j) := by
          intro j hj
          have := foldl_set_getElem?_hit (l + r) (fun i => i)
            (fun i => ((List.range (l + (r + 1))).map (kronAxis l (r + 1))).getD i 0) (List.range (l + r))
            (fun a b _ _ h => h) j hj (by simp; omega)
          rw [this]
          simp [List.getD_eq_getElem?_getD, List.getElem?_range (show j < l + (r + 1) by omega)]
        obtain ⟨hsl, hsa, hsb, hsc⟩ := foldl_swap (fun i => l + r - (2 * i + 1))
          ((List.range (l + r)).foldl (fun acc i => acc.set i
            (((List.range (l + (r + 1))).map (kronAxis l (r + 1))).getD i 0)) (List.range (l + r))) r
          (fun i hi => by rw [hlen1]; omega) (fun i i' hi hi' hne => by omega)
        apply List.ext_getElem?
        intro j
        by_cases hj : j < l + r
        · rw [List.getElem?_map, List.getElem?_range hj, Option.map_some]
          by_cases hlead : j + 2 * r < l + r
          · rw [hsc j (fun i hi => by omega), hr1 j hj, kronAxis_B3 l r j hgt hlead]
          · by_cases hpar : (l + r - 1 - j) % 2 = 0
            · have hji : j = l + r - (2 * ((l + r - 1 - j) / 2) + 1) := by omega
              have hi : (l + r - 1 - j) / 2 < r := by omega
              have h1 := hsa ((l + r - 1 - j) / 2) hi
              rw [← hji] at h1
              rw [h1, hr1 (j - 1) (by omega)]
              have := kronAxis_B1 l r ((l + r - 1 - j) / 2) hgt hi
              rw [← hji] at this
              rw [this]
            · have hji : j = l + r - (2 * ((l + r - 1 - j) / 2) + 1) - 1 := by omega
              have hi : (l + r - 1 - j) / 2 < r := by omega
              have h1 := hsb ((l + r - 1 - j) / 2) hi
              rw [← hji] at h1
              have hj1 : l + r - (2 * ((l + r - 1 - j) / 2) + 1) = j + 1 := by omega
              rw [hj1] at h1
              rw [h1, hr1 (j + 1) (by omega)]
              have := kronAxis_B2 l r ((l + r - 1 - j) / 2) hgt hi
              rw [← hji, hj1] at this
              rw [this]
        · rw [List.getElem?_eq_none (by rw [hsl, hlen1]; omega), List.getElem?_eq_none (by simp; omega)]

/-- interleave two lists: `[x0, y0, x1, y1, …]` -/
def inter : List Nat → List Nat → List Nat
  | x :: xs, y :: ys => x :: y :: inter xs ys
  | _, _ => []

theorem inter_length (xs ys : List Nat) (h : xs.length = ys.length) : (inter xs ys).length = 2 * xs.length := by
  induction xs generalizing ys with
  | nil => cases ys <;> simp_all [inter]
  | cons x xs ih =>
    cases ys with
    | nil => simp at h
    | cons y ys => simp [inter, ih ys (by simpa using h)]; omega

theorem inter_getElem?_even (xs ys : List Nat) (h : xs.length = ys.length) (k : Nat) :
    (inter xs ys)[2 * k]? = xs[k]? := by
  induction xs generalizing ys k with
  | nil => cases ys <;> simp_all [inter]
  | cons x xs ih =>
    cases ys with
    | nil => simp at h
    | cons y ys =>
      cases k with
      | zero => simp [inter]
      | succ k =>
        have : 2 * (k + 1) = 2 * k + 1 + 1 := by omega
        simp only [inter, this, List.getElem?_cons_succ]
        exact ih ys (by simpa using h) k

theorem inter_getElem?_odd (xs ys : List Nat) (h : xs.length = ys.length) (k : Nat) :
    (inter xs ys)[2 * k + 1]? = ys[k]? := by
  induction xs generalizing ys k with
  | nil => cases ys <;> simp_all [inter]
  | cons x xs ih =>
    cases ys with
    | nil => simp at h
    | cons y ys =>
      cases k with
      | zero => simp [inter]
      | succ k =>
        have : 2 * (k + 1) + 1 = 2 * k + 1 + 1 + 1 := by omega
        simp only [inter, this, List.getElem?_cons_succ]
        exact ih ys (by simpa using h) k

theorem prod_inter (xs ys : List Nat) (h : xs.length = ys.length) : prod (inter xs ys) = prod xs * prod ys := by
  induction xs generalizing ys with
  | nil => cases ys <;> simp_all [inter, prod]
  | cons x xs ih =>
    cases ys with
    | nil => simp at h
    | cons y ys =>
      simp only [inter, prod, ih ys (by simpa using h)]
      rw [Nat.mul_assoc]; congr 1
      rw [← Nat.mul_assoc, ← Nat.mul_assoc, Nat.mul_comm y (prod xs)]

theorem prod_zipWith_mul (xs ys : List Nat) (h : xs.length = ys.length) :
    prod (List.zipWith (· * ·) xs ys) = prod xs * prod ys := by
  induction xs generalizing ys with
  | nil => cases ys <;> simp_all [prod]
  | cons x xs ih =>
    cases ys with
    | nil => simp at h
    | cons y ys =>
      simp only [List.zipWith_cons_cons, prod, ih ys (by simpa using h)]
      rw [Nat.mul_assoc, Nat.mul_assoc]; congr 1
      rw [← Nat.mul_assoc, ← Nat.mul_assoc, Nat.mul_comm y (prod xs)]

/-- splitting each merged coordinate `y_t < p1_t · p2_t` into `(y_t / p2_t, y_t % p2_t)` stays in the interleaved shape
    and addresses the same flat position -/
theorem pair_split (P1 P2 : List Nat) (h : P1.length = P2.length) (hp2 : Pos P2) :
    ∀ yr, InShape yr (List.zipWith (· * ·) P1 P2) →
      InShape (inter (List.zipWith (· / ·) yr P2) (List.zipWith (· % ·) yr P2)) (inter P1 P2) ∧
      computeOffset (inter (List.zipWith (· / ·) yr P2) (List.zipWith (· % ·) yr P2)) (strides (inter P1 P2)) =
        computeOffset yr (strides (List.zipWith (· * ·) P1 P2)) := by
  induction P1 generalizing P2 with
  | nil =>
    intro yr hy
    cases P2 with
    | nil => cases yr <;> simp_all [InShape, inter, computeOffset]
    | cons _ _ => simp at h
  | cons a P1 ih =>
    cases P2 with
    | nil => simp at h
    | cons b P2 =>
      intro yr hy
      cases yr with
      | nil => simp [InShape] at hy
      | cons y yr =>
        simp only [List.zipWith_cons_cons, InShape] at hy
        have hb : 0 < b := hp2 b (by simp)
        obtain ⟨ih1, ih2⟩ := ih P2 (by simpa using h) (fun x hx => hp2 x (by simp [hx])) yr hy.2
        simp only [List.zipWith_cons_cons, inter, InShape, strides, computeOffset, prod]
        refine ⟨⟨?_, Nat.mod_lt _ hb, ih1⟩, ?_⟩
        · rw [Nat.div_lt_iff_lt_mul hb]; exact hy.1
        · rw [ih2, prod_inter P1 P2 (by simpa using h), prod_zipWith_mul P1 P2 (by simpa using h)]
          have hdm := Nat.div_add_mod y b
          calc b * (prod P1 * prod P2) * (y / b) + (prod P1 * prod P2 * (y % b) + computeOffset yr (strides (List.zipWith (· * ·) P1 P2)))
              = prod P1 * prod P2 * (b * (y / b) + y % b) + computeOffset yr (strides (List.zipWith (· * ·) P1 P2)) := by
                rw [Nat.mul_add, Nat.mul_comm b (prod P1 * prod P2), Nat.mul_assoc]; omega
            _ = prod P1 * prod P2 * y + computeOffset yr (strides (List.zipWith (· * ·) P1 P2)) := by rw [hdm]

/-- the last step of `kron`: `reshape` that merges each interleaved pair of axes -/
theorem kron_tail {α : Type} (d : Arr α) (Ld P1 P2 : List Nat) (h : P1.length = P2.length) (hp2 : Pos P2)
    (hd : d.shape = Ld ++ inter P1 P2) :
    ∃ e, reshape d (Ld ++ List.zipWith (· * ·) P1 P2) = some e ∧ e.shape = Ld ++ List.zipWith (· * ·) P1 P2 ∧
      ∀ yl yr, InShape yl Ld → InShape yr (List.zipWith (· * ·) P1 P2) →
        e.get (yl ++ yr) = d.get (yl ++ inter (List.zipWith (· / ·) yr P2) (List.zipWith (· % ·) yr P2)) := by
  have hp : prod d.shape = prod (Ld ++ List.zipWith (· * ·) P1 P2) := by
    rw [hd, prod_append, prod_append, prod_inter P1 P2 h, prod_zipWith_mul P1 P2 h]
  rw [reshape_some _ _ hp]
  refine ⟨_, rfl, rfl, ?_⟩
  intro yl yr hyl hyr
  simp only
  congr 1
  rw [hd]
  obtain ⟨hin, hoff⟩ := pair_split P1 P2 h hp2 yr hyr
  apply ndindex_of_offset_eq ((inShape_append hyl.length_eq).2 ⟨hyl, hin⟩)
  rw [offset_append _ _ _ _ hyl.length_eq, offset_append _ _ _ _ hyl.length_eq, hoff,
    prod_inter P1 P2 h, prod_zipWith_mul P1 P2 h]

/-- the first steps of `kron` (`reshape`, `tile`, `multiply`): the array of all pairs -/
theorem kron_head (sa sb : Shape) :
    ∃ a c, reshape (ident sa) (sa ++ List.replicate sb.length 1) = some a ∧
      mulT (tile a sb) (ident sb) = some c ∧ c.shape = sa ++ sb ∧
      ∀ i j, InShape i sa → InShape j sb → c.get (i ++ j) = (i, j) := by
  obtain ⟨a, ha, hash, haget⟩ := reshape_insert_ones (ident sa) sa [] sb.length (by simp [ident])
  simp only [List.append_nil] at ha hash haget
  have hts : shapeTile (sa ++ List.replicate sb.length 1) sb = sa ++ sb := by
    have h1 : max (sa ++ List.replicate sb.length 1).length sb.length = sa.length + sb.length := by simp
    have h2 : sa.length + sb.length - (sa ++ List.replicate sb.length 1).length = 0 := by simp
    have h3 : sa.length + sb.length - sb.length = sa.length := by omega
    simp only [shapeTile, h1, h2, h3, List.replicate_zero, List.nil_append]
    rw [List.zipWith_append (by simp)]
    have e1 : List.zipWith (· * ·) sa (List.replicate sa.length 1) = sa := zipWith_mul_replicate_one sa
    have e2 : List.zipWith (· * ·) (List.replicate sb.length 1) sb = sb := by
      have : ∀ (s : List Nat), List.zipWith (· * ·) (List.replicate s.length 1) s = s := by
        intro s; induction s with
        | nil => rfl
        | cons x s ih => simp [List.replicate_succ, ih]
      exact this sb
    rw [e1, e2]
  have hbc : broadcastShape (sa ++ sb) sb = some (sa ++ sb) := by
    have := broadcastShape_append_same sa [] sb.length sb rfl
    simpa using this
  refine ⟨a, ?_⟩
  have htsh : (tile a sb).shape = sa ++ sb := by simp only [tile, hash, hts]
  have hish : (ident sb).shape = sb := rfl
  simp only [mulT, bcast2, htsh, hish, hbc]
  refine ⟨_, ha, rfl, rfl, ?_⟩
  · intro i j hi hj
    simp only [id]
    have hij : InShape (i ++ j) (sa ++ sb) := (inShape_append hi.length_eq).2 ⟨hi, hj⟩
    rw [bcIdx_self hij, bcIdx_drop_prefix i j sb hj.length_eq, bcIdx_self hj]
    congr 1
    simp only [tile, hash]
    rw [tileIdx_append (β := i) (τ := j) (s := sa) (t := List.replicate sb.length 1) (by simp [hj.length_eq]) (by rw [hi.length_eq]; exact Nat.le_refl _)]
    rw [tileIdx_self hi]
    have hz : tileIdx j (List.replicate sb.length 1) = List.replicate sb.length 0 := by
      unfold tileIdx
      rw [← hj.length_eq]
      simp only [List.length_replicate, Nat.sub_self, List.drop_zero]
      clear hij hj
      induction j with
      | nil => rfl
      | cons x j ih => simp [List.replicate_succ, ih, Nat.mod_one]
    rw [hz]
    have := haget i [] hi (by simp [InShape])
    simp only [List.append_nil] at this
    rw [this]; rfl

theorem kronAxis_KA1 (l r t : Nat) (h : l ≤ r) (ht : t < r - l) : kronAxis l r t = l + t := by
  simp only [kronAxis]; repeat' split
  all_goals omega
theorem kronAxis_KA2 (l r k : Nat) (h : l ≤ r) : kronAxis l r (r - l + 2 * k) = k := by
  simp only [kronAxis]; repeat' split
  all_goals omega
theorem kronAxis_KA3 (l r k : Nat) (h : l ≤ r) : kronAxis l r (r - l + 2 * k + 1) = r + k := by
  simp only [kronAxis]; repeat' split
  all_goals omega
theorem kronAxis_KB1 (l r t : Nat) (h : r < l) (ht : t < l - r) : kronAxis l r t = t := by
  simp only [kronAxis]; repeat' split
  all_goals omega
theorem kronAxis_KB2 (l r k : Nat) (h : r < l) : kronAxis l r (l - r + 2 * k) = l - r + k := by
  simp only [kronAxis]; repeat' split
  all_goals omega
theorem kronAxis_KB3 (l r k : Nat) (h : r < l) : kronAxis l r (l - r + 2 * k + 1) = l + k := by
  simp only [kronAxis]; repeat' split
  all_goals omega

theorem kronAxis_lt (l r t : Nat) (ht : t < l + r) : kronAxis l r t < l + r := by
  simp only [kronAxis]; repeat' split
  all_goals omega

theorem kronAxis_inj (l r t t' : Nat) (ht : t < l + r) (ht' : t' < l + r) (h : kronAxis l r t = kronAxis l r t') : t = t' := by
  simp only [kronAxis] at h
  repeat' split at h
  all_goals omega

theorem kronAxes_nodup (l r : Nat) : ((List.range (l + r)).map (kronAxis l r)).Nodup := by
  rw [List.nodup_iff_pairwise_ne, List.pairwise_map]
  refine List.Pairwise.imp_of_mem ?_ (List.nodup_range (n := l + r))
  intro a b ha hb hne hab
  exact hne (kronAxis_inj l r a b (List.mem_range.1 ha) (List.mem_range.1 hb) hab)

/-- transposed shape, lhs rank ≤ rhs rank: leading rhs extents, then the pairs -/
theorem kron_tshape_le (sa Lb Rb : List Nat) (h : sa.length = Rb.length) :
    ((List.range (sa.length + (Lb ++ Rb).length)).map (kronAxis sa.length (Lb ++ Rb).length)).mapM
      (fun k => (sa ++ (Lb ++ Rb))[k]?) = some (Lb ++ inter sa Rb) := by
  have hr : (Lb ++ Rb).length = Lb.length + sa.length := by simp [h]
  have hle : sa.length ≤ (Lb ++ Rb).length := by omega
  have he : (Lb ++ Rb).length - sa.length = Lb.length := by omega
  rw [List.mapM_map]
  rw [mapM_range_some _ _ (fun t => (Lb ++ inter sa Rb).getD t 0)]
  · congr 1
    apply List.ext_getElem
    · simp [inter_length sa Rb h]; omega
    · intro i h1 h2
      simp at h1
      have : i < (Lb ++ inter sa Rb).length := by simp [inter_length sa Rb h]; omega
      simp [List.getD_eq_getElem?_getD, List.getElem?_eq_getElem this]
  · intro t ht
    simp only [Function.comp]
    have hlen : (Lb ++ inter sa Rb).length = Lb.length + 2 * sa.length := by simp [inter_length sa Rb h]
    have htl : t < (Lb ++ inter sa Rb).length := by omega
    rw [List.getD_eq_getElem?_getD, List.getElem?_eq_getElem htl, Option.getD_some]
    by_cases hlead : t < Lb.length
    · rw [kronAxis_KA1 _ _ t hle (by omega)]
      rw [List.getElem?_append_right (by omega), Nat.add_sub_cancel_left, List.getElem?_append_left hlead]
      rw [List.getElem_append_left hlead]
      exact List.getElem?_eq_getElem hlead
    · have hrest : (Lb ++ inter sa Rb)[t] = (inter sa Rb)[t - Lb.length]'(by rw [inter_length sa Rb h]; omega) := by
        rw [List.getElem_append_right (by omega)]
      rw [hrest]
      by_cases hpar : (t - Lb.length) % 2 = 0
      · have ht2 : t = (Lb ++ Rb).length - sa.length + 2 * ((t - Lb.length) / 2) := by omega
        have hk : (t - Lb.length) / 2 < sa.length := by omega
        have e1 := kronAxis_KA2 sa.length (Lb ++ Rb).length ((t - Lb.length) / 2) hle
        rw [← ht2] at e1
        rw [e1, List.getElem?_append_left hk]
        have e2 := inter_getElem?_even sa Rb h ((t - Lb.length) / 2)
        have ht3 : 2 * ((t - Lb.length) / 2) = t - Lb.length := by omega
        rw [ht3, List.getElem?_eq_getElem (by rw [inter_length sa Rb h]; omega)] at e2
        rw [← e2]
      · have ht2 : t = (Lb ++ Rb).length - sa.length + 2 * ((t - Lb.length) / 2) + 1 := by omega
        have hk : (t - Lb.length) / 2 < sa.length := by omega
        have e1 := kronAxis_KA3 sa.length (Lb ++ Rb).length ((t - Lb.length) / 2) hle
        rw [← ht2] at e1
        rw [e1, List.getElem?_append_right (by omega)]
        have e3 : (Lb ++ Rb).length + (t - Lb.length) / 2 - sa.length = Lb.length + (t - Lb.length) / 2 := by omega
        rw [e3, List.getElem?_append_right (by omega), Nat.add_sub_cancel_left]
        have e2 := inter_getElem?_odd sa Rb h ((t - Lb.length) / 2)
        have ht3 : 2 * ((t - Lb.length) / 2) + 1 = t - Lb.length := by omega
        rw [ht3, List.getElem?_eq_getElem (by rw [inter_length sa Rb h]; omega)] at e2
        rw [← e2]

theorem mem_zip_of_getElem? {d σ : List Nat} {t x k : Nat} (h1 : d[t]? = some x) (h2 : σ[t]? = some k) : (x, k) ∈ d.zip σ := by
  rw [List.mem_iff_getElem?]
  exact ⟨t, by rw [List.getElem?_zip_eq_some]; exact ⟨h1, h2⟩⟩

/-- un-transposing, lhs rank ≤ rhs rank: the even pair members are the lhs index, the lead block and the odd members the rhs index -/
theorem kron_scatter_le (l : Nat) (yl u v : List Nat) (hu : u.length = l) (hv : v.length = l) :
    scatter (yl ++ inter u v) ((List.range (l + (yl.length + l))).map (kronAxis l (yl.length + l))) = u ++ (yl ++ v) := by
  have hle : l ≤ yl.length + l := by omega
  have he : yl.length + l - l = yl.length := by omega
  have hil : (inter u v).length = 2 * l := by rw [inter_length u v (by omega), hu]
  have hnd := kronAxes_nodup l (yl.length + l)
  have haxes : ∀ t, t < l + (yl.length + l) →
      ((List.range (l + (yl.length + l))).map (kronAxis l (yl.length + l)))[t]? = some (kronAxis l (yl.length + l) t) := by
    intro t ht; rw [List.getElem?_map, List.getElem?_range ht]; rfl
  apply List.ext_getElem?
  intro k
  by_cases hk : k < l + (yl.length + l)
  · by_cases hk1 : k < l
    · -- lhs coordinate k sits at position e + 2k
      have hd : (yl ++ inter u v)[yl.length + 2 * k]? = some (u[k]'(by omega)) := by
        rw [List.getElem?_append_right (by omega), Nat.add_sub_cancel_left, inter_getElem?_even u v (by omega)]
        exact List.getElem?_eq_getElem (by omega)
      have ha := haxes (yl.length + 2 * k) (by omega)
      have e1 := kronAxis_KA2 l (yl.length + l) k hle
      rw [he] at e1
      rw [e1] at ha
      rw [scatter_getElem?_mem _ _ hnd _ k (mem_zip_of_getElem? hd ha) (by simp [hil]; omega)]
      rw [List.getElem?_append_left (by omega)]
      exact (List.getElem?_eq_getElem (by omega)).symm
    · by_cases hk2 : k < l + yl.length
      · have hd : (yl ++ inter u v)[k - l]? = some (yl[k - l]'(by omega)) := by
          rw [List.getElem?_append_left (by omega)]
          exact List.getElem?_eq_getElem (by omega)
        have ha := haxes (k - l) (by omega)
        rw [kronAxis_KA1 l (yl.length + l) (k - l) hle (by omega), show l + (k - l) = k by omega] at ha
        rw [scatter_getElem?_mem _ _ hnd _ k (mem_zip_of_getElem? hd ha) (by simp [hil]; omega)]
        rw [List.getElem?_append_right (by omega), hu, List.getElem?_append_left (by omega)]
        exact (List.getElem?_eq_getElem (by omega)).symm
      · have hkk : k - (yl.length + l) < l := by omega
        have hd : (yl ++ inter u v)[yl.length + 2 * (k - (yl.length + l)) + 1]? = some (v[k - (yl.length + l)]'(by omega)) := by
          rw [List.getElem?_append_right (by omega)]
          have : yl.length + 2 * (k - (yl.length + l)) + 1 - yl.length = 2 * (k - (yl.length + l)) + 1 := by omega
          rw [this, inter_getElem?_odd u v (by omega)]
          exact List.getElem?_eq_getElem (by omega)
        have ha := haxes (yl.length + 2 * (k - (yl.length + l)) + 1) (by omega)
        have e1 := kronAxis_KA3 l (yl.length + l) (k - (yl.length + l)) hle
        rw [he] at e1
        rw [e1, show yl.length + l + (k - (yl.length + l)) = k by omega] at ha
        rw [scatter_getElem?_mem _ _ hnd _ k (mem_zip_of_getElem? hd ha) (by simp [hil]; omega)]
        rw [List.getElem?_append_right (by omega), hu, List.getElem?_append_right (by omega)]
        have : k - l - yl.length = k - (yl.length + l) := by omega
        rw [this]
        exact (List.getElem?_eq_getElem (by omega)).symm
  · rw [List.getElem?_eq_none (by rw [la_scatter_length]; simp [hil]; omega),
        List.getElem?_eq_none (by simp [hu, hv]; omega)]

theorem zipWith_mul_ones_left (s : List Nat) : List.zipWith (· * ·) (List.replicate s.length 1) s = s := by
  induction s with
  | nil => rfl
  | cons x s ih => simp [List.replicate_succ, ih]

theorem div_mod_inShape (P1 P2 : List Nat) (h : P1.length = P2.length) (hp2 : Pos P2) :
    ∀ yr, InShape yr (List.zipWith (· * ·) P1 P2) →
      InShape (List.zipWith (· / ·) yr P2) P1 ∧ InShape (List.zipWith (· % ·) yr P2) P2 := by
  induction P1 generalizing P2 with
  | nil =>
    intro yr hy
    cases P2 with
    | nil => cases yr <;> simp_all [InShape]
    | cons _ _ => simp at h
  | cons a P1 ih =>
    cases P2 with
    | nil => simp at h
    | cons b P2 =>
      intro yr hy
      cases yr with
      | nil => simp [InShape] at hy
      | cons y yr =>
        simp only [List.zipWith_cons_cons, InShape] at hy ⊢
        have hb : 0 < b := hp2 b (by simp)
        obtain ⟨i1, i2⟩ := ih P2 (by simpa using h) (fun x hx => hp2 x (by simp [hx])) yr hy.2
        exact ⟨⟨by rw [Nat.div_lt_iff_lt_mul hb]; exact hy.1, i1⟩, ⟨Nat.mod_lt _ hb, i2⟩⟩

theorem kronDstReshape_le (sa Lb Rb : List Nat) (h : sa.length = Rb.length) :
    kronDstReshape sa (Lb ++ Rb) = Lb ++ List.zipWith (· * ·) sa Rb := by
  have h1 : max sa.length (Lb ++ Rb).length = Lb.length + sa.length := by simp [h]
  have h2 : Lb.length + sa.length - sa.length = Lb.length := by omega
  have h3 : Lb.length + sa.length - (Lb ++ Rb).length = 0 := by simp [h]
  simp only [kronDstReshape, h1, h2, h3, List.replicate_zero, List.nil_append]
  rw [List.zipWith_append (by simp), zipWith_mul_ones_left]

/-- `kron`, lhs rank ≤ rhs rank -/
theorem kron_elem_le (sa Lb Rb : Shape) (h : sa.length = Rb.length) (hpb : Pos Rb) :
    ∃ e, kron sa (Lb ++ Rb) = some e ∧ e.shape = Lb ++ List.zipWith (· * ·) sa Rb ∧
      ∀ yl yr, InShape yl Lb → InShape yr (List.zipWith (· * ·) sa Rb) →
        e.get (yl ++ yr) = (List.zipWith (· / ·) yr Rb, yl ++ List.zipWith (· % ·) yr Rb) := by
  obtain ⟨a, c, ha, hc, hcsh, hcget⟩ := kron_head sa (Lb ++ Rb)
  have hax : kronDstTranspose (sa.length + (Lb ++ Rb).length + 1) sa.length (Lb ++ Rb).length =
      (List.range (sa.length + (Lb ++ Rb).length)).map (kronAxis sa.length (Lb ++ Rb).length) :=
    kronDstTranspose_eq _ _ _ (by split <;> omega)
  have htr : transpose c ((List.range (sa.length + (Lb ++ Rb).length)).map (kronAxis sa.length (Lb ++ Rb).length)) =
      some ⟨Lb ++ inter sa Rb, fun x => c.get (scatter x ((List.range (sa.length + (Lb ++ Rb).length)).map (kronAxis sa.length (Lb ++ Rb).length)))⟩ := by
    unfold transpose
    rw [hcsh, kron_tshape_le sa Lb Rb h]
  obtain ⟨e, he, hesh, heget⟩ := kron_tail (α := Term)
    ⟨Lb ++ inter sa Rb, fun x => c.get (scatter x ((List.range (sa.length + (Lb ++ Rb).length)).map (kronAxis sa.length (Lb ++ Rb).length)))⟩
    Lb sa Rb h hpb rfl
  refine ⟨e, ?_, hesh, ?_⟩
  · unfold kron
    simp only [Option.bind_eq_bind]
    rw [ha]; simp only [Option.bind_some]
    rw [hc]; simp only [Option.bind_some]
    rw [hax, htr]; simp only [Option.bind_some]
    rw [kronDstReshape_le sa Lb Rb h, he]
  · intro yl yr hyl hyr
    rw [heget yl yr hyl hyr]
    simp only
    obtain ⟨hd1, hd2⟩ := div_mod_inShape sa Rb h hpb yr hyr
    have hlen : (Lb ++ Rb).length = yl.length + sa.length := by simp [hyl.length_eq, h]
    rw [hlen, kron_scatter_le sa.length yl _ _ hd1.length_eq (by rw [hd2.length_eq, h])]
    rw [hcget _ _ hd1 ((inShape_append hyl.length_eq).2 ⟨hyl, hd2⟩)]

/-- transposed shape, lhs rank > rhs rank: leading lhs extents, then the pairs -/
theorem kron_tshape_gt (La Ra sb : List Nat) (h : Ra.length = sb.length) (hpos : 0 < La.length) :
    ((List.range ((La ++ Ra).length + sb.length)).map (kronAxis (La ++ Ra).length sb.length)).mapM
      (fun k => ((La ++ Ra) ++ sb)[k]?) = some (La ++ inter Ra sb) := by
  have hl : (La ++ Ra).length = La.length + sb.length := by simp [h]
  have hgt : sb.length < (La ++ Ra).length := by omega
  have he : (La ++ Ra).length - sb.length = La.length := by omega
  rw [List.mapM_map]
  rw [mapM_range_some _ _ (fun t => (La ++ inter Ra sb).getD t 0)]
  · congr 1
    apply List.ext_getElem
    · simp [inter_length Ra sb h]; omega
    · intro i h1 h2
      simp at h1
      have : i < (La ++ inter Ra sb).length := by simp [inter_length Ra sb h]; omega
      simp [List.getD_eq_getElem?_getD, List.getElem?_eq_getElem this]
  · intro t ht
    simp only [Function.comp]
    have hlen : (La ++ inter Ra sb).length = La.length + 2 * sb.length := by simp [inter_length Ra sb h]; omega
    have htl : t < (La ++ inter Ra sb).length := by omega
    rw [List.getD_eq_getElem?_getD, List.getElem?_eq_getElem htl, Option.getD_some]
    by_cases hlead : t < La.length
    · rw [kronAxis_KB1 _ _ t hgt (by omega)]
      rw [List.getElem?_append_left (by simp; omega), List.getElem?_append_left hlead]
      rw [List.getElem_append_left hlead]
      exact List.getElem?_eq_getElem hlead
    · have hrest : (La ++ inter Ra sb)[t] = (inter Ra sb)[t - La.length]'(by rw [inter_length Ra sb h]; omega) := by
        rw [List.getElem_append_right (by omega)]
      rw [hrest]
      by_cases hpar : (t - La.length) % 2 = 0
      · have ht2 : t = (La ++ Ra).length - sb.length + 2 * ((t - La.length) / 2) := by omega
        have hk : (t - La.length) / 2 < Ra.length := by omega
        have e1 := kronAxis_KB2 (La ++ Ra).length sb.length ((t - La.length) / 2) hgt
        rw [← ht2] at e1
        rw [e1, he, List.getElem?_append_left (by simp; omega), List.getElem?_append_right (by omega), Nat.add_sub_cancel_left]
        have e2 := inter_getElem?_even Ra sb h ((t - La.length) / 2)
        have ht3 : 2 * ((t - La.length) / 2) = t - La.length := by omega
        rw [ht3, List.getElem?_eq_getElem (by rw [inter_length Ra sb h]; omega)] at e2
        rw [← e2]
      · have ht2 : t = (La ++ Ra).length - sb.length + 2 * ((t - La.length) / 2) + 1 := by omega
        have hk : (t - La.length) / 2 < sb.length := by omega
        have e1 := kronAxis_KB3 (La ++ Ra).length sb.length ((t - La.length) / 2) hgt
        rw [← ht2] at e1
        rw [e1, List.getElem?_append_right (by omega), Nat.add_sub_cancel_left]
        have e2 := inter_getElem?_odd Ra sb h ((t - La.length) / 2)
        have ht3 : 2 * ((t - La.length) / 2) + 1 = t - La.length := by omega
        rw [ht3, List.getElem?_eq_getElem (by rw [inter_length Ra sb h]; omega)] at e2
        rw [← e2]

/-- un-transposing, lhs rank > rhs rank -/
theorem kron_scatter_gt (r : Nat) (yl u v : List Nat) (hu : u.length = r) (hv : v.length = r) (hpos : 0 < yl.length) :
    scatter (yl ++ inter u v) ((List.range (yl.length + r + r)).map (kronAxis (yl.length + r) r)) = (yl ++ u) ++ v := by
  have hgt : r < yl.length + r := by omega
  have he : yl.length + r - r = yl.length := by omega
  have hil : (inter u v).length = 2 * r := by rw [inter_length u v (by omega), hu]
  have hnd := kronAxes_nodup (yl.length + r) r
  have haxes : ∀ t, t < yl.length + r + r →
      ((List.range (yl.length + r + r)).map (kronAxis (yl.length + r) r))[t]? = some (kronAxis (yl.length + r) r t) := by
    intro t ht; rw [List.getElem?_map, List.getElem?_range ht]; rfl
  apply List.ext_getElem?
  intro k
  by_cases hk : k < yl.length + r + r
  · by_cases hk1 : k < yl.length
    · have hd : (yl ++ inter u v)[k]? = some (yl[k]'hk1) := by
        rw [List.getElem?_append_left hk1]; exact List.getElem?_eq_getElem hk1
      have ha := haxes k hk
      rw [kronAxis_KB1 (yl.length + r) r k hgt (by omega)] at ha
      rw [scatter_getElem?_mem _ _ hnd _ k (mem_zip_of_getElem? hd ha) (by simp [hil]; omega)]
      rw [List.getElem?_append_left (by simp; omega), List.getElem?_append_left hk1]
      exact (List.getElem?_eq_getElem hk1).symm
    · by_cases hk2 : k < yl.length + r
      · have hkk : k - yl.length < r := by omega
        have hd : (yl ++ inter u v)[yl.length + 2 * (k - yl.length)]? = some (u[k - yl.length]'(by omega)) := by
          rw [List.getElem?_append_right (by omega), Nat.add_sub_cancel_left, inter_getElem?_even u v (by omega)]
          exact List.getElem?_eq_getElem (by omega)
        have ha := haxes (yl.length + 2 * (k - yl.length)) (by omega)
        have e1 := kronAxis_KB2 (yl.length + r) r (k - yl.length) hgt
        rw [he] at e1
        rw [e1, show yl.length + (k - yl.length) = k by omega] at ha
        rw [scatter_getElem?_mem _ _ hnd _ k (mem_zip_of_getElem? hd ha) (by simp [hil]; omega)]
        rw [List.getElem?_append_left (by simp; omega), List.getElem?_append_right (by omega)]
        exact (List.getElem?_eq_getElem (by omega)).symm
      · have hkk : k - (yl.length + r) < r := by omega
        have hd : (yl ++ inter u v)[yl.length + 2 * (k - (yl.length + r)) + 1]? = some (v[k - (yl.length + r)]'(by omega)) := by
          rw [List.getElem?_append_right (by omega)]
          have : yl.length + 2 * (k - (yl.length + r)) + 1 - yl.length = 2 * (k - (yl.length + r)) + 1 := by omega
          rw [this, inter_getElem?_odd u v (by omega)]
          exact List.getElem?_eq_getElem (by omega)
        have ha := haxes (yl.length + 2 * (k - (yl.length + r)) + 1) (by omega)
        have e1 := kronAxis_KB3 (yl.length + r) r (k - (yl.length + r)) hgt
        rw [he] at e1
        rw [e1, show yl.length + r + (k - (yl.length + r)) = k by omega] at ha
        rw [scatter_getElem?_mem _ _ hnd _ k (mem_zip_of_getElem? hd ha) (by simp [hil]; omega)]
        rw [List.getElem?_append_right (by simp; omega)]
        have : k - (yl ++ u).length = k - (yl.length + r) := by simp [hu]
        rw [this]
        exact (List.getElem?_eq_getElem (by omega)).symm
  · rw [List.getElem?_eq_none (by rw [la_scatter_length]; simp [hil]; omega),
        List.getElem?_eq_none (by simp [hu, hv]; omega)]

theorem kronDstReshape_gt (La Ra sb : List Nat) (h : Ra.length = sb.length) :
    kronDstReshape (La ++ Ra) sb = La ++ List.zipWith (· * ·) Ra sb := by
  have h1 : max (La ++ Ra).length sb.length = La.length + sb.length := by simp [h]
  have h2 : La.length + sb.length - (La ++ Ra).length = 0 := by simp [h]
  have h3 : La.length + sb.length - sb.length = La.length := by omega
  simp only [kronDstReshape, h1, h2, h3, List.replicate_zero, List.nil_append]
  rw [List.zipWith_append (by simp), zipWith_mul_replicate_one]

/-- `kron`, lhs rank > rhs rank -/
theorem kron_elem_gt (La Ra sb : Shape) (h : Ra.length = sb.length) (hpos : 0 < La.length) (hpb : Pos sb) :
    ∃ e, kron (La ++ Ra) sb = some e ∧ e.shape = La ++ List.zipWith (· * ·) Ra sb ∧
      ∀ yl yr, InShape yl La → InShape yr (List.zipWith (· * ·) Ra sb) →
        e.get (yl ++ yr) = (yl ++ List.zipWith (· / ·) yr sb, List.zipWith (· % ·) yr sb) := by
  obtain ⟨a, c, ha, hc, hcsh, hcget⟩ := kron_head (La ++ Ra) sb
  have hax : kronDstTranspose ((La ++ Ra).length + sb.length + 1) (La ++ Ra).length sb.length =
      (List.range ((La ++ Ra).length + sb.length)).map (kronAxis (La ++ Ra).length sb.length) :=
    kronDstTranspose_eq _ _ _ (by split <;> omega)
  have htr : transpose c ((List.range ((La ++ Ra).length + sb.length)).map (kronAxis (La ++ Ra).length sb.length)) =
      some ⟨La ++ inter Ra sb, fun x => c.get (scatter x ((List.range ((La ++ Ra).length + sb.length)).map (kronAxis (La ++ Ra).length sb.length)))⟩ := by
    unfold transpose
    rw [hcsh, kron_tshape_gt La Ra sb h hpos]
  obtain ⟨e, he, hesh, heget⟩ := kron_tail (α := Term)
    ⟨La ++ inter Ra sb, fun x => c.get (scatter x ((List.range ((La ++ Ra).length + sb.length)).map (kronAxis (La ++ Ra).length sb.length)))⟩
    La Ra sb h hpb rfl
  refine ⟨e, ?_, hesh, ?_⟩
  · unfold kron
    simp only [Option.bind_eq_bind]
    rw [ha]; simp only [Option.bind_some]
    rw [hc]; simp only [Option.bind_some]
    rw [hax, htr]; simp only [Option.bind_some]
    rw [kronDstReshape_gt La Ra sb h, he]
  · intro yl yr hyl hyr
    rw [heget yl yr hyl hyr]
    simp only
    obtain ⟨hd1, hd2⟩ := div_mod_inShape Ra sb h hpb yr hyr
    have hlen : (La ++ Ra).length = yl.length + sb.length := by simp [hyl.length_eq, h]
    rw [hlen, kron_scatter_gt sb.length yl _ _ (by rw [hd1.length_eq, h]) hd2.length_eq (by rw [hyl.length_eq]; exact hpos)]
    rw [hcget _ _ ((inShape_append hyl.length_eq).2 ⟨hyl, hd1⟩) hd2]

theorem specKron_le (sa Lb Rb yl yr : List Nat) (h : sa.length = Rb.length) (hyl : yl.length = Lb.length) :
    (specKron sa (Lb ++ Rb)).shape = Lb ++ List.zipWith (· * ·) sa Rb ∧
    (specKron sa (Lb ++ Rb)).get (yl ++ yr) =
      (List.zipWith (· / ·) yr Rb, List.zipWith (· % ·) yl Lb ++ List.zipWith (· % ·) yr Rb) := by
  have h1 : max sa.length (Lb ++ Rb).length = Lb.length + sa.length := by simp [h]
  have h2 : Lb.length + sa.length - sa.length = Lb.length := by omega
  have h3 : Lb.length + sa.length - (Lb ++ Rb).length = 0 := by simp [h]
  constructor
  · have := kronDstReshape_le sa Lb Rb h
    simpa [specKron, kronDstReshape] using this
  · simp only [specKron, h1, h2, h3, List.replicate_zero, List.nil_append, List.drop_zero]
    rw [List.zipWith_append (by rw [hyl]), List.zipWith_append (by rw [hyl])]
    rw [List.drop_left' (by simp [hyl])]

theorem specKron_gt (La Ra sb yl yr : List Nat) (h : Ra.length = sb.length) (hyl : yl.length = La.length) :
    (specKron (La ++ Ra) sb).shape = La ++ List.zipWith (· * ·) Ra sb ∧
    (specKron (La ++ Ra) sb).get (yl ++ yr) =
      (List.zipWith (· / ·) yl (List.replicate La.length 1) ++ List.zipWith (· / ·) yr sb, List.zipWith (· % ·) yr sb) := by
  have h1 : max (La ++ Ra).length sb.length = La.length + sb.length := by simp [h]
  have h2 : La.length + sb.length - (La ++ Ra).length = 0 := by simp [h]
  have h3 : La.length + sb.length - sb.length = La.length := by omega
  constructor
  · have := kronDstReshape_gt La Ra sb h
    simpa [specKron, kronDstReshape] using this
  · simp only [specKron, h1, h2, h3, List.replicate_zero, List.nil_append, List.drop_zero]
    rw [List.zipWith_append (by simp [hyl]), List.zipWith_append (by simp [hyl])]
    rw [List.drop_left' (by simp [hyl])]

theorem zipWith_div_ones (yl : List Nat) : List.zipWith (· / ·) yl (List.replicate yl.length 1) = yl := by
  induction yl with
  | nil => rfl
  | cons x yl ih => simp [List.replicate_succ, ih]

theorem zipWith_mod_self {yl L : List Nat} (h : InShape yl L) : List.zipWith (· % ·) yl L = yl := by
  have := tileIdx_self h
  simpa [tileIdx, h.length_eq] using this

/-- `view::kron` = `np.kron`, every pair of operand ranks and positive extents -/
theorem kron_eq_spec (sa sb : Shape) (hpb : Pos sb) :
    ∃ r, kron sa sb = some r ∧ r.shape = (specKron sa sb).shape ∧
      ∀ d, InShape d (specKron sa sb).shape → r.get d = (specKron sa sb).get d := by
  by_cases hle : sa.length ≤ sb.length
  · have hsb : sb = sb.take (sb.length - sa.length) ++ sb.drop (sb.length - sa.length) := (List.take_append_drop _ _).symm
    generalize hLb : sb.take (sb.length - sa.length) = Lb at hsb
    generalize hRb : sb.drop (sb.length - sa.length) = Rb at hsb
    have hRl : sa.length = Rb.length := by rw [← hRb]; simp; omega
    subst hsb
    have hpb' := Pos_append.1 hpb
    obtain ⟨e, he, hesh, heget⟩ := kron_elem_le sa Lb Rb hRl hpb'.2
    have hshape : (specKron sa (Lb ++ Rb)).shape = Lb ++ List.zipWith (· * ·) sa Rb := by
      have := kronDstReshape_le sa Lb Rb hRl
      simpa [specKron, kronDstReshape] using this
    refine ⟨e, he, by rw [hesh, hshape], ?_⟩
    intro d hd
    rw [hshape] at hd
    obtain ⟨yl, yr, rfl, hyl, hyr⟩ := mb_inShape_append_split hd
    rw [heget yl yr hyl hyr, (specKron_le sa Lb Rb yl yr hRl hyl.length_eq).2, zipWith_mod_self hyl]
  · have hgt : sb.length < sa.length := by omega
    have hsa : sa = sa.take (sa.length - sb.length) ++ sa.drop (sa.length - sb.length) := (List.take_append_drop _ _).symm
    generalize hLa : sa.take (sa.length - sb.length) = La at hsa
    generalize hRa : sa.drop (sa.length - sb.length) = Ra at hsa
    have hLl : La.length = sa.length - sb.length := by rw [← hLa]; simp
    have hRl : Ra.length = sb.length := by rw [← hRa]; simp; omega
    subst hsa
    obtain ⟨e, he, hesh, heget⟩ := kron_elem_gt La Ra sb hRl (by omega) hpb
    have hshape : (specKron (La ++ Ra) sb).shape = La ++ List.zipWith (· * ·) Ra sb := by
      have := kronDstReshape_gt La Ra sb hRl
      simpa [specKron, kronDstReshape] using this
    refine ⟨e, he, by rw [hesh, hshape], ?_⟩
    intro d hd
    rw [hshape] at hd
    obtain ⟨yl, yr, rfl, hyl, hyr⟩ := mb_inShape_append_split hd
    rw [heget yl yr hyl hyr, (specKron_gt La Ra sb yl yr hRl hyl.length_eq).2, ← hyl.length_eq, zipWith_div_ones]

end NmVerif
