import NmVerif.Lemmas.LinalgDot
import NmVerif.Props.C01
/-
  Lemmas for tensordot of C16.
-/
namespace NmVerif
open Linalg

theorem broadcastShape_append_same (x y : Shape) : ∀ (n : Nat) (C : Shape), C.length = n →
    broadcastShape (x ++ C) (y ++ C) = (broadcastShape x y).map (· ++ C) := by
  intro n
  induction n with
  | zero => intro C hC; have : C = [] := List.length_eq_zero_iff.1 hC; subst this; simp
  | succ n ih =>
    intro C hC
    obtain ⟨C', z, rfl⟩ := exists_append_one C (by omega)
    rw [← List.append_assoc, ← List.append_assoc, broadcastShape_append_one, bc1_self]
    simp only
    rw [ih C' (by simpa using hC)]
    cases broadcastShape x y <;> simp

theorem sumLast_get {α : Type} (m : Arr α) (S C : Shape) (h : m.shape = S ++ C) (d : Idx) :
    (sumLast C.length m).shape = S ∧ (sumLast C.length m).get d = (allIdx C).map (fun r => m.get (d ++ r)) := by
  simp [sumLast, h]

/-- `reshape` that inserts `o` unit axes between a prefix `P` and a suffix `C` -/
theorem reshape_insert_ones {α : Type} (a : Arr α) (P C : Shape) (o : Nat) (h : a.shape = P ++ C) :
    ∃ b, reshape a (P ++ List.replicate o 1 ++ C) = some b ∧ b.shape = P ++ List.replicate o 1 ++ C ∧
      ∀ p c, InShape p P → InShape c C → b.get (p ++ List.replicate o 0 ++ c) = a.get (p ++ c) := by
  have hp : prod a.shape = prod (P ++ List.replicate o 1 ++ C) := by simp [h, prod_append, prod_ones]
  rw [reshape_some _ _ hp]
  refine ⟨_, rfl, rfl, ?_⟩
  intro p c hp' hc
  simp only
  congr 1
  rw [h]
  apply ndindex_of_offset_eq ((inShape_append hp'.length_eq).2 ⟨hp', hc⟩)
  rw [offset_append _ _ _ _ hp'.length_eq]
  rw [List.append_assoc, List.append_assoc, offset_append _ _ _ _ hp'.length_eq]
  rw [offset_append _ _ _ _ (by simp), computeOffset_zeros]
  simp [prod_append, prod_ones]

/-- `sum(multiply(a, c), last |C| axes)` when both operands end in the same block of extents `C` -/
theorem contract_block (a c : Arr Idx) (X Y bs C : Shape) (ha : a.shape = X ++ C) (hc : c.shape = Y ++ C)
    (hbs : broadcastShape X Y = some bs) :
    ∃ r, (mulT a c).map (sumLast C.length) = some r ∧ r.shape = bs ∧
      ∀ d, d.length = bs.length →
        r.get d = (allIdx C).map (fun cc => (a.get (bcIdx d X ++ cc), c.get (bcIdx d Y ++ cc))) := by
  have hlen := broadcastShape_length hbs
  have hsh : broadcastShape a.shape c.shape = some (bs ++ C) := by
    rw [ha, hc, broadcastShape_append_same _ _ C.length C rfl]; simp [hbs]
  simp only [mulT, bcast2, hsh, Option.map_some]
  refine ⟨_, rfl, ?_, ?_⟩
  · exact (sumLast_get _ bs C rfl []).1
  · intro d hd
    rw [(sumLast_get _ bs C rfl d).2]
    apply List.map_congr_left
    intro cc hcc
    have hcc' : InShape cc C := (NmVerif.Props.C01.mem_allIdx_iff C cc).1 hcc
    simp only [ha, hc]
    rw [bcIdx_append (β := d) (τ := cc) (s := X) (t := C) hcc'.length_eq (by omega),
        bcIdx_append (β := d) (τ := cc) (s := Y) (t := C) hcc'.length_eq (by omega), bcIdx_self hcc']

theorem mulT_sumLastN {a c : Arr Idx} {n : Nat} {r : Arr (List Term)} (h : (mulT a c).map (sumLast n) = some r) :
    (mulT a c).bind (fun m => some (sumLast n m)) = some r := by
  cases hm : mulT a c with
  | none => simp [hm] at h
  | some mm => simp [hm] at h ⊢; exact h

/-- the `tensordot` pipeline once the two transposes are known: free axes of lhs, free axes of rhs, and the sum over
    the contracted block in row-major order -/
theorem tensordotCore_elem (sa sb lt rt FA FB C : List Nat) (hpb : Pos FB)
    (hta : transpose (ident sa) lt = some ⟨FA ++ C, fun d => scatter d lt⟩)
    (htb : transpose (ident sb) rt = some ⟨FB ++ C, fun d => scatter d rt⟩)
    (hlb : sb.length = FB.length + C.length) :
    ∃ r, tensordotCore sa sb lt rt C.length = some r ∧ r.shape = FA ++ FB ∧
      ∀ p q, InShape p FA → InShape q FB →
        r.get (p ++ q) = (allIdx C).map (fun c => (scatter (p ++ c) lt, scatter (q ++ c) rt)) := by
  obtain ⟨b, hb, hbsh, hbget⟩ := reshape_insert_ones (α := Idx) ⟨FA ++ C, fun d => scatter d lt⟩ FA C FB.length rfl
  obtain ⟨r, hr, hrsh, hrget⟩ := contract_block b ⟨FB ++ C, fun d => scatter d rt⟩ (FA ++ List.replicate FB.length 1) FB (FA ++ FB) C
    hbsh rfl (broadcastShape_ones_right FA FB.length FB rfl hpb)
  refine ⟨r, ?_, hrsh, ?_⟩
  · unfold tensordotCore
    simp only [Option.bind_eq_bind, Option.pure_def]
    rw [hta]; simp only [Option.bind_some]
    have e1 : tensordotLhsReshape (FA ++ C) sb.length C.length = FA ++ List.replicate FB.length 1 ++ C := by
      simp [tensordotLhsReshape, hlb]
    rw [e1, hb]; simp only [Option.bind_some]
    rw [htb]; simp only [Option.bind_some]
    exact mulT_sumLastN hr
  · intro p q hp hq
    rw [hrget (p ++ q) (by simp [hp.length_eq, hq.length_eq])]
    apply List.map_congr_left
    intro cc hcc
    have hcc' : InShape cc C := (NmVerif.Props.C01.mem_allIdx_iff C cc).1 hcc
    rw [bcIdx_append (β := p) (τ := q) (s := FA) (t := List.replicate FB.length 1) (by simp [hq.length_eq]) (by rw [hp.length_eq]; exact Nat.le_refl _)]
    rw [bcIdx_self hp, ← hq.length_eq, bcIdx_ones, bcIdx_drop_prefix p q FB hq.length_eq, bcIdx_self hq, hq.length_eq]
    rw [hbget p cc hp hcc']

theorem range_add_eq (n m : Nat) : List.range (n + m) = List.range n ++ List.range' n m := by
  rw [List.range_eq_range', List.range_eq_range', ← List.range'_append_1]; simp

theorem range_filter_not_prefix (n m : Nat) :
    (List.range (n + m)).filter (fun i => !(List.range n).contains i) = List.range' n m := by
  rw [range_add_eq, List.filter_append]
  have h1 : (List.range n).filter (fun i => !(List.range n).contains i) = [] := by
    rw [List.filter_eq_nil_iff]; intro a ha; simp [ha]
  have h2 : (List.range' n m).filter (fun i => !(List.range n).contains i) = List.range' n m := by
    rw [List.filter_eq_self]; intro a ha
    simp only [List.mem_range'_1] at ha
    simp; omega
  rw [h1, h2]; rfl

theorem moveToEnd_prefix (n m : Nat) : moveToEnd (n + m) (List.range n) = List.range' n m ++ List.range n := by
  unfold moveToEnd; rw [range_filter_not_prefix]

/-- moving the first `n` axes to the end: `scatter (q ++ c) = c ++ q` -/
theorem scatter_rotate (q c : List Nat) :
    scatter (q ++ c) (List.range' c.length q.length ++ List.range c.length) = c ++ q := by
  rw [scatter_eq, List.zip_append (by simp), scatterFold_append]
  have h1 : List.replicate (q ++ c).length 0 = List.replicate c.length 0 ++ List.replicate q.length 0 ++ [] := by
    simp [List.replicate_append_replicate, Nat.add_comm]
  rw [h1]
  have := scatterFold_range' (List.replicate c.length 0) q [] (List.replicate q.length 0) (by simp)
  simp only [List.length_replicate] at this
  rw [this]
  have h2 := scatterFold_range' [] c q (List.replicate c.length 0) (by simp)
  simp only [List.length_nil, List.nil_append, List.append_nil] at h2 ⊢
  rw [List.range_eq_range', h2]

theorem mapM_getElem?_range' (pre s : List Nat) :
    (List.range' pre.length s.length).mapM (fun k => (pre ++ s)[k]?) = some s := by
  rw [List.range'_eq_map_range, List.mapM_map]
  rw [mapM_range_some s.length _ (fun k => s.getD k 0)]
  · congr 1
    apply List.ext_getElem
    · simp
    · intro i h1 h2; simp at h1; simp [List.getElem?_eq_getElem h1]
  · intro i hi
    simp only [Function.comp]
    rw [List.getElem?_append_right (by omega)]
    simp [List.getElem?_eq_getElem hi]

/-- `tensordot(a, b, n)` with an integer: the last `n` axes of `a` against the first `n` axes of `b`, in order -/
theorem tensordotInt_elem (FA FB C : Shape) (hpb : Pos FB) :
    ∃ r, tensordotInt (FA ++ C) (C ++ FB) C.length = some r ∧ r.shape = FA ++ FB ∧
      ∀ p q, InShape p FA → InShape q FB →
        r.get (p ++ q) = (allIdx C).map (fun c => (p ++ c, c ++ q)) := by
  have hta : transpose (ident (FA ++ C)) (List.range (FA ++ C).length) =
      some ⟨FA ++ C, fun d => scatter d (List.range (FA ++ C).length)⟩ := transpose_range (ident (FA ++ C))
  have hrt : moveToEnd (C ++ FB).length (List.range C.length) = List.range' C.length FB.length ++ List.range C.length := by
    rw [List.length_append, moveToEnd_prefix]
  have htb : transpose (ident (C ++ FB)) (List.range' C.length FB.length ++ List.range C.length) =
      some ⟨FB ++ C, fun d => scatter d (List.range' C.length FB.length ++ List.range C.length)⟩ := by
    unfold transpose
    have : (List.range' C.length FB.length ++ List.range C.length).mapM (fun k => (ident (C ++ FB)).shape[k]?) = some (FB ++ C) := by
      rw [List.mapM_append]
      simp only [ident]
      rw [mapM_getElem?_range' C FB]
      have h2 : (List.range C.length).mapM (fun k => (C ++ FB)[k]?) = some C := by
        rw [mapM_range_some C.length _ (fun k => C.getD k 0)]
        · congr 1
          apply List.ext_getElem
          · simp
          · intro i h1 h2; simp at h1; simp [List.getElem?_eq_getElem h1]
        · intro i hi
          rw [List.getElem?_append_left hi]; simp [List.getElem?_eq_getElem hi]
      simp [h2]
    rw [this]
    rfl
  obtain ⟨r, hr, hrsh, hrget⟩ := tensordotCore_elem (FA ++ C) (C ++ FB) (List.range (FA ++ C).length)
    (List.range' C.length FB.length ++ List.range C.length) FA FB C hpb hta htb (by simp; omega)
  refine ⟨r, ?_, hrsh, ?_⟩
  · unfold tensordotInt; rw [hrt]; exact hr
  · intro p q hp hq
    rw [hrget p q hp hq]
    apply List.map_congr_left
    intro cc hcc
    have hcc' : InShape cc C := (NmVerif.Props.C01.mem_allIdx_iff C cc).1 hcc
    have e1 : (FA ++ C).length = (p ++ cc).length := by simp [hp.length_eq, hcc'.length_eq]
    rw [e1, scatter_range, ← hcc'.length_eq, ← hq.length_eq, scatter_rotate]

/-- explicit axes: shape and terms, with the two transposes left in `scatter` form -/
theorem tensordotAxes_elem_scatter (sa sb : Shape) (la ra : List Int) (la' ra' : List Nat) (FA FB C : Shape)
    (hla : la.mapM (normAxis · sa.length) = some la') (hra : ra.mapM (normAxis · sb.length) = some ra')
    (hta : (moveToEnd sa.length la').mapM (fun k => sa[k]?) = some (FA ++ C))
    (htb : (moveToEnd sb.length ra').mapM (fun k => sb[k]?) = some (FB ++ C))
    (hn : la.length = C.length) (hlb : sb.length = FB.length + C.length) (hpb : Pos FB) :
    ∃ r, tensordotAxes sa sb la ra = some r ∧ r.shape = FA ++ FB ∧
      ∀ p q, InShape p FA → InShape q FB →
        r.get (p ++ q) = (allIdx C).map (fun c =>
          (scatter (p ++ c) (moveToEnd sa.length la'), scatter (q ++ c) (moveToEnd sb.length ra'))) := by
  have h1 : transpose (ident sa) (moveToEnd sa.length la') = some ⟨FA ++ C, fun d => scatter d (moveToEnd sa.length la')⟩ := by
    unfold transpose; simp only [ident]; rw [hta]; rfl
  have h2 : transpose (ident sb) (moveToEnd sb.length ra') = some ⟨FB ++ C, fun d => scatter d (moveToEnd sb.length ra')⟩ := by
    unfold transpose; simp only [ident]; rw [htb]; rfl
  obtain ⟨r, hr, hrsh, hrget⟩ := tensordotCore_elem sa sb _ _ FA FB C hpb h1 h2 hlb
  refine ⟨r, ?_, hrsh, hrget⟩
  unfold tensordotAxes
  simp only [hla, hra, Option.bind_eq_bind, Option.bind_some, hn]
  exact hr

end NmVerif
