// "hip/hip_runtime.h" of the C13 harness: see ../../c13_hip_shim.hpp
#pragma once
#include "c13_hip_shim.hpp"
