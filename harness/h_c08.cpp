// C08 harness, TU 1: view::reduce / view::accumulate with the order-revealing functor f(a,b) = 31a+b (uint32),
// plus index::remove_dims / index::reduction_slices directly.  Real headers from $VERIF_REPO/include.
#include "nmtools/array/view/ufunc.hpp"
#include "nmtools/array/index/remove_dims.hpp"
#include "nmtools/array/index/reduce.hpp"
#include "nmtools/array/ndarray.hpp"
#include "c08_common.hpp"
#include <vector>

namespace nm = nmtools; namespace na = nmtools::array; namespace view = nmtools::view; namespace ix = nmtools::index;
using namespace proto;

struct f31 { constexpr unsigned operator()(unsigned a, unsigned b) const { return 31u * a + b; } };
using uarr_t = na::ndarray_t<std::vector<unsigned>, std::vector<size_t>>;

static uarr_t make(const Args& a) {
    auto s = nats(a, "shape");
    uarr_t arr; arr.resize(s);
    size_t n = nm::size(arr);
    if (has(a, "data")) { auto d = ints(a, "data"); if (d.size() != n) throw bad_args("data"); for (size_t k = 0; k < n; k++) arr.data()[k] = (unsigned)d[k]; }
    else for (size_t k = 0; k < n; k++) arr.data()[k] = (unsigned)(k + 1);
    return arr;
}

// keepdims kind: ct = nm::True/nm::False, rt = bool, def = argument omitted
template <typename axis_t, typename init_t>
static std::string reduce_kd(const uarr_t& arr, const axis_t& axis, init_t init, const std::string& kd, bool keep) {
    if (kd == "ct") return keep ? c08::emit(view::reduce(f31{}, arr, axis, nm::None, init, nm::True))
                                : c08::emit(view::reduce(f31{}, arr, axis, nm::None, init, nm::False));
    if (kd == "rt") return c08::emit(view::reduce(f31{}, arr, axis, nm::None, init, keep));
    if (kd == "def") { if (keep) throw bad_args("kd"); return c08::emit(view::reduce(f31{}, arr, axis, nm::None, init)); }
    throw bad_args("kd");
}
template <typename axis_t>
static std::string reduce_init(const uarr_t& arr, const axis_t& axis, const Args& a) {
    std::string kd = has(a, "kd") ? get(a, "kd") : "ct";
    bool keep = get(a, "keepdims") == "1";
    if (is_none(a, "init")) return reduce_kd(arr, axis, nm::None, kd, keep);
    return reduce_kd(arr, axis, (unsigned)integer(a, "init"), kd, keep);
}

std::string handle(const std::string& op, const Args& a) {
    if (op == "reduce") {
        if (get(a, "op") != "f31") return "unknown-op";
        auto arr = make(a);
        if (is_none(a, "axis")) return reduce_init(arr, nm::None, a);
        auto ax = intsi(a, "axis");
        std::string axk = has(a, "ax") ? get(a, "ax") : "vec";
        if (axk == "int") { if (ax.size() != 1) throw bad_args("ax"); int k = ax[0]; return reduce_init(arr, k, a); }
        return reduce_init(arr, ax, a);
    }
    if (op == "accumulate") {
        if (get(a, "op") != "f31") return "unknown-op";
        auto arr = make(a);
        int axis = (int)integer(a, "axis");
        return c08::emit(view::accumulate(f31{}, arr, axis));
    }
    if (op == "remove_dims") {
        auto s = nats(a, "shape"); bool keep = get(a, "keepdims") == "1";
        if (is_none(a, "axis")) {
            if (!keep) return "ok []";      // result type is none_t: the reduction is a number
            return "ok " + fmt(ix::remove_dims(s, nm::None, nm::True));
        }
        auto ax = intsi(a, "axis");
        return "ok " + fmt(ix::remove_dims(s, ax, keep));
    }
    if (op == "reduction_slices") {
        auto s = nats(a, "shape"); auto d = nats(a, "idx"); bool keep = get(a, "keepdims") == "1";
        auto pr = [](const auto& sl) {
            std::ostringstream o; size_t n = sl.size(); if (!n) return std::string("ok []");
            o << "ok "; for (size_t i = 0; i < n; i++) { if (i) o << ';'; o << sl[i][0] << ',' << sl[i][1]; } return o.str(); };
        if (is_none(a, "axis")) return "unknown-op";   // never instantiated by the library (reduce_t<None> folds flatten(array))
        auto ax = intsi(a, "axis");
        return pr(ix::reduction_slices(d, s, ax, keep));
    }
    return "unknown-op";
}
