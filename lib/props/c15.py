"""C15 — invalid arguments are reported as Nothing, never as garbage or a crash.
IMPL outcome: `ok shape=… data=…` | `nothing` | crash:<kind> (runner) | exception:…   ORACLE: NumPy raises / result."""
import itertools, re
import numpy as np
from runner import Case
from shapes import shapes, prod, fmt

ID = 'C15'
LEVEL = 'proof'
RULE = ('per checked operation the full small-scope argument space INCLUDING the invalid part: reshape targets with entries -2..4 (length 1..3), '
        'transpose axes from [-dim-1, dim] incl. duplicates, moveaxis/swapaxes/expand_dims axes in [-dim-2, dim+1], broadcast_to / add / concatenate / '
        'matmul operand-shape pairs (compatible and not), pad width lists of every length 0..2*dim+1, tile/repeat/roll/sum arguments with bad axes; '
        'transpose axes tuples that are too short / too long, expand_dims axis tuples with repeated / out-of-range entries, repeat with one count per entry (lists of every length 1..extent+1, all axes incl. invalid), '
        'dot / inner / vecdot / tensordot(n) operand-shape pairs; pipelines of depth 2-3 in which any stage (first, middle or last) fails, incl. stages fed with a maybe-typed operand '
        '(repeat, tile, concatenate, broadcast_to, transpose after a stage that may be Nothing); the unary and equal-rank binary operations again on FIXED-DIM sources (shape container std::array); '
        'NDEBUG build and ASan+UBSan+assert build. non-trivial = NumPy raises, or the result differs from the source')
EXHAUSTIVE = {'quick': True, 'thorough': True}
ANCHORS = {'NmVerif.Checked.shapeReshape': 'index::shape_reshape / count_negative_reshape (index/reshape.hpp)', 'NmVerif.Checked.normalizeAxis': 'index::normalize_axis',
           'NmVerif.Checked.Pipe.denote': 'has_value checks of the view constructors + eval (nmtools_maybe plumbing)',
           'NmVerif.Checked.transposeChecked / swapaxesChecked / expandDimsChecked / repeatChecked / repeatListChecked / concatenateChecked':
               'run-time argument validation of view::transpose, swapaxes, expand_dims, repeat, concatenate (as repaired by fixes/C15-*.diff; transpose: proposed only) in front of the value models of C03 / C04'}
MANIFEST = dict(
    text='Proof + exploration: Lean theorems that reshape returns Nothing exactly on invalid targets (more than one -1, zero/negative extent, mismatching or non-dividing element count) and that an accepted reshape has positive extents and the source element count; normalize_axis accepts exactly [-ndim, ndim); an empty optional propagates through pipelines of any depth; for transpose, swapaxes, expand_dims, repeat (scalar count and one count per entry) and concatenate a view exists EXACTLY on the arguments NumPy accepts (permutation of the axes / axes in range / no repeated axis / count list as long as the axis / equal ranks and off-axis extents) and is then the value model of C03 / C04. Every checked operation (reshape, transpose, moveaxis, swapaxes, expand_dims, broadcast_to, add, concatenate, matmul, pad, tile, repeat, roll, sum, dot, inner, vecdot, tensordot, depth-2/3 pipelines; dynamic and fixed-dim sources) is run over its full small-scope argument space INCLUDING the invalid part against NumPy raise/no-raise, in an NDEBUG build and an assert+ASan+UBSan build; swapaxes, expand_dims, repeat, concatenate and matmul refuse invalid run-time arguments since the repairs fixes/C15-*.diff; matmul with a 1-d operand (1-d promotion) gives the NumPy value since the repair fixes/C16-matmul-1d-operand.diff; inner / vecdot / tensordot refuse mismatching contracted extents (also 1 against n) and tensordot an integer axes beyond a rank since the repair fixes/C15-contraction-extent.diff; 3 classes remain known findings (transpose axes, reduction axis, a single broadcast repeat count).',
    note='Lean kernel + propext/Classical.choice/Quot.sound (+ Mathlib.Tactic.Ring in the proof file). Validity of the other operations is decided by the NumPy oracle, the value part by the models of C03/C04/C06; the process-level outcome (abort, out-of-range exception) is observed, not modelled.',
    technique='Lean 4 iff-theorems for the checked argument predicates + Option-monad propagation by induction on a pipeline AST; differential run against NumPy over valid and invalid arguments under sanitizers')
ASSUMPTIONS = ['NumPy 2.x raise / no-raise decision is the reference for validity (the property text names it)']
PARTIAL = []


def harness_specs(tier):
    return [dict(name='h_c15', src='h_c15.cpp', flavour='fast'), dict(name='h_c15_san', src='h_c15.cpp', flavour='san-dbg'),
            dict(name='h_c15_fd', src='h_c15_fd.cpp', flavour='fast'), dict(name='h_c15_fd_san', src='h_c15_fd.cpp', flavour='san-dbg'),
            dict(name='h_c15_na', src='h_c15_na.cpp', flavour='fast'), dict(name='h_c15_na_san', src='h_c15_na.cpp', flavour='san-dbg')]


def arr(s, base=0):
    return (np.arange(prod(s), dtype=np.int64) + base).reshape(s)


def ans(r):
    r = np.asarray(r)
    return 'ok shape=%s data=%s' % (fmt(r.shape), fmt(r.reshape(-1).tolist()))


def ora(f):
    try:
        return ans(f())
    except Exception:
        return 'nothing'


def ora_la(f):
    """linear-algebra oracle: a 0-d result is a number in nmtools (not representable as `ok shape=…`): skipped (None)"""
    try:
        r = np.asarray(f())
    except Exception:
        return 'nothing'
    return None if r.ndim == 0 else ans(r)


def ora_arr(f):
    """as `ora`; a 0-d result (reduction of a 1-d array) is a number in nmtools: no oracle"""
    try:
        r = np.asarray(f())
    except Exception:
        return 'nothing'
    return None if r.ndim == 0 else ans(r)


def args_of(req):
    """(operation, arguments); the `fd_` prefix (fixed-dim source, same operation) is dropped"""
    p = req.split(' ')
    return (p[0][3:] if p[0].startswith('fd_') else p[0]), dict(kv.split('=') for kv in p[1:])


def ints(s):
    return [] if s == '[]' else [int(x) for x in s.split(',')]


# ---- known-finding input classes (decided from the request alone) ---------------------------------------------
def _dim(a):
    return len(ints(a['shape']))


def k_transpose_invalid_axes(c):
    if k_transpose_in_pipeline(c):
        return True
    op, a = args_of(c.req)
    if op != 'transpose':
        return False
    d = _dim(a); ax = ints(a['axes'])
    if len(ax) != d or any(x < -d or x >= d for x in ax):
        return True
    return len({x % d for x in ax}) != d


def k_swapaxes_invalid_axis(c):
    op, a = args_of(c.req)
    return op == 'swapaxes' and any(int(a[k]) < -_dim(a) or int(a[k]) >= _dim(a) for k in ('a1', 'a2'))


def k_expand_dims_invalid_axis(c):
    op, a = args_of(c.req)
    if op != 'expand_dims':
        return False
    ax = ints(a['axes']); n = _dim(a) + len(ax)
    return any(x < -n or x >= n for x in ax) or len({x % n for x in ax}) != len(ax)


def k_sum_invalid_axis(c):
    op, a = args_of(c.req)
    return op == 'sum' and (int(a['axis']) < -_dim(a) or int(a['axis']) >= _dim(a))


def k_repeat_negative_or_invalid_axis(c):
    op, a = args_of(c.req)
    if op == 'pipe_reshape_repeat':          # repeat of a reshaped source: the axis refers to the rank of `to`
        d = len(ints(a['to']))
        return c.oracle == 'nothing' and not (int(a['axis']) >= -d and int(a['axis']) < d) and _reshape_ok(a)
    if op != 'repeat':
        return False
    d = _dim(a); ax = int(a['axis'])
    if ax < -d or ax >= d:
        return True
    # one count per entry: a count list whose length is not the extent of the axis
    return 'counts' in a and len(ints(a['counts'])) not in (1, ints(a['shape'])[ax % d])


def _reshape_ok(a):
    try:
        np.arange(prod(ints(a['shape']))).reshape(ints(a['to']))
        return all(x >= -1 for x in ints(a['to']))
    except Exception:
        return False


def k_concatenate_unchecked(c):
    op, a = args_of(c.req)
    if op == 'pipe_reshape_concat':          # the first operand is the reshaped source
        if not _reshape_ok(a):
            return False
        s1 = list(np.arange(prod(ints(a['shape']))).reshape(ints(a['to'])).shape)
    elif op in ('concatenate', 'pipe_concat_reshape'):
        s1 = ints(a['shape'])
    else:
        return False
    s2, ax = ints(a['shape2']), int(a['axis'])
    if ax < -len(s1) or ax >= len(s1) or len(s1) != len(s2):
        return True
    ax = ax % len(s1)
    return any(s1[k] != s2[k] for k in range(len(s1)) if k != ax)


def k_transpose_in_pipeline(c):
    """transpose with invalid explicit axes as the middle stage of a pipeline (same call site as transpose_invalid_axes)"""
    op, a = args_of(c.req)
    if op != 'pipe_bcast_transpose_flatten':
        return False
    d = len(ints(a['to'])); ax = ints(a['axes'])
    try:
        np.broadcast_to(np.zeros(ints(a['shape'])), ints(a['to']))
    except Exception:
        return False
    return len(ax) != d or any(x < -d or x >= d for x in ax) or len({x % d for x in ax}) != d


def k_repeat_single_count_broadcast(c):
    """np.repeat(a, [r], axis) broadcasts a one-element count list over an axis of any extent; nmtools takes the list as
    one count per entry (result extent = sum of the list)"""
    op, a = args_of(c.req)
    if op != 'repeat' or 'counts' not in a:
        return False
    d = _dim(a); ax = int(a['axis'])
    return -d <= ax < d and len(ints(a['counts'])) == 1 and ints(a['shape'])[ax % d] != 1


KNOWN_PREDICATES = {
    'transpose_invalid_axes': k_transpose_invalid_axes, 'sum_invalid_axis': k_sum_invalid_axis,
    'repeat_single_count_broadcast': k_repeat_single_count_broadcast,
}
_san_budget = {}


MODELLED = {'reshape': 'v_reshape', 'pipe_reshape_transpose': 'v_pipe_reshape_transpose', 'broadcast_to': 'v_broadcast_to', 'add': 'v_add',
            'pad': 'v_pad', 'tile': 'v_tile', 'roll': 'v_roll', 'where3': 'v_where3',
            # run-time argument validation mirrored in Index/CheckedOps.lean (theorems X_isSome_iff_valid)
            'transpose': 'v_transpose', 'swapaxes': 'v_swapaxes', 'expand_dims': 'v_expand_dims', 'repeat': 'v_repeat',
            'concatenate': 'v_concatenate'}
# operations whose invalid arguments are NOT yet refused by the code (open known findings): there the checked model does
# not mirror the code, so those cases are off the model's domain (the NumPy oracle judges, the known-finding class matches)
UNREPAIRED = ('transpose',)


FD_OPS = {'reshape', 'transpose', 'moveaxis', 'swapaxes', 'expand_dims', 'broadcast_to', 'pad', 'tile', 'repeat', 'roll', 'sum',
          'pipe_reshape_transpose', 'concatenate', 'matmul'}
LA_OPS = {'dot', 'inner', 'vecdot', 'tensordot'}


def both(req, oracle, tags, nontrivial=True, model=False, dom=True, fd=False):
    """one request on the NDEBUG build and on the assert+sanitizer build; `fd=True`: additionally on a fixed-dim source
    (shape container std::array) — same request with the `fd_` prefix, same model answer, same oracle"""
    op = req.split(' ')[0]
    h = 'h_c15_fd' if op in LA_OPS else 'h_c15'
    mreq = None
    if op in MODELLED and ' to=[]' not in req:
        model = True
        mreq = MODELLED[op] + req[len(op):]
        if op in UNREPAIRED and oracle == 'nothing':
            dom = False
        if op == 'repeat' and ' counts=' in req and oracle != 'nothing' and len(ints(args_of(req)[1]['counts'])) == 1:
            dom = False      # a single count is broadcast by NumPy, taken as one-count-per-entry by nmtools (known finding)
    c0 = Case(req, h, oracle=oracle, model=model, dom=dom, nontrivial=nontrivial, mreq=mreq,
              tags=list(tags) + [h, 'expect-nothing' if oracle == 'nothing' else 'expect-value'])
    yield c0
    if fd and op in FD_OPS:
        cf = Case('fd_' + req, 'h_c15_fd', oracle=oracle, model=model, dom=dom, nontrivial=nontrivial, mreq=mreq,
                  tags=list(tags) + ['h_c15_fd', 'fixed-dim', 'expect-nothing' if oracle == 'nothing' else 'expect-value'])
        yield cf
        cls = [k for k, f in KNOWN_PREDICATES.items() if f(cf)]
        n = _san_budget.get(('fd', cls[0]), 0) if cls else 0
        if not cls or n < 6:
            if cls:
                _san_budget[('fd', cls[0])] = n + 1
            yield Case('fd_' + req, 'h_c15_fd_san', oracle=oracle, model=model, dom=dom, nontrivial=nontrivial, mreq=mreq,
                       tags=list(tags) + ['h_c15_fd_san', 'fixed-dim', 'expect-nothing' if oracle == 'nothing' else 'expect-value'])
    # sanitizer + assert build: every case outside the known-defect classes; inside them a bounded sample per class
    # (each of those aborts the process; 15 per class keeps the quick tier fast)
    cls = [k for k, f in KNOWN_PREDICATES.items() if f(c0)]
    if cls:
        n = _san_budget.get(cls[0], 0)
        if n >= 15:
            return
        _san_budget[cls[0]] = n + 1
    hs = h + '_san'
    yield Case(req, hs, oracle=oracle, model=model, dom=dom, nontrivial=nontrivial, mreq=mreq,
               tags=list(tags) + [hs, 'expect-nothing' if oracle == 'nothing' else 'expect-value'])


def gen_axis_kinds(tier):
    """index::normalize_axis over the integer KIND of the axis argument (signed / unsigned scalar, lists of signed / unsigned
    entries in vector / std::array / static_vector), and moveaxis / roll / expand_dims with unsigned axis lists: the unsigned
    branches have a range test of their own (seeded change C15-c: `<` -> `<=` accepted axis == ndim for unsigned lists only)"""
    def na(axes, nd):
        if all(-nd <= a < nd for a in axes):
            return 'ok ' + fmt([a % nd for a in axes])
        return 'nothing'
    hs = ('h_c15_na', 'h_c15_na_san')
    for nd in (1, 2, 3, 4):
        for a in range(-nd - 2, nd + 3):
            for k in (('i', 'ii') if a < 0 else ('i', 'ii', 'u')):
                o = ('ok %d' % (a % nd)) if -nd <= a < nd else 'nothing'
                for h in hs:
                    yield Case('normalize_axis kind=%s axis=%d ndim=%d' % (k, a, nd), h, oracle=o, model=False, tags=['normalize_axis', 'kind=' + k, 'axis==ndim' if a == nd else 'other'])
        lists = [list(t) for L in (1, 2, 3) for t in itertools.product(range(-nd - 1, nd + 2), repeat=L)]
        if tier == 'quick':
            lists = [l for l in lists if len(l) < 3 or (sum(l) + nd) % 4 == 0]
        for l in lists:
            neg = any(x < 0 for x in l)
            for t in (('i', 'l') if neg else ('i', 'l', 'u', 'u32')):
                for c in ('vec', 'arr', 'sv'):
                    h = hs[(len(l) + nd + len(c)) % 2]
                    yield Case('normalize_axis kind=%s:%s axis=%s ndim=%d' % (t, c, fmt(l), nd), h, oracle=na(l, nd), model=False,
                               tags=['normalize_axis', 'kind=%s:%s' % (t, c), 'axis==ndim' if nd in l else 'other'])
    for s in ([2, 3], [2, 1, 3], [4]):
        d = len(s)
        for t in ('i', 'u', 'u32'):
            for c in ('vec', 'arr'):
                for p in range(0, d + 2):
                    for q in range(0, d + 2):
                        yield Case('moveaxis kind=%s:%s shape=%s src=%d dst=%d' % (t, c, fmt(s), p, q), hs[(p + q) % 2], oracle=ora(lambda: np.moveaxis(arr(s), p, q)),
                                   model=False, tags=['moveaxis', 'axis-kind=' + t])
                    yield Case('roll kind=%s:%s shape=%s shift=1 axis=%d' % (t, c, fmt(s), p), hs[p % 2], oracle=ora(lambda: np.roll(arr(s), [1], [p])),
                               model=False, tags=['roll', 'axis-kind=' + t])
                for ax in itertools.chain(([p] for p in range(0, d + 3)), ([p, q] for p in range(0, d + 3) for q in range(0, d + 3))):
                    yield Case('expand_dims kind=%s:%s shape=%s axis=%s' % (t, c, fmt(s), fmt(ax)), hs[sum(ax) % 2], oracle=ora(lambda: np.expand_dims(arr(s), tuple(ax))),
                               model=False, tags=['expand_dims', 'axis-kind=' + t])


def gen(tier, rng):
    _san_budget.clear()
    yield from gen_axis_kinds(tier)
    R, E = (3, 3) if tier == 'quick' else (3, 4)
    srcs = [s for s in shapes(R, E, min_rank=1)]
    small = [s for s in srcs if prod(s) <= 12] if tier == 'quick' else srcs
    pick = lambda l, k: l if len(l) <= k else rng.sample(l, k)
    # reshape: every target of length 1..3 with entries -2..4
    ents = [-2, -1, 0, 1, 2, 3, 4]
    for s in pick(small, 12 if tier == 'quick' else 40):
        for L in (1, 2, 3):
            for t in itertools.product(ents, repeat=L):
                if tier == 'quick' and L == 3 and (hash((tuple(s), t)) % 3):
                    continue
                yield from both('reshape shape=%s to=%s' % (fmt(s), fmt(t)), 'nothing' if any(x < -1 for x in t) else ora(lambda: arr(s).reshape(t)), ['reshape'],
                                fd=(L < 3 and hash((tuple(s), t)) % 4 == 0))
    for ns, s in enumerate(pick(srcs, 14 if tier == 'quick' else 60)):
        d = len(s)
        fdsrc = (ns % 2 == 0) or tier != 'quick'      # every second source also as a fixed-dim array
        # transpose: all axis tuples of length d over [-d-1, d]
        rngax = list(range(-d - 1, d + 1))
        tuples = list(itertools.product(rngax, repeat=d))
        for ax in pick(tuples, 60 if tier == 'quick' else 400):
            yield from both('transpose shape=%s axes=%s' % (fmt(s), fmt(ax)), ora(lambda: np.transpose(arr(s), ax)), ['transpose'], fd=fdsrc)
        # transpose with too few / too many axes
        for L in {max(d - 1, 1), d + 1} - {d}:
            for ax in pick(list(itertools.product(range(-1, d + 1), repeat=L)), 6):
                yield from both('transpose shape=%s axes=%s' % (fmt(s), fmt(ax)), ora(lambda: np.transpose(arr(s), ax)), ['transpose', 'axes-length'], fd=fdsrc)
        for p, q in itertools.product(range(-d - 2, d + 2), repeat=2):
            yield from both('swapaxes shape=%s a1=%d a2=%d' % (fmt(s), p, q), ora(lambda: np.swapaxes(arr(s), p, q)), ['swapaxes'], fd=fdsrc)
            yield from both('moveaxis shape=%s src=%d dst=%d' % (fmt(s), p, q), ora(lambda: np.moveaxis(arr(s), p, q)), ['moveaxis'], fd=fdsrc and (p + q) % 2 == 0)
        for p in range(-d - 3, d + 3):
            yield from both('expand_dims shape=%s axes=%d' % (fmt(s), p), ora(lambda: np.expand_dims(arr(s), p)), ['expand_dims'], fd=fdsrc)
            yield from both('sum shape=%s axis=%d' % (fmt(s), p), ora(lambda: arr(s).sum(axis=p)), ['sum'], fd=fdsrc and d >= 2)
            yield from both('roll shape=%s shift=1 axis=%d' % (fmt(s), p), ora(lambda: np.roll(arr(s), 1, p)), ['roll'], fd=fdsrc)
            yield from both('repeat shape=%s repeats=2 axis=%d' % (fmt(s), p), ora(lambda: np.repeat(arr(s), 2, p)), ['repeat'], fd=fdsrc)
        # expand_dims with an axis tuple: repeated and out-of-range entries (n = d + 2)
        for ax in pick(list(itertools.product(range(-d - 3, d + 3), repeat=2)), 14 if tier == 'quick' else 60):
            yield from both('expand_dims shape=%s axes=%s' % (fmt(s), fmt(ax)), ora(lambda: np.expand_dims(arr(s), ax)), ['expand_dims', 'axis-tuple'], fd=fdsrc)
        # repeat with one count per entry of the axis: count lists of every length 1..extent+1, axes incl. invalid ones
        for p in range(-d - 1, d + 1):
            for L in range(1, max(s) + 2):
                cnt = [(k + L) % 3 for k in range(L)]
                yield from both('repeat shape=%s counts=%s axis=%d' % (fmt(s), fmt(cnt), p), ora(lambda: np.repeat(arr(s), cnt, p)), ['repeat', 'count-list'],
                                fd=fdsrc and L % 2 == 1)
        for L in range(0, 2 * d + 2):
            w = [(k % 2) + (1 if k == 0 else 0) for k in range(L)]
            def padf():
                if L != 2 * d:
                    raise ValueError
                return np.pad(arr(s), [(w[k], w[d + k]) for k in range(d)], constant_values=-1)
            yield from both('pad shape=%s width=%s' % (fmt(s), fmt(w)), ora(padf), ['pad'], fd=fdsrc)
        for reps in [[2], [1, 2], [2, 1, 1], [1, 1, 1, 2]]:
            yield from both('tile shape=%s reps=%s' % (fmt(s), fmt(reps)), ora(lambda: np.tile(arr(s), reps)), ['tile'], fd=fdsrc)
    # binary: all pairs of small shapes
    pairs = list(itertools.product([s for s in shapes(3, 3, min_rank=1) if prod(s) <= 9], repeat=2))
    for s1, s2 in pick(pairs, 250 if tier == 'quick' else 2000):
        yield from both('broadcast_to shape=%s to=%s' % (fmt(s1), fmt(s2)), ora(lambda: np.broadcast_to(arr(s1), s2)), ['broadcast_to'])
        yield from both('add shape=%s shape2=%s' % (fmt(s1), fmt(s2)), ora(lambda: arr(s1) + arr(s2, 1000)), ['add'])
        eqr = len(s1) == len(s2)                      # fixed-dim operands: equal ranks only (others do not compile)
        yield from both('matmul shape=%s shape2=%s' % (fmt(s1), fmt(s2)), ora(lambda: np.matmul(arr(s1), arr(s2, 1))), ['matmul'], fd=eqr and len(s1) >= 2)
        for ax in range(-len(s1) - 1, len(s1) + 1):
            yield from both('concatenate shape=%s shape2=%s axis=%d' % (fmt(s1), fmt(s2), ax), ora(lambda: np.concatenate([arr(s1), arr(s2, 1000)], axis=ax)), ['concatenate'], fd=eqr)
    # linear-algebra views: operand mismatches (NumPy raises) next to matching operands
    for s1, s2 in pick(pairs, 140 if tier == 'quick' else 1500):
        yield from both('dot shape=%s shape2=%s' % (fmt(s1), fmt(s2)), ora_la(lambda: np.dot(arr(s1), arr(s2, 1))), ['dot'])
        yield from both('inner shape=%s shape2=%s' % (fmt(s1), fmt(s2)), ora_la(lambda: np.inner(arr(s1), arr(s2, 1))), ['inner'])
        yield from both('vecdot shape=%s shape2=%s' % (fmt(s1), fmt(s2)), ora_la(lambda: np.vecdot(arr(s1), arr(s2, 1))), ['vecdot'])
        for n in (1, 2):
            yield from both('tensordot shape=%s shape2=%s axes=%d' % (fmt(s1), fmt(s2), n), ora_la(lambda: np.tensordot(arr(s1), arr(s2, 1), n)), ['tensordot'])
    # three operands (variadic broadcast): every triple of small shapes where at least one pair is incompatible, plus compatible ones
    tri = [s for s in shapes(2, 3, min_rank=1) if prod(s) <= 6] + [[1, 1, 2], [2, 1, 1]]
    triples = list(itertools.product(tri, repeat=3))
    for s1, s2, s3 in pick(triples, 600 if tier == 'quick' else 3000):
        def wf():
            c = (np.arange(prod(s1)) % 2).reshape(s1)
            return np.where(c != 0, arr(s2, 1000), arr(s3, 2000))
        yield from both('where3 shape=%s shape2=%s shape3=%s' % (fmt(s1), fmt(s2), fmt(s3)), ora(wf), ['where3'])
    # pipelines
    for s in pick(small, 10):
        for t in itertools.product([-1, 1, 2, 3, 4, 6], repeat=2):
            yield from both('pipe_reshape_transpose shape=%s to=%s' % (fmt(s), fmt(t)), ora(lambda: arr(s).reshape(t).T), ['pipeline'])
            for ax in (0, 1):
                yield from both('pipe_reshape_sum shape=%s to=%s axis=%d' % (fmt(s), fmt(t), ax), ora(lambda: arr(s).reshape(t).sum(axis=ax)), ['pipeline'])
    # depth 3 / stages fed with a maybe-typed operand: any stage may be the one that fails
    for s in pick(small, 8 if tier == 'quick' else 20):
        for t in itertools.product([-1, 2, 3, 4], repeat=2):
            for t2 in ([-1], [2, -1], [5]):
                yield from both('pipe_reshape_transpose_reshape shape=%s to=%s to2=%s' % (fmt(s), fmt(t), fmt(t2)),
                                ora(lambda: arr(s).reshape(t).T.reshape(t2)), ['pipeline', 'depth3'])
            for ax in (-3, -1, 0, 2):
                yield from both('pipe_reshape_repeat shape=%s to=%s axis=%d' % (fmt(s), fmt(t), ax), ora(lambda: np.repeat(arr(s).reshape(t), 2, ax)), ['pipeline', 'maybe-operand'])
            for reps in ([2], [1, 2, 1]):
                yield from both('pipe_reshape_tile shape=%s to=%s reps=%s' % (fmt(s), fmt(t), fmt(reps)), ora(lambda: np.tile(arr(s).reshape(t), reps)), ['pipeline', 'maybe-operand'])
            for s2 in ([2, 2], [1, 3]):
                for ax in (0, 1, 2):
                    yield from both('pipe_reshape_concat shape=%s to=%s shape2=%s axis=%d' % (fmt(s), fmt(t), fmt(s2), ax),
                                    ora(lambda: np.concatenate([arr(s).reshape(t), arr(s2, 1000)], axis=ax)), ['pipeline', 'maybe-operand'])
            for t2, s2 in (([2, 2, 3], [3]), ([3, 2], [2]), ([2, 3], [2, 2])):
                yield from both('pipe_reshape_bcast_add shape=%s to=%s to2=%s shape2=%s' % (fmt(s), fmt(t), fmt(t2), fmt(s2)),
                                ora(lambda: np.broadcast_to(arr(s).reshape(t), t2) + arr(s2, 1000)), ['pipeline', 'depth3'])
    for s1, s2 in pick(pairs, 60 if tier == 'quick' else 400):
        for t in ([-1], [2, -1]):
            yield from both('pipe_add_reshape_sum shape=%s shape2=%s to=%s' % (fmt(s1), fmt(s2), fmt(t)),
                            ora_arr(lambda: (arr(s1) + arr(s2, 1000)).reshape(t).sum(axis=0)), ['pipeline', 'depth3'])
        for ax in (0, 1):
            for t in ([-1], [3, -1]):
                yield from both('pipe_concat_reshape shape=%s shape2=%s axis=%d to=%s' % (fmt(s1), fmt(s2), ax, fmt(t)),
                                ora(lambda: np.concatenate([arr(s1), arr(s2, 1000)], axis=ax).reshape(t)), ['pipeline', 'depth3'])
        for ax in ([1, 0], [0, 0], [0, 1, 2], [2, 0, 1], [0, 3, 1]):
            yield from both('pipe_bcast_transpose_flatten shape=%s to=%s axes=%s' % (fmt(s1), fmt(s2), fmt(ax)),
                            ora(lambda: np.transpose(np.broadcast_to(arr(s1), s2), ax).reshape(-1)), ['pipeline', 'depth3'])
    for s1, s2 in pick(pairs, 120 if tier == 'quick' else 600):
        for t in ([3, 3], [2, 3], [2, 1, 3]):
            yield from both('pipe_bcast_add_flatten shape=%s to=%s shape2=%s' % (fmt(s1), fmt(t), fmt(s2)),
                            ora(lambda: (np.broadcast_to(arr(s1), t) + arr(s2, 1000)).reshape(-1)), ['pipeline'])
        for t in ([-1], [3, -1], [2, 2]):
            yield from both('pipe_add_reshape shape=%s shape2=%s to=%s' % (fmt(s1), fmt(s2), fmt(t)), ora(lambda: (arr(s1) + arr(s2, 1000)).reshape(t)), ['pipeline'])
