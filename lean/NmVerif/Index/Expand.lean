import NmVerif.Index.Roll
/-
  NmVerif.Index.Expand — MODEL of index::shape_expand / index::expand in include/nmtools/array/view/expand.hpp
  (spacing insertion: `spacing` fill elements between neighbouring entries of the listed axes).

  Stable names:
    `Index.shapeExpand src ks spacings : Shape`           shape loop: `dst[a] += (dst[a] - 1) * spacing_i` per listed axis
    `Index.indexExpand d ks spacings : Option Idx`        index loop with early exit: `res[a] % (sp+1) > 0 ⇒ None (fill)`,
                                                          else `res[a] /= sp+1`
    `Index.expandView src axes spacings : Option IxView`  view::expand(a, axes, spacings, fill); axes normalised with
                                                          `normalize_axis` in both functions (`none` = unwrap of a failed
                                                          normalisation: UB, C15); a scalar spacing is the constant list
  Core Lean only.
-/
namespace NmVerif.Index

def shapeExpand : Shape → List Nat → List Nat → Shape
  | s, k :: ks, sp :: sps =>
      match s[k]? with
      | some e => shapeExpand (s.set k (e + (e - 1) * sp)) ks sps
      | none => s
  | s, _, _ => s

def indexExpand : Idx → List Nat → List Nat → Option Idx
  | r, k :: ks, sp :: sps =>
      match r[k]? with
      | some x => if x % (sp + 1) > 0 then none else indexExpand (r.set k (x / (sp + 1))) ks sps
      | none => none
  | r, _, _ => some r

def normalizeAxes (axes : List Int) (dim : Nat) : Option (List Nat) := axes.mapM (fun a => normalizeAxis1 a dim)

def expandView (src : Shape) (axes : List Int) (spacings : List Nat) : Option IxView :=
  (normalizeAxes axes src.length).map (fun ks =>
    ⟨src, shapeExpand src ks spacings, fun d => indexExpand d ks spacings⟩)

end NmVerif.Index
