import NmVerif.Lemmas.Slice
/-
  C05 helper lemmas, part 2: Dom for a whole index (any rank, integers and one ellipsis in any position) and the
  induction over the entry list that lifts the per-axis agreement (Lemmas/Slice.lean) to shape_slice / slice.
-/
namespace NmVerif.Slice

open NmVerif

/-! ### Dom for a whole index (any rank, any position of integers and of the ellipsis) -/

def domEntry (n : Nat) : Entry → Bool
  | .int k => decide (-(n : Int) ≤ k) && decide (k < n) && decide (n < 9223372036854775808)
  | .range a b c => domRange n a b c
  | .range2 a b => domRange n a b none
  | .ellipsis => false

/-- entries against axes: every axis is addressed (by an entry or by the ellipsis), every entry has an axis and lies in
    the per-axis Dom; an ellipsis that takes no axis is not in last position (the packed functions read `shape[dim]`) -/
def domGo (nEll : Nat) : List Nat → List Entry → Bool
  | [], [] => true
  | _ :: _, [] => false
  | [], _ :: _ => false
  | sh, .ellipsis :: es => decide (nEll ≤ sh.length) && domGo nEll (sh.drop nEll) es
  | n :: t, e :: es => domEntry n e && domGo nEll t es

/-- `Dom`: at most one ellipsis; without ellipsis as many entries as axes -/
def domEntries (shape : List Nat) (es : List Entry) : Bool :=
  decide (numEllipsis es ≤ 1) && decide (es.length - numEllipsis es ≤ shape.length) &&
  (decide (numEllipsis es = 1) || decide (es.length = shape.length)) &&
  domGo (shape.length - (es.length - 1)) shape es

/-! ### list facts -/

theorem inShape_append {a b : List Nat} {s t : List Nat} (h1 : InShape a s) (h2 : InShape b t) : InShape (a ++ b) (s ++ t) := by
  induction s generalizing a with
  | nil => cases a <;> simp_all [InShape]
  | cons x xs ih =>
    cases a with
    | nil => simp [InShape] at h1
    | cons y ys => simp only [InShape, List.cons_append] at h1 ⊢; exact ⟨h1.1, ih h1.2⟩

theorem inShape_split {d s t : List Nat} (h : InShape d (s ++ t)) :
    InShape (d.take s.length) s ∧ InShape (d.drop s.length) t := by
  induction s generalizing d with
  | nil => simpa [InShape] using h
  | cons x xs ih =>
    cases d with
    | nil => simp [InShape] at h
    | cons y ys =>
      simp only [List.cons_append, InShape] at h
      simp only [List.length_cons, List.take_succ_cons, List.drop_succ_cons, InShape]
      exact ⟨⟨h.1, (ih h.2).1⟩, (ih h.2).2⟩

theorem specShape_append (a b : List AxisSel) : specShape (a ++ b) = specShape a ++ specShape b := by
  induction a with
  | nil => rfl
  | cons x xs ih => cases x <;> simp [specShape, ih]

theorem specShape_full (s : List Nat) : specShape (s.map fullSel) = s := by
  induction s with
  | nil => rfl
  | cons x xs ih => simp [specShape, fullSel, ih]

/-- full slices copy the destination index -/
theorem specIdx_full (s : List Nat) (rest : List AxisSel) (d : List Nat) (hd : s.length ≤ d.length) :
    specIdx (s.map fullSel ++ rest) d = (specIdx rest (d.drop s.length)).map (d.take s.length ++ ·) := by
  induction s generalizing d with
  | nil => simp
  | cons x xs ih =>
    cases d with
    | nil => simp at hd
    | cons y ys =>
      simp only [List.map_cons, List.cons_append, fullSel, specIdx, List.length_cons, List.drop_succ_cons, List.take_succ_cons]
      rw [ih ys (by simpa using hd)]
      cases specIdx rest (List.drop xs.length ys) <;> simp

theorem stepVal_ne_zero_of_dom {n : Nat} {a b c : Option Int} (h : domRange n a b c = true) : stepVal c ≠ 0 := by
  obtain ⟨hbase, _⟩ := (domRange_iff n a b c).1 h
  rcases c with _ | c <;> dom_unpack2 hbase <;> simp only [stepVal] <;> omega

theorem intIndex_dom (n : Nat) (k : Int) (h1 : -(n : Int) ≤ k) (h2 : k < n) (h3 : n < 9223372036854775808) :
    intIndex n k = (if k < 0 then k + n else k) ∧ 0 ≤ intIndex n k ∧ intIndex n k < n := by
  unfold intIndex u64 absI
  split_ifs <;> omega

/-- the goal of the per-entry step, for a range entry -/
theorem range_entry_dom (n : Nat) (a b c : Option Int) (h : domRange n a b c = true) :
    ∃ l f k, pyAxis n a b c = some (l, f, k) ∧ sliceLen n a b c = some (l : Int) ∧
      ∀ j : Nat, j < l → computeIndex n a b c j = f + j * k ∧ 0 ≤ f + j * k ∧ f + j * k < n := by
  have hk := stepVal_ne_zero_of_dom h
  obtain ⟨hl, hi⟩ := range_dom n a b c h
  refine ⟨_, _, _, pyAxis_eq n a b c hk, ?_, ?_⟩
  · rw [hl, Int.toNat_of_nonneg (pyLen_nonneg _ _ _ hk)]
  · intro j hj
    exact ⟨hi j hj, pyAxis_inBounds n a b c hk j hj⟩

/-- what the induction carries for a shape suffix `sh` and the remaining entries `es` -/
def GoOk (nEll : Nat) (sh : List Nat) (es : List Entry) : Prop :=
  ∃ sels, specGo nEll sh es = some sels ∧ shapeGo nEll sh es = some (specShape sels) ∧
    (specShape sels).length + numInt es = sh.length ∧
    ∀ d, InShape d (specShape sels) → ∃ i, specIdx sels d = some i ∧ idxGo nEll sh d es = some i ∧ InShape i sh

theorem numInt_cons_int (k : Int) (es : List Entry) : numInt (.int k :: es) = numInt es + 1 := by
  simp [numInt, Entry.isInt, List.filter_cons]
theorem numInt_cons_ellipsis (es : List Entry) : numInt (.ellipsis :: es) = numInt es := by
  simp [numInt, Entry.isInt]
theorem numInt_cons_range (a b c : Option Int) (es : List Entry) : numInt (.range a b c :: es) = numInt es := by
  simp [numInt, Entry.isInt]
theorem numInt_cons_range2 (a b : Option Int) (es : List Entry) : numInt (.range2 a b :: es) = numInt es := by
  simp [numInt, Entry.isInt]

theorem go_range_step (nEll n : Nat) (t : List Nat) (es : List Entry) (e : Entry) (a b c : Option Int)
    (he : e = .range a b c ∨ (e = .range2 a b ∧ c = none))
    (hd : domRange n a b c = true) (ih : GoOk nEll t es) : GoOk nEll (n :: t) (e :: es) := by
  obtain ⟨l, f, k, hpy, hlen, hidx⟩ := range_entry_dom n a b c hd
  obtain ⟨sels, hs, hsh, hlenl, hi⟩ := ih
  have hspec : specEntry n e = some (.walk l f k) := by
    rcases he with rfl | ⟨rfl, rfl⟩ <;> simp [specEntry, hpy]
  have hel : e.len n = some (l : Int) := by
    rcases he with rfl | ⟨rfl, rfl⟩ <;> simp [Entry.len, hlen]
  have heidx : ∀ j : Nat, e.idx n j = computeIndex n a b c j := by
    intro j; rcases he with rfl | ⟨rfl, rfl⟩ <;> simp [Entry.idx]
  have hni : numInt (e :: es) = numInt es := by
    rcases he with rfl | ⟨rfl, rfl⟩ <;> simp [numInt, Entry.isInt]
  refine ⟨.walk l f k :: sels, ?_, ?_, ?_, ?_⟩
  · rcases he with rfl | ⟨rfl, rfl⟩ <;> simp [specGo, hspec, hs]
  · rcases he with rfl | ⟨rfl, rfl⟩ <;> simp [shapeGo, hel, hsh, specShape]
  · simp only [specShape, List.length_cons, hni]; omega
  · intro d hdin
    cases d with
    | nil => simp [specShape, InShape] at hdin
    | cons j d' =>
      simp only [specShape, InShape] at hdin
      obtain ⟨i', h1, h2, h3⟩ := hi d' hdin.2
      obtain ⟨hc, h0, hn⟩ := hidx j hdin.1
      refine ⟨(f + j * k).toNat :: i', ?_, ?_, ?_⟩
      · simp [specIdx, h1]
      · have : (e.idx n j).toNat = (f + j * k).toNat := by rw [heidx, hc]
        rcases he with rfl | ⟨rfl, rfl⟩ <;> simp [idxGo, h2, this]
      · simp only [InShape]; exact ⟨by omega, h3⟩

theorem go_dom (nEll : Nat) : ∀ (es : List Entry) (sh : List Nat), domGo nEll sh es = true → GoOk nEll sh es := by
  intro es
  induction es with
  | nil =>
    intro sh h
    cases sh with
    | cons n t => simp [domGo] at h
    | nil =>
      refine ⟨[], by simp [specGo], by simp [shapeGo, specShape], by simp [specShape, numInt], ?_⟩
      intro d hd
      cases d with
      | nil => exact ⟨[], by simp [specIdx], by simp [idxGo], by simp [InShape]⟩
      | cons _ _ => simp [specShape, InShape] at hd
  | cons e es ih =>
    intro sh h
    cases sh with
    | nil => simp [domGo] at h
    | cons n t =>
      cases e with
      | ellipsis =>
        simp only [domGo, Bool.and_eq_true, decide_eq_true_eq] at h
        obtain ⟨hle, hrest⟩ := h
        obtain ⟨sels, hs, hsh, hlenl, hi⟩ := ih _ hrest
        have hl : (n :: t).length = t.length + 1 := rfl
        have hdrop : ((n :: t).drop nEll).length = (n :: t).length - nEll := List.length_drop
        have htl : ((n :: t).take nEll).length = nEll := by rw [List.length_take]; omega
        refine ⟨((n :: t).take nEll).map fullSel ++ sels, ?_, ?_, ?_, ?_⟩
        · simp only [specGo, hle, if_true, hs, Option.map_some]
        · simp only [shapeGo, hle, if_true, hsh, Option.map_some, specShape_append, specShape_full]
        · rw [specShape_append, specShape_full, numInt_cons_ellipsis, List.length_append, htl]
          omega
        · intro d hdin
          rw [specShape_append, specShape_full] at hdin
          obtain ⟨hd1, hd2⟩ := inShape_split hdin
          rw [htl] at hd1 hd2
          obtain ⟨i', h1, h2, h3⟩ := hi _ hd2
          have hdl : nEll ≤ d.length := by
            have := hd1.length_eq
            simp only [List.length_take] at this
            omega
          refine ⟨d.take nEll ++ i', ?_, ?_, ?_⟩
          · rw [specIdx_full _ _ _ (by rw [List.length_take]; omega), htl, h1]; rfl
          · simp only [idxGo, hle, hdl, and_self, if_true, h2, Option.map_some]
          · have := inShape_append hd1 h3
            rwa [List.take_append_drop] at this
      | int k =>
        simp only [domGo, domEntry, Bool.and_eq_true, decide_eq_true_eq] at h
        obtain ⟨⟨⟨hk1, hk2⟩, hn⟩, hrest⟩ := h
        obtain ⟨sels, hs, hsh, hlenl, hi⟩ := ih _ hrest
        obtain ⟨hv, h0, hlt⟩ := intIndex_dom n k hk1 hk2 hn
        refine ⟨.pick (if k < 0 then k + n else k).toNat :: sels, ?_, ?_, ?_, ?_⟩
        · simp [specGo, specEntry, hk1, hk2, hs]
        · simp [shapeGo, hsh, specShape]
        · rw [numInt_cons_int]; simp only [specShape, List.length_cons]; omega
        · intro d hdin
          simp only [specShape] at hdin
          obtain ⟨i', h1, h2, h3⟩ := hi d hdin
          refine ⟨(if k < 0 then k + n else k).toNat :: i', ?_, ?_, ?_⟩
          · simp [specIdx, h1]
          · simp [idxGo, h2, hv]
          · simp only [InShape]; exact ⟨by rw [← hv]; omega, h3⟩
      | range a b c =>
        simp only [domGo, domEntry, Bool.and_eq_true] at h
        exact go_range_step nEll n t es _ a b c (Or.inl rfl) h.1 (ih _ h.2)
      | range2 a b =>
        simp only [domGo, domEntry, Bool.and_eq_true] at h
        exact go_range_step nEll n t es _ a b none (Or.inr ⟨rfl, rfl⟩) h.1 (ih _ h.2)

theorem numEllipsis_cons (e : Entry) (es : List Entry) :
    numEllipsis (e :: es) = numEllipsis es + (if e.isEllipsis then 1 else 0) := by
  unfold numEllipsis
  cases h : e.isEllipsis <;> simp [List.filter_cons, h]

/-- without an ellipsis among the entries the expansion count is irrelevant -/
theorem specGo_noEllipsis (a b : Nat) : ∀ (es : List Entry) (sh : List Nat), numEllipsis es = 0 →
    specGo a sh es = specGo b sh es := by
  intro es
  induction es with
  | nil => intro sh _; simp [specGo]
  | cons e es ih =>
    intro sh h
    rw [numEllipsis_cons] at h
    cases e with
    | ellipsis => simp [Entry.isEllipsis] at h
    | int k => cases sh <;> simp [specGo, ih _ (by simpa [Entry.isEllipsis] using h)]
    | range x y z => cases sh <;> simp [specGo, ih _ (by simpa [Entry.isEllipsis] using h)]
    | range2 x y => cases sh <;> simp [specGo, ih _ (by simpa [Entry.isEllipsis] using h)]

theorem padZeros_exact (l : List Nat) (n : Nat) (h : l.length = n) : padZeros n l = some l := by
  unfold padZeros
  rw [if_pos (by omega)]
  simp [h]

/-- MODEL = SPEC on Dom, packed encoding, any rank, any position of integers and of the ellipsis -/
theorem slice_dom (shape : List Nat) (es : List Entry) (h : domEntries shape es = true) :
    ∃ sels, specSlice shape es = some sels ∧ shapeSlice shape es = some (specShape sels) ∧
      ∀ d, InShape d (specShape sels) →
        ∃ i, specIdx sels d = some i ∧ sliceIdx shape es d = some i ∧ InShape i shape := by
  simp only [domEntries, Bool.and_eq_true, Bool.or_eq_true, decide_eq_true_eq] at h
  obtain ⟨⟨⟨h1, h2⟩, h3⟩, h4⟩ := h
  obtain ⟨sels, hs, hsh, hlen, hi⟩ := go_dom _ es shape h4
  refine ⟨sels, ?_, ?_, ?_⟩
  · unfold specSlice
    simp only
    rw [if_neg (by omega), ← hs]
    rcases h3 with h3 | h3
    · rw [h3]
    · by_cases h0 : numEllipsis es = 0
      · exact specGo_noEllipsis _ _ es shape h0
      · have : numEllipsis es = 1 := by omega
        rw [this]
  · unfold shapeSlice
    simp only
    rw [if_neg (by omega), if_neg (by omega), hsh]
    exact padZeros_exact _ _ (by omega)
  · intro d hd
    obtain ⟨i, a1, a2, a3⟩ := hi d hd
    refine ⟨i, a1, ?_, a3⟩
    unfold sliceIdx
    simp only
    rw [if_neg (by omega), a2]
    exact padZeros_exact _ _ a3.length_eq


end NmVerif.Slice
