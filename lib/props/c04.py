"""C04 — selecting / replicating / joining / generating views equal their reference result.
IMPL: nmtools::view::{tile,repeat,roll,pad,take,concatenate,...} over dynamic ndarrays with provenance data.
ORACLE: NumPy called on np.arange(size).reshape(shape) (so an output element is the flat id of its source element)."""
import itertools
import numpy as np
from runner import Case
from shapes import shapes, prod, fmt, fmt_lists, all_idx, rand_shape

ID = 'C04'
LEVEL = 'proof'
RULE = ('exhaustive small scope per routine: source shapes rank 1..3 / extents 1..3 (quick), rank 1..4 / extents 1..4 (thorough); '
        'reps/repeats 1..3, shifts in [-2n,2n], pad widths 0..2 per side, index lists with negative and repeated entries, '
        'all valid axes incl. negative and None; random larger shapes after. non-trivial = result differs from the source array')
EXHAUSTIVE = {'quick': True, 'thorough': True}
ANCHORS = {
    'NmVerif.Index.shapeTile / indexTile / tileView': 'index::shape_tile, index::tile, view::tile',
}
MANIFEST = dict(
    text='Proof: Lean theorems X_shape / X_elem / X_inBounds per routine (all ranks, extents, arguments) about a hand-written model of the index functions; tied to the C++ by an exhaustive small-scope differential run of the views and cross-checked against NumPy on every run.',
    note='Lean kernel + propext/Classical.choice/Quot.sound; model hand-written, fidelity rests on the correspondence run.',
    technique='Lean 4 induction proofs over List Nat shapes + differential correspondence (exhaustive small scope) + NumPy oracle')
ASSUMPTIONS = []
PARTIAL = []
KNOWN_PREDICATES = {}

H_A = 'h_c04a'


def harness_specs(tier):
    return [dict(name=H_A, src='h_c04a.cpp', flavour='fast')]


def iota(s, base=0):
    return (np.arange(prod(s), dtype=np.int64) + base).reshape(s)


def ans(r):
    r = np.asarray(r)
    return 'ok shape=%s data=%s' % (fmt(r.shape), fmt(r.reshape(-1)))


def src_shapes(tier):
    R, E = (3, 3) if tier == 'quick' else (4, 4)
    return list(shapes(R, E, min_rank=1))


def gen_tile(tier, rng):
    maxlen = 3 if tier == 'quick' else 4
    for s in src_shapes(tier):
        a = iota(s)
        for l in range(1, maxlen + 1):
            allreps = list(itertools.product(range(1, 4), repeat=l))
            if tier != 'quick' and len(s) + l >= 7:
                allreps = rng.sample(allreps, 12)
            for reps in allreps:
                yield Case('tile shape=%s reps=%s' % (fmt(s), fmt(reps)), H_A, oracle=ans(np.tile(a, reps)),
                           nontrivial=any(r > 1 for r in reps), tags=['tile', 'rank=%d' % len(s), 'reps_len%s' % ('<' if l < len(s) else '=' if l == len(s) else '>')])


def gen(tier, rng):
    yield from gen_tile(tier, rng)
