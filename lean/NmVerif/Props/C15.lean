import NmVerif.Index.Checked
import NmVerif.Lemmas.CheckedOps
import NmVerif.Props.C03
import NmVerif.Props.C04
import NmVerif.Props.C06
import NmVerif.Props.C07
import Mathlib.Tactic.Ring
/-
  C15 — Invalid arguments are reported as 'Nothing', never as garbage or a crash.
-/
namespace NmVerif.Props.C15
open NmVerif NmVerif.Checked NmVerif.Index

/-- an empty optional fed into any further stage stays empty, at any depth: the pipeline has a value
    iff NO stage failed -/
theorem nothing_propagates (p : Pipe) : p.denote = none ↔ p.hasFailedStage := by
  induction p with
  | leaf s => simp [Pipe.denote, Pipe.hasFailedStage]
  | nothing => simp [Pipe.denote, Pipe.hasFailedStage]
  | unary f x ih =>
    simp only [Pipe.denote, Pipe.hasFailedStage]
    cases hx : x.denote with
    | none => simp [ih.1 hx]
    | some s =>
      have : ¬ x.hasFailedStage := fun h => by rw [ih.2 h] at hx; cases hx
      simp [this]
  | binary f x y ihx ihy =>
    simp only [Pipe.denote, Pipe.hasFailedStage]
    cases hx : x.denote with
    | none => simp [ihx.1 hx]
    | some a =>
      have hnx : ¬ x.hasFailedStage := fun h => by rw [ihx.2 h] at hx; cases hx
      cases hy : y.denote with
      | none => simp [ihy.1 hy]
      | some b =>
        have hny : ¬ y.hasFailedStage := fun h => by rw [ihy.2 h] at hy; cases hy
        simp [hnx, hny]

/-- normalize_axis reports Nothing exactly for axes outside [-ndim, ndim) -/
theorem normalizeAxis_isSome_iff (ndim : Nat) (a : Int) :
    (Checked.normalizeAxis ndim a).isSome ↔ (-(ndim : Int) ≤ a ∧ a < ndim) := by
  unfold Checked.normalizeAxis; split <;> simp_all

theorem normalizeAxis_lt (ndim : Nat) (a : Int) (k : Nat) (h : Checked.normalizeAxis ndim a = some k) : k < ndim := by
  unfold Checked.normalizeAxis at h
  split at h
  · simp only [Option.some.injEq] at h
    subst h
    split <;> omega
  · cases h

theorem prodOthers_pos (dst : List Int) (h : ∀ d ∈ dst, d = -1 ∨ 0 < d) : 0 < prodOthers dst := by
  induction dst with
  | nil => simp [prodOthers]
  | cons x xs ih =>
    have hxs : ∀ d ∈ xs, d = -1 ∨ 0 < d := fun d hd => h d (by simp [hd])
    unfold prodOthers
    split
    · exact ih hxs
    · rename_i hx
      rcases h x (by simp) with h1 | h1
      · exact absurd h1 hx
      · exact Int.mul_pos h1 (ih hxs)

theorem any_bad_iff (dst : List Int) : dst.any (fun d => d ≠ -1 ∧ d ≤ 0) = true ↔ ¬ ∀ d ∈ dst, d = -1 ∨ 0 < d := by
  simp only [List.any_eq_true, decide_eq_true_eq]
  constructor
  · rintro ⟨d, hd, h1, h2⟩ hall
    rcases hall d hd with h | h <;> omega
  · intro h
    apply Classical.byContradiction
    intro hne
    apply h
    intro d hd
    by_cases h1 : d = -1
    · exact Or.inl h1
    · right
      apply Classical.byContradiction
      intro h2
      exact hne ⟨d, hd, h1, by omega⟩

/-- the five checks, in the order the code performs them -/
theorem shapeReshape_isSome (src : Shape) (dst : List Int) :
    (Checked.shapeReshape src dst).isSome ↔
      (¬ countMinusOne dst > 1 ∧ ¬ dst.any (fun d => d ≠ -1 ∧ d ≤ 0) = true ∧
       ¬ (countMinusOne dst = 0 ∧ prod src ≠ dstNumel dst) ∧ dstNumel dst ≠ 0 ∧ prod src % dstNumel dst = 0) := by
  unfold Checked.shapeReshape
  by_cases h1 : countMinusOne dst > 1
  · rw [if_pos h1]; simp only [Option.isSome_none]; constructor
    · intro h; cases h
    · intro h; exact absurd h1 h.1
  · rw [if_neg h1]
    by_cases h2 : dst.any (fun d => d ≠ -1 ∧ d ≤ 0) = true
    · rw [if_pos h2]; simp only [Option.isSome_none]; constructor
      · intro h; cases h
      · intro h; exact absurd h2 h.2.1
    · rw [if_neg h2]
      by_cases h3 : countMinusOne dst = 0 ∧ prod src ≠ dstNumel dst
      · rw [if_pos h3]; simp only [Option.isSome_none]; constructor
        · intro h; cases h
        · intro h; exact absurd h3 h.2.2.1
      · rw [if_neg h3]
        by_cases h4 : dstNumel dst = 0
        · rw [if_pos h4]; simp only [Option.isSome_none]; constructor
          · intro h; cases h
          · intro h; exact absurd h4 h.2.2.2.1
        · rw [if_neg h4]
          by_cases h5 : prod src % dstNumel dst ≠ 0
          · rw [if_pos h5]; simp only [Option.isSome_none]; constructor
            · intro h; cases h
            · intro h; exact absurd h.2.2.2.2 h5
          · rw [if_neg h5]; simp only [Option.isSome_some, true_iff]
            exact ⟨h1, h2, h3, h4, by omega⟩

/-- reshape reports Nothing EXACTLY when the arguments are invalid (more than one -1, a zero or negative extent,
    a mismatching element count, a non-dividing inferred extent) — for every source shape and every non-empty target -/
theorem shapeReshape_isSome_iff (src : Shape) (dst : List Int) (hne : dst ≠ []) :
    (Checked.shapeReshape src dst).isSome ↔ ValidReshape src dst := by
  rw [shapeReshape_isSome]
  have hemp : dst.isEmpty = false := by cases dst <;> simp_all
  have hdn : dstNumel dst = (prodOthers dst).toNat := by simp [dstNumel, hemp]
  rw [hdn]
  unfold ValidReshape
  constructor
  · rintro ⟨h1, h2, h3, h4, h5⟩
    have hall : ∀ d ∈ dst, d = -1 ∨ 0 < d := by
      apply Classical.byContradiction; intro h; exact h2 ((any_bad_iff dst).2 h)
    have hpo := prodOthers_pos dst hall
    have hcast : ((prodOthers dst).toNat : Int) = prodOthers dst := Int.toNat_of_nonneg (by omega)
    refine ⟨by omega, hall, ?_, ?_⟩
    · intro hc0
      have : prod src = (prodOthers dst).toNat := by
        apply Classical.byContradiction; intro hn; exact h3 ⟨hc0, hn⟩
      rw [this, hcast]
    · intro _
      rw [← hcast, Int.natCast_dvd_natCast]
      exact Nat.dvd_of_mod_eq_zero h5
  · rintro ⟨h1, hall, h3, h4⟩
    have hpo := prodOthers_pos dst hall
    have hcast : ((prodOthers dst).toNat : Int) = prodOthers dst := Int.toNat_of_nonneg (by omega)
    have hbad : ¬ dst.any (fun d => d ≠ -1 ∧ d ≤ 0) = true := fun h => (any_bad_iff dst).1 h hall
    refine ⟨by omega, hbad, ?_, by omega, ?_⟩
    · rintro ⟨hc0, hn⟩
      apply hn
      have := h3 hc0
      omega
    · by_cases hc0 : countMinusOne dst = 0
      · have := h3 hc0
        have : prod src = (prodOthers dst).toNat := by omega
        rw [this]; exact Nat.mod_self _
      · have hd := h4 (by omega)
        rw [← hcast, Int.natCast_dvd_natCast] at hd
        exact Nat.mod_eq_zero_of_dvd hd

/-- an accepted reshape has positive extents and exactly the source's element count: never garbage -/
theorem shapeReshape_sound (src : Shape) (hs : Pos src) (dst : List Int) (hne : dst ≠ []) (t : Shape)
    (h : Checked.shapeReshape src dst = some t) : prod t = prod src ∧ Pos t ∧ t.length = dst.length := by
  have hv := (shapeReshape_isSome_iff src dst hne).1 (by rw [h]; rfl)
  have hchk := (shapeReshape_isSome src dst).1 (by rw [h]; rfl)
  obtain ⟨c1, hall, hv0, hv1⟩ := hv
  obtain ⟨h1, h2, h3, h4, h5⟩ := hchk
  unfold Checked.shapeReshape at h
  rw [if_neg h1, if_neg h2, if_neg h3, if_neg h4, if_neg (by omega)] at h
  simp only [Option.some.injEq] at h
  subst h
  have hpo := prodOthers_pos dst hall
  have hemp : dst.isEmpty = false := by cases dst <;> simp_all
  have hdn : dstNumel dst = (prodOthers dst).toNat := by simp [dstNumel, hemp]
  refine ⟨?_, ?_, by simp⟩
  · -- product of the result = product of the source
    have key : ∀ (l : List Int) (q : Nat), (∀ d ∈ l, d = -1 ∨ 0 < d) →
        (prod (l.map (fun d => if d = -1 then q else d.toNat)) : Int) = prodOthers l * (q : Int) ^ countMinusOne l := by
      intro l q hl
      induction l with
      | nil => simp [prod, prodOthers, countMinusOne]
      | cons x xs ih =>
        have hxs : ∀ d ∈ xs, d = -1 ∨ 0 < d := fun d hd => hl d (by simp [hd])
        by_cases hx : x = -1
        · simp only [hx, List.map_cons, if_true, prod, prodOthers, countMinusOne]
          rw [Int.natCast_mul, ih hxs]; ring
        · have hxp : 0 < x := by rcases hl x (by simp) with h | h; exact absurd h hx; exact h
          simp only [hx, List.map_cons, if_false, prod, prodOthers, countMinusOne]
          rw [Int.natCast_mul, ih hxs, Int.toNat_of_nonneg (by omega)]; ring
    have hk := key dst (prod src / dstNumel dst) hall
    have hcast : ((prodOthers dst).toNat : Int) = prodOthers dst := Int.toNat_of_nonneg (by omega)
    by_cases hc0 : countMinusOne dst = 0
    · rw [hc0] at hk
      have e := hv0 hc0
      have : (prod (dst.map (fun d => if d = -1 then prod src / dstNumel dst else d.toNat)) : Int) = (prod src : Int) := by
        rw [hk, ← e]; simp
      exact_mod_cast this
    · have hc1 : countMinusOne dst = 1 := by omega
      rw [hc1] at hk
      have hmul : dstNumel dst * (prod src / dstNumel dst) = prod src := Nat.mul_div_cancel' (Nat.dvd_of_mod_eq_zero h5)
      have : (prod (dst.map (fun d => if d = -1 then prod src / dstNumel dst else d.toNat)) : Int) = (prod src : Int) := by
        rw [hk, ← hcast, ← hdn, pow_one, ← Int.natCast_mul, hmul]
      exact_mod_cast this
  · intro x hx
    simp only [List.mem_map] at hx
    obtain ⟨d, hd, rfl⟩ := hx
    by_cases hd1 : d = -1
    · simp only [hd1, if_true]
      have : dstNumel dst ≤ prod src := Nat.le_of_dvd (prod_pos hs) (Nat.dvd_of_mod_eq_zero h5)
      exact Nat.div_pos this (by omega)
    · simp only [hd1, if_false]
      rcases hall d hd with h | h
      · exact absurd h hd1
      · omega

/-! ### the other checked operations: validity theorems proved next to their models, re-exported here -/

/-- broadcasting (any number of shapes) reports failure exactly when the shapes are NumPy-incompatible -/
theorem broadcast_isSome_iff (ss : List Shape) (hne : ss ≠ []) (hp : C06.AllPos ss) :
    (broadcastShape ss).isSome ↔ Compatible ss := C06.broadcast_isSome_iff_compatible ss hne hp

/-- broadcast_to is refused exactly when the source cannot be broadcast to the target -/
theorem broadcastTo_isSome_iff (src dst : Shape) : (broadcastToView src dst).isSome ↔ BroadcastableTo src dst :=
  C06.broadcastTo_isSome_iff src dst

/-- a binary element-wise view is Nothing exactly for incompatible operand shapes -/
theorem ufunc2_none_iff {α β γ : Type} (op : α → β → γ) (a : Arr α) (b : Arr β) (ha : Pos a.shape) (hb : Pos b.shape) :
    ufunc2 op a b = none ↔ ¬ Compatible [a.shape, b.shape] := C07.ufunc2_none_iff_incompatible op a b ha hb

/-- pad refuses a width list that does not have two entries per axis, accepts every other -/
theorem pad_isSome_iff (s w : List Nat) : (padView s w).isSome ↔ 2 * s.length = w.length := by
  constructor
  · intro h
    apply Classical.byContradiction
    intro hne
    rw [C04.pad_nothing s w hne] at h; cases h
  · intro h
    have hb : (w.take s.length).length = s.length := by simp; omega
    have ha : (w.drop s.length).length = s.length := by simp; omega
    obtain ⟨v, hv, _⟩ := C04.pad_shape s (w.take s.length) (w.drop s.length) hb ha
    rw [List.take_append_drop] at hv
    rw [hv]; rfl

/-- roll refuses an axis outside [-dim, dim) -/
theorem roll_invalid_axis_nothing (s : Shape) (shift axis : Int) (h : axis < -(s.length : Int) ∨ (s.length : Int) ≤ axis) :
    rollView s shift axis = none := C04.roll_nothing s shift axis h

/-! ### run-time argument validation of the rearranging / replicating / joining views
    (`…Checked` = the checks of the view constructor in the order of the C++ followed by the value model of the owning
    property, see Index/CheckedOps.lean).  Each theorem: the constructor yields a view EXACTLY on NumPy's valid
    arguments, and on those it is the unchecked value model (valid calls are unchanged). -/

/-- NumPy accepts `np.transpose(a, axes)`: the axes, each in `[-dim, dim)`, are a permutation of `0..dim-1` once
    normalised -/
def ValidTranspose (dim : Nat) (ax : List Int) : Prop := ∃ p, normalizeAxes dim ax = some p ∧ p.Perm (List.range dim)

instance (dim : Nat) (ax : List Int) : Decidable (ValidTranspose dim ax) :=
  decidable_of_iff _ (transposeAxesOk_iff dim ax)

/-- transpose with run-time axes yields a view exactly for (spellings of) permutations of the axes — a repeated axis,
    an axis outside `[-dim, dim)`, too few or too many axes give Nothing — and then it is the view of C03 -/
theorem transpose_isSome_iff_valid (src : Shape) (ax : List Int) :
    ((transposeChecked src ax).isSome ↔ ValidTranspose src.length ax) ∧
    (ValidTranspose src.length ax → transposeChecked src ax = transposeView src (some ax)) := by
  unfold transposeChecked
  by_cases h : transposeAxesOk src.length ax = true
  · have hv := (transposeAxesOk_iff _ _).1 h
    obtain ⟨p, hn, hperm⟩ := hv
    obtain ⟨v, hview, _⟩ := C03.transpose_eq_spec src ax p hn hperm
    rw [if_pos h]
    exact ⟨⟨fun _ => ⟨p, hn, hperm⟩, fun _ => by rw [hview]; rfl⟩, fun _ => rfl⟩
  · have hnv : ¬ ValidTranspose src.length ax := fun hv => h ((transposeAxesOk_iff _ _).2 hv)
    rw [if_neg h]
    exact ⟨⟨fun hs => (by cases hs), fun hv => absurd hv hnv⟩, fun hv => absurd hv hnv⟩

example : ValidTranspose 3 [-1, 0, 1] ∧ (transposeChecked [2,3,4] [-1,0,1]).map (·.dst) = some [4,2,3] := by decide
example : ¬ ValidTranspose 2 [0, 0] ∧ ¬ ValidTranspose 2 [0, 2] ∧ ¬ ValidTranspose 2 [0, -3] ∧ ¬ ValidTranspose 2 [0] ∧
    ¬ ValidTranspose 2 [1, -1] ∧ (transposeChecked [2,3] [0,0]).isSome = false := by decide

/-- swapaxes yields a view exactly when both axes lie in `[-dim, dim)`, and then it is the view of C03 -/
theorem swapaxes_isSome_iff_valid (src : Shape) (a1 a2 : Int) :
    ((swapaxesChecked src a1 a2).isSome ↔
      ((-(src.length : Int) ≤ a1 ∧ a1 < src.length) ∧ (-(src.length : Int) ≤ a2 ∧ a2 < src.length))) ∧
    ((swapaxesChecked src a1 a2).isSome → swapaxesChecked src a1 a2 = swapaxesView src a1 a2) := by
  unfold swapaxesChecked
  by_cases h : (axisInRange src.length a1 && axisInRange src.length a2) = true
  · have h' := h
    simp only [Bool.and_eq_true] at h'
    have hs := swapaxesView_isSome src a1 a2 h'.1 h'.2
    rw [if_pos h]
    exact ⟨⟨fun _ => ⟨(axisInRange_iff _ _).1 h'.1, (axisInRange_iff _ _).1 h'.2⟩, fun _ => hs⟩, fun _ => rfl⟩
  · rw [if_neg h]
    refine ⟨⟨fun hs => (by cases hs), fun hv => ?_⟩, fun hs => by cases hs⟩
    exact absurd (by simp only [Bool.and_eq_true]; exact ⟨(axisInRange_iff _ _).2 hv.1, (axisInRange_iff _ _).2 hv.2⟩) h

example : (swapaxesChecked [2,3,4] 0 (-1)).map (·.dst) = some [4,3,2] ∧ (swapaxesChecked [2,3] 0 2).isSome = false ∧
    (swapaxesChecked [2,3] (-3) 0).isSome = false := by decide

/-- NumPy accepts `np.expand_dims(a, axes)`: every axis in `[-n, n)` for `n = ndim + len(axes)`, none repeated -/
def ValidExpandDims (dim : Nat) (ax : List Int) : Prop :=
  ∃ nax, normalizeAxes (dim + ax.length) ax = some nax ∧ nax.Nodup

instance (dim : Nat) (ax : List Int) : Decidable (ValidExpandDims dim ax) := by
  unfold ValidExpandDims
  cases h : normalizeAxes (dim + ax.length) ax with
  | none => exact isFalse (by rintro ⟨_, h', _⟩; cases h')
  | some nax =>
    exact decidable_of_iff nax.Nodup ⟨fun hn => ⟨nax, rfl, hn⟩, by rintro ⟨_, h', hn⟩; cases h'; exact hn⟩

/-- expand_dims (int or tuple axis) yields a view exactly on NumPy's valid axes, and then it is the view of C03 -/
theorem expandDims_isSome_iff_valid (src : Shape) (hs : Pos src) (ax : List Int) :
    ((expandDimsChecked src ax).isSome ↔ ValidExpandDims src.length ax) ∧
    (ValidExpandDims src.length ax → expandDimsChecked src ax = expandDimsView src ax) := by
  unfold expandDimsChecked ValidExpandDims
  cases hn : normalizeAxes (src.length + ax.length) ax with
  | none =>
    refine ⟨⟨fun h => (by cases h), ?_⟩, ?_⟩
    · rintro ⟨_, h', _⟩; cases h'
    · rintro ⟨_, h', _⟩; cases h'
  | some nax =>
    by_cases hd : pairwiseDistinct nax = true
    · have hnd := (pairwiseDistinct_iff nax).1 hd
      obtain ⟨v, hv, _⟩ := C03.expandDims_eq_spec (⟨src, fun _ => (0 : Nat)⟩ : Arr Nat) 0 ax nax hn hnd hs
      have hv' : expandDimsView src ax = some v := hv
      show ((if pairwiseDistinct nax = true then expandDimsView src ax else none).isSome ↔ _) ∧ _
      rw [if_pos hd]
      exact ⟨⟨fun _ => ⟨nax, rfl, hnd⟩, fun _ => by rw [hv']; rfl⟩, fun _ => by simp only [if_pos hd]⟩
    · have hnn : ¬ nax.Nodup := fun h => hd ((pairwiseDistinct_iff nax).2 h)
      show ((if pairwiseDistinct nax = true then expandDimsView src ax else none).isSome ↔ _) ∧ _
      rw [if_neg hd]
      refine ⟨⟨fun h => (by cases h), ?_⟩, ?_⟩
      · rintro ⟨n2, h', hn2⟩
        cases h'
        exact absurd hn2 hnn
      · rintro ⟨n2, h', hn2⟩
        cases h'
        exact absurd hn2 hnn

example : ValidExpandDims 2 [0, -1] ∧ (expandDimsChecked [2,3] [0,-1]).map (·.dst) = some [1,2,3,1] := by decide
example : ¬ ValidExpandDims 2 [3] ∧ ¬ ValidExpandDims 2 [-4] ∧ ¬ ValidExpandDims 2 [0, 0] ∧ ¬ ValidExpandDims 2 [0, -4] ∧
    (expandDimsChecked [2,3] [3]).isSome = false ∧ (expandDimsChecked [2,3] [1,-3]).isSome = false := by decide

/-- repeat (scalar count, run-time integer axis) yields a view exactly for an axis in `[-dim, dim)`; then it is the
    view of C04 -/
theorem repeat_isSome_iff_valid (src : Shape) (r : Nat) (axis : Int) :
    ((repeatChecked src r axis).isSome ↔ (-(src.length : Int) ≤ axis ∧ axis < src.length)) ∧
    ((repeatChecked src r axis).isSome → repeatChecked src r axis = repeatView src r (some axis)) := by
  unfold repeatChecked
  by_cases h : axisInRange src.length axis = true
  · rw [if_pos h]
    exact ⟨⟨fun _ => (axisInRange_iff _ _).1 h, fun _ => repeatView_isSome src r axis h⟩, fun _ => rfl⟩
  · rw [if_neg h]
    exact ⟨⟨fun hs => (by cases hs), fun hv => absurd ((axisInRange_iff _ _).2 hv) h⟩, fun hs => by cases hs⟩

/-- repeat with one count per entry of the axis: additionally the number of counts must be the extent of the axis -/
theorem repeatList_isSome_iff_valid (src : Shape) (rs : List Nat) (axis : Int) :
    ((repeatListChecked src rs axis).isSome ↔
      ∃ k, normalizeAxis1 axis src.length = some k ∧ src[k]? = some rs.length) ∧
    ((repeatListChecked src rs axis).isSome → repeatListChecked src rs axis = repeatListView src rs axis) := by
  unfold repeatListChecked
  by_cases h : axisInRange src.length axis = true
  · obtain ⟨k, hk, hlt⟩ := normalizeAxis1_of_inRange _ _ h
    rw [if_pos h, atPy_of_normalizeAxis1 src axis k hk]
    by_cases he : src[k]? = some rs.length
    · rw [if_pos he]
      exact ⟨⟨fun _ => ⟨k, hk, he⟩, fun _ => repeatListView_isSome src rs axis h⟩, fun _ => rfl⟩
    · rw [if_neg he]
      refine ⟨⟨fun hs => (by cases hs), ?_⟩, fun hs => by cases hs⟩
      rintro ⟨k', hk', he'⟩
      rw [hk] at hk'; cases hk'
      exact absurd he' he
  · rw [if_neg h]
    refine ⟨⟨fun hs => (by cases hs), ?_⟩, fun hs => by cases hs⟩
    rintro ⟨k, hk, _⟩
    exact absurd (normalizeAxis1_isSome_inRange _ _ k hk) h

example : (repeatChecked [2,3] 2 (-1)).map (·.dst) = some [2,6] ∧ (repeatChecked [2,3] 2 2).isSome = false ∧
    (repeatChecked [2,3] 2 (-3)).isSome = false := by decide
example : (repeatListChecked [2,3] [1,0,2] 1).map (·.dst) = some [2,3] ∧ (repeatListChecked [2,3] [1,2] 1).isSome = false ∧
    (repeatListChecked [2,3] [1,2] 2).isSome = false := by decide

instance (a b : Shape) (axis : Int) : Decidable (ValidConcat a b axis) := decidable_of_iff _ (concatenateOk_iff a b axis)

/-- concatenate yields a view exactly when NumPy accepts the operands (`ValidConcat`: equal ranks, axis in
    `[-dim, dim)`, equal extents off the axis); then it is the view of C04 -/
theorem concatenate_isSome_iff_valid (a b : Shape) (axis : Int) :
    ((concatenateChecked a b axis).isSome ↔ ValidConcat a b axis) ∧
    (ValidConcat a b axis → concatenateChecked a b axis = concatenateView a b (some axis)) := by
  unfold concatenateChecked
  by_cases h : concatenateOk a b axis = true
  · have hv := (concatenateOk_iff a b axis).1 h
    rw [if_pos h]
    exact ⟨⟨fun _ => hv, fun _ => rfl⟩, fun _ => rfl⟩
  · have hnv : ¬ ValidConcat a b axis := fun hv => h ((concatenateOk_iff a b axis).2 hv)
    rw [if_neg h]
    exact ⟨⟨fun hs => (by cases hs), fun hv => absurd hv hnv⟩, fun hv => absurd hv hnv⟩

example : ValidConcat [2,3] [4,3] (-2) ∧ (concatenateChecked [2,3] [4,3] (-2)).map (·.dst) = some [6,3] := by decide
example : ¬ ValidConcat [2,3] [1,2] 0 ∧ ¬ ValidConcat [2,3] [3] 0 ∧ ¬ ValidConcat [2,3] [2,3] 2 ∧ ¬ ValidConcat [2,3] [2,3] (-3) ∧
    (concatenateChecked [2,3] [2,3] 2).isSome = false := by decide

/-! the behaviours the property singles out, on concrete arguments (also non-vacuity of `ValidReshape`) -/
example : Checked.shapeReshape [2,3] [3,-1] = some [3,2] ∧ ValidReshape [2,3] [3,-1] := by decide
example : Checked.shapeReshape [2,3] [0,-1] = none ∧ Checked.shapeReshape [2,3] [-2,-3] = none ∧ Checked.shapeReshape [2,3] [-1,-1] = none ∧
    Checked.shapeReshape [2,3] [4,-1] = none ∧ Checked.shapeReshape [2,3] [5] = none := by decide

end NmVerif.Props.C15

