import NmVerif.Simd.Loop
import NmVerif.Simd.LoopLemmas
/-
  Algebra of lane-wise accumulation over a commutative monoid, and the fold lemmas of the
  `out_size == 1` reduction (Simd/Loop.lean `simdReduceAll`).  Helper lemmas only.
-/
namespace NmVerif.Simd
open NmVerif

variable {α : Type}

/-- `(op, e)` is a commutative monoid: exactly what "equal up to re-association" needs -/
structure IsCommMonoid (op : α → α → α) (e : α) : Prop where
  assoc : ∀ a b c, op (op a b) c = op a (op b c)
  comm : ∀ a b, op a b = op b a
  id_left : ∀ a, op e a = a

namespace IsCommMonoid
variable {op : α → α → α} {e : α}

theorem id_right (h : IsCommMonoid op e) (a : α) : op a e = a := by rw [h.comm, h.id_left]

/-- the monoid sum of a list: `foldl op e` -/
def msum (op : α → α → α) (e : α) (l : List α) : α := l.foldl op e

theorem foldl_eq (h : IsCommMonoid op e) (x : α) (l : List α) : l.foldl op x = op x (msum op e l) := by
  induction l generalizing x with
  | nil => simp [msum, h.id_right]
  | cons y ys ih =>
    simp only [List.foldl_cons, msum]
    rw [ih (op x y), ih (op e y), h.id_left, h.assoc]

theorem msum_cons (h : IsCommMonoid op e) (x : α) (l : List α) : msum op e (x :: l) = op x (msum op e l) := by
  show (x :: l).foldl op e = op x (msum op e l)
  rw [List.foldl_cons, h.id_left, h.foldl_eq]

theorem msum_append (h : IsCommMonoid op e) (a b : List α) :
    msum op e (a ++ b) = op (msum op e a) (msum op e b) := by
  simp only [msum, List.foldl_append]
  exact h.foldl_eq _ _

theorem msum_replicate_id (h : IsCommMonoid op e) (n : Nat) : msum op e (List.replicate n e) = e := by
  induction n with
  | zero => rfl
  | succ n ih => rw [List.replicate_succ, h.msum_cons, ih, h.id_left]

/-- lane-wise accumulation commutes with the horizontal sum -/
theorem msum_zipWith (h : IsCommMonoid op e) :
    ∀ (xs ys : List α), xs.length = ys.length →
      msum op e (List.zipWith op xs ys) = op (msum op e xs) (msum op e ys)
  | [], [], _ => by simp [msum, h.id_left]
  | x :: xs, y :: ys, hl => by
    simp only [List.zipWith_cons_cons]
    rw [h.msum_cons, h.msum_cons, h.msum_cons, msum_zipWith h xs ys (by simpa using hl)]
    rw [h.assoc, h.assoc]
    congr 1
    rw [← h.assoc, ← h.assoc, h.comm y]
  | [], _ :: _, hl => by simp at hl
  | _ :: _, [], hl => by simp at hl

end IsCommMonoid

open IsCommMonoid

/-- leftover loop of the full reduction: a plain left fold over the remaining elements -/
theorem tail_reduce_fold (op : α → α → α) (data : List α) :
    ∀ (j s : Nat) (init : α), s + j = data.length →
      (List.range' s j).foldlM (fun res i => do let x ← readAt data i; pure (op res x)) init
        = some ((data.drop s).foldl op init) := by
  intro j
  induction j with
  | zero => intro s init h; simp [List.drop_of_length_le (by omega : data.length ≤ s)]
  | succ j ih =>
    intro s init h
    have hlt : s < data.length := by omega
    rw [List.range'_succ, List.foldlM_cons]
    have hr : readAt data s = some data[s] := by simp [readAt, List.getElem?_eq_getElem hlt]
    rw [hr, List.drop_eq_getElem_cons hlt, List.foldl_cons]
    exact ih (s+1) (op init data[s]) (by omega)

/-- packed loop of the full reduction: the register's horizontal sum is the sum of the chunks seen so far -/
theorem packed_reduce_fold {op : α → α → α} {e : α} (h : IsCommMonoid op e)
    (packOp : List α → List α → List α) (N : Nat)
    (hp : ∀ xs ys, xs.length = N → ys.length = N → packOp xs ys = List.zipWith op xs ys)
    (data : List α) :
    ∀ m, m * N ≤ data.length →
      ∃ reg, ((List.range m).map (· * N)).foldlM (fun reg i => do let x ← loadu data i N; pure (packOp reg x))
                (List.replicate N e) = some reg
        ∧ reg.length = N ∧ msum op e reg = msum op e (data.take (m * N)) := by
  intro m
  induction m with
  | zero =>
    intro _
    refine ⟨List.replicate N e, by simp, by simp, ?_⟩
    rw [h.msum_replicate_id]; simp [msum]
  | succ m ih =>
    intro hm
    rw [Nat.succ_mul] at hm
    obtain ⟨reg, hf, hlen, hsum⟩ := ih (by omega)
    have hx : ((data.drop (m * N)).take N).length = N := by rw [List.length_take, List.length_drop]; omega
    refine ⟨packOp reg ((data.drop (m * N)).take N), ?_, ?_, ?_⟩
    · rw [List.range_succ, List.map_append, List.foldlM_append, hf]
      simp [loadu_eq hm]
    · rw [hp _ _ hlen hx, List.length_zipWith, hlen, hx, Nat.min_self]
    · rw [hp _ _ hlen hx, h.msum_zipWith _ _ (by rw [hlen, hx]), hsum, Nat.succ_mul, List.take_add, h.msum_append]

end NmVerif.Simd
