import NmVerif.Index.Capacity
import NmVerif.Index.Reshape
import NmVerif.Index.SlidingWindow
import NmVerif.Index.Take
import NmVerif.Index.Slice
import NmVerif.Index.Transpose
import NmVerif.Index.Roll
import NmVerif.Index.Resize
import NmVerif.Index.Expand
import NmVerif.Index.Diagonal
import NmVerif.Index.Matmul
import NmVerif.NN.Pool
import NmVerif.Lemmas.Rearrange
import NmVerif.Lemmas.SelCommon
/-
  Length lemmas behind the capacity theorems of Props/C02.lean: how many entries each mirrored index function writes
  into its result container.
-/
namespace NmVerif.CapL
open NmVerif NmVerif.Index

/-! ### expand_dims -/

theorem expandGo_length (nax : List Nat) (k i : Nat) (rest r : List Nat) (h : expandGo nax k i rest = some r) :
    r.length = k := by
  induction k generalizing i rest r with
  | zero => simp only [expandGo, Option.some.injEq] at h; subst h; rfl
  | succ k ih =>
    simp only [expandGo] at h
    split at h
    · simp only [Option.map_eq_some_iff] at h
      obtain ⟨q, hq, rfl⟩ := h
      simp [ih _ _ _ hq]
    · cases rest with
      | nil => simp at h
      | cons s rest' =>
        simp only [Option.map_eq_some_iff] at h
        obtain ⟨q, hq, rfl⟩ := h
        simp [ih _ _ _ hq]

theorem shapeExpandDims_length (s : Shape) (axes : List Int) (r : Shape) (h : shapeExpandDims s axes = some r) :
    r.length = s.length + axes.length := by
  simp only [shapeExpandDims, Option.bind_eq_some_iff] at h
  obtain ⟨nax, _, hg⟩ := h
  exact expandGo_length _ _ _ _ _ hg

/-! ### sliding_window -/

theorem shrinkAxes_length (s : Shape) (ks ws : List Nat) : (shrinkAxes s ks ws).length = s.length := by
  induction ks generalizing s ws with
  | nil => simp [shrinkAxes]
  | cons k ks ih =>
    cases ws with
    | nil => simp [shrinkAxes]
    | cons w ws =>
      simp only [shrinkAxes]
      split
      · rw [ih]; simp
      · rfl

theorem shapeSlidingWindow_length (s ws : List Nat) (axes : Option (List Int)) (sc : Bool) (r : Shape)
    (h : shapeSlidingWindow s ws axes sc = some r) : r.length = s.length + ws.length := by
  cases axes with
  | none =>
    simp only [shapeSlidingWindow] at h
    split at h
    · simp only [Option.some.injEq] at h; subst h; simp
    · simp only [Option.some.injEq] at h; subst h
      simp only [shrinkAll, List.length_append, List.length_zipWith, List.length_drop]; omega
  | some l =>
    simp only [shapeSlidingWindow, Option.map_eq_some_iff] at h
    obtain ⟨ks, _, rfl⟩ := h
    simp [shrinkAxes_length]

/-! ### slices -/

theorem padZeros_length (n : Nat) (l r : List Nat) (h : Slice.padZeros n l = some r) : r.length = n := by
  simp only [Slice.padZeros] at h
  split at h
  · simp only [Option.some.injEq] at h; subst h; simp; omega
  · cases h

theorem shapeSlice_length_le (s : List Nat) (es : List Slice.Entry) (r : List Nat) (h : Slice.shapeSlice s es = some r) :
    r.length ≤ s.length := by
  simp only [Slice.shapeSlice] at h
  split at h
  · cases h
  · split at h
    · cases h
    · simp only [Option.bind_eq_some_iff] at h
      obtain ⟨q, _, hp⟩ := h
      rw [padZeros_length _ _ _ hp]; omega

theorem shapeDynamicSlice_length_le (s : List Nat) (es : List Slice.Entry) (r : List Nat)
    (h : Slice.shapeDynamicSlice s es = some r) : r.length ≤ s.length := by
  simp only [Slice.shapeDynamicSlice] at h
  split at h
  · cases h
  · split at h
    · cases h
    · simp only [Option.bind_eq_some_iff] at h
      obtain ⟨q, _, hp⟩ := h
      rw [padZeros_length _ _ _ hp]; omega

/-! ### moveaxis_to_transpose -/

theorem insertShift_length (pos val : Nat) (arr : List Nat) : (insertShift pos val arr).length = arr.length := by
  simp only [insertShift, List.length_take, List.length_append, List.length_cons, List.length_drop]; omega

theorem foldl_insertShift_length (f g : Nat → Nat) (arg : List Nat) (o : List Nat) :
    (arg.foldl (fun order i => insertShift (f i) (g i) order) o).length = o.length := by
  induction arg generalizing o with
  | nil => rfl
  | cons a t ih => simp only [List.foldl_cons]; rw [ih, insertShift_length]

theorem moveaxisToTranspose_length (dim : Nat) (src dst : List Int) (r : List Nat)
    (h : moveaxisToTranspose dim src dst = some r) : r.length = dim := by
  simp only [moveaxisToTranspose] at h
  split at h
  · rename_i s d _ _
    split at h
    · cases h
    · simp only [Option.some.injEq] at h; subst h
      rw [foldl_insertShift_length (fun i => d.getD i 0) (fun i => s.getD i 0)]
      have : ((List.range dim).filter (fun i => !s.contains i)).length ≤ dim := by
        have := List.length_filter_le (fun i => !s.contains i) (List.range dim)
        simpa using this
      simp only [List.length_append, List.length_replicate]; omega
  · cases h

/-! ### expand -/

theorem shapeExpand_length (s : Shape) (ks sps : List Nat) : (shapeExpand s ks sps).length = s.length := by
  induction ks generalizing s sps with
  | nil => simp [shapeExpand]
  | cons k ks ih =>
    cases sps with
    | nil => simp [shapeExpand]
    | cons w ws =>
      simp only [shapeExpand]
      split
      · rw [ih]; simp
      · rfl

/-! ### diagonal -/

theorem othersAux_length (a1 a2 i : Nat) (l : List Nat) (hne : a1 ≠ a2) :
    (othersAux a1 a2 i l).length + (if i ≤ a1 ∧ a1 < i + l.length then 1 else 0)
      + (if i ≤ a2 ∧ a2 < i + l.length then 1 else 0) = l.length := by
  induction l generalizing i with
  | nil => simp [othersAux]
  | cons x xs ih =>
    have := ih (i + 1)
    simp only [othersAux, List.length_cons]
    grind

theorem shapeDiagonal_length (s : Shape) (off : Int) (a1 a2 : Nat) (r : Shape) (hne : a1 ≠ a2)
    (h : shapeDiagonal s off a1 a2 = some r) : r.length + 1 = s.length := by
  simp only [shapeDiagonal] at h
  split at h
  · rename_i n1 n2 h1 h2
    simp only [Option.some.injEq] at h; subst h
    have hl1 : a1 < s.length := by
      rcases Nat.lt_or_ge a1 s.length with h | h
      · exact h
      · rw [List.getElem?_eq_none h] at h1; cases h1
    have hl2 : a2 < s.length := by
      rcases Nat.lt_or_ge a2 s.length with h | h
      · exact h
      · rw [List.getElem?_eq_none h] at h2; cases h2
    have := othersAux_length a1 a2 0 s hne
    simp only [Nat.zero_le, true_and, Nat.zero_add, hl1, hl2, if_true] at this
    simp only [List.length_append, List.length_cons, List.length_nil]; omega
  · cases h

/-! ### matmul -/

theorem bcRev_length (a b r : List Nat) (h : MB.bcRev a b = some r) : r.length = max a.length b.length := by
  induction a generalizing b r with
  | nil => simp only [MB.bcRev, Option.some.injEq] at h; subst h; simp
  | cons x xs ih =>
    cases b with
    | nil => simp only [MB.bcRev, Option.some.injEq] at h; subst h; simp
    | cons y ys =>
      simp only [MB.bcRev] at h
      cases hb : MB.bc1 x y with
      | none => simp [hb] at h
      | some z =>
        simp only [hb, Option.map_eq_some_iff] at h
        obtain ⟨q, hq, rfl⟩ := h
        simp only [List.length_cons, ih ys q hq]; omega

theorem broadcastShape_length (a b r : Shape) (h : MB.broadcastShape a b = some r) :
    r.length = max a.length b.length := by
  simp only [MB.broadcastShape, Option.map_eq_some_iff] at h
  obtain ⟨q, hq, rfl⟩ := h
  have := bcRev_length _ _ _ hq
  simpa using this

theorem getNeg?_some_le (l : List Nat) (k v : Nat) (h : getNeg? l k = some v) : k ≤ l.length := by
  simp only [getNeg?] at h
  split at h
  · omega
  · cases h

theorem shapeMatmul_length_le (a b r : Shape) (h : shapeMatmul a b = some r) : r.length ≤ max a.length b.length := by
  simp only [shapeMatmul] at h
  split at h
  · split at h
    · cases h
    · rename_i bs hbs
      have hb := broadcastShape_length _ _ _ hbs
      simp only [List.length_take] at hb
      split at h
      · cases h
      · split at h
        · simp only [Option.some.injEq] at h; subst h; simp; omega
        · split at h
          · simp only [Option.some.injEq] at h; subst h
            rw [List.length_eraseIdx]; split <;> omega
          · split at h
            · simp only [Option.some.injEq] at h; subst h; simp
            · split at h
              · rename_i m n hm hn
                simp only [Option.some.injEq] at h; subst h
                have h2 := getNeg?_some_le _ _ _ hm
                have h1 := getNeg?_some_le _ _ _ hn
                simp only [List.length_append, List.length_cons, List.length_nil]
                split at hb <;> split at hb <;> omega
              · cases h
  · cases h

/-! ### pool2d -/

theorem shapePool2d_length (s k st : List Nat) (c : Bool) (r : Shape) (h : NN.shapePool2d s k st c = some r) :
    r.length = s.length := by
  simp only [NN.shapePool2d] at h
  split at h
  · cases h
  · split at h
    · simp only [Option.some.injEq] at h; subst h
      simp only [List.length_append, List.length_take, List.length_cons, List.length_nil]; omega
    · cases h

/-! ### index maps: the source index handed to the operand has at most `len(src_shape)` entries -/

theorem setPy_length {α} (l : List α) (i : Int) (v : α) : (setPy l i v).length = l.length := by
  simp only [setPy]; split <;> simp

theorem addWindowOffsets_length (res : Idx) (axes : List Int) (offs : List Nat) (r : Idx)
    (h : addWindowOffsets res axes offs = some r) : r.length = res.length := by
  induction axes generalizing res offs with
  | nil => simp only [addWindowOffsets, Option.some.injEq] at h; subst h; rfl
  | cons ax axes ih =>
    cases offs with
    | nil => simp only [addWindowOffsets, Option.some.injEq] at h; subst h; rfl
    | cons o offs =>
      simp only [addWindowOffsets] at h
      split at h
      · rw [ih _ _ h, setPy_length]
      · cases h

theorem indexSlidingWindow_length_le (d : Idx) (srcDim : Nat) (axes : Option (List Int)) (r : Idx)
    (h : indexSlidingWindow d srcDim axes = some r) : r.length ≤ srcDim := by
  cases axes with
  | none =>
    simp only [indexSlidingWindow, Option.some.injEq] at h; subst h
    simp only [List.length_zipWith, List.length_take]; omega
  | some l =>
    simp only [indexSlidingWindow] at h
    rw [addWindowOffsets_length _ _ _ _ h, List.length_take]; omega

theorem indexRollLoop_length (shape : Shape) (d : Idx) (axes shifts : List Int) (res r : Idx)
    (h : indexRollLoop shape d axes shifts res = some r) : r.length = res.length := by
  induction axes generalizing shifts res with
  | nil => simp only [indexRollLoop, Option.some.injEq] at h; subst h; rfl
  | cons ax axes ih =>
    cases shifts with
    | nil => simp [indexRollLoop] at h
    | cons sh shifts =>
      simp only [indexRollLoop] at h
      split at h
      · rw [ih _ _ h, setPy_length]
      · cases h

theorem indexResize_length_le (d : Idx) (src dst : Shape) : (indexResize d src dst).length ≤ src.length := by
  induction d generalizing src dst with
  | nil => simp [indexResize]
  | cons i d ih =>
    cases src with
    | nil => simp [indexResize]
    | cons s src =>
      cases dst with
      | nil => simp [indexResize]
      | cons t dst => simp only [indexResize, List.length_cons]; have := ih src dst; omega

theorem indexExpand_length (r : Idx) (ks sps : List Nat) (q : Idx) (h : indexExpand r ks sps = some q) :
    q.length = r.length := by
  induction ks generalizing r sps with
  | nil => simp only [indexExpand, Option.some.injEq] at h; subst h; rfl
  | cons k ks ih =>
    cases sps with
    | nil => simp only [indexExpand, Option.some.injEq] at h; subst h; rfl
    | cons sp sps =>
      simp only [indexExpand] at h
      split at h
      · split at h
        · cases h
        · rw [ih _ _ h]; simp
      · cases h

theorem scatterOthers_length' (a1 a2 i n : Nat) (d : Idx) : (scatterOthers a1 a2 i n d).length = n := by
  induction n generalizing i d with
  | zero => simp [scatterOthers]
  | succ n ih =>
    simp only [scatterOthers]
    split
    · simp [ih]
    · cases d <;> simp [ih]

theorem indexDiagonal_length (s : Shape) (d : Idx) (off : Int) (a1 a2 : Nat) (r : Idx)
    (h : indexDiagonal s d off a1 a2 = some r) : r.length = s.length := by
  simp only [indexDiagonal] at h
  split at h
  · simp only [Option.some.injEq] at h; subst h
    simp [scatterOthers_length']
  · cases h

end NmVerif.CapL
