"""C07 — element-wise functions apply the scalar operation to broadcast operands.

IMPL   : view::<op>(…) read element by element AND array::<op>(…) (eval), for every op of the hand-curated table below,
         through harness TUs *generated from this table* (engine: harness/c07_common.hpp).
MODEL  : Lean `ufunc` / `outer` routing plan (which flat operand element feeds which output element) + result shape.
ORACLE : NumPy (np.<op> where NumPy names the op, a python formula otherwise) for the values, np.broadcast_arrays for
         the routing plan; C++ usual-arithmetic-conversion table for the expected element type.
The harness itself evaluates an independent plain-scalar reference expression per op on the prescribed routing
(`ref=same`), compares eval with the view (`eval=same`) and the element type with decltype(reference) (`type=ok`).
"""
import os, math, itertools, hashlib
import numpy as np
from runner import Case, ROOT, REPO, BUILD
from shapes import shapes, prod, fmt, fmt_lists

ID = 'C07'
LEVEL = 'proof'
NGROUPS = 10

CT = {'i8': 'int8_t', 'u8': 'uint8_t', 'i16': 'int16_t', 'u16': 'uint16_t', 'i32': 'int32_t', 'u32': 'uint32_t',
      'i64': 'int64_t', 'u64': 'uint64_t', 'f32': 'float', 'f64': 'double'}
NPT = {'i8': np.int64, 'u8': np.int64, 'i16': np.int64, 'u16': np.int64, 'i32': np.int64, 'u32': np.int64,
       'i64': np.int64, 'u64': np.uint64, 'f32': np.float32, 'f64': np.float64}
ISF = lambda t: t in ('f32', 'f64')

# ---------------------------------------------------------------------------------------------- C++ result types

def promote(t):
    return 'i32' if t in ('i8', 'u8', 'i16', 'u16') else t


def common(a, b):
    """usual arithmetic conversions of C++ (LP64)"""
    if 'f64' in (a, b): return 'f64'
    if 'f32' in (a, b): return 'f32'
    a, b = promote(a), promote(b)
    if a == b: return a
    rank = {'i32': 1, 'u32': 1, 'i64': 2, 'u64': 2}
    sa, sb = a[0] == 'i', b[0] == 'i'
    if sa == sb: return a if rank[a] >= rank[b] else b
    s, u = (a, b) if sa else (b, a)
    if rank[u] >= rank[s]: return u
    return s   # i64 represents all of u32


RT = {
    'arith': lambda ts: common(ts[0], ts[1]),
    'bool': lambda ts: 'bool',
    'same': lambda ts: ts[0],
    'prom': lambda ts: promote(ts[0]),
    'sq': lambda ts: common(ts[0], ts[0]),
    'actf': lambda ts: common(ts[0], 'f32'),        # activation with a float attribute in the expression
    'fmath2': lambda ts: common(ts[0], ts[1]) if (ISF(ts[0]) or ISF(ts[1])) else 'f64',
    'cond': lambda ts: ts[0] if ts[0] == ts[1] else common(ts[0], ts[1]),   # x > y ? x : y keeps a common operand type
    'sel': lambda ts: common(ts[1], ts[2]),
    'clip': lambda ts: ts[0],
    None: lambda ts: None,
}

# ---------------------------------------------------------------------------------------------- the op table

TABLE = []


def _hdr(kind_dir, name):
    return ['nmtools/array/view/%s/%s.hpp' % (kind_dir, name), 'nmtools/array/array/%s/%s.hpp' % (kind_dir, name)]


def op(name, arity, ref, types, dom, npf=None, ulps=0, cls=None, vcall=None, ecall=None, hdr=None, params=(), header=None,
       act=False, outer=False, rtol=None, note=''):
    args = ['x', 'y', 'z'][:arity]
    pa = ''.join(', p%d' % i for i in range(len(params)))
    base = header or name
    d = dict(name=name, arity=arity, ref=ref, types=[tuple(t.rstrip('*').split(',')) for t in types],
             qtypes=[tuple(t.split(',')) for t in types if not t.endswith('*')], dom=dom, npf=npf, ulps=ulps, cls=cls,
             vcall=vcall or 'view::%s(%s%s)' % (base, ', '.join(args), pa),
             ecall=ecall or 'na::%s(%s%s)' % (base, ', '.join(args), pa),
             hdr=hdr or _hdr('activations' if act else 'ufuncs', base), params=tuple(params), header=base, act=act, outer=outer,
             rtol=rtol, note=note)
    TABLE.append(d)
    return d


F = ['f32', 'f64']
_alt = [0]


def FT(name, both=False):
    """float element types of an op; `*` = instantiated in the thorough tier only (quick tier alternates f32 / f64 between ops)"""
    if both:
        return ['f32', 'f64']
    _alt[0] += 1
    return ['f32', 'f64*'] if _alt[0] % 2 else ['f32*', 'f64']


# -- unary math (libm forwards): reference = the std:: function on the same type, bit-identical
for n, std, dom in [('exp', 'exp', 'f'), ('exp2', 'exp2', 'f'), ('expm1', 'expm1', 'f'), ('log', 'log', 'pos'), ('log2', 'log2', 'pos'),
                    ('log10', 'log10', 'pos'), ('log1p', 'log1p', 'pos'), ('sqrt', 'sqrt', 'nonneg'), ('cbrt', 'cbrt', 'f'),
                    ('sin', 'sin', 'f'), ('cos', 'cos', 'f'), ('tan', 'tan', 'f'), ('arcsin', 'asin', 'unit'), ('arccos', 'acos', 'unit'),
                    ('arctan', 'atan', 'f'), ('sinh', 'sinh', 'f'), ('cosh', 'cosh', 'f'), ('tanh', 'tanh', 'f'), ('arcsinh', 'asinh', 'f'),
                    ('arccosh', 'acosh', 'ge1'), ('arctanh', 'atanh', 'openunit'), ('ceil', 'ceil', 'f'), ('floor', 'floor', 'f'),
                    ('trunc', 'trunc', 'f'), ('rint', 'rint', 'half'), ('fabs', 'fabs', 'f')]:
    op(n, 1, 'return std::%s(x);' % std, FT(n, n in ('exp', 'log', 'sqrt', 'sin', 'tanh', 'floor', 'rint', 'fabs')), [dom], npf=getattr(np, n), cls='same')
for n in ['isnan', 'isinf', 'isfinite', 'signbit']:
    op(n, 1, 'return std::%s(x);' % n, FT(n), ['special'], npf=getattr(np, n), cls='bool')
op('negative', 1, 'return -x;', ['i32', 'i8', 'f32', 'f64'], ['i'], npf=np.negative, cls='prom')
op('positive', 1, 'return +x;', ['i32', 'i8', 'f64'], ['i'], npf=np.positive, cls='prom')
op('square', 1, 'return x * x;', ['i32', 'i8', 'f32', 'f64'], ['small'], npf=np.square, cls='sq')
op('reciprocal', 1, 'return 1 / x;', ['f32', 'f64', 'i32'], ['nonzero'], npf=lambda a: np.trunc(1 / a) if a.dtype.kind in 'iu' else (1 / a), cls='sq')
op('invert', 1, 'return ~x;', ['i32', 'i8', 'u8', 'i64'], ['nonnegi'], npf=lambda a: -a - 1, cls='prom')
op('logical_not', 1, 'return !(x != 0);', ['i32', 'u8', 'f32'], ['zeros'], npf=np.logical_not, cls='bool')
PI = 'static_cast<T>(3.14159265358979323846264338327950288L)'
op('deg2rad', 1, 'return x * (%s / 180);' % PI, FT('deg2rad'), ['f'], npf=np.deg2rad, ulps=1, cls='same')
op('radians', 1, 'return x * (%s / 180);' % PI, FT('radians'), ['f'], npf=np.radians, ulps=1, cls='same')
op('degrees', 1, 'return x * (static_cast<T>(180) / %s);' % PI, FT('degrees'), ['f'], npf=np.degrees, ulps=1, cls='same')
op('rad2deg', 1, 'return x * (static_cast<T>(180) / %s);' % PI, FT('rad2deg'), ['f'], npf=np.rad2deg, ulps=1, cls='same')

# -- binary arithmetic
op('add', 2, 'return x + y;', ['i32,i32', 'f32,f32', 'f64,f64*', 'i8,i8', 'u8,u8*', 'i32,f64', 'i64,i32*', 'i16,f32'], ['i', 'i'],
   npf=np.add, cls='arith', outer=True)
op('subtract', 2, 'return x - y;', ['i32,i32', 'f32,f32', 'f64,f32', 'i8,i16'], ['i', 'i'], npf=np.subtract, cls='arith', outer=True)
op('multiply', 2, 'return x * y;', ['i32,i32', 'f64,f64', 'i8,i8*', 'u8,i32', 'f32,i32*'], ['small', 'small'], npf=np.multiply, cls='arith', outer=True)
op('divide', 2, 'return x / y;', ['f32,f32', 'f64,f64', 'i32,i32', 'f64,i32'], ['i', 'nonzero'],
   npf=lambda a, b: np.trunc(a / b) if (a.dtype.kind in 'iu' and b.dtype.kind in 'iu') else a / b, cls='arith')
op('mod', 2, 'return x % y;', ['i32,i32', 'i8,i8', 'u8,u8'], ['i', 'nonzero'], npf=np.fmod, cls='arith',
   note='C++ % (sign of the dividend) = numpy.fmod, not numpy.mod')
op('fmod', 2, 'return std::fmod(x, y);', ['f32,f32', 'f64,f64'], ['f', 'nonzero'], npf=np.fmod, cls='arith', outer=True)
op('power', 2, 'return std::pow(x, y);', ['f32,f32', 'f64,f64', 'f64,i32'], ['pos', 'smallexp'], npf=np.power, cls='fmath2', rtol=1e-5)
op('maximum', 2, 'return x > y ? x : y;', ['i32,i32', 'f32,f32*', 'f64,f64', 'i8,i8', 'i32,f64'], ['i', 'i'], npf=np.maximum, cls='cond', outer=True)
op('minimum', 2, 'return x < y ? x : y;', ['i32,i32', 'f32,f32', 'f64,f64*', 'i8,i8*', 'i32,f64'], ['i', 'i'], npf=np.minimum, cls='cond', outer=True)
op('fmax', 2, 'return std::fmax(x, y);', ['f32,f32', 'f64,f64'], ['fnan', 'f'], npf=np.fmax, cls='arith', outer=True)
op('fmin', 2, 'return std::fmin(x, y);', ['f32,f32', 'f64,f64'], ['fnan', 'f'], npf=np.fmin, cls='arith', outer=True)
op('arctan2', 2, 'return std::atan2(x, y);', ['f32,f32', 'f64,f64'], ['f', 'f'], npf=np.arctan2, cls='arith')
op('hypot', 2, 'return std::hypot(x, y);', ['f32,f32', 'f64,f64'], ['f', 'f'], npf=np.hypot, cls='arith')
op('ldexp', 2, 'return std::ldexp(x, y);', ['f32,i32', 'f64,i32'], ['f', 'smallexp'], npf=np.ldexp, cls='same')
# -- bitwise / shifts
for n, sym, f in [('bitwise_and', '&', np.bitwise_and), ('bitwise_or', '|', np.bitwise_or), ('bitwise_xor', '^', np.bitwise_xor)]:
    op(n, 2, 'return x %s y;' % sym, ['i32,i32', 'u8,u8', 'i8,i8*', 'i64,i32*', 'u32,u32'] if n == 'bitwise_and' else ['i32,i32', 'u8,u8*', 'i8,i8', 'i64,i32*', 'u32,u32*'],
       ['nonnegi', 'nonnegi'], npf=f, cls='arith')
op('left_shift', 2, 'return x << y;', ['i32,i32', 'u8,u8', 'i64,i32*', 'u32,u32*'], ['nonnegi', 'shift'], npf=np.left_shift, cls='prom', outer=True)
op('right_shift', 2, 'return x >> y;', ['i32,i32', 'u8,u8*', 'i64,i32', 'u32,u32*'], ['nonnegi', 'shift'], npf=np.right_shift, cls='prom', outer=True)
# -- comparison / logical
for n, sym, f in [('equal', '==', np.equal), ('not_equal', '!=', np.not_equal), ('less', '<', np.less), ('less_equal', '<=', np.less_equal),
                  ('greater', '>', np.greater), ('greater_equal', '>=', np.greater_equal)]:
    op(n, 2, 'return x %s y;' % sym, ['i32,i32', 'f32,f32', 'i32,f64'] + (['u8,u8', 'i8,i64'] if n in ('less', 'equal') else ['u8,u8*', 'i8,i64*']),
       ['tiny', 'tiny'], npf=f, cls='bool')
op('logical_and', 2, 'return (x != 0) && (y != 0);', ['i32,i32', 'f32,i32', 'u8,u8'], ['zeros', 'zeros'], npf=np.logical_and, cls='bool')
op('logical_or', 2, 'return (x != 0) || (y != 0);', ['i32,i32', 'f32,i32', 'u8,u8'], ['zeros', 'zeros'], npf=np.logical_or, cls='bool')
op('logical_xor', 2, 'return (x != 0) != (y != 0);', ['i32,i32', 'f32,i32', 'u8,u8'], ['zeros', 'zeros'], npf=np.logical_xor, cls='bool')
# -- explicitly requested result type
op('add_same_kind', 2, 'return static_cast<std::decay_t<decltype(y)>>(x + y);', ['i8,i8', 'f32,f32', 'i32,i32'], ['i', 'i'], npf=np.add, cls='same',
   vcall='view::add(x, y, nm::casting::same_kind_t{})', ecall='na::add(x, y, nm::casting::same_kind_t{})', header='add',
   note='casting::same_kind: the requested result type is the operand type')
# -- an operand that is itself a (unary ufunc) view, and one that is a broadcast view
op('add_of_negative_view', 2, 'return (-x) + y;', ['i32,i32', 'f32,f64'], ['i', 'i'], npf=lambda a, b: (-a) + b, cls='arith', header='add',
   vcall='view::add(view::negative(x), y)', ecall='na::add(view::negative(x), y)',
   hdr=_hdr('ufuncs', 'add') + _hdr('ufuncs', 'negative'), note='left operand is a lazy view (composition)')
# -- ternary
op('where', 3, 'return (x != 0) ? y : z;', ['u8,i32,i32', 'u8,f32,f32', 'i32,i32,f64', 'u8,f64,f32'], ['zeros', 'i', 'i'],
   npf=lambda c, a, b: np.where(c != 0, a, b), cls='sel',
   hdr=['nmtools/array/view/where.hpp', 'nmtools/array/array/where.hpp'])
op('where_of_comparison_view', 3, 'return (x > 0) ? y : z;', ['i32,i32,i32', 'f32,f64,f64'], ['i', 'i', 'i'],
   npf=lambda c, a, b: np.where(c > 0, a, b), cls='sel', header='where',
   vcall='view::where(nm::unwrap(view::greater(x, 0)), y, z)', ecall='na::where(nm::unwrap(view::greater(x, 0)), y, z)',
   hdr=['nmtools/array/view/where.hpp', 'nmtools/array/array/where.hpp', 'nmtools/array/view/ufuncs/greater.hpp'],
   note='condition operand is itself a (comparison) view')
op('clip', 3, 'return x < y ? y : (x > z ? z : x);', ['i32,i32,i32', 'f32,f32,f32', 'f64,f64,f64'], ['i', 'lo', 'hi'],
   npf=lambda a, lo, hi: np.clip(a, lo, hi), cls='clip',
   vcall='c07::ufunc3(view::clip_t{}, x, y, z)', ecall='na::eval(c07::ufunc3(view::clip_t{}, x, y, z))',
   hdr=['nmtools/array/view/ufuncs/clip.hpp', 'nmtools/array/array/ufuncs/clip.hpp'],
   note='through the clip_t function object as a 3-operand ufunc; the composed free function view::clip(a,lo,hi) does not '
        'compile for ndarray operands at this commit (its tests are commented out of the upstream build)')
# -- activations
A = dict(act=True)
op('relu', 1, 'return static_cast<T>(x > 0 ? x : 0);', ['f32', 'f64', 'i32'], ['f'], npf=lambda a: np.maximum(a, 0), cls='same', **A)
op('relu6', 1, 'return x < 0 ? T(0) : (x > 6 ? T(6) : x);', FT('relu6'), ['wide'], npf=lambda a: np.clip(a, 0, 6), cls='same', **A)
op('leaky_relu', 1, 'return x >= 0 ? x : p0 * x;', F, ['f'], npf=lambda a, p: np.where(a >= 0, a, np.float32(p[0]) * a), cls='actf', params=[0.01], ulps=0, **A)
op('prelu', 1, 'return static_cast<T>(x >= 0 ? x : p0 * x);', FT('prelu'), ['f'], npf=lambda a, p: np.where(a >= 0, a, np.float32(p[0]) * a), cls='same', params=[0.25], **A)
op('elu', 1, 'return x > 0 ? x : p0 * (std::exp(x) - 1);', FT('elu'), ['f'], npf=lambda a, p: np.where(a > 0, a, np.float32(p[0]) * (np.exp(a) - 1)), cls='actf', params=[1.0], ulps=2, **A)
op('celu', 1, 'return std::max(T(0), x) + std::min(T(0), p0 * (std::exp(x / p0) - 1));', ['f32'], ['f'],
   npf=lambda a, p: np.maximum(0, a) + np.minimum(0, np.float32(p[0]) * (np.exp(a / np.float32(p[0])) - 1)), cls='actf', params=[0.5], ulps=2, **A)
op('selu', 1, 'return static_cast<T>(1.0507009873554804934193349852946) * (std::max(x, T(0)) + std::min(static_cast<T>(1.6732632423543772848170429916717) * (std::exp(x) - 1), T(0)));',
   F, ['f'], npf=lambda a: 1.0507009873554805 * (np.maximum(a, 0) + np.minimum(1.6732632423543772 * (np.exp(a) - 1), 0)), cls='same', ulps=2, **A)
op('sigmoid', 1, 'return T(1) / (T(1) + std::exp(-x));', FT('selu'), ['f'], npf=lambda a: 1 / (1 + np.exp(-a)), cls='same', ulps=2, **A)
op('silu', 1, 'return x * (T(1) / (T(1) + std::exp(-x)));', FT('silu'), ['f'], npf=lambda a: a / (1 + np.exp(-a)), cls='same', ulps=2, **A)
op('log_sigmoid', 1, 'return std::log(T(1) / (T(1) + std::exp(-x)));', FT('log_sigmoid'), ['f'], npf=lambda a: np.log(1 / (1 + np.exp(-a))), cls='same', ulps=2, rtol=1e-5, **A)
op('softplus', 1, 'T t = x * p0; return t > p1 ? x : static_cast<T>(std::log(1 + std::exp(t)) / p0);', F, ['wide'],
   npf=lambda a, p: np.where(a * p[0] > p[1], a, np.log1p(np.exp(a * p[0])) / p[0]), cls='same', params=[1.0, 20.0], ulps=2, rtol=1e-5, **A)
op('softsign', 1, 'return x / (1 + (x > 0 ? x : -x));', FT('softsign'), ['f'], npf=lambda a: a / (1 + np.abs(a)), cls='same', ulps=2, **A)
op('softshrink', 1, 'return static_cast<T>(x > p0 ? x - p0 : (x < -p0 ? x + p0 : 0));', FT('softshrink'), ['f'],
   npf=lambda a, p: np.where(a > p[0], a - p[0], np.where(a < -p[0], a + p[0], 0)), cls='same', params=[0.5], ulps=0, **A)
op('hardshrink', 1, 'return static_cast<T>((x > p0 || x < -p0) ? x : 0);', FT('hardshrink'), ['f'],
   npf=lambda a, p: np.where(np.abs(a) > p[0], a, 0), cls='same', params=[0.5], ulps=1, **A)
op('hardtanh', 1, 'return static_cast<T>(x < p0 ? p0 : (x > p1 ? p1 : x));', F, ['f'], npf=lambda a, p: np.clip(a, p[0], p[1]), cls='same', params=[-1.0, 1.0], **A)
op('hardswish', 1, 'return x <= -3 ? T(0) : (x >= 3 ? x : x * (x + 3) / 6);', FT('hardswish'), ['wide'],
   npf=lambda a: np.where(a <= -3, 0, np.where(a >= 3, a, a * (a + 3) / 6)), cls='same', ulps=1, **A)
op('mish', 1, 'T sp = x > 20 ? x : std::log(1 + std::exp(x)); return x * std::tanh(sp);', FT('mish'), ['f'],
   npf=lambda a: a * np.tanh(np.log1p(np.exp(a))), cls='same', ulps=4, rtol=1e-5, **A)
op('tanhshrink', 1, 'return x - std::tanh(x);', FT('tanhshrink'), ['f'], npf=lambda a: a - np.tanh(a), cls='same', ulps=2, rtol=1e-4, **A)

# ops evaluated additionally on extreme element values (type minima/maxima, infinities, signed zero, denormals): no overflow possible
EXTREMES = {'equal', 'not_equal', 'less', 'less_equal', 'greater', 'greater_equal', 'maximum', 'minimum', 'fmax', 'fmin',
            'bitwise_and', 'bitwise_or', 'bitwise_xor', 'logical_and', 'logical_or'}
DELEGATED = {'amax': 'reduction (reduce_maximum): C08', 'amin': 'reduction (reduce_minimum): C08'}
BYNAME = {d['name']: d for d in TABLE}
COVERED_HEADERS = {d['header'] for d in TABLE} | set(DELEGATED)

RULE = ('op table (%d entries over %d ufunc/activation headers) x element-type tuples x curated broadcast shape families (equal shapes, '
        'rank extension of either operand, size-1 middle axes, rank-0 arrays, plain scalars, all-scalar, incompatible) through view::op '
        'element access and array::op eval; add/i32 over ALL ordered shape pairs of rank 0..R / extents 1..E with provenance data '
        '(a[k]=k, b[k]=1000k: the value decodes both source ids); outer variants; random shapes up to rank 5. '
        'non-trivial = operand shapes differ' % (len(TABLE), len(COVERED_HEADERS)))
EXHAUSTIVE = {'quick': False, 'thorough': False}
ANCHORS = {'NmVerif.ufunc': 'view::ufunc / broadcast_binary_ufunc / unary_ufunc + view::ufunc_t::operator()',
           'NmVerif.ufunc3': 'view::where (where_t) ; clip_t as 3-operand ufunc', 'NmVerif.outer': 'view::outer / index::outer / index::shape_outer',
           'c07_common.hpp route()': 'NmVerif.specBroadcastIdx (Props.C07.ufunc_elem)'}
MANIFEST = dict(
    text='Proof: Lean theorems for any arity, rank and positive extents: the result of an element-wise function has the broadcast shape (C06 rule), element d is the scalar op applied to the operands\' elements at d under the NumPy broadcasting element rule, Nothing iff the shapes are incompatible, operand views may be replaced by anything with the same denotation, outer has shape a++b and element (i,j)=op(a[i],b[j]); scalar op and element types are universally quantified parameters. Tied to the C++ by a differential run of every tabled ufunc/activation (view element access and eager eval) against the Lean routing plan, an independent plain-scalar C++ reference per op (bit-identical, or within the stated ulps) and NumPy; result element types compared with decltype of the scalar reference.',
    note='Lean decides shape and operand routing only; numeric values of op and the C++ result type are checked by the harness on the sampled operands, not proved. view::clip(a,lo,hi) as a free function does not compile for ndarray operands (checked via clip_t). Headers not in the table are reported as `uncovered` in the evidence.',
    technique='Lean 4 proofs over the C06 broadcasting model + generated differential harness (op table) + NumPy oracle')
ASSUMPTIONS = ['operand element values respect each op\'s domain (no division by zero, shifts below the width, no signed overflow, log/sqrt of positives)',
               'libm results are compared on this machine/compiler only; NumPy values with a relative tolerance (NumPy uses its own SIMD kernels)',
               'positive extents; compile-time shape kinds are C09/C11']
PARTIAL = []
KNOWN_PREDICATES = {}
TRUSTED = ['op table in lib/props/c07.py (hand-curated reference expressions)']

# ---------------------------------------------------------------------------------------------- code generation


def types_of(d, tier):
    return d['qtypes'] if tier == 'quick' else d['types']


def groups(tier):
    """balanced split of the table into NGROUPS translation units"""
    items = sorted(TABLE, key=lambda d: -(len(types_of(d, tier)) * (2 if d['outer'] else 1)))
    gs = [[] for _ in range(NGROUPS)]
    load = [0] * NGROUPS
    for d in items:
        k = load.index(min(load))
        gs[k].append(d)
        load[k] += len(types_of(d, tier)) * (2 if d['outer'] else 1) * (2 if d['arity'] == 3 else 1)
    return gs


def gen_tu(ds, tier):
    inc = []
    for d in ds:
        for h in d['hdr']:
            if h not in inc:
                inc.append(h)
    L = ['// GENERATED by lib/props/c07.py from the op table; do not edit']
    L += ['#include "%s"' % h for h in inc]
    L += ['#include "nmtools/array/view/ufunc.hpp"', '#include "nmtools/array/view/broadcast_arrays.hpp"', '#include "c07_common.hpp"', 'using namespace c07;',
          'std::string handle(const std::string& op, const proto::Args& a) {',
          '    std::string name = get(a,"op"), t = types(a);',
          '    std::vector<double> P; if (has(a,"p")) for (auto& s : split(get(a,"p"), \',\')) P.push_back(std::stod(s));',
          '    [[maybe_unused]] const float p0 = P.size()>0 ? (float)P[0] : 0.f, p1 = P.size()>1 ? (float)P[1] : 0.f;']
    for d in ds:
        ar = d['arity']
        xs = ['x', 'y', 'z'][:ar]
        cargs = ', '.join('const auto& %s' % v for v in xs)
        vargs = ', '.join('auto %s' % v for v in xs)
        for ts in types_of(d, tier):
            ctypes = ', '.join(CT[t] for t in ts)
            runner = {1: 'run1', 2: 'run2', 3: 'run3'}[ar]
            L.append('    if (op=="uf" && name=="%s" && t=="%s") return %s<%s>(a,' % (d['name'], ','.join(ts), runner, ctypes))
            L.append('        [&](%s){ return %s; },' % (cargs, d['vcall']))
            L.append('        [&](%s){ return %s; },' % (cargs, d['ecall']))
            L.append('        [&](%s){ using T [[maybe_unused]] = std::decay_t<decltype(x)>; %s }, %d);' % (vargs, d['ref'], d['ulps']))
            if d['outer']:
                L.append('    if (op=="outer" && name=="%s" && t=="%s") return run_outer<%s>(a,' % (d['name'], ','.join(ts), ctypes))
                L.append('        [&](const auto& x, const auto& y){ return view::outer_%s(x, y); },' % d['name'])
                L.append('        [&](const auto& x, const auto& y){ return na::%s.outer(x, y); },' % d['name'])
                L.append('        [&](auto x, auto y){ using T [[maybe_unused]] = std::decay_t<decltype(x)>; %s }, %d);' % (d['ref'], d['ulps']))
        if d['name'] == 'add':
            # explicitly requested dtype on the outer variant
            L.append('    if (op=="outer" && name=="add_f32" && t=="i32,i32") return run_outer<int32_t,int32_t>(a,')
            L.append('        [&](const auto& x, const auto& y){ return view::outer_add(x, y, nm::float32); },')
            L.append('        [&](const auto& x, const auto& y){ return na::add.outer(x, y, nm::float32); },')
            L.append('        [&](auto x, auto y){ return static_cast<float>(x + y); }, 0);')
    L += ['    return "unknown-op";', '}', '']
    return '\n'.join(L)


_group_of = {}


def harness_specs(tier):
    gdir = os.path.join(BUILD, 'gen_c07')
    os.makedirs(gdir, exist_ok=True)
    specs = []
    _group_of.clear()
    for k, ds in enumerate(groups(tier)):
        name = 'h_c07%s_%d' % (tier[0], k)
        src = os.path.join(gdir, name + '.cpp')
        text = gen_tu(ds, tier)
        if not os.path.exists(src) or open(src).read() != text:
            with open(src, 'w') as f:
                f.write(text)
        for d in ds:
            _group_of[d['name']] = name
        specs.append(dict(name=name, src=src, flavour='fast'))
    specs.append(dict(name='h_c07k', src='h_c07k.cpp', flavour='fast'))      # explicit same-kind casting on narrow element types
    return specs


# ---------------------------------------------------------------------------------------------- data domains

def dy(rng, lo, hi, den=8):
    return rng.randint(int(lo * den), int(hi * den)) / den


def gen_vals(rng, dom, t, n):
    fl = ISF(t)
    uns = t[0] == 'u'
    out = []
    for k in range(n):
        if dom == 'i':
            v = dy(rng, -4, 4) if fl else rng.randint(0 if uns else -20, 20)
        elif dom == 'f':
            v = dy(rng, -4, 4) if fl else rng.randint(0 if uns else -5, 5)
        elif dom == 'wide':
            v = rng.choice([dy(rng, -8, 8), dy(rng, -8, 8), -3.0, 3.0, 6.0, 25.0, -25.0, 0.0])
        elif dom == 'small':
            v = dy(rng, -3, 3) if fl else rng.randint(0 if uns else -11, 11)
        elif dom == 'tiny':
            v = dy(rng, -1, 1, 2) if fl else rng.randint(0 if uns else -2, 2)
        elif dom == 'zeros':
            v = rng.choice([0, 0, 1, 2, 5] if (uns or not fl) else [0.0, 0.0, 0.5, -1.5, 2.0])
            if not fl and not uns and rng.random() < 0.3: v = -v
        elif dom == 'nonzero':
            v = dy(rng, 0.125, 4) * rng.choice([1, -1]) if fl else rng.randint(1, 9) * (1 if uns else rng.choice([1, -1]))
        elif dom == 'pos':
            v = dy(rng, 0.125, 8) if fl else rng.randint(1, 9)
        elif dom == 'nonneg':
            v = dy(rng, 0, 8) if fl else rng.randint(0, 9)
        elif dom == 'unit':
            v = dy(rng, -1, 1, 16)
        elif dom == 'openunit':
            v = dy(rng, -0.9375, 0.9375, 16)
        elif dom == 'ge1':
            v = dy(rng, 1, 8)
        elif dom == 'half':
            v = rng.choice([0.5, 1.5, 2.5, -0.5, -1.5, -2.5, dy(rng, -4, 4), dy(rng, -4, 4, 16)])
        elif dom == 'special':
            v = rng.choice([float('nan'), float('inf'), float('-inf'), -0.0, 0.0, 1.5, -2.25, 1e30, -1e-30])
        elif dom == 'fnan':
            v = rng.choice([float('nan'), dy(rng, -4, 4), dy(rng, -4, 4), dy(rng, -4, 4)])
        elif dom == 'nonnegi':
            v = rng.randint(0, 100 if t not in ('i8',) else 100)
        elif dom == 'shift':
            v = rng.randint(0, 5)
        elif dom == 'smallexp':
            v = dy(rng, -2, 3, 2) if fl else rng.randint(0, 4)
        elif dom == 'ext':
            if fl:
                big = 3e38 if t == 'f32' else 1.5e308
                v = rng.choice([float('inf'), float('-inf'), big, -big, 0.0, -0.0, 1.0, -1.0, 2.0 ** -140 if t == 'f32' else 5e-324])
            else:
                bits = int(t[1:])
                lo_, hi_ = (0, 2 ** bits - 1) if uns else (-2 ** (bits - 1), 2 ** (bits - 1) - 1)
                v = rng.choice([lo_, hi_, 0, 1, hi_ - 1, lo_ + 1] + ([] if uns else [-1]))
        elif dom in ('lo', 'hi'):
            v = (dy(rng, -3, 0) if fl else rng.randint(-12, 0)) if dom == 'lo' else (dy(rng, 0, 3) if fl else rng.randint(0, 12))
        else:
            raise KeyError(dom)
        out.append(float(v) if fl else int(v))
    return out


def fmt_data(vals, t):
    if not vals:
        return '[]'
    if ISF(t):
        return ','.join(('nan' if math.isnan(v) else ('inf' if v > 0 else '-inf') if math.isinf(v) else repr(float(v))) for v in vals)
    return ','.join(str(int(v)) for v in vals)


# ---------------------------------------------------------------------------------------------- oracle

def np_plan(ss):
    ids = [np.arange(prod(s)).reshape(tuple(s)) for s in ss]
    try:
        bs = np.broadcast_arrays(*ids)
    except ValueError:
        return None, None
    shape = bs[0].shape
    cols = [b.ravel() for b in bs]
    n = prod(shape)
    return list(shape), (';'.join(','.join(str(int(c[k])) for c in cols) for k in range(n)) if n else '[]')


def fmt_np(v):
    v = v.item() if hasattr(v, 'item') else v
    if isinstance(v, (bool, np.bool_)):
        return '1' if v else '0'
    if isinstance(v, float):
        if math.isnan(v): return 'nan'
        if math.isinf(v): return 'inf' if v > 0 else '-inf'
        return repr(v)
    return str(int(v))


def oracle(d, ts, ss, datas, params, outer=False, rt_override=None):
    arrs = [np.array(dv, dtype=NPT[t]).reshape(tuple(s)) for dv, t, s in zip(datas, ts, ss)]
    if outer:
        shape = list(ss[0]) + list(ss[1])
        nb = prod(ss[1])
        n = prod(shape)
        plan = ';'.join('%d,%d' % (k // nb, k % nb) for k in range(n)) if n else '[]'
        a = arrs[0].reshape(tuple(ss[0]) + (1,) * len(ss[1]))
        ops = [np.broadcast_to(a, tuple(shape)), np.broadcast_to(arrs[1], tuple(shape))]
    else:
        shape, plan = np_plan(ss)
        if shape is None:
            return 'nothing'
        ops = [np.broadcast_to(x, tuple(shape)) for x in arrs]
    with np.errstate(all='ignore'):
        res = d['npf'](*ops, params) if d['params'] else d['npf'](*ops)
    res = np.broadcast_to(np.asarray(res), tuple(shape)).ravel()
    vals = ','.join(fmt_np(v) for v in res) if len(res) else '[]'
    rt = rt_override or RT[d['cls']](ts)
    s = 'ok shape=%s plan=%s vals=%s eval=same ref=same type=ok' % (fmt(shape), plan, vals)
    if rt:
        s += ' rt=' + rt
    return s


def parse(ans):
    if not ans.startswith('ok '):
        return None
    return dict(kv.split('=', 1) for kv in ans[3:].split(' ') if '=' in kv)


def make_cmp(rtol):
    def num(x):
        return float(x)

    def cmp(a, b):
        pa, pb = parse(a), parse(b)
        if pa is None or pb is None:
            return a == b
        for k in set(pa) & set(pb):
            if k != 'vals':
                if pa[k] != pb[k]:
                    return False
                continue
            if pa[k] == pb[k]:
                continue
            xa, xb = pa[k].split(','), pb[k].split(',')
            if len(xa) != len(xb):
                return False
            for u, v in zip(xa, xb):
                if u == v:
                    continue
                try:
                    fu, fv = num(u), num(v)
                except ValueError:
                    return False
                if math.isnan(fu) and math.isnan(fv):
                    continue
                if math.isinf(fu) or math.isinf(fv) or math.isnan(fu) or math.isnan(fv):
                    # float32 overflow to inf vs a huge finite float64 reference
                    if math.isinf(fu) and not math.isnan(fv) and abs(fv) > 3e38 and (fu > 0) == (fv > 0):
                        continue
                    return False
                if abs(fu - fv) > rtol * max(1.0, abs(fu), abs(fv)):
                    return False
        return True
    return cmp


# ---------------------------------------------------------------------------------------------- generator

PAIRS = [([3], [3]), ([2, 3], [3]), ([3], [2, 3]), ([2, 1, 3], [4, 1]), ([2, 3, 1], [1, 4]), ([1], [2, 2]), ([], [2, 3]), ([2, 3], []),
         ([4, 1, 1], [3, 2]), ([1, 2, 1, 2], [3, 1, 2]), ([2, 2], [2, 2]), ([], [])]
BAD_PAIRS = [([2, 3], [2]), ([3], [4]), ([2, 1, 3], [2, 2])]
TRIPLES = [([2, 3], [2, 3], [2, 3]), ([2, 1], [1, 3], []), ([3], [2, 1, 3], [2, 2, 1]), ([1], [1], [2, 2]), ([2, 3], [3], [2, 1]), ([], [2], [3, 1]),
           ([2, 1, 2], [2], [1, 1])]
BAD_TRIPLES = [([2], [3], [2]), ([2, 2], [2, 2], [3])]
UNARY = [[5], [2, 3], [], [2, 1, 2], [1], [3, 3]]


def mkreq(kind, d, ts, ss, datas, nums=(), params=None):
    keys = ['a', 'b', 'c']
    parts = ['%s op=%s' % (kind, d if isinstance(d, str) else d['name'])]
    parts += ['t%s=%s' % (k, t) for k, t in zip(keys, ts)]
    parts += ['%s=%s' % (k, fmt(s)) for k, s in zip(keys, ss)]
    parts += ['d%s=%s' % (k, fmt_data(dv, t)) for k, dv, t in zip(keys, datas, ts)]
    parts += ['n%s=1' % keys[i] for i in nums]
    if params:
        parts.append('p=' + ','.join(repr(float(p)) for p in params))
    return ' '.join(parts)


def mreq(kind, ss):
    keys = ['a', 'b', 'c']
    return ('outer ' if kind == 'outer' else 'ufunc ') + ' '.join('%s=%s' % (k, fmt(s)) for k, s in zip(keys, ss))


def case_for(rng, d, ts, ss, nums=(), kind='uf', params=None, tags=(), doms=None):
    doms = doms or d['dom']
    datas = [gen_vals(rng, doms[min(i, len(doms) - 1)], t, prod(s)) for i, (t, s) in enumerate(zip(ts, ss))]
    if d['name'] == 'clip':
        pass
    params = list(params if params is not None else d['params'])
    req = mkreq(kind, d, ts, ss, datas, nums, params)
    rtol = d['rtol'] or (2e-6 if 'f32' in ts else 1e-12)
    orc = oracle(d, ts, ss, datas, params, outer=(kind == 'outer'))
    h = _group_of.get(d['name'], 'h_c07_0')
    nt = len({tuple(s) for s in ss}) > 1
    tg = ['op=' + d['name'], 'types=' + '/'.join(ts), 'arity=%d' % len(ss), kind] + (['scalar-operand'] if nums else []) + \
         (['incompatible'] if orc == 'nothing' else []) + list(tags)
    return Case(req, h, oracle=orc, mreq=mreq(kind, ss), cmp=make_cmp(rtol), nontrivial=nt, tags=tg)


def gen_same_kind(tier, rng):
    """add / subtract / multiply with casting::same_kind_t on narrow element types: the requested result type is the operands'
    common element type, so values WRAP in it (NumPy: uint8 * uint8 -> uint8) and the element type of the view / eager
    result is that type (seeded change C07-3 let C++ integer promotion leak: int result, no wrap)"""
    NPT = {'u8': np.uint8, 'i8': np.int8, 'u16': np.uint16, 'i16': np.int16, 'i32': np.int32}
    lim = {'u8': (0, 255), 'i8': (-128, 127), 'u16': (0, 65535), 'i16': (-32768, 32767), 'i32': (-1000, 1000)}
    pairs = [([3], [3]), ([2, 3], [3]), ([2, 1], [1, 3]), ([4], [1])] if tier == 'quick' else [([3], [3]), ([2, 3], [3]), ([2, 1], [1, 3]), ([4], [1]), ([2, 2, 2], [2, 1]), ([1], [5])]
    for et in ('u8', 'i8', 'u16', 'i16', 'i32'):
        lo, hi = lim[et]
        for sa, sb in pairs:
            for op, f in (('add', np.add), ('subtract', np.subtract), ('multiply', np.multiply)):
                for rep in range(2 if tier == 'quick' else 5):
                    pick = lambda: rng.choice([hi, hi - 1, hi // 2 + 1, lo, lo + 1, rng.randint(lo, hi), 2, 3, 16])
                    da = [pick() for _ in range(prod(sa))]; db = [pick() for _ in range(prod(sb))]
                    with np.errstate(all='ignore'):
                        r = f(np.array(da, dtype=NPT[et]).reshape(sa), np.array(db, dtype=NPT[et]).reshape(sb))
                    assert r.dtype == NPT[et]
                    api = ('view', 'array')[(rep + len(sa) + len(op)) % 2]
                    yield Case('cast_uf op=%s et=%s api=%s a=%s b=%s da=%s db=%s' % (op, et, api, fmt(sa), fmt(sb), fmt(da), fmt(db)), 'h_c07k',
                               oracle='ok shape=%s vals=%s type=ok' % (fmt(r.shape), fmt([int(x) for x in r.reshape(-1)])), model=False, nontrivial=True,
                               tags=['same-kind-casting', 'op=' + op, 'et=' + et])


def gen(tier, rng):
    yield from gen_same_kind(tier, rng)
    for c in _gen(tier, rng):
        if isinstance(c, list):
            for x in c:
                yield x
        else:
            yield c


def _gen(tier, rng):
    quick = tier == 'quick'
    harness_specs(tier)
    reps = 1 if quick else 5
    for d in TABLE:
        for ts in types_of(d, tier):
            for _ in range(reps):
                if d['arity'] == 1:
                    for s in UNARY:
                        yield case_for(rng, d, ts, [s])
                    yield case_for(rng, d, ts, [[]], nums=(0,))
                    if d['params']:
                        alt = [p * 0.5 + 0.125 for p in d['params']] if d['name'] != 'hardtanh' else [-0.5, 2.0]
                        if d['name'] == 'softplus':
                            alt = [2.0, 3.0]
                        yield case_for(rng, d, ts, [[2, 3]], params=alt, tags=['custom-attribute'])
                elif d['arity'] == 2:
                    for a, b in PAIRS + BAD_PAIRS:
                        yield case_for(rng, d, ts, [a, b])
                    yield case_for(rng, d, ts, [[2, 3], []], nums=(1,))
                    yield case_for(rng, d, ts, [[], [3, 1]], nums=(0,))
                    yield case_for(rng, d, ts, [[], []], nums=(0, 1))
                    if d['name'] in EXTREMES:
                        for a, b in [([2, 3], [3]), ([4, 1], [1, 4]), ([5], [])]:
                            yield case_for(rng, d, ts, [a, b], doms=['ext', 'ext'], tags=['extreme-values'])
                    if d['outer']:
                        for a, b in [([2], [3]), ([2, 1], [2]), ([], [2, 2]), ([2, 3], [1, 2]), ([3], [])]:
                            yield case_for(rng, d, ts, [a, b], kind='outer')
                else:
                    for a, b, c in TRIPLES + BAD_TRIPLES:
                        yield case_for(rng, d, ts, [a, b, c])
                    yield case_for(rng, d, ts, [[2, 3], [], []], nums=(1, 2))
                    yield case_for(rng, d, ts, [[2, 1], [1, 3], []], nums=(2,))
    # requested dtype on outer
    dd = dict(BYNAME['add'], cls=None)
    for a, b in [([2], [3]), ([2, 2], [1, 3])]:
        c = case_for(rng, dd, ('i32', 'i32'), [a, b], kind='outer')
        c.req = c.req.replace('op=add ', 'op=add_f32 ')
        c.oracle = c.oracle + ' rt=f32'
        c.tags = c.tags + ('requested-dtype',)
        yield c
    # add / i32 over all ordered shape pairs with provenance data: value = ia + 1000*ib decodes the routing exactly
    R, E = (3, 3) if quick else (4, 3)
    S = list(shapes(R, E))
    add = BYNAME['add']
    h = _group_of['add']
    for a in S:
        for b in S:
            if not quick and prod(a) * prod(b) > 2000:
                continue
            da, db = list(range(prod(a))), [1000 * k for k in range(prod(b))]
            req = mkreq('uf', add, ('i32', 'i32'), [a, b], [da, db])
            orc = oracle(add, ('i32', 'i32'), [a, b], [da, db], [])
            yield Case(req, h, oracle=orc, mreq=mreq('uf', [a, b]), cmp=make_cmp(0), nontrivial=(a != b),
                       tags=['op=add', 'provenance', 'incompatible' if orc == 'nothing' else 'compatible', 'ranks=%d/%d' % (len(a), len(b))])
    # random larger shapes for a rotating subset of binary ops
    binops = [d for d in TABLE if d['arity'] == 2]
    for t in range(300 if quick else 8000):
        d = binops[t % len(binops)]
        ts = types_of(d, tier)[t // len(binops) % len(types_of(d, tier))]
        r = rng.randint(1, 5)
        full = [rng.choice([1, 2, 2, 3, 4]) for _ in range(r)]
        while prod(full) > 200:
            full[rng.randrange(r)] = 1

        def derive():
            k = rng.randint(0, r)
            s = list(full[k:])
            return [1 if rng.random() < 0.4 else e for e in s]
        a, b = derive(), derive()
        if rng.random() < 0.2 and a:
            a[rng.randrange(len(a))] += 1
        yield case_for(rng, d, ts, [a, b], tags=['random'])


def coverage_extra(cases, tier):
    udir = os.path.join(REPO, 'include', 'nmtools', 'array', 'view', 'ufuncs')
    adir = os.path.join(REPO, 'include', 'nmtools', 'array', 'view', 'activations')
    present = sorted(f[:-4] for f in os.listdir(udir) if f.endswith('.hpp')) + sorted(f[:-4] for f in os.listdir(adir) if f.endswith('.hpp'))
    uncovered = [n for n in present if n not in COVERED_HEADERS]
    per_op = {}
    for c in cases:
        for t in c.tags:
            if t.startswith('op='):
                per_op[t[3:]] = per_op.get(t[3:], 0) + 1
    return {'ufunc_headers_present': len(present), 'ufunc_headers_in_table': len([n for n in present if n in COVERED_HEADERS and n not in DELEGATED]),
            'delegated': DELEGATED, 'uncovered': uncovered, 'table_entries': len(TABLE), 'cases_per_op': per_op,
            'op_notes': {d['name']: d['note'] for d in TABLE if d['note']}}


def post(cases, tier):
    """a header that appears in view/ufuncs or view/activations and is not in the table is reported (not a violation)"""
    ce = coverage_extra([], tier)
    if ce['uncovered']:
        print('NOTE property=C07 uncovered ufunc headers (not in the op table): %s' % ', '.join(ce['uncovered']))
    return []
