import Mathlib.Tactic.Ring
import NmVerif.NN.ChanLemmas
/-
  NN/GroupNormLemmas — `view::group_norm`: the reshape `(N, G·cg) ++ sp  ↔  (N, G, cg) ++ sp` splits the channel axis
  into (group, channel-in-group) without moving any element, so the statistics of output element `[n, c] ++ q` are
  taken over the channels `(c / cg)·cg + j`, `j < cg`, of sample `n` and all spatial positions.
-/
namespace NmVerif.NN
open NmVerif.Reduce NmVerif.Linalg

variable {α : Type}

/-- flat position is unchanged by splitting the channel axis -/
theorem offset_split (N G cg : Nat) (sp : Shape) (n g j : Nat) (r : Idx) :
    computeOffset ([n, g, j] ++ r) (strides ([N, G, cg] ++ sp))
      = computeOffset ([n, g * cg + j] ++ r) (strides ([N, G * cg] ++ sp)) := by
  simp only [List.cons_append, List.nil_append, strides, computeOffset, prod]
  ring

theorem prod_split (N G cg : Nat) (sp : Shape) : prod ([N, G * cg] ++ sp) = prod ([N, G, cg] ++ sp) := by
  simp only [List.cons_append, List.nil_append, prod]; ring

theorem inShape_split {N G cg : Nat} {sp : Shape} {n g j : Nat} {r : Idx} (hn : n < N) (hg : g < G) (hj : j < cg)
    (hr : InShape r sp) : InShape ([n, g * cg + j] ++ r) ([N, G * cg] ++ sp) := by
  refine NN.inShape_append ?_ hr
  simp only [InShape, and_true]
  refine ⟨hn, ?_⟩
  calc g * cg + j < g * cg + cg := by omega
    _ = (g + 1) * cg := by ring
    _ ≤ G * cg := Nat.mul_le_mul_right _ hg

/-- `reshape(x, (N, G, cg) ++ sp)` of `x : (N, G·cg) ++ sp`: element `[n, g, j] ++ r` is `x[n, g·cg + j, r]` -/
theorem reshape_split (x : Arr α) (N G cg : Nat) (sp : Shape) (hx : x.shape = [N, G * cg] ++ sp) :
    ∃ xg, reshape x ([N, G, cg] ++ sp) = some xg ∧ xg.shape = [N, G, cg] ++ sp ∧
      ∀ n g j r, n < N → g < G → j < cg → InShape r sp →
        xg.get ([n, g, j] ++ r) = x.get ([n, g * cg + j] ++ r) := by
  rw [reshape_some x _ (by rw [hx]; exact prod_split N G cg sp)]
  refine ⟨_, rfl, rfl, fun n g j r hn hg hj hr => ?_⟩
  show x.get (ndindex x.shape _) = _
  rw [hx, ndindex_of_offset_eq (inShape_split hn hg hj hr) (offset_split N G cg sp n g j r).symm]

/-- `reshape(v, (N, G·cg) ++ sp)` of `v : (N, G, cg) ++ sp`: element `[n, c] ++ q` is `v[n, c / cg, c % cg, q]` -/
theorem reshape_merge (v : Arr α) (N G cg : Nat) (sp : Shape) (hv : v.shape = [N, G, cg] ++ sp) (hcg : 0 < cg) :
    ∃ u, reshape v ([N, G * cg] ++ sp) = some u ∧ u.shape = [N, G * cg] ++ sp ∧
      ∀ n c q, n < N → c < G * cg → InShape q sp →
        u.get ([n, c] ++ q) = v.get ([n, c / cg, c % cg] ++ q) := by
  rw [reshape_some v _ (by rw [hv]; exact (prod_split N G cg sp).symm)]
  refine ⟨_, rfl, rfl, fun n c q hn hc hq => ?_⟩
  show v.get (ndindex v.shape _) = _
  have hg : c / cg < G := by
    apply Nat.div_lt_of_lt_mul; rw [Nat.mul_comm]; exact hc
  have hj : c % cg < cg := Nat.mod_lt _ hcg
  have hin : InShape ([n, c / cg, c % cg] ++ q) ([N, G, cg] ++ sp) :=
    NN.inShape_append (by simp [InShape]; exact ⟨hn, hg, hj⟩) hq
  have hc' : c / cg * cg + c % cg = c := by rw [Nat.mul_comm]; exact Nat.div_add_mod c cg
  rw [hv, ndindex_of_offset_eq hin]
  rw [offset_split, hc']

/-! ### the `(1, C, 1, …, 1)` parameter views -/

/-- `reshape(p, (1, C, 1, …, 1))` of a rank-1 parameter: element `[0, c] ++ 0…0` is `p[c]` -/
theorem reshape_1C (p : Arr α) (C k : Nat) (hp : p.shape = [C]) :
    ∃ q, reshape (lift p) ((List.replicate (2 + k) 1).set 1 (prod p.shape)) = some q ∧
      q.shape = [1, C] ++ List.replicate k 1 ∧
      ∀ c, c < C → q.get ([0, c] ++ List.replicate k 0) = some (p.get [c]) := by
  have hsh : (List.replicate (2 + k) 1).set 1 (prod p.shape) = [1, C] ++ List.replicate k 1 := by
    rw [hp]
    have : 2 + k = k + 2 := by omega
    simp [this, List.replicate_succ, prod]
  rw [hsh, reshape_some (lift p) _ (by show prod p.shape = _; rw [hp]; simp [prod, prod_append, prod_ones])]
  refine ⟨_, rfl, rfl, fun c hc => ?_⟩
  show some (p.get (ndindex p.shape _)) = _
  congr 2
  rw [hp]
  apply ndindex_of_offset_eq (by simp [InShape]; exact hc)
  have : computeOffset ([0, c] ++ List.replicate k 0) (strides ([1, C] ++ List.replicate k 1))
      = computeOffset [0, c] (strides [1, C]) * prod (List.replicate k 1) + computeOffset (List.replicate k 0) (strides (List.replicate k 1)) :=
    offset_append [0, c] (List.replicate k 0) [1, C] (List.replicate k 1) rfl
  rw [this, computeOffset_zeros, prod_ones]
  simp [computeOffset, strides, prod]

theorem bshape_1C (N C : Nat) (sp : Shape) (hp : Pos ([N, C] ++ sp)) :
    broadcastShape2 ([N, C] ++ sp) ([1, C] ++ List.replicate sp.length 1) = some ([N, C] ++ sp) := by
  unfold broadcastShape2
  rw [bcRev_dom_le]
  · simp
  · simp
  · intro k x y h1 h2
    have hx : 0 < x := by
      apply hp x
      have hm := List.mem_of_getElem? h1
      simp at hm
      rcases hm with h | rfl | rfl
      · simp [h]
      · simp
      · simp
    refine ⟨hx, ?_⟩
    simp only [List.reverse_cons, List.reverse_replicate, List.reverse_append, List.reverse_nil, List.nil_append,
      List.append_assoc, List.cons_append] at h1 h2
    rcases Nat.lt_or_ge k sp.length with hk | hk
    · rw [List.getElem?_append_left (by simpa using hk)] at h2
      simp [hk] at h2
      exact Or.inr h2.symm
    · rw [List.getElem?_append_right (by simpa using hk)] at h1 h2
      simp only [List.length_reverse, List.length_replicate] at h1 h2
      match hkk : k - sp.length, h1, h2 with
      | 0, h1, h2 => simp at h1 h2; exact Or.inl (by omega)
      | 1, h1, h2 => simp at h1 h2; exact Or.inr h2.symm
      | m + 2, h1, h2 => simp at h2

theorem sbi_1C (C n c : Nat) (r : Idx) (hc : c < C) :
    specBroadcastIdx ([1, C] ++ List.replicate r.length 1) ([n, c] ++ r) = [0, c] ++ List.replicate r.length 0 := by
  unfold specBroadcastIdx
  have : ([n, c] ++ r).length - ([1, C] ++ List.replicate r.length 1).length = 0 := by simp
  rw [this]
  simp only [List.drop_zero, List.cons_append, List.nil_append, List.zipWith_cons_cons, zipWith_ones, if_true]
  congr 2
  split <;> omega

/-- binary ufunc of a `(N, C) ++ sp` view with a `(1, C, 1, …, 1)` parameter view -/
theorem bin_1C (f : α → α → α) (a q : OArr α) (g : Nat → α) (N C : Nat) (sp : Shape)
    (hp : Pos ([N, C] ++ sp)) (ha : a.shape = [N, C] ++ sp) (hq : q.shape = [1, C] ++ List.replicate sp.length 1)
    (hg : ∀ c, c < C → q.get ([0, c] ++ List.replicate sp.length 0) = some (g c)) :
    ∃ u, bin f a q = some u ∧ u.shape = [N, C] ++ sp ∧ ∀ n c r, n < N → c < C → InShape r sp →
      u.get ([n, c] ++ r) = (a.get ([n, c] ++ r)).map (f · (g c)) := by
  have hC : 0 < C := hp C (by simp)
  have hpq : Pos q.shape := by
    rw [hq]; intro z hz
    simp only [List.cons_append, List.nil_append, List.mem_cons, List.mem_replicate] at hz
    rcases hz with rfl | rfl | ⟨_, rfl⟩ <;> omega
  obtain ⟨u, h1, h2, h3⟩ := bin_spec f a q ([N, C] ++ sp) (by rw [ha]; exact hp) hpq (by rw [ha, hq]; exact bshape_1C N C sp hp)
  refine ⟨u, h1, h2, fun n c r hn hc hr => ?_⟩
  have hin : InShape ([n, c] ++ r) ([N, C] ++ sp) := NN.inShape_append (by simp [InShape]; exact ⟨hn, hc⟩) hr
  rw [h3 _ hin, ha, sbi_self _ _ hin, hq, ← hr.length_eq, sbi_1C C n c r hc, hr.length_eq, hg c hc, optOp_some_right]

/-! ### the axis list `2, …, src_dim` -/

theorem groupNormAxis_valid (k : Nat) :
    ValidAxes (3 + k) (some ((List.range (1 + k)).map fun (i : Nat) => ((i + 2 : Nat) : Int))) ∧
    axisSet (3 + k) (some ((List.range (1 + k)).map fun (i : Nat) => ((i + 2 : Nat) : Int))) = (List.range (1 + k)).map (2 + ·) := by
  have hset : axisSet (3 + k) (some ((List.range (1 + k)).map fun (i : Nat) => ((i + 2 : Nat) : Int)))
      = (List.range (1 + k)).map (2 + ·) := by
    simp only [axisSet, List.map_map]
    apply List.map_congr_left
    intro i hi
    have hik : i < 1 + k := List.mem_range.1 hi
    simp only [Function.comp]
    have := normAxis_ofNat (n := 3 + k) (k := i + 2) (by omega)
    rw [show (Int.ofNat (i + 2)) = ((i + 2 : Nat) : Int) from rfl] at this
    rw [this]; omega
  refine ⟨⟨?_, ?_⟩, hset⟩
  · intro a ha
    simp only [List.mem_map, List.mem_range] at ha
    obtain ⟨i, hi, rfl⟩ := ha
    unfold ValidAxis; omega
  · simp only [axisSet] at hset
    rw [hset, ← List.range'_eq_map_range]
    exact List.nodup_range'

theorem normAt_congr (add sub div : α → α → α) (sqabs sqrt : α → α) (divn : α → Nat → α) (eps : α) (f f' : Idx → α)
    (τ : Idx → Idx) (G : List Idx) (i : Idx) (hG : ∀ k ∈ G, f k = f' (τ k)) (hi : f i = f' (τ i)) :
    normAt add sub div sqabs sqrt divn eps f G i = normAt add sub div sqabs sqrt divn eps f' (G.map τ) (τ i) := by
  have h1 : G.map f = (G.map τ).map f' := by rw [List.map_map]; exact List.map_congr_left hG
  unfold normAt
  rw [h1, hi, List.length_map]
  congr 1
  funext S
  have h2 : (G.map fun k => sqabs (sub (f k) (divn S G.length))) = ((G.map τ).map fun k => sqabs (sub (f' k) (divn S G.length))) := by
    rw [List.map_map]; apply List.map_congr_left; intro k hk; simp only [Function.comp, hG k hk]
  rw [h2]

end NmVerif.NN
