// C20 harness, extended sequences (`ndobj … x=1`): operation sequences over {resize, fill, write, probe, copy, cast:<kind>,
// dcast:<dtype>} on 14 array kinds held in a std::variant — the array KIND changes with a cast (nm::cast<dst_t>(a)), the
// element type makes a round trip with dcast (nm::cast<T>(a), then nm::cast<int>(…)).  After every step:
//   r=<result> shape=… strides=<a.strides()> n=<cells> data=<buffer> astrides=<strides the offset functor addresses with>
//   [via=<shape>/<strides>/<astrides>/<data> of the T-typed intermediate of a dcast]
// Built as four TUs (-DC20_GROUP=0..3): each serves the cast targets / element types of one group (compile time).
#include "nmtools/array/ndarray.hpp"
#include "nmtools/array/ndarray/hybrid.hpp"
#include "nmtools/array/ndarray/dynamic.hpp"
#include "nmtools/utility/cast.hpp"
#include "nmtools/utility/at.hpp"
#include "nmtools/array/index/ndindex.hpp"
#include "proto.hpp"
#include <array>
#include <vector>
#include <variant>
#include <type_traits>

namespace nm = nmtools; namespace na = nmtools::array; namespace meta = nmtools::meta;
using namespace proto;

#ifndef C20_GROUP
#define C20_GROUP 0
#endif

template <typename T> using dd_k   = na::ndarray_t<std::vector<T>, std::vector<size_t>>;
template <typename T> using ddc_k  = na::column_major_ndarray_t<std::vector<T>, std::vector<size_t>>;
template <typename T> using fd6_k  = na::ndarray_t<std::array<T,6>, std::vector<size_t>>;
template <typename T> using fd6c_k = na::column_major_ndarray_t<std::array<T,6>, std::vector<size_t>>;
template <typename T> using df2_k  = na::ndarray_t<std::vector<T>, std::array<size_t,2>>;
template <typename T> using df3c_k = na::column_major_ndarray_t<std::vector<T>, std::array<size_t,3>>;
template <typename T> using bb_k   = na::ndarray_t<nmtools_static_vector<T,8>, nmtools_static_vector<size_t,3>>;
template <typename T> using db3_k  = na::ndarray_t<std::vector<T>, nmtools_static_vector<size_t,3>>;
template <typename T> using b8d_k  = na::ndarray_t<nmtools_static_vector<T,8>, std::vector<size_t>>;
template <typename T> using ff_k   = na::ndarray_t<std::array<T,6>, std::array<size_t,2>>;
template <typename T> using hyb_k  = na::hybrid_ndarray<T,8,2>;
template <typename T> using dyn_k  = na::dynamic_ndarray<T>;
using clip23_t = nmtools_tuple<nm::clipped_size_t<2>, nm::clipped_size_t<3>>;
template <typename T> using lf_k   = na::ndarray_t<std::array<T,6>, clip23_t>;
template <typename T> using lfc_k  = na::column_major_ndarray_t<std::array<T,6>, clip23_t>;

using State = std::variant<dd_k<int>, ddc_k<int>, fd6_k<int>, fd6c_k<int>, df2_k<int>, df3c_k<int>, bb_k<int>, db3_k<int>, b8d_k<int>,
                           ff_k<int>, hyb_k<int>, dyn_k<int>, lf_k<int>, lfc_k<int>>;

template <typename A> struct is_hyb : std::false_type {};
template <typename T> struct is_hyb<na::hybrid_ndarray<T,8,2>> : std::true_type {};
template <typename A> struct is_dyn : std::false_type {};
template <typename T> struct is_dyn<na::dynamic_ndarray<T>> : std::true_type {};
template <typename A> constexpr bool legacy_v = is_hyb<A>::value || is_dyn<A>::value;

// any index container (vector, array, static_vector, tuple of clipped / constant integers) -> vector
template <typename V> static uvec tov(const V& v) {
    uvec r;
    constexpr auto N = meta::len_v<V>;
    if constexpr (meta::is_tuple_v<V>) { meta::template_for<N>([&](auto i){ r.push_back((size_t)nm::at(v,i)); }); }
    else { for (size_t i=0;i<(size_t)nm::len(v);i++) r.push_back((size_t)nm::at(v,i)); }
    return r;
}
static size_t prod_of(const uvec& s) { size_t n=1; for (auto e : s) n*=e; return n; }

template <typename A> static size_t cells(const A& a) {
    if constexpr (legacy_v<A>) return prod_of(tov(nm::shape(a))); else return (size_t)nm::len(a.data_);
}
template <typename A> static auto* buf(A& a) {
    if constexpr (is_dyn<A>::value) return a.data.data(); else if constexpr (is_hyb<A>::value) return a.data(); else return &a.data_[0];
}
template <typename A> static uvec astrides(const A& a) {
    if constexpr (legacy_v<A>) return tov(a.strides()); else return tov(a.offset_.strides_);
}
template <typename A> static bool do_resize(A& a, const uvec& sh) {
    if constexpr (is_hyb<A>::value) {
        if (sh.size()!=2) return false;   // shape_type is std::array<size_t,2>: other ranks do not type-check
        std::array<size_t,2> s{sh[0],sh[1]}; return (bool)a.resize(s);
    } else if constexpr (is_dyn<A>::value) {
        switch (sh.size()) { case 1: a.resize(sh[0]); return true; case 2: a.resize(sh[0],sh[1]); return true;
                             case 3: a.resize(sh[0],sh[1],sh[2]); return true; default: return false; }
    } else return (bool)a.resize(sh);
}
template <typename A> static void do_write(A& a, const uvec& i, int v) {
    if constexpr (is_hyb<A>::value) a(i.at(0), i.at(1)) = v;
    else if constexpr (is_dyn<A>::value) { switch (i.size()) { case 1: a(i[0]) = v; break; case 2: a(i[0],i[1]) = v; break; case 3: a(i[0],i[1],i[2]) = v; break; } }
    else nm::apply_at(a, i) = v;
}

template <typename A> static std::string state(A& a, size_t ndata) {
    size_t n = cells(a);
    std::string out = "shape=" + fmt(tov(nm::shape(a))) + " strides=" + fmt(tov(a.strides())) + " n=" + std::to_string(n);
    std::vector<long long> d; for (size_t k=0;k<ndata && k<n;k++) d.push_back((long long)buf(a)[k]);
    return out + " data=" + fmt(d) + " astrides=" + fmt(astrides(a));
}
template <typename B> static std::string via(B& b) {
    size_t n = cells(b); std::vector<long long> d; for (size_t k=0;k<n;k++) d.push_back((long long)buf(b)[k]);
    return " via=" + fmt(tov(nm::shape(b))) + "/" + fmt(tov(b.strides())) + "/" + fmt(astrides(b)) + "/" + fmt(d);
}

// hybrid_ndarray<T,8,2>::resize takes exactly two extents: only sources whose shape has the compile-time length 2 cast into it
template <typename Dst, typename Src> constexpr bool castable() {
    if constexpr (is_hyb<Dst>::value) return meta::len_v<meta::remove_cvref_t<decltype(nm::shape(std::declval<const Src&>()))>> == 2;
    else return true;
}

template <template <typename> typename K, typename Src> static bool cast_to(const Src& a, State& out) {
    if constexpr (castable<K<int>, Src>()) { out = nm::cast<K<int>>(a); return true; }
    else return false;
}
// 0 = done, 1 = target not served by this TU / not castable
template <typename Src> static int do_cast(const Src& a, const std::string& k, State& out) {
#if C20_GROUP == 0
    if (k=="dd")   return cast_to<dd_k>(a,out)   ? 0 : 1;
    if (k=="fd6c") return cast_to<fd6c_k>(a,out) ? 0 : 1;
    if (k=="bb")   return cast_to<bb_k>(a,out)   ? 0 : 1;
    if (k=="lf")   return cast_to<lf_k>(a,out)   ? 0 : 1;
#elif C20_GROUP == 1
    if (k=="ddc")  return cast_to<ddc_k>(a,out)  ? 0 : 1;
    if (k=="df2")  return cast_to<df2_k>(a,out)  ? 0 : 1;
    if (k=="hyb")  return cast_to<hyb_k>(a,out)  ? 0 : 1;
#elif C20_GROUP == 2
    if (k=="fd6")  return cast_to<fd6_k>(a,out)  ? 0 : 1;
    if (k=="db3")  return cast_to<db3_k>(a,out)  ? 0 : 1;
    if (k=="ff")   return cast_to<ff_k>(a,out)   ? 0 : 1;
    if (k=="lfc")  return cast_to<lfc_k>(a,out)  ? 0 : 1;
#else
    if (k=="df3c") return cast_to<df3c_k>(a,out) ? 0 : 1;
    if (k=="b8d")  return cast_to<b8d_k>(a,out)  ? 0 : 1;
    if (k=="dyn")  return cast_to<dyn_k>(a,out)  ? 0 : 1;
#endif
    return 1;
}

template <typename T, typename A> static std::string round_trip(A& a) {
    auto b = nm::cast<T>(a);
    std::string v = via(b);
    auto a2 = nm::cast<int>(b);
    static_assert(std::is_same_v<decltype(a2), A>, "cast<int>(cast<T>(a)) gives back the kind of a");
    a = a2;
    return v;
}
// cast<T>(a) does not compile for arrays whose buffer is a static_vector (meta::replace_element_type has no
// specialisation for utl::static_vector: the resolved type is ndarray_t<void,…>): kinds bb and b8d have no dcast
template <typename A> constexpr bool dcastable() {
    return !std::is_same_v<A, bb_k<int>> && !std::is_same_v<A, b8d_k<int>>;
}
template <typename A> static bool do_dcast(A& a, const std::string& t, std::string& v) {
  if constexpr (dcastable<A>()) {
#if C20_GROUP == 0
    if (t=="i8")  { v = round_trip<signed char>(a); return true; }
#elif C20_GROUP == 1
    if (t=="f64") { v = round_trip<double>(a); return true; }
    if (t=="i64") { v = round_trip<long long>(a); return true; }
#elif C20_GROUP == 2
    if (t=="u8")  { v = round_trip<unsigned char>(a); return true; }
#else
    if (t=="i16") { v = round_trip<short>(a); return true; }
#endif
  }
    return false;
}

struct Step { std::string op; std::string s1; ivec a; ivec b; };
static std::vector<Step> parse_ops(const std::string& s) {
    std::vector<Step> r;
    for (auto& t : split(s,';')) {
        auto p = split(t,':'); Step st; st.op = p.at(0);
        if (st.op=="cast" || st.op=="dcast") { st.s1 = p.at(1); }
        else { if (p.size()>1) st.a = parse_ints(p[1]); if (p.size()>2) st.b = parse_ints(p[2]); }
        r.push_back(st);
    }
    return r;
}

static std::string run(State st, const std::vector<Step>& ops) {
    std::string out;
    // cells whose contents are determined so far: the default state of the legacy classes is not modelled (0 cells)
    size_t tracked = std::visit([](auto& a){ using A = meta::remove_cvref_t<decltype(a)>; return legacy_v<A> ? (size_t)0 : cells(a); }, st);
    for (auto& s : ops) {
        if (!out.empty()) out += " | ";
        std::string seg;
        if (s.op=="cast") {
            State nxt = st; int rc = std::visit([&](auto& a){ return do_cast(a, s.s1, nxt); }, st);
            if (rc) return "unsupported-cast";
            st = nxt;
            seg = std::visit([&](auto& a){ return "r=1 " + state(a, cells(a)); }, st);
        } else seg = std::visit([&](auto& a) -> std::string {
            using A = meta::remove_cvref_t<decltype(a)>;
            if (s.op=="resize") {
                size_t old = tracked; uvec sh(s.a.begin(), s.a.end());
                bool r = do_resize(a, sh);
                size_t now = cells(a);
                return std::string("r=") + (r?"1":"0") + " " + state(a, r ? std::min(old,now) : now);
            } else if (s.op=="fill") {
                size_t n = cells(a); for (size_t k=0;k<n;k++) buf(a)[k] = (int)(s.a.at(0) + (long long)k);
                return "r=1 " + state(a, n);
            } else if (s.op=="write") {
                uvec idx(s.a.begin(), s.a.end()); do_write(a, idx, (int)s.b.at(0));
                return "r=1 " + state(a, cells(a));
            } else if (s.op=="probe") {
                uvec sh = tov(nm::shape(a)); size_t n = prod_of(sh), c = cells(a);
                for (size_t k=0;k<c;k++) buf(a)[k] = -1;
                auto nd = nm::index::ndindex(sh);
                for (size_t k=0;k<n;k++) { auto i = nd[k]; do_write(a, tov(i), (int)(100+k)); }
                return "r=1 " + state(a, c);
            } else if (s.op=="copy") {
                size_t n = cells(a);
                A b(a); for (size_t k=0;k<n;k++) buf(b)[k] = -5;
                if constexpr (legacy_v<A>) return "r=1 " + state(a, n);
                else {
                    A c; c = a;
                    bool same = cells(c)==n && tov(nm::shape(c))==tov(nm::shape(a)) && tov(c.strides())==tov(a.strides()) && astrides(c)==astrides(a);
                    for (size_t k=0;same && k<n;k++) same = (buf(c)[k]==buf(a)[k]);
                    return std::string("r=") + (same?"1":"0") + " " + state(a, n);
                }
            } else if (s.op=="dcast") {
                std::string v; if (!do_dcast(a, s.s1, v)) return "unsupported-dtype";
                return "r=1 " + state(a, cells(a)) + v;
            }
            return "bad-op";
        }, st);
        if (seg=="unsupported-dtype" || seg=="bad-op") return seg;
        tracked = std::visit([](auto& a){ return cells(a); }, st);
        out += seg;
    }
    return "ok " + out;
}

std::string handle(const std::string& op, const Args& a) {
    if (op!="ndobj") return "unknown-op";
    auto kind = get(a,"kind"); auto ops = parse_ops(get(a,"ops"));
    if (kind=="dd")   return run(State{dd_k<int>{}}, ops);
    if (kind=="ddc")  return run(State{ddc_k<int>{}}, ops);
    if (kind=="fd6")  return run(State{fd6_k<int>{}}, ops);
    if (kind=="fd6c") return run(State{fd6c_k<int>{}}, ops);
    if (kind=="df2")  return run(State{df2_k<int>{}}, ops);
    if (kind=="df3c") return run(State{df3c_k<int>{}}, ops);
    if (kind=="bb")   return run(State{bb_k<int>{}}, ops);
    if (kind=="db3")  return run(State{db3_k<int>{}}, ops);
    if (kind=="b8d")  return run(State{b8d_k<int>{}}, ops);
    if (kind=="ff")   return run(State{ff_k<int>{}}, ops);
    if (kind=="hyb")  return run(State{hyb_k<int>{}}, ops);
    if (kind=="dyn")  return run(State{dyn_k<int>{}}, ops);
    if (kind=="lf")   return run(State{lf_k<int>{}}, ops);
    if (kind=="lfc")  return run(State{lfc_k<int>{}}, ops);
    return "unsupported-kind";
}
