import NmVerif.Proto
import NmVerif.Basic
import NmVerif.NDA
namespace NmVerif.Driver.C01
open NmVerif NmVerif.Proto

def handle : Handler := fun op a =>
  match op with
  | "strides" => orBad do
      let s ← a.nats "shape"
      pure s!"ok {fmtNats (strides s)}"
  | "offset" => orBad do
      let i ← a.nats "idx"
      let st ← a.nats "strides"
      pure s!"ok {computeOffset i st}"
  | "indices" => orBad do
      let off ← a.nat "off"
      let s ← a.nats "shape"
      pure s!"ok {fmtNats (ndindex s off)}"
  | "product" => orBad do
      let s ← a.nats "shape"
      pure s!"ok {prod s}"
  | "nd_get" => orBad do
      -- array filled with data[k]=k : the element read IS the buffer position
      let s ← a.nats "shape"
      let i ← a.nats "idx"
      let cm := (a.get? "layout") == some "col"
      let arr : NDA Nat := { shape := s, colMajor := cm, data := List.range (prod s) }
      match arr.get? i with
      | some v => pure s!"ok {v}"
      | none => pure "oob"
  | "nd_set" => orBad do
      -- write a marker through operator(), report which buffer cell changed
      let s ← a.nats "shape"
      let i ← a.nats "idx"
      let cm := (a.get? "layout") == some "col"
      let arr : NDA Nat := { shape := s, colMajor := cm, data := List.replicate (prod s) 0 }
      let arr' := arr.set i 1
      pure s!"ok {fmtNats ((List.range (prod s)).filter (fun k => arr'.data[k]? == some 1))}"
  | _ => none

end NmVerif.Driver.C01
