// C10 harness (known finding adl.eager-apply_slice): array/array/slice.hpp declares
//     array::apply_slice(const array_t&, const tuple_t<slices_t...>&, context, output, resolver)
// which argument-dependent lookup finds — and partial ordering prefers — for the *unqualified* calls
// `apply_slice(*lhs, l_slice_indices)` inside view::matmul_t::view_at (view/matmul.hpp:414-426).  The slices become
// evaluated temporaries, `multiply(l_slice, r_slice)` stores their addresses, and the reduce view returned from view_at
// reads them after they died.  So in a TU that includes both headers array::matmul / view::matmul no longer return the
// matrix product (garbage, std::out_of_range from a wild index, or a sanitizer report).
//   adl a=<n,k> b=<k,m> : answer ok shape=… data=… of array::matmul(a, b) after checking it against view::matmul(a, b)
#include "nmtools/array/ndarray.hpp"
#include "nmtools/array/array/slice.hpp"
#include "nmtools/array/array/matmul.hpp"
#include "nmtools/array/index/ndindex.hpp"
#include "proto.hpp"
namespace nm = nmtools; namespace na = nmtools::array; namespace view = nmtools::view; namespace ix = nmtools::index;
using namespace proto;
using arr_t = na::ndarray_t<std::vector<int>, std::vector<size_t>>;

static arr_t mk(const uvec& s, int base) { arr_t a; a.resize(s); for (size_t k = 0; k < nm::size(a); k++) a.data()[k] = (int)k + base; return a; }
template <typename V> static std::string dump(const V& v) {
    auto sh = nm::shape(v); uvec s; for (size_t i = 0; i < nm::len(sh); i++) s.push_back(nm::at(sh, i));
    auto nd = ix::ndindex(s); ivec d;
    for (size_t k = 0; k < nd.size(); k++) d.push_back((long long)nm::apply_at(v, nd[k]));
    return "shape=" + fmt(s) + " data=" + fmt(d);
}
std::string handle(const std::string& op, const Args& a) {
    if (op != "adl") return "unknown-op";
    auto A = mk(nats(a, "a"), 0), B = mk(nats(a, "b"), 1000);
    auto v = view::matmul(A, B);
    auto e = na::matmul(A, B);
    auto dv = dump(v), de = dump(e);
    if (dv != de) return "view-eval-differ view{" + dv + "} eval{" + de + "}";
    return "ok " + de;
}
