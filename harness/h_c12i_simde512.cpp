// C12 harness, integer element types, SIMDe AVX-512 context (512 bit); flags as h_c12_simde512.cpp
#include "nmtools/array/eval/simd/simde_avx512.hpp"
#define C12_CTX  nmtools::array::simd::simde_AVX512
#define C12_BITS 512
// simd_op_t<simde_avx512_t,T>::mul: simde_mm512_mullo_epi16 / 32 / 64 only
#define C12I_NO_MUL8
// simd_op_t<...>::fmadd: _ps / _pd intrinsics only, an integer matmul does not compile
#define C12I_NO_MATMUL
#include "h_c12_int_common.hpp"
