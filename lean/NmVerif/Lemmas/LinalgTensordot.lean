import NmVerif.Lemmas.LinalgDot
import NmVerif.Props.C01
import NmVerif.Lemmas.LinalgTrace
/-
  Lemmas for tensordot of C16.
-/
namespace NmVerif
open NmVerif.MB
open Linalg

theorem broadcastShape_append_same (x y : Shape) : ∀ (n : Nat) (C : Shape), C.length = n →
    broadcastShape (x ++ C) (y ++ C) = (broadcastShape x y).map (· ++ C) := by
  intro n
  induction n with
  | zero => intro C hC; have : C = [] := List.length_eq_zero_iff.1 hC; subst this; simp
  | succ n ih =>
    intro C hC
    obtain ⟨C', z, rfl⟩ := exists_append_one C (by omega)
    rw [← List.append_assoc, ← List.append_assoc, broadcastShape_append_one, bc1_self]
    simp only
    rw [ih C' (by simpa using hC)]
    cases broadcastShape x y <;> simp

theorem sumLast_get {α : Type} (m : Arr α) (S C : Shape) (h : m.shape = S ++ C) (d : Idx) :
    (sumLast C.length m).shape = S ∧ (sumLast C.length m).get d = (allIdx C).map (fun r => m.get (d ++ r)) := by
  simp [sumLast, h]

/-- `reshape` that inserts `o` unit axes between a prefix `P` and a suffix `C` -/
theorem reshape_insert_ones {α : Type} (a : Arr α) (P C : Shape) (o : Nat) (h : a.shape = P ++ C) :
    ∃ b, reshape a (P ++ List.replicate o 1 ++ C) = some b ∧ b.shape = P ++ List.replicate o 1 ++ C ∧
      ∀ p c, InShape p P → InShape c C → b.get (p ++ List.replicate o 0 ++ c) = a.get (p ++ c) := by
  have hp : prod a.shape = prod (P ++ List.replicate o 1 ++ C) := by simp [h, prod_append, prod_ones]
  rw [reshape_some _ _ hp]
  refine ⟨_, rfl, rfl, ?_⟩
  intro p c hp' hc
  simp only
  congr 1
  rw [h]
  apply ndindex_of_offset_eq ((inShape_append hp'.length_eq).2 ⟨hp', hc⟩)
  rw [offset_append _ _ _ _ hp'.length_eq]
  rw [List.append_assoc, List.append_assoc, offset_append _ _ _ _ hp'.length_eq]
  rw [offset_append _ _ _ _ (by simp), computeOffset_zeros]
  simp [prod_append, prod_ones]

/-- `sum(multiply(a, c), last |C| axes)` when both operands end in the same block of extents `C` -/
theorem contract_block (a c : Arr Idx) (X Y bs C : Shape) (ha : a.shape = X ++ C) (hc : c.shape = Y ++ C)
    (hbs : broadcastShape X Y = some bs) :
    ∃ r, (mulT a c).map (sumLast C.length) = some r ∧ r.shape = bs ∧
      ∀ d, d.length = bs.length →
        r.get d = (allIdx C).map (fun cc => (a.get (bcIdx d X ++ cc), c.get (bcIdx d Y ++ cc))) := by
  have hlen := broadcastShape_length hbs
  have hsh : broadcastShape a.shape c.shape = some (bs ++ C) := by
    rw [ha, hc, broadcastShape_append_same _ _ C.length C rfl]; simp [hbs]
  simp only [mulT, bcast2, hsh, Option.map_some]
  refine ⟨_, rfl, ?_, ?_⟩
  · exact (sumLast_get _ bs C rfl []).1
  · intro d hd
    rw [(sumLast_get _ bs C rfl d).2]
    apply List.map_congr_left
    intro cc hcc
    have hcc' : InShape cc C := (NmVerif.Props.C01.mem_allIdx_iff C cc).1 hcc
    simp only [ha, hc]
    rw [bcIdx_append (β := d) (τ := cc) (s := X) (t := C) hcc'.length_eq (by omega),
        bcIdx_append (β := d) (τ := cc) (s := Y) (t := C) hcc'.length_eq (by omega), bcIdx_self hcc']

theorem mulT_sumLastN {a c : Arr Idx} {n : Nat} {r : Arr (List Term)} (h : (mulT a c).map (sumLast n) = some r) :
    (mulT a c).bind (fun m => some (sumLast n m)) = some r := by
  cases hm : mulT a c with
  | none => simp [hm] at h
  | some mm => simp [hm] at h ⊢; exact h

/-- the `tensordot` pipeline once the two transposes are known: free axes of lhs, free axes of rhs, and the sum over
    the contracted block in row-major order -/
theorem tensordotCore_elem (sa sb lt rt FA FB C : List Nat) (hpb : Pos FB)
    (hta : transpose (ident sa) lt = some ⟨FA ++ C, fun d => scatter d lt⟩)
    (htb : transpose (ident sb) rt = some ⟨FB ++ C, fun d => scatter d rt⟩)
    (hlb : sb.length = FB.length + C.length) :
    ∃ r, tensordotCore sa sb lt rt C.length = some r ∧ r.shape = FA ++ FB ∧
      ∀ p q, InShape p FA → InShape q FB →
        r.get (p ++ q) = (allIdx C).map (fun c => (scatter (p ++ c) lt, scatter (q ++ c) rt)) := by
  obtain ⟨b, hb, hbsh, hbget⟩ := reshape_insert_ones (α := Idx) ⟨FA ++ C, fun d => scatter d lt⟩ FA C FB.length rfl
  obtain ⟨r, hr, hrsh, hrget⟩ := contract_block b ⟨FB ++ C, fun d => scatter d rt⟩ (FA ++ List.replicate FB.length 1) FB (FA ++ FB) C
    hbsh rfl (broadcastShape_ones_right FA FB.length FB rfl hpb)
  refine ⟨r, ?_, hrsh, ?_⟩
  · unfold tensordotCore
    simp only [Option.bind_eq_bind, Option.pure_def]
    rw [hta]; simp only [Option.bind_some]
    have e1 : tensordotLhsReshape (FA ++ C) sb.length C.length = FA ++ List.replicate FB.length 1 ++ C := by
      simp [tensordotLhsReshape, hlb]
    rw [e1, hb]; simp only [Option.bind_some]
    rw [htb]; simp only [Option.bind_some]
    exact mulT_sumLastN hr
  · intro p q hp hq
    rw [hrget (p ++ q) (by simp [hp.length_eq, hq.length_eq])]
    apply List.map_congr_left
    intro cc hcc
    have hcc' : InShape cc C := (NmVerif.Props.C01.mem_allIdx_iff C cc).1 hcc
    rw [bcIdx_append (β := p) (τ := q) (s := FA) (t := List.replicate FB.length 1) (by simp [hq.length_eq]) (by rw [hp.length_eq]; exact Nat.le_refl _)]
    rw [bcIdx_self hp, ← hq.length_eq, bcIdx_ones, bcIdx_drop_prefix p q FB hq.length_eq, bcIdx_self hq, hq.length_eq]
    rw [hbget p cc hp hcc']

theorem range_add_eq (n m : Nat) : List.range (n + m) = List.range n ++ List.range' n m := by
  rw [List.range_eq_range', List.range_eq_range', ← List.range'_append_1]; simp

theorem range_filter_not_prefix (n m : Nat) :
    (List.range (n + m)).filter (fun i => !(List.range n).contains i) = List.range' n m := by
  rw [range_add_eq, List.filter_append]
  have h1 : (List.range n).filter (fun i => !(List.range n).contains i) = [] := by
    rw [List.filter_eq_nil_iff]; intro a ha; simp [ha]
  have h2 : (List.range' n m).filter (fun i => !(List.range n).contains i) = List.range' n m := by
    rw [List.filter_eq_self]; intro a ha
    simp only [List.mem_range'_1] at ha
    simp; omega
  rw [h1, h2]; rfl

theorem moveToEnd_prefix (n m : Nat) : moveToEnd (n + m) (List.range n) = List.range' n m ++ List.range n := by
  unfold moveToEnd; rw [range_filter_not_prefix]

/-- moving the first `n` axes to the end: `scatter (q ++ c) = c ++ q` -/
theorem scatter_rotate (q c : List Nat) :
    scatter (q ++ c) (List.range' c.length q.length ++ List.range c.length) = c ++ q := by
  rw [scatter_eq, List.zip_append (by simp), scatterFold_append]
  have h1 : List.replicate (q ++ c).length 0 = List.replicate c.length 0 ++ List.replicate q.length 0 ++ [] := by
    simp [List.replicate_append_replicate, Nat.add_comm]
  rw [h1]
  have := scatterFold_range' (List.replicate c.length 0) q [] (List.replicate q.length 0) (by simp)
  simp only [List.length_replicate] at this
  rw [this]
  have h2 := scatterFold_range' [] c q (List.replicate c.length 0) (by simp)
  simp only [List.length_nil, List.nil_append, List.append_nil] at h2 ⊢
  rw [List.range_eq_range', h2]

theorem mapM_getElem?_range' (pre s : List Nat) :
    (List.range' pre.length s.length).mapM (fun k => (pre ++ s)[k]?) = some s := by
  rw [List.range'_eq_map_range, List.mapM_map]
  rw [mapM_range_some s.length _ (fun k => s.getD k 0)]
  · congr 1
    apply List.ext_getElem
    · simp
    · intro i h1 h2; simp at h1; simp [List.getElem?_eq_getElem h1]
  · intro i hi
    simp only [Function.comp]
    rw [List.getElem?_append_right (by omega)]
    simp [List.getElem?_eq_getElem hi]

/-- `tensordot(a, b, n)` with an integer: the last `n` axes of `a` against the first `n` axes of `b`, in order -/
theorem tensordotInt_elem (FA FB C : Shape) (hpb : Pos FB) :
    ∃ r, tensordotInt (FA ++ C) (C ++ FB) C.length = some r ∧ r.shape = FA ++ FB ∧
      ∀ p q, InShape p FA → InShape q FB →
        r.get (p ++ q) = (allIdx C).map (fun c => (p ++ c, c ++ q)) := by
  have hta : transpose (ident (FA ++ C)) (List.range (FA ++ C).length) =
      some ⟨FA ++ C, fun d => scatter d (List.range (FA ++ C).length)⟩ := transpose_range (ident (FA ++ C))
  have hrt : moveToEnd (C ++ FB).length (List.range C.length) = List.range' C.length FB.length ++ List.range C.length := by
    rw [List.length_append, moveToEnd_prefix]
  have htb : transpose (ident (C ++ FB)) (List.range' C.length FB.length ++ List.range C.length) =
      some ⟨FB ++ C, fun d => scatter d (List.range' C.length FB.length ++ List.range C.length)⟩ := by
    unfold transpose
    have : (List.range' C.length FB.length ++ List.range C.length).mapM (fun k => (ident (C ++ FB)).shape[k]?) = some (FB ++ C) := by
      rw [List.mapM_append]
      simp only [ident]
      rw [mapM_getElem?_range' C FB]
      have h2 : (List.range C.length).mapM (fun k => (C ++ FB)[k]?) = some C := by
        rw [mapM_range_some C.length _ (fun k => C.getD k 0)]
        · congr 1
          apply List.ext_getElem
          · simp
          · intro i h1 h2; simp at h1; simp [List.getElem?_eq_getElem h1]
        · intro i hi
          rw [List.getElem?_append_left hi]; simp [List.getElem?_eq_getElem hi]
      simp [h2]
    rw [this]
    rfl
  obtain ⟨r, hr, hrsh, hrget⟩ := tensordotCore_elem (FA ++ C) (C ++ FB) (List.range (FA ++ C).length)
    (List.range' C.length FB.length ++ List.range C.length) FA FB C hpb hta htb (by simp; omega)
  refine ⟨r, ?_, hrsh, ?_⟩
  · unfold tensordotInt; rw [hrt]; exact hr
  · intro p q hp hq
    rw [hrget p q hp hq]
    apply List.map_congr_left
    intro cc hcc
    have hcc' : InShape cc C := (NmVerif.Props.C01.mem_allIdx_iff C cc).1 hcc
    have e1 : (FA ++ C).length = (p ++ cc).length := by simp [hp.length_eq, hcc'.length_eq]
    rw [e1, scatter_range, ← hcc'.length_eq, ← hq.length_eq, scatter_rotate]

/-- explicit axes: shape and terms, with the two transposes left in `scatter` form -/
theorem tensordotAxes_elem_scatter (sa sb : Shape) (la ra : List Int) (la' ra' : List Nat) (FA FB C : Shape)
    (hla : la.mapM (normAxis · sa.length) = some la') (hra : ra.mapM (normAxis · sb.length) = some ra')
    (hta : (moveToEnd sa.length la').mapM (fun k => sa[k]?) = some (FA ++ C))
    (htb : (moveToEnd sb.length ra').mapM (fun k => sb[k]?) = some (FB ++ C))
    (hn : la.length = C.length) (hlb : sb.length = FB.length + C.length) (hpb : Pos FB) :
    ∃ r, tensordotAxes sa sb la ra = some r ∧ r.shape = FA ++ FB ∧
      ∀ p q, InShape p FA → InShape q FB →
        r.get (p ++ q) = (allIdx C).map (fun c =>
          (scatter (p ++ c) (moveToEnd sa.length la'), scatter (q ++ c) (moveToEnd sb.length ra'))) := by
  have h1 : transpose (ident sa) (moveToEnd sa.length la') = some ⟨FA ++ C, fun d => scatter d (moveToEnd sa.length la')⟩ := by
    unfold transpose; simp only [ident]; rw [hta]; rfl
  have h2 : transpose (ident sb) (moveToEnd sb.length ra') = some ⟨FB ++ C, fun d => scatter d (moveToEnd sb.length ra')⟩ := by
    unfold transpose; simp only [ident]; rw [htb]; rfl
  obtain ⟨r, hr, hrsh, hrget⟩ := tensordotCore_elem sa sb _ _ FA FB C hpb h1 h2 hlb
  refine ⟨r, ?_, hrsh, hrget⟩
  unfold tensordotAxes
  simp only [hla, hra, Option.bind_eq_bind, Option.bind_some, hn]
  exact hr

theorem la_scatterFold_length (acc : List Nat) (ps : List (Nat × Nat)) : (scatterFold acc ps).length = acc.length := by
  induction ps generalizing acc with
  | nil => rfl
  | cons p ps ih => simp only [scatterFold, List.foldl_cons] at ih ⊢; rw [ih]; simp

theorem scatterFold_getElem?_of_not_mem (acc : List Nat) (ps : List (Nat × Nat)) (j : Nat)
    (h : ∀ p ∈ ps, p.2 ≠ j) : (scatterFold acc ps)[j]? = acc[j]? := by
  induction ps generalizing acc with
  | nil => rfl
  | cons p ps ih =>
    simp only [scatterFold, List.foldl_cons] at ih ⊢
    rw [ih _ (fun q hq => h q (by simp [hq]))]
    rw [List.getElem?_set_ne (h p (by simp))]

theorem scatterFold_getElem?_mem (acc : List Nat) (ps : List (Nat × Nat)) (hnd : (ps.map (·.2)).Nodup)
    (v k : Nat) (hm : (v, k) ∈ ps) (hk : k < acc.length) : (scatterFold acc ps)[k]? = some v := by
  induction ps generalizing acc with
  | nil => simp at hm
  | cons p ps ih =>
    simp only [List.map_cons, List.nodup_cons] at hnd
    simp only [scatterFold, List.foldl_cons] at ih ⊢
    rcases List.mem_cons.1 hm with heq | hin
    · subst heq
      have hnot : ∀ q ∈ ps, q.2 ≠ k := by
        intro q hq hqk
        exact hnd.1 (List.mem_map.2 ⟨q, hq, hqk⟩)
      have := scatterFold_getElem?_of_not_mem (acc.set k v) ps k hnot
      simp only [scatterFold] at this
      rw [this]; simp [hk]
    · exact ih _ hnd.2 hin (by simpa using hk)

/-- `scatter` by a duplicate-free axis list: position `σ[i]` receives `d[i]` -/
theorem scatter_getElem?_mem (d σ : List Nat) (hnd : σ.Nodup) (v k : Nat) (hm : (v, k) ∈ d.zip σ) (hk : k < d.length) :
    (scatter d σ)[k]? = some v := by
  rw [scatter_eq]
  apply scatterFold_getElem?_mem _ _ _ v k hm (by simpa using hk)
  have : ∀ (d σ : List Nat), (d.zip σ).map (·.2) = σ.take (min d.length σ.length) := by
    intro d
    induction d with
    | nil => intro σ; simp
    | cons x d ih =>
      intro σ
      cases σ with
      | nil => simp
      | cons y σ => simp [ih σ, Nat.succ_min_succ]
  rw [this]
  exact List.Nodup.sublist (List.take_sublist _ _) hnd

theorem la_scatter_length (d σ : List Nat) : (scatter d σ).length = d.length := by
  rw [scatter_eq, la_scatterFold_length]; simp

/-- is axis `i` one of the listed ones (as `placeIdx` decides it) -/
def listed (A c : List Nat) (i : Nat) : Bool := ((A.zip c).lookup i).isSome

/-- pointwise description of `placeIdx`: position `k` holds the listed coordinate of axis `L[k]`, or the free
    coordinate whose number is the count of non-listed axes before position `k` -/
theorem placeIdx_getElem? (A c : List Nat) : ∀ (L free : List Nat),
    (L.filter (fun i => !listed A c i)).length ≤ free.length →
    (placeIdx A c L free).length = L.length ∧
    ∀ k i, L[k]? = some i →
      (placeIdx A c L free)[k]? =
        (match (A.zip c).lookup i with
         | some v => some v
         | none => free[((L.take k).filter (fun i => !listed A c i)).length]?) := by
  intro L
  induction L with
  | nil => intro free _; simp [placeIdx]
  | cons a L ih =>
    intro free hlen
    cases hlk : (A.zip c).lookup a with
    | some v =>
      have hl : listed A c a = true := by simp [listed, hlk]
      have hlen' : (L.filter (fun i => !listed A c i)).length ≤ free.length := by
        simpa [List.filter_cons, hl] using hlen
      obtain ⟨ihl, ihg⟩ := ih free hlen'
      simp only [placeIdx, hlk]
      refine ⟨by simp [ihl], ?_⟩
      intro k i hk
      cases k with
      | zero => simp at hk; subst hk; simp [hlk]
      | succ k =>
        simp only [List.getElem?_cons_succ] at hk ⊢
        rw [ihg k i hk]
        simp [List.take_succ_cons, List.filter_cons, hl]
    | none =>
      have hl : listed A c a = false := by simp [listed, hlk]
      have hlen' : (L.filter (fun i => !listed A c i)).length + 1 ≤ free.length := by
        simpa [List.filter_cons, hl] using hlen
      match free, hlen' with
      | f :: fs, hlen'' =>
        obtain ⟨ihl, ihg⟩ := ih fs (by simpa using hlen'')
        simp only [placeIdx, hlk]
        refine ⟨by simp [ihl], ?_⟩
        intro k i hk
        cases k with
        | zero => simp at hk; subst hk; simp [hlk]
        | succ k =>
          simp only [List.getElem?_cons_succ] at hk ⊢
          rw [ihg k i hk]
          simp [List.take_succ_cons, List.filter_cons, hl]
      | [], h => simp at h

theorem lookup_of_mem_nodup (ps : List (Nat × Nat)) (hnd : (ps.map (·.1)).Nodup) (k v : Nat) (hm : (k, v) ∈ ps) :
    ps.lookup k = some v := by
  induction ps with
  | nil => simp at hm
  | cons p ps ih =>
    simp only [List.map_cons, List.nodup_cons] at hnd
    rcases List.mem_cons.1 hm with heq | hin
    · subst heq; simp [List.lookup_cons]
    · have hne : k ≠ p.1 := by
        intro h; exact hnd.1 (List.mem_map.2 ⟨(k, v), hin, h⟩)
      have hb : (k == p.1) = false := by simpa using hne
      obtain ⟨p1, p2⟩ := p
      simp only [List.lookup_cons] at *
      simp only [hb]
      exact ih hnd.2 hin

theorem map_fst_zip_take (A c : List Nat) : (A.zip c).map (·.1) = A.take (min A.length c.length) := by
  induction A generalizing c with
  | nil => simp
  | cons x A ih =>
    cases c with
    | nil => simp
    | cons y c => simp [ih c, Nat.succ_min_succ]

theorem lookup_zip_none_of_not_mem (A c : List Nat) (k : Nat) (h : k ∉ A) : (A.zip c).lookup k = none := by
  induction A generalizing c with
  | nil => simp
  | cons x A ih =>
    cases c with
    | nil => simp
    | cons y c =>
      have hne : k ≠ x := by intro hh; exact h (by simp [hh])
      have hb : (k == x) = false := by simpa using hne
      simp only [List.zip_cons_cons, List.lookup_cons, hb]
      exact ih c (fun hh => h (by simp [hh]))

theorem lookup_zip_of_getElem (A c : List Nat) (hnd : A.Nodup) (t : Nat) (k v : Nat) (hk : A[t]? = some k) (hv : c[t]? = some v) :
    (A.zip c).lookup k = some v := by
  apply lookup_of_mem_nodup
  · rw [map_fst_zip_take]; exact List.Nodup.sublist (List.take_sublist _ _) hnd
  · rw [List.mem_iff_getElem?]
    exact ⟨t, by simp [List.getElem?_zip_eq_some, hk, hv]⟩

theorem listed_eq_contains (A c : List Nat) (hnd : A.Nodup) (hl : A.length = c.length) (i : Nat) :
    listed A c i = A.contains i := by
  by_cases hi : i ∈ A
  · obtain ⟨t, ht⟩ := List.mem_iff_getElem?.1 hi
    have htl : t < c.length := by
      have := (List.getElem?_eq_some_iff.1 ht).1; omega
    have := lookup_zip_of_getElem A c hnd t i c[t] ht (List.getElem?_eq_getElem htl)
    simp [listed, this, hi]
  · simp [listed, lookup_zip_none_of_not_mem A c i hi, hi]

theorem length_filter_add_not {α : Type} (p : α → Bool) (l : List α) :
    (l.filter p).length + (l.filter (fun x => !p x)).length = l.length := by
  induction l with
  | nil => rfl
  | cons x l ih =>
    by_cases h : p x <;> simp [List.filter_cons, h] <;> omega

/-- the free axes and the listed axes partition `0..dim-1` -/
theorem free_count (dim : Nat) (A : List Nat) (hnd : A.Nodup) (hlt : ∀ x ∈ A, x < dim) :
    ((List.range dim).filter (fun i => !A.contains i)).length + A.length = dim := by
  have h1 := length_filter_add_not (fun i => A.contains i) (List.range dim)
  have h2 : ((List.range dim).filter (fun i => A.contains i)).Perm A := by
    rw [List.perm_ext_iff_of_nodup (List.Nodup.sublist (List.filter_sublist) List.nodup_range) hnd]
    intro a
    simp only [List.mem_filter, List.mem_range, List.contains_iff_mem]
    constructor
    · intro h; exact h.2
    · intro h; exact ⟨hlt a h, h⟩
  have := h2.length_eq
  simp only [List.length_range] at h1
  omega

/-- the `t`-th free axis, `t` = number of free axes below `j`, is `j` itself -/
theorem free_getElem? (dim : Nat) (A : List Nat) (j : Nat) (hj : j < dim) (hnot : j ∉ A) :
    ((List.range dim).filter (fun i => !A.contains i))[((List.range j).filter (fun i => !A.contains i)).length]? = some j := by
  have hsplit : List.range dim = List.range j ++ (j :: List.range' (j + 1) (dim - j - 1)) := by
    have : dim = j + (dim - j) := by omega
    rw [this, range_add_eq]
    congr 1
    have : j + (dim - j) - j - 1 = (dim - j) - 1 := by omega
    rw [this]
    cases hd : dim - j with
    | zero => omega
    | succ n => simp [List.range'_succ]
  rw [hsplit, List.filter_append, List.getElem?_append_right (Nat.le_refl _), Nat.sub_self]
  have : (fun i => !A.contains i) j = true := by simp [hnot]
  rw [List.filter_cons, if_pos this]
  simp

theorem moveToEnd_nodup (dim : Nat) (A : List Nat) (hnd : A.Nodup) : (moveToEnd dim A).Nodup := by
  unfold moveToEnd
  rw [List.nodup_append]
  refine ⟨List.Nodup.sublist (List.filter_sublist) List.nodup_range, hnd, ?_⟩
  intro a ha b hb hab
  subst hab
  simp only [List.mem_filter, List.mem_range] at ha
  simp at ha
  exact ha.2 hb

/-- transposing by "free axes in order, then the listed axes" puts `p` on the free axes in order and `c[t]` on axis `A[t]` -/
theorem scatter_moveToEnd (dim : Nat) (A c p : List Nat) (hnd : A.Nodup) (hlt : ∀ x ∈ A, x < dim)
    (hc : c.length = A.length) (hp : p.length = ((List.range dim).filter (fun i => !A.contains i)).length) :
    scatter (p ++ c) (moveToEnd dim A) = placeIdx A c (List.range dim) p := by
  have hcount := free_count dim A hnd hlt
  have hfilt : (List.range dim).filter (fun i => !listed A c i) = (List.range dim).filter (fun i => !A.contains i) := by
    apply List.filter_congr
    intro i _
    rw [listed_eq_contains A c hnd hc.symm]
  obtain ⟨hplen, hpget⟩ := placeIdx_getElem? A c (List.range dim) p (by rw [hfilt, hp]; exact Nat.le_refl _)
  have hslen : (scatter (p ++ c) (moveToEnd dim A)).length = dim := by
    rw [la_scatter_length]; simp; omega
  apply List.ext_getElem?
  intro j
  by_cases hj : j < dim
  · have hrj : (List.range dim)[j]? = some j := by simp [hj]
    rw [hpget j j hrj]
    have hzip : (p ++ c).zip (moveToEnd dim A) = p.zip ((List.range dim).filter (fun i => !A.contains i)) ++ c.zip A := by
      unfold moveToEnd
      rw [List.zip_append hp]
    by_cases hjA : j ∈ A
    · obtain ⟨t, ht⟩ := List.mem_iff_getElem?.1 hjA
      have htl : t < c.length := by
        have := (List.getElem?_eq_some_iff.1 ht).1; omega
      have hct : c[t]? = some c[t] := List.getElem?_eq_getElem htl
      rw [lookup_zip_of_getElem A c hnd t j c[t] ht hct]
      simp only
      apply scatter_getElem?_mem _ _ (moveToEnd_nodup dim A hnd) c[t] j
      · rw [hzip, List.mem_append]; right
        rw [List.mem_iff_getElem?]
        exact ⟨t, by simp [List.getElem?_zip_eq_some, ht, hct]⟩
      · simp; omega
    · rw [lookup_zip_none_of_not_mem A c j hjA]
      simp only
      have htake : (List.range dim).take j = List.range j := by
        rw [List.take_range]; congr 1; omega
      rw [htake]
      have hfilt2 : (List.range j).filter (fun i => !listed A c i) = (List.range j).filter (fun i => !A.contains i) := by
        apply List.filter_congr
        intro i _
        rw [listed_eq_contains A c hnd hc.symm]
      rw [hfilt2]
      have hF := free_getElem? dim A j hj hjA
      have htl : ((List.range j).filter (fun i => !A.contains i)).length < p.length := by
        rw [hp]; exact (List.getElem?_eq_some_iff.1 hF).1
      rw [List.getElem?_eq_getElem htl]
      apply scatter_getElem?_mem _ _ (moveToEnd_nodup dim A hnd) _ j
      · rw [hzip, List.mem_append]; left
        rw [List.mem_iff_getElem?]
        refine ⟨((List.range j).filter (fun i => !A.contains i)).length, ?_⟩
        rw [List.getElem?_zip_eq_some]
        exact ⟨List.getElem?_eq_getElem htl, hF⟩
      · simp; omega
  · rw [List.getElem?_eq_none (by omega), List.getElem?_eq_none (by rw [hplen]; simp; omega)]

theorem mapM_getElem?_of_lt (s L : List Nat) (h : ∀ i ∈ L, i < s.length) :
    L.mapM (fun i => s[i]?) = some (L.filterMap (fun i => s[i]?)) := by
  induction L with
  | nil => rfl
  | cons x xs ih =>
    have hxl : x < s.length := h x (by simp)
    have hx : s[x]? = some s[x] := List.getElem?_eq_getElem hxl
    rw [List.mapM_cons, List.filterMap_cons, hx, ih (fun i hi => h i (by simp [hi]))]
    rfl

theorem la_mapM_some_length {α β : Type} (f : α → Option β) (l : List α) (r : List β) (h : l.mapM f = some r) :
    r.length = l.length := by
  induction l generalizing r with
  | nil => simp at h; subst h; rfl
  | cons x xs ih =>
    rw [List.mapM_cons] at h
    cases hx : f x with
    | none => simp [hx] at h
    | some y =>
      cases hxs : xs.mapM f with
      | none => simp [hx, hxs] at h
      | some ys =>
        simp [hx, hxs] at h
        subst h
        simp [ih ys hxs]

theorem pos_filterMap_getElem? (s L : List Nat) (hp : Pos s) : Pos (L.filterMap (fun i => s[i]?)) := by
  intro x hx
  simp only [List.mem_filterMap] at hx
  obtain ⟨i, _, hi⟩ := hx
  exact hp x (List.mem_of_getElem? hi)

theorem normAxis_lt {a : Int} {dim k : Nat} (h : normAxis a dim = some k) : k < dim := by
  unfold normAxis at h
  split at h
  · simp at h
    split at h <;> omega
  · simp at h

/-- `view::tensordot` with explicit axes = `np.tensordot`, every rank, every accepted axis lists -/
theorem tensordotAxes_eq_spec (sa sb : Shape) (la ra : List Int) (la' ra' : List Nat) (s : Arr (List Term))
    (hla : la.mapM (normAxis · sa.length) = some la') (hra : ra.mapM (normAxis · sb.length) = some ra')
    (hpb : Pos sb) (hacc : specTensordot sa sb la' ra' = some s) :
    ∃ r, tensordotAxes sa sb la ra = some r ∧ r.shape = s.shape ∧ ∀ d, InShape d s.shape → r.get d = s.get d := by
  unfold specTensordot at hacc
  split at hacc
  · rename_i hcond
    obtain ⟨hlen, hnda, hndb, hlta, hltb, hext⟩ := hcond
    simp only [Option.some.injEq] at hacc
    subst hacc
    simp only
    let fa := (List.range sa.length).filter (fun i => !la'.contains i)
    let fb := (List.range sb.length).filter (fun i => !ra'.contains i)
    let FA := fa.filterMap (fun i => sa[i]?)
    let FB := fb.filterMap (fun i => sb[i]?)
    let C := la'.filterMap (fun x => sa[x]?)
    have hC' : ra'.filterMap (fun x => sb[x]?) = C := by
      have e1 : la'.filterMap (fun x => sa[x]?) = (la'.map (fun x => sa[x]?)).filterMap id := by
        rw [List.filterMap_map]; rfl
      have e2 : ra'.filterMap (fun x => sb[x]?) = (ra'.map (fun x => sb[x]?)).filterMap id := by
        rw [List.filterMap_map]; rfl
      simp only [C]; rw [e1, e2, hext]
    have hfa_lt : ∀ i ∈ fa, i < sa.length := fun i hi => List.mem_range.1 (List.mem_filter.1 hi).1
    have hfb_lt : ∀ i ∈ fb, i < sb.length := fun i hi => List.mem_range.1 (List.mem_filter.1 hi).1
    have hFAlen : FA.length = fa.length := length_filterMap_getElem? sa fa hfa_lt
    have hFBlen : FB.length = fb.length := length_filterMap_getElem? sb fb hfb_lt
    have hClen : C.length = la'.length := length_filterMap_getElem? sa la' hlta
    have hta : (moveToEnd sa.length la').mapM (fun k => sa[k]?) = some (FA ++ C) := by
      rw [mapM_getElem?_of_lt]
      · simp only [moveToEnd, List.filterMap_append]; rfl
      · intro i hi
        simp only [moveToEnd, List.mem_append] at hi
        rcases hi with hi | hi
        · exact hfa_lt i hi
        · exact hlta i hi
    have htb : (moveToEnd sb.length ra').mapM (fun k => sb[k]?) = some (FB ++ C) := by
      rw [mapM_getElem?_of_lt]
      · simp only [moveToEnd, List.filterMap_append]; rw [hC']
      · intro i hi
        simp only [moveToEnd, List.mem_append] at hi
        rcases hi with hi | hi
        · exact hfb_lt i hi
        · exact hltb i hi
    have hn : la.length = C.length := by
      rw [hClen, la_mapM_some_length _ la la' hla]
    have hlb : sb.length = FB.length + C.length := by
      have := free_count sb.length ra' hndb hltb
      rw [hFBlen, hClen, hlen]; simp only [fb]; omega
    obtain ⟨r, hr, hrsh, hrget⟩ := tensordotAxes_elem_scatter sa sb la ra la' ra' FA FB C hla hra hta htb hn hlb
      (pos_filterMap_getElem? sb fb hpb)
    refine ⟨r, hr, hrsh, ?_⟩
    intro d hd
    obtain ⟨p, q, rfl, hp, hq⟩ := mb_inShape_append_split hd
    rw [hrget p q hp hq]
    apply List.map_congr_left
    intro c hc
    have hc' : InShape c C := (NmVerif.Props.C01.mem_allIdx_iff C c).1 hc
    have hpl : p.length = fa.length := by rw [hp.length_eq, hFAlen]
    have hql : q.length = fb.length := by rw [hq.length_eq, hFBlen]
    rw [scatter_moveToEnd sa.length la' c p hnda hlta (by rw [hc'.length_eq, hClen]) hpl,
        scatter_moveToEnd sb.length ra' c q hndb hltb (by rw [hc'.length_eq, hClen, hlen]) hql]
    simp only [fa] at hpl
    simp [hpl]
  · simp at hacc

end NmVerif
