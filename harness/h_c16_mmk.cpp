// C16 harness (4/4): view::matmul over operands whose NUMBER OF DIMENSIONS is a compile-time constant (shape container
// std::array<size_t,R>): index::matmul then builds its slice lists as tuples and takes the `if constexpr` branches of the
// 1-d promotion (row / column coordinate, batch offset) that the dynamic-shape operands of h_c16_mm never reach.
// `lhs_kind` / `rhs_kind` = fd (fixed-dim) | dyn (run-time dim): mixed pairs take the run-time branch for one side only.
// rank 1 x rank 1 with BOTH dims fixed has a shape of type None (a number, not an array): not a view the routines
// of this check can read — left out (it does not compile before or after the repair).
#include "nmtools/array/view/matmul.hpp"
#include "c16_common.hpp"
using namespace c16;
namespace view = nmtools::view;

template <size_t R> using fd_t = na::ndarray_t<std::vector<elem_t>, std::array<size_t,R>>;
template <size_t R> static fd_t<R> make_fd(const uvec& shape, const std::string& mode, int operand) {
    std::array<size_t,R> sh{}; for (size_t i = 0; i < R; i++) sh[i] = shape[i];
    fd_t<R> a; a.resize(sh);
    size_t n = 1; for (auto e : shape) n *= e;
    for (size_t k = 0; k < n; k++) a.data()[k] = val(mode, operand, k);
    return a;
}
// element access only (no eval): for fixed-dim operands of different rank na::eval deduces an output of the lhs rank
template <typename V> static std::string show_elems(const V& mv) {
    if constexpr (meta::is_maybe_v<V>) {
        if (!nm::has_value(mv)) return "nothing";
        return show_elems(*mv);
    } else {
        uvec shape = to_uvec(nm::shape(mv));
        std::string data; bool first = true;
        if (shape.empty()) data = elem(mv, uvec{});
        else { for (auto& i : all_idx(shape)) { if (!first) data += ','; first = false; data += elem(mv, i); } if (first) data = "[]"; }
        return "ok shape=" + fmt(shape) + " data=" + data + " eval=same";
    }
}
// C16_FD_1D: fixed-dim 1-d operands (compile since fix C16-matmul-1d-operand; before it the slice-list type of a 1-d
// operand does not instantiate)
#define C16_FD_1D 1
template <typename A> static std::string with_rhs(const A& lhs, const uvec& sb, bool rfd, const std::string& mode) {
    if (!rfd) return show_elems(view::matmul(lhs, make(sb, mode, 1)));
    switch (sb.size()) {
        case 2: return show_elems(view::matmul(lhs, make_fd<2>(sb, mode, 1)));
        case 3: return show_elems(view::matmul(lhs, make_fd<3>(sb, mode, 1)));
        case 4: return show_elems(view::matmul(lhs, make_fd<4>(sb, mode, 1)));
    }
    return "bad-args";
}
#ifdef C16_FD_1D
// fixed 1-d rhs: only for lhs types that are not a fixed 1-d array
template <typename A> static std::string with_rhs1(const A& lhs, const uvec& sb, const std::string& mode) {
    return show_elems(view::matmul(lhs, make_fd<1>(sb, mode, 1)));
}
#else
template <typename A> static std::string with_rhs1(const A&, const uvec&, const std::string&) { return "bad-args"; }
#endif

std::string handle(const std::string& op, const Args& a) {
    if (op != "matmul_k") return "unknown-op";
    std::string mode = has(a, "data") ? get(a, "data") : "mix";
    auto sa = nats(a, "a"), sb = nats(a, "b");
    bool lfd = get(a, "lhs_kind") == "fd", rfd = get(a, "rhs_kind") == "fd";
    try {
        bool r1 = rfd && sb.size() == 1;
        if (!lfd) { auto A = make(sa, mode, 0); return r1 ? with_rhs1(A, sb, mode) : with_rhs(A, sb, rfd, mode); }
        switch (sa.size()) {
#ifdef C16_FD_1D
            case 1: { auto A = make_fd<1>(sa, mode, 0); return r1 ? std::string("bad-args") : with_rhs(A, sb, rfd, mode); }
#endif
            case 2: { auto A = make_fd<2>(sa, mode, 0); return r1 ? with_rhs1(A, sb, mode) : with_rhs(A, sb, rfd, mode); }
            case 3: { auto A = make_fd<3>(sa, mode, 0); return r1 ? with_rhs1(A, sb, mode) : with_rhs(A, sb, rfd, mode); }
            case 4: { auto A = make_fd<4>(sa, mode, 0); return r1 ? with_rhs1(A, sb, mode) : with_rhs(A, sb, rfd, mode); }
        }
    } catch (const std::out_of_range&) { return "crash:out_of_range"; }
    return "bad-args";
}
