import NmVerif.Simd.NdLemmas
import NmVerif.Simd.VertLemmas
import NmVerif.Simd.BinaryLemmas
/-
  Identification of an n-d row-major reduction over ANY axis with the 2-d problems the evaluators work on:
  mixed-radix decomposition of `ndindex (pre ++ [x] ++ post)`, the cell-wise reference `scalarReduceAxis` written on
  buffer offsets, and the row-wise column fold of the VERTICAL evaluator read cell by cell.
-/
namespace NmVerif.Simd
open NmVerif IsCommMonoid

variable {α : Type}

/-! ### mixed-radix decomposition -/

theorem strides_append' (s t : List Nat) : strides (s ++ t) = (strides s).map (· * prod t) ++ strides t := by
  induction s with
  | nil => simp [strides]
  | cons a u ih => simp only [List.cons_append, strides, List.map_cons, ih, prod_append]

theorem computeOffset_append' (I J st1 st2 : List Nat) (h : I.length = st1.length) :
    computeOffset (I ++ J) (st1 ++ st2) = computeOffset I st1 + computeOffset J st2 := by
  induction I generalizing st1 with
  | nil =>
    cases st1 with
    | nil => simp [computeOffset]
    | cons _ _ => simp at h
  | cons x xs ih =>
    cases st1 with
    | nil => simp at h
    | cons s ss =>
      simp only [List.cons_append, computeOffset]
      rw [ih ss (by simpa using h)]; omega

/-- `compute_indices` only looks at the offset modulo the element count -/
theorem computeIndices_mod (t : List Nat) (i : Nat) :
    computeIndices (i % prod t) t (strides t) = computeIndices i t (strides t) := by
  induction t generalizing i with
  | nil => rfl
  | cons b t ih =>
    simp only [strides, computeIndices, prod]
    rw [Nat.mod_mul_left_div_self, Nat.mod_mod, ← ih (i % (b * prod t)), Nat.mod_mul_left_mod, ih]

/-- row-major multi-index of `i` in `s ++ t`: the multi-index of `i / prod t` in `s`, then that of `i % prod t` in `t` -/
theorem ndindex_append (s t : List Nat) (i : Nat) :
    ndindex (s ++ t) i = ndindex s (i / prod t) ++ ndindex t (i % prod t) := by
  induction s with
  | nil =>
    simp only [List.nil_append, ndindex, computeIndices]
    exact (computeIndices_mod t i).symm
  | cons a u ih =>
    unfold ndindex at ih ⊢
    simp only [List.cons_append, strides, computeIndices, ih, List.cons.injEq, and_true]
    rw [prod_append, Nat.div_div_eq_div_mul, Nat.mul_comm (prod t)]

theorem set_mid (I J : List Nat) (x k : Nat) : (I ++ x :: J).set I.length k = I ++ k :: J := by
  induction I with
  | nil => rfl
  | cons a t ih => simp [ih]

/-- multi-index of output cell `o` of the keepdims-shaped result `pre ++ 1 :: post` -/
theorem ndindex_keep (pre post : List Nat) (o : Nat) :
    ndindex (pre ++ 1 :: post) o = ndindex pre (o / prod post) ++ 0 :: ndindex post (o % prod post) := by
  have h : pre ++ 1 :: post = (pre ++ [1]) ++ post := by simp
  rw [h, ndindex_append, ndindex_snoc]
  simp [Nat.mod_one]

/-- element `(I, k, J)` of a row-major array of shape `pre ++ A :: post` sits at `(offset(I)·A + k)·prod post + offset(J)` -/
theorem get?_midAxis (a : NDA α) (pre post : List Nat) (A o k : Nat) (hsh : a.shape = pre ++ A :: post)
    (hr : a.colMajor = false) (hpre : Pos pre) (hpost : Pos post) (ho : o < prod pre * prod post) :
    a.get? ((ndindex (pre ++ 1 :: post) o).set pre.length k)
      = a.data[(o / prod post * A + k) * prod post + o % prod post]? := by
  have hQ : 0 < prod post := prod_pos hpost
  have hq : o / prod post < prod pre := by
    rw [Nat.div_lt_iff_lt_mul hQ]; exact ho
  have hc : o % prod post < prod post := Nat.mod_lt _ hQ
  have hlen : (ndindex pre (o / prod post)).length = pre.length := computeIndices_length _ pre
  have hlen2 : (ndindex post (o % prod post)).length = post.length := computeIndices_length _ post
  rw [ndindex_keep, ← hlen, set_mid]
  unfold NDA.get? NDA.offset NDA.stridesOf
  rw [hr, hsh]
  simp only [Bool.false_eq_true, if_false]
  have hs : pre ++ A :: post = (pre ++ [A]) ++ post := by simp
  have hi : ndindex pre (o / prod post) ++ k :: ndindex post (o % prod post)
      = (ndindex pre (o / prod post) ++ [k]) ++ ndindex post (o % prod post) := by simp
  rw [hs, hi, strides_append', computeOffset_append' _ _ _ _ (by simp [strides_length, hlen]),
      computeOffset_map_mul, strides_snoc,
      computeOffset_snoc _ _ _ (by rw [List.length_map, strides_length, hlen]), computeOffset_map_mul]
  have h1 := offset_indices hpre hq
  have h2 := offset_indices hpost hc
  unfold ndindex
  rw [h1, h2]

/-! ### the reference, cell by cell on buffer offsets -/

/-- output cell `o` of a reduction over the axis of extent `A` of a row-major `(…, A, Q-many)` buffer: left fold, from its
    first element, of the `A` buffer elements `(o/Q·A + k)·Q + o%Q` -/
def axisCell (op : α → α → α) (data : List α) (A Q o : Nat) : Option α :=
  match allSome ((List.range A).map (fun k => data[(o / Q * A + k) * Q + o % Q]?)) with
  | some (x :: xs) => some (xs.foldl op x)
  | _ => none

theorem shape_set_mid (pre post : List Nat) (A : Nat) : (pre ++ A :: post).set pre.length 1 = pre ++ 1 :: post :=
  set_mid pre post A 1

theorem prod_mid (pre post : List Nat) (A : Nat) : prod (pre ++ A :: post) = prod pre * A * prod post := by
  rw [prod_append]; simp [prod, Nat.mul_assoc]

/-- the scalar reference over any axis of a row-major operand, on buffer offsets -/
theorem scalarReduceAxis_cells (op : α → α → α) (a : NDA α) (pre post : List Nat) (A : Nat)
    (hsh : a.shape = pre ++ A :: post) (hr : a.colMajor = false) (hpre : Pos pre) (hpost : Pos post) :
    scalarReduceAxis op a pre.length
      = allSome ((List.range (prod pre * prod post)).map (axisCell op a.data A (prod post))) := by
  unfold scalarReduceAxis keepShape
  have hset : a.shape.set pre.length 1 = pre ++ 1 :: post := by rw [hsh]; exact shape_set_mid pre post A
  have hget : a.shape.getD pre.length 0 = A := by rw [hsh]; simp
  have hprod : prod (pre ++ 1 :: post) = prod pre * prod post := by rw [prod_mid]; simp
  simp only [hset, hget, hprod]
  apply allSome_congr
  intro o ho
  have ho' : o < prod pre * prod post := by simpa using ho
  unfold axisCell
  rw [allSome_congr (h := fun k => a.data[(o / prod post * A + k) * prod post + o % prod post]?)
        (fun k _ => get?_midAxis a pre post A o k hsh hr hpre hpost ho')]
  rfl

/-! ### the column fold of the VERTICAL evaluator, read cell by cell -/

theorem foldl_zipWith_getElem? (op : α → α → α) (rows : Nat → List α) (c : Nat) :
    ∀ (ks : List Nat) (col : List α) (init : List α) (x : α), init[c]? = some x →
      ks.map (fun k => (rows k)[c]?) = col.map some →
      (ks.foldl (fun acc k => List.zipWith op acc (rows k)) init)[c]? = some (col.foldl op x) := by
  intro ks
  induction ks with
  | nil =>
    intro col init x hx hcol
    cases col with
    | nil => simpa using hx
    | cons _ _ => simp at hcol
  | cons k ks ih =>
    intro col init x hx hcol
    cases col with
    | nil => simp at hcol
    | cons y col' =>
      simp only [List.map_cons, List.cons.injEq] at hcol
      rw [List.foldl_cons, List.foldl_cons]
      apply ih col' _ (op x y) _ hcol.2
      rw [List.getElem?_zipWith, hx, hcol.1]

theorem rowOf_getElem? (data : List α) (Q r c : Nat) (hc : c < Q) : (rowOf data Q r)[c]? = data[r * Q + c]? := by
  unfold rowOf
  rw [List.getElem?_take, if_pos hc, List.getElem?_drop]

theorem allSome_of_getElem? (g : Nat → Option α) (res : List α) (n : Nat) (hlen : res.length = n)
    (h : ∀ k, k < n → g k = res[k]?) : allSome ((List.range n).map g) = some res := by
  rw [allSome_congr (h := fun k => res[k]?) (fun k hk => h k (by simpa using hk))]
  subst hlen
  rw [list_range_eq_map_getElem?]
  have := allSome_map_some res (fun x => x)
  simpa using this

/-- a buffer whose rows are the column-wise folds (from the identity row) of the input rows `ρA … ρA+A−1` is,
    cell by cell, the reference: only `e ⊕ x = x` is needed (no re-association happens on this path) -/
theorem axisCells_of_rowFold (op : α → α → α) (e : α) (hid : ∀ x, op e x = x) (data res : List α) (P A Q : Nat)
    (hA : 0 < A) (hQ : 0 < Q) (hdata : data.length = P * A * Q) (hlen : res.length = P * Q)
    (hrow : ∀ ρ, ρ < P → rowOf res Q ρ
        = (List.range A).foldl (fun acc k => List.zipWith op acc (rowOf data Q (ρ * A + k))) (List.replicate Q e)) :
    allSome ((List.range (P * Q)).map (axisCell op data A Q)) = some res := by
  apply allSome_of_getElem? _ _ _ hlen
  intro o ho
  have hq : o / Q < P := by rw [Nat.div_lt_iff_lt_mul hQ]; exact ho
  have hc : o % Q < Q := Nat.mod_lt _ hQ
  have hdm : o = o / Q * Q + o % Q := by
    have := Nat.div_add_mod o Q; rw [Nat.mul_comm] at this; omega
  -- the column of input elements of this cell
  have hin : ∀ k, k < A → (data[(o / Q * A + k) * Q + o % Q]?).isSome := by
    intro k hk
    have h1 : o / Q * A + k + 1 ≤ P * A := by
      have : (o / Q + 1) * A ≤ P * A := Nat.mul_le_mul_right A hq
      rw [Nat.succ_mul] at this; omega
    have h2 : (o / Q * A + k + 1) * Q ≤ P * A * Q := Nat.mul_le_mul_right Q h1
    rw [Nat.succ_mul] at h2
    rw [List.getElem?_eq_getElem (by omega)]; rfl
  obtain ⟨col, hcol, hcl, hck⟩ := allSome_range (fun k => data[(o / Q * A + k) * Q + o % Q]?) A hin
  have hcolmap : (List.range A).map (fun k => (rowOf data Q (o / Q * A + k))[o % Q]?) = col.map some := by
    rw [← list_range_eq_map_getElem?, hcl]
    apply List.map_congr_left
    intro k hk
    rw [rowOf_getElem? _ _ _ _ hc, hck k (by simpa using hk)]
  have hres : res[o]? = some (col.foldl op e) := by
    have h1 : res[o]? = (rowOf res Q (o / Q))[o % Q]? := by
      rw [rowOf_getElem? _ _ _ _ hc, ← hdm]
    rw [h1, hrow _ hq]
    exact foldl_zipWith_getElem? op (fun k => rowOf data Q (o / Q * A + k)) (o % Q) (List.range A) col
      (List.replicate Q e) e (by rw [List.getElem?_replicate, if_pos hc]) hcolmap
  rw [hres]
  unfold axisCell
  rw [hcol]
  cases col with
  | nil => simp at hcl; omega
  | cons x xs =>
    simp only
    rw [List.foldl_cons, hid]

/-- one output element (`out_size == 1`): the reference over the axis is the fold of the whole buffer -/
theorem scalarReduceAxis_outSize1 (op : α → α → α) (a : NDA α) (pre post : List Nat) (A : Nat)
    (hsh : a.shape = pre ++ A :: post) (hw : a.WF) (hr : a.colMajor = false) (hpre : Pos pre) (hpost : Pos post)
    (hA : 0 < A) (hout : prod pre * prod post = 1) :
    scalarReduceAxis op a pre.length = (scalarReduceAll op a).map (fun r => [r]) := by
  have hP : prod pre = 1 := Nat.eq_one_of_mul_eq_one_right hout
  have hQ : prod post = 1 := Nat.eq_one_of_mul_eq_one_left hout
  have hlen : a.data.length = A := by
    have : a.data.length = prod a.shape := hw
    rw [this, hsh, prod_mid, hP, hQ]; simp
  have hs : Pos a.shape := by
    rw [hsh]; intro x hx
    simp only [List.mem_append, List.mem_cons] at hx
    rcases hx with h | rfl | h
    · exact hpre x h
    · exact hA
    · exact hpost x h
  rw [scalarReduceAxis_cells op a pre post A hsh hr hpre hpost, hP, hQ]
  unfold scalarReduceAll
  rw [logical_rowMajor a hw hr hs]
  simp only [Nat.mul_one, List.range_one, List.map_cons, List.map_nil, axisCell, Nat.div_one, Nat.zero_mul, Nat.zero_add,
    Nat.mod_one, Nat.add_zero]
  have hwin := allSome_window a.data 0 A (by omega)
  simp only [Nat.zero_add, List.drop_zero] at hwin
  rw [hwin, List.take_of_length_le (by omega)]
  cases a.data with
  | nil => rfl
  | cons x xs => rfl

/-! ### keepdims: one buffer, two shapes -/

theorem eraseIdx_mid (pre post : List Nat) (A : Nat) : (pre ++ A :: post).eraseIdx pre.length = pre ++ post := by
  induction pre with
  | nil => rfl
  | cons a t ih => simp [ih]

theorem insertIdx_mid (I J : List Nat) (k : Nat) : (I ++ J).insertIdx I.length k = I ++ k :: J := by
  induction I with
  | nil => simp
  | cons a t ih => simp [ih]

theorem exists_mid (shape : List Nat) (axis : Nat) (h : axis < shape.length) :
    ∃ pre A post, shape = pre ++ A :: post ∧ pre.length = axis :=
  ⟨shape.take axis, shape[axis], shape.drop (axis + 1),
   by rw [List.getElem_cons_drop, List.take_append_drop], by rw [List.length_take]; omega⟩

/-- `insert_index(remove axis, 1, axis)` is the keepdims shape: what `eval_reduction` feeds the enumerators does not
    depend on `keepdims` -/
theorem normOutShape_reduceOutShape (shape : List Nat) (axis : Nat) (h : axis < shape.length) (keep : Bool) :
    normOutShape (reduceOutShape shape axis keep) axis keep = keepShape shape axis := by
  cases keep with
  | true => simp [normOutShape, reduceOutShape]
  | false =>
    obtain ⟨pre, A, post, rfl, rfl⟩ := exists_mid shape axis h
    simp only [normOutShape, reduceOutShape, keepShape, Bool.false_eq_true, if_false]
    rw [eraseIdx_mid, insertIdx_mid, shape_set_mid]

theorem prod_reduceOutShape (shape : List Nat) (axis : Nat) (h : axis < shape.length) (keep : Bool) :
    prod (reduceOutShape shape axis keep) = prod (keepShape shape axis) := by
  cases keep with
  | true => simp [reduceOutShape]
  | false =>
    obtain ⟨pre, A, post, rfl, rfl⟩ := exists_mid shape axis h
    simp only [reduceOutShape, keepShape, Bool.false_eq_true, if_false]
    rw [eraseIdx_mid, shape_set_mid, prod_mid, prod_append]; simp

/-- the reference buffer does not depend on `keepdims` (any layout): cell `o` of the `axis`-less result reads the same
    elements as cell `o` of the keepdims-shaped one -/
theorem scalarReduceAxisK_eq (op : α → α → α) (a : NDA α) (axis : Nat) (h : axis < a.shape.length) (keep : Bool) :
    scalarReduceAxisK op a axis keep = scalarReduceAxis op a axis := by
  cases keep with
  | true => simp [scalarReduceAxisK, scalarReduceAxis, reduceOutShape]
  | false =>
    obtain ⟨pre, A, post, hsh, rfl⟩ := exists_mid a.shape axis h
    unfold scalarReduceAxisK scalarReduceAxis
    simp only [Bool.false_eq_true, if_false]
    rw [prod_reduceOutShape _ _ h false]
    apply allSome_congr
    intro o _
    have hidx : ∀ k, (ndindex (reduceOutShape a.shape pre.length false) o).insertIdx pre.length k
        = (ndindex (keepShape a.shape pre.length) o).set pre.length k := by
      intro k
      have hl : (ndindex pre (o / prod post)).length = pre.length := computeIndices_length _ pre
      simp only [reduceOutShape, keepShape, Bool.false_eq_true, if_false]
      rw [hsh, eraseIdx_mid, shape_set_mid, ndindex_append, ndindex_keep]
      conv => lhs; rw [← hl]
      conv => rhs; rw [← hl]
      rw [insertIdx_mid, set_mid]
    simp only [hidx]

/-- **keepdims both ways**: the evaluator with the `keepdims` flag = the keepdims-free evaluator, tagged with the shape of
    the view; `axisI` is the axis as written (`axis` or `axis − dim`) -/
theorem simdReduceAxisK_eq (N : Nat) (packOp : List α → List α → List α) (op : α → α → α) (identity : Option α)
    (a : NDA α) (axis : Nat) (hlt : axis < a.shape.length) (axisI : Int)
    (hax : axisI = (axis : Int) ∨ axisI = (axis : Int) - (a.shape.length : Int)) (keep : Bool) :
    simdReduceAxisK N packOp op identity a axisI keep
      = (simdReduceAxis N packOp op identity a axisI).map (fun b => (reduceOutShape a.shape axis keep, b)) := by
  have hn : (if axisI < 0 then axisI + (a.shape.length : Int) else axisI) = (axis : Int) := by
    rcases hax with h | h
    · have : ¬ (axisI < 0) := by omega
      rw [if_neg this, h]
    · have : axisI < 0 := by omega
      rw [if_pos this, h]; omega
  have h1 : ¬ ((axis : Int) < 0 ∨ (axis : Int) ≥ (a.shape.length : Int)) := by omega
  unfold simdReduceAxisK simdReduceAxis
  simp only [hn, if_neg h1, Int.toNat_natCast]
  rw [scalarReduceAxisK_eq op a axis hlt keep, normOutShape_reduceOutShape _ _ hlt keep, prod_reduceOutShape _ _ hlt keep]
  cases a.colMajor with
  | true => rfl
  | false =>
    cases identity with
    | none => rfl
    | some e =>
      simp only [Bool.false_eq_true, if_false]
      by_cases ho : prod (keepShape a.shape axis) = 1
      · simp [ho, Option.map_map, Function.comp_def]
      · simp only [ho, if_false]
        by_cases hl : axis = a.shape.length - 1
        · simp only [hl, if_true]
        · simp only [hl, if_false]

end NmVerif.Simd
